// Replays every transition of the MC_ToplexMap state graph on real Toplex_map / Lazy_toplex_map objects (and on
// the two side by side), one configuration (variant x label map) after the other.  Same file formats as
// common.hpp's replay_config; the loop is local because an action of ToplexMap.tla can be non-deterministic
// (contraction: either vertex may remain): the behaviour whose outcome the implementation did not take is skipped.
//   usage: toplex_replay states.ndjson groups.ndjson out.ndjson [shard nshards]     env VF_NV, VF_TM_CFGS
#include "toplex_model.hpp"

using namespace vf;

// 0: conforms; 1: a read deviates but the abstract state is the expected one; 2: the state deviates
template <class Model>
int check(Model& m, const bj::object& act, const bj::object& got_act, const bj::value& expected_obs, ReplayCtx& ctx,
           ReplayStats& st, std::int64_t u, std::int64_t k, int step, const char* phase) {
  std::vector<Diff> d;
  bj::value ca = canon(bj::value(act));
  bj::value cg = canon(bj::value(got_act));
  for (auto& p : cg.as_object()) {
    auto it = ca.as_object().find(p.key());
    if (it == ca.as_object().end()) { d.push_back({std::string("act.") + std::string(p.key()), nullptr, p.value()}); continue; }
    diff(it->value(), p.value(), std::string("act.") + std::string(p.key()), d);
  }
  bj::object obs;
  try { obs = m.observe(); } catch (const std::exception& e) { obs["exception_in_read"] = e.what(); }
  bj::object eo = expected_obs.as_object();
  if (!obs.contains("exception_in_read")) m.adjust(eo, obs);
  {  // sets of simplices are compared as wholes (one diff carrying both sets), the small keys first, the
     // per-simplex table last and capped
    bj::object go = canon(bj::value(obs)).as_object();
    bj::object e1, g1, e2, g2;
    for (const char* k : {"member_set", "afi_set", "max_set", "maxq_set"}) {
      auto ie = eo.find(k);
      auto ig = go.find(k);
      if (ie == eo.end() && ig == go.end()) continue;
      if (ie == eo.end() || ig == go.end()) { d.push_back({std::string("obs.") + k, ie == eo.end() ? bj::value(nullptr) : ie->value(), ig == go.end() ? bj::value(nullptr) : ig->value()}); continue; }
      if (bj::serialize(ie->value()) != bj::serialize(ig->value())) d.push_back({std::string("obs.") + k, ie->value(), ig->value()});
    }
    for (const char* k : {"member_set", "afi_set", "max_set", "maxq_set"}) { eo.erase(k); go.erase(k); }
    for (auto& p : eo) (p.key() == "cof_set" ? e2 : e1)[p.key()] = p.value();
    for (auto& p : go) (p.key() == "cof_set" ? g2 : g1)[p.key()] = p.value();
    diff(bj::value(e1), bj::value(g1), "obs", d, d.size() + 8);
    diff(bj::value(e2), bj::value(g2), "obs", d, d.size() + 3);
  }
  if (d.empty()) return 0;
  bool state_dev = false;  // member_set is the whole abstract state; other keys are reads of it
  for (auto& x : d)
    if (x.path.rfind("obs.member_set", 0) == 0 || x.path.rfind("obs.exception", 0) == 0 || x.path.rfind("act.", 0) == 0) state_dev = true;
  st.deviations++;
  if (static_cast<std::size_t>(st.deviations) <= ctx.max_dev_report) {
    bj::object o{{"kind", "deviation"}, {"cfg", st.cfg}, {"u", u}, {"k", k}, {"step", step}, {"phase", phase}, {"act", act}};
    bj::array da;
    for (auto& x : d) da.push_back(bj::object{{"path", x.path}, {"exp", x.exp}, {"got", x.got}});
    o["diffs"] = da;
    std::fprintf(ctx.out, "%s\n", bj::serialize(o).c_str());
  }
  return state_dev ? 2 : 1;
}

template <class Model>
void replay_tm(ReplayCtx& ctx) {
  ReplayStats st;
  st.cfg = Model::name();
  long gi = -1, nondet_skipped = 0;
  for (auto& gv : ctx.groups) {
    ++gi;
    if (gi % ctx.nshards != ctx.shard) continue;
    const bj::object& g = gv.as_object();
    std::int64_t u = g.at("u").as_int64();
    const bj::array& path = g.at("path").as_array();
    const bj::array& edges = g.at("edges").as_array();
    bool check_path = !g.contains("check_path") || g.at("check_path").as_bool();
    bool ok = true;
    {
      Model probe;
      for (auto& sv : path)
        if (!probe.applicable(sv.as_object().at("act").as_object())) { ok = false; break; }
    }
    if (!ok) { st.skipped += edges.size(); continue; }
    // 1. the path itself, every step observed and checked
    bool path_ok = true;
    if (check_path) {
      Model m;
      int step = 0;
      for (auto& sv : path) {
        const bj::object& s = sv.as_object();
        crash_ctx().where = st.cfg + " path u=" + std::to_string(u) + " step=" + std::to_string(step);
        bj::object got;
        try { got = m.apply(s.at("act").as_object()); } catch (const std::exception& e) { got["exception"] = e.what(); }
        st.steps++;
        if (check(m, s.at("act").as_object(), got, ctx.states[s.at("to").as_int64()], ctx, st, u, -1, step, "path") == 2) { path_ok = false; break; }
        ++step;
      }
    }
    if (!path_ok) { st.skipped += edges.size(); continue; }  // reported; python re-routes around the deviating tree edge
    // 2. one behaviour per outgoing edge; the path is run without any read in between (the reads of the lazy
    //    variant trigger its cleaning, so both the observed and the unobserved history are exercised)
    for (auto& ev : edges) {
      const bj::object& e = ev.as_object();
      const bj::object& act = e.at("act").as_object();
      std::int64_t k = e.at("k").as_int64();
      Model m;
      if (!m.applicable(act)) { st.skipped++; continue; }
      bool pexc = false;
      for (auto& sv : path) {
        try { m.apply(sv.as_object().at("act").as_object()); } catch (const std::exception&) { pexc = true; }
      }
      if (pexc) { st.skipped++; continue; }  // reported by the group that has this path step as its edge
      crash_ctx().where = st.cfg + " edge u=" + std::to_string(u) + " k=" + std::to_string(k);
      bj::object got;
      try { got = m.apply(act); } catch (const std::exception& ex) { got["exception"] = ex.what(); }
      st.steps += path.size() + 1;
      if (act.at("op").as_string() == "contract" && got.contains("ret") && !got.contains("exception")) {
        std::int64_t r = got.at("ret").to_number<std::int64_t>();
        std::int64_t x = geti(act, "x"), y = geti(act, "y");
        if ((r == x || r == y) && r != geti(act, "ret")) { nondet_skipped++; continue; }  // the other legal outcome
      }
      st.behaviours++;
      check(m, act, got, ctx.states[e.at("to").as_int64()], ctx, st, u, k, static_cast<int>(path.size()), "edge");
    }
  }
  bj::object o{{"kind", "summary"}, {"cfg", st.cfg}, {"behaviours", st.behaviours}, {"steps", st.steps},
               {"skipped", st.skipped}, {"deviations", st.deviations}, {"other_outcome", nondet_skipped}};
  std::fprintf(ctx.out, "%s\n", bj::serialize(o).c_str());
  std::fflush(ctx.out);
}

int main(int argc, char** argv) {
  ReplayCtx ctx = replay_setup(argc, argv);
  ctx.max_dev_report = 100000;
  if (const char* e = std::getenv("VF_NV")) g_tnv = std::atoi(e);
  const char* c = std::getenv("VF_TM_CFGS");
  std::string cfgs = c ? c : "eager/id,lazy/id,pair/id,eager/gap,lazy/gap,eager/big,lazy/big";
  cfgs = "," + cfgs + ",";
  auto want = [&](const std::string& n) { return cfgs.find("," + n + ",") != std::string::npos; };
  if (want("eager/id")) replay_tm<EagerModel<TLabelId>>(ctx);
  if (want("lazy/id")) replay_tm<LazyModel<TLabelId>>(ctx);
  if (want("pair/id")) replay_tm<PairModel<TLabelId>>(ctx);
  if (want("eager/gap")) replay_tm<EagerModel<TLabelGap>>(ctx);
  if (want("lazy/gap")) replay_tm<LazyModel<TLabelGap>>(ctx);
  if (want("pair/gap")) replay_tm<PairModel<TLabelGap>>(ctx);
  if (want("eager/big")) replay_tm<EagerModel<TLabelBig>>(ctx);
  if (want("lazy/big")) replay_tm<LazyModel<TLabelBig>>(ctx);
  if (want("pair/big")) replay_tm<PairModel<TLabelBig>>(ctx);
  std::fclose(ctx.out);
  return 0;
}
