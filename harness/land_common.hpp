// Binding of specs/Landscape.tla to Gudhi::Persistence_representations::Persistence_landscape and
// Persistence_landscape_on_grid (public API only).  Abscissae are T / 8, values of an expression are
// numerator / (8 den), integrals numerator / (64 den), products numerator / (1536 den den').
#pragma once
#include "common.hpp"

#include <gudhi/Persistence_landscape.h>
#include <gudhi/Persistence_landscape_on_grid.h>

#include <sys/mman.h>
#include <sys/resource.h>

namespace land {

using Gudhi::Persistence_representations::Persistence_landscape;
using Gudhi::Persistence_representations::Persistence_landscape_on_grid;
using PL = Persistence_landscape;
using PG = Persistence_landscape_on_grid;
using Diagram = std::vector<std::pair<double, double>>;

constexpr double SUP = std::numeric_limits<double>::max();  // "For max norm distance, set power to numeric_limits<double>::max()"

struct Grid {
  long min8 = 0, max8 = 0, n = 0;
  double gmin() const { return min8 / 8.0; }
  double gmax() const { return max8 / 8.0; }
  long dx8() const { return (max8 - min8) / n; }
  bool on_grid(long T) const { return T >= min8 && T <= max8 && (T - min8) % dx8() == 0; }
  bj::value json() const { return bj::array{min8, max8, n}; }
};
inline Grid grid_of(const bj::value& v) {
  const bj::array& a = v.as_array();
  Grid g;
  g.min8 = a[0].to_number<long>();
  g.max8 = a[1].to_number<long>();
  g.n = a[2].to_number<long>();
  return g;
}

// a landscape expression as the specification writes it
struct Spec {
  std::string op;
  std::vector<Diagram> args;
  std::vector<long> coef;
  long den = 1;
  bool abs = false;
  bj::value json;
};
inline Diagram diagram_of(const bj::value& v) {
  Diagram d;
  for (auto& iv : v.as_array()) d.emplace_back(iv.as_array()[0].to_number<double>(), iv.as_array()[1].to_number<double>());
  return d;
}
inline Spec spec_of(const bj::object& o) {
  Spec s;
  s.op = std::string(o.at("op").as_string());
  for (auto& a : o.at("args").as_array()) s.args.push_back(diagram_of(a));
  for (auto& c : o.at("coef").as_array()) s.coef.push_back(c.to_number<long>());
  s.den = o.at("den").to_number<long>();
  s.abs = o.at("abs").as_bool();
  s.json = bj::object{{"op", o.at("op")}, {"args", o.at("args")}, {"coef", o.at("coef")}, {"den", o.at("den")}, {"abs", o.at("abs")}};
  return s;
}
inline bool pow2(long d) { return d > 0 && (d & (d - 1)) == 0; }

// the order of the intervals handed to the constructors is irrelevant: a seeded shuffle
inline Diagram shuffled(Diagram d, std::mt19937& rng) {
  for (std::size_t i = d.size(); i > 1; --i) std::swap(d[i - 1], d[rng() % i]);
  return d;
}

// ---- the two forms behind one interface -------------------------------------------------------
struct ExactForm {
  using L = PL;
  static constexpr const char* name = "exact";
  std::mt19937* rng;
  L make(const Diagram& d) const { return L(shuffled(d, *rng)); }
  L zero() const { return L(); }
  static L abs_of(L& x) { return x.abs(); }
  // the free functions behind distance() (the shipped utilities call them directly, p = max for the sup distance)
  static double free_distance(const L& a, const L& b, double p) { return compute_distance_of_landscapes(a, b, p); }
  static double free_max_distance(const L& a, const L& b) { return compute_max_norm_distance_of_landscapes(a, b); }
};
struct GridForm {
  using L = PG;
  static constexpr const char* name = "grid";
  std::mt19937* rng;
  Grid g;
  L make(const Diagram& d) const { return L(shuffled(d, *rng), g.gmin(), g.gmax(), static_cast<std::size_t>(g.n)); }
  L zero() const { return L(Diagram(), g.gmin(), g.gmax(), static_cast<std::size_t>(g.n)); }
  static L abs_of(L& x) { L y = x; y.abs(); return y; }
  static double free_distance(const L& a, const L& b, double p) { return compute_distance_of_landscapes_on_grid(a, b, p); }
  static double free_max_distance(const L& a, const L& b) { return compute_max_norm_distance_of_landscapes(a, b); }
};

// every way the public interface offers to build the expression: (variant name, object)
template <class F>
std::vector<std::pair<std::string, typename F::L>> build(const F& f, const Spec& s, bool all_variants) {
  using L = typename F::L;
  std::vector<std::pair<std::string, L>> r;
  std::vector<L> a;
  for (auto& d : s.args) a.push_back(f.make(d));
  auto c = [&](std::size_t i) { return static_cast<double>(s.coef[i]) / static_cast<double>(s.den); };
  if (s.op == "land") {
    r.emplace_back("ctor", a[0]);
  } else if (s.op == "zero") {
    r.emplace_back("default", f.zero());
  } else if (s.op == "sum") {
    r.emplace_back("a+b", a[0] + a[1]);
    if (all_variants) {
      r.emplace_back("b+a", a[1] + a[0]);
      L t = a[0]; t += a[1];
      r.emplace_back("a+=b", t);
    }
  } else if (s.op == "diff") {
    r.emplace_back("a-b", a[0] - a[1]);
    if (all_variants) {
      L t = a[0]; t -= a[1];
      r.emplace_back("a-=b", t);
    }
  } else if (s.op == "absdiff") {
    L d = a[0] - a[1];
    r.emplace_back("(a-b).abs()", F::abs_of(d));
  } else if (s.op == "scal") {
    r.emplace_back("a*c", a[0] * c(0));
    if (all_variants) {
      r.emplace_back("c*a", c(0) * a[0]);
      L t = a[0]; t *= static_cast<double>(s.coef[0]); t /= static_cast<double>(s.den);
      r.emplace_back("a*=n;a/=d", t);
    }
  } else if (s.op == "abs_scal_diff") {
    L d = c(0) * (a[0] - a[1]);
    r.emplace_back("(c*(a-b)).abs()", F::abs_of(d));
  } else if (s.op == "avg") {
    std::vector<L*> p;
    for (auto& x : a) p.push_back(&x);
    L t = a[0];  // compute_average overwrites the object it is called on
    t.compute_average(p);
    r.emplace_back("compute_average", t);
    if (all_variants) {
      // ... and on an object that has been queried before (whatever it remembers about itself must not survive): the
      // argument with the fewest levels, asked for its size and total integral first
      std::size_t k = 0;
      for (std::size_t i = 1; i < a.size(); ++i) if (a[i].size() < a[k].size()) k = i;
      L u = a[k];
      volatile double sink = static_cast<double>(u.size()) + u.compute_integral_of_landscape() + u.compute_scalar_product(u);
      (void)sink;
      u.compute_average(p);
      r.emplace_back("compute_average on an object queried before", u);
    }
  } else if (s.op == "lincomb") {
    r.emplace_back("c0*a+c1*b", c(0) * a[0] + c(1) * a[1]);
  } else if (s.op == "sum_diff") {
    r.emplace_back("(a+b)-c", (a[0] + a[1]) - a[2]);
  } else if (s.op == "diff_sum") {
    r.emplace_back("a-(b+c)", a[0] - (a[1] + a[2]));
  } else {
    std::cerr << "land harness: unknown expression op " << s.op << std::endl;
    std::exit(2);
  }
  return r;
}

// ---- comparison with lattice values ------------------------------------------------------------
// got * scale must be the integer num: exactly when the denominator is a power of two (all operations are exact on
// dyadic numbers of this size), within 1e-9 relative otherwise (thirds)
inline bool same(double got, long num, double scale, bool exact) {
  if (!std::isfinite(got)) return false;
  double v = got * scale;
  if (exact) return v == static_cast<double>(num);
  return std::fabs(v - static_cast<double>(num)) <= 1e-9 * (1.0 + std::fabs(static_cast<double>(num)));
}
inline bool near(double got, long num, double scale) {  // results that went through pow / division by 3
  if (!std::isfinite(got)) return false;
  return std::fabs(got * scale - static_cast<double>(num)) <= 1e-7 * (1.0 + std::fabs(static_cast<double>(num)));
}
inline bj::value jnum(double x) {
  if (std::isfinite(x)) return bj::value(x);
  return bj::value(std::isnan(x) ? "nan" : (x > 0 ? "inf" : "-inf"));
}

// ---- running a piece of the check in a child process -------------------------------------------
// Persistence_landscape_on_grid::compute_value_at_a_given_point can index past the end of a vector: the evaluations
// at grid points run in a forked child; a crash is reported as a record of its own and the parent goes on.
struct Progress {
  long level, T, expr, grid;
  long evals, devs;
};
inline Progress* progress() {
  static Progress* p = static_cast<Progress*>(mmap(nullptr, sizeof(Progress), PROT_READ | PROT_WRITE, MAP_SHARED | MAP_ANONYMOUS, -1, 0));
  return p;
}
// returns the signal that killed the child, 0 if it finished
template <class Fn>
int in_child(std::FILE* out, Fn fn) {
  std::fflush(out);
  Progress* p = progress();
  *p = Progress{-1, 0, -1, -1, 0, 0};
  pid_t pid = fork();
  if (pid < 0) { std::cerr << "fork failed" << std::endl; std::exit(2); }
  if (pid == 0) {
    for (int s : {SIGSEGV, SIGABRT, SIGFPE, SIGBUS, SIGILL}) std::signal(s, SIG_DFL);
    fn();
    std::fflush(out);
    _exit(0);
  }
  int status = 0;
  waitpid(pid, &status, 0);
  if (WIFSIGNALED(status)) return WTERMSIG(status);
  if (WIFEXITED(status) && WEXITSTATUS(status) != 0) return -WEXITSTATUS(status);
  return 0;
}
inline void no_core_dumps() {
  struct rlimit rl{0, 0};
  setrlimit(RLIMIT_CORE, &rl);
}

}  // namespace land
