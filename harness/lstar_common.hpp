// Binding of LowerStar.tla to the real routines (C14):
//   Gudhi::persistent_cohomology::compute_persistence_of_function_on_line   (Persistence_on_a_line.h)
//   Gudhi::cubical_complex::persistence_on_rectangle_from_top_cells          (Persistence_on_rectangle.h)
// Inputs are small integers (model values); every variant converts them to the filtration type it exercises
// (exactly), calls the routine through its documented interface only and converts what the callbacks received
// back to model integers.  +infinity is vf::INF_CODE.
#pragma once
#include <limits>
#include <algorithm>
#include "common.hpp"

#include <gudhi/Persistence_on_a_line.h>
#include <gudhi/Persistence_on_rectangle.h>

#include <boost/range/adaptor/transformed.hpp>
#include <boost/range/counting_range.hpp>

#include <forward_list>
#include <list>

namespace lstar {

// a filtration value that remembers where it came from: "index mode" of the line routine through the
// documented Compare parameter (the comparison looks at the value only, so equal values are ties)
struct Tagged {
  double v = 0;
  int i = -1;
  // The routine must order values with the comparator it is given, never with the type's own operator<: this one is
  // the OPPOSITE order, so that any direct use of < shows as a wrong diagram (without it such code would not compile
  // against this harness, which is an infrastructure failure, not a verdict).
  friend bool operator<(const Tagged& a, const Tagged& b) { return b.v < a.v; }
};
}  // namespace lstar
namespace std {
template <>
struct numeric_limits<lstar::Tagged> {
  static constexpr bool is_specialized = true;
  static constexpr bool has_infinity = true;
  static lstar::Tagged infinity() { return lstar::Tagged{std::numeric_limits<double>::infinity(), -1}; }
};
}  // namespace std

namespace lstar {
using vf::INF_CODE;
typedef std::pair<std::int64_t, std::int64_t> P;

struct Run {
  std::vector<P> out0, out1;  // calls in order, model integers (values or indices)
  std::int64_t ret = 0;       // rectangle: returned global minimum (value or index)
  std::vector<std::string> problems;  // outputs that are not even values / indices of the input
  std::string exception;
};

// exact inverse of an affine map v -> a*v + b on what the routine handed back
template <class T>
inline std::int64_t back(T x, int a, int b, Run& r, const char* what) {
  double d = static_cast<double>(x);
  if (std::isinf(d) && d > 0) return INF_CODE;
  if (std::isnan(d) || std::isinf(d) || std::floor(d) != d) { r.problems.push_back(std::string(what) + ": not a value of the input: " + std::to_string(d)); return -INF_CODE; }
  std::int64_t y = static_cast<std::int64_t>(d) - b;
  if (y % a != 0) { r.problems.push_back(std::string(what) + ": not a value of the input: " + std::to_string(d)); return -INF_CODE; }
  return y / a;
}

// ------------------------------------------------------------------------------------------- line
inline const std::vector<std::string>& line_variants() {
  static const std::vector<std::string> v{"vec_double", "vec_float_affine", "list_double", "fwdlist_longdouble", "transform_range",
                                          "greater_neg", "lambda_cmp", "tagged"};
  return v;
}

// out0: the calls, in order (the documented last call included).  For "tagged" out1 holds the indices carried by
// the two arguments of each call (-1 for the infinity element).
inline Run run_line(const std::string& variant, const std::vector<int>& vals) {
  namespace pc = Gudhi::persistent_cohomology;
  Run r;
  try {
    if (variant == "vec_double") {
      std::vector<double> in(vals.begin(), vals.end());
      pc::compute_persistence_of_function_on_line(in, [&](double b, double d) { r.out0.emplace_back(back(b, 1, 0, r, "birth"), back(d, 1, 0, r, "death")); });
    } else if (variant == "vec_float_affine") {
      std::vector<float> in;
      for (int v : vals) in.push_back(3.f * v - 4.f);
      pc::compute_persistence_of_function_on_line(in, [&](float b, float d) { r.out0.emplace_back(back(b, 3, -4, r, "birth"), back(d, 3, -4, r, "death")); });
    } else if (variant == "list_double") {
      std::list<double> in(vals.begin(), vals.end());
      pc::compute_persistence_of_function_on_line(in, [&](double b, double d) { r.out0.emplace_back(back(b, 1, 0, r, "birth"), back(d, 1, 0, r, "death")); });
    } else if (variant == "fwdlist_longdouble") {
      std::forward_list<long double> in(vals.begin(), vals.end());
      pc::compute_persistence_of_function_on_line(in, [&](long double b, long double d) { r.out0.emplace_back(back(b, 1, 0, r, "birth"), back(d, 1, 0, r, "death")); });
    } else if (variant == "transform_range") {  // the way the Python binding calls it: elements returned by value
      auto cnt = boost::counting_range<std::ptrdiff_t>(0, static_cast<std::ptrdiff_t>(vals.size()));
      const int* p = vals.data();
      auto proj = [=](std::ptrdiff_t i) { return static_cast<double>(2 * p[i] + 1); };
      auto in = boost::adaptors::transform(cnt, proj);
      pc::compute_persistence_of_function_on_line(in, [&](double b, double d) { r.out0.emplace_back(back(b, 2, 1, r, "birth"), back(d, 2, 1, r, "death")); });
    } else if (variant == "greater_neg") {  // custom comparator: the order of v is the order of -v under std::greater
      std::vector<double> in;
      for (int v : vals) in.push_back(-static_cast<double>(v));
      pc::compute_persistence_of_function_on_line(
          in, [&](double b, double d) { r.out0.emplace_back(back(b, -1, 0, r, "birth"), std::isinf(d) ? back(d, 1, 0, r, "death") : back(d, -1, 0, r, "death")); },
          std::greater<>());
    } else if (variant == "lambda_cmp") {  // comparator passed as an lvalue, values compared through a key
      std::vector<double> in;
      for (int v : vals) in.push_back(100. - 5. * v);  // decreasing encoding
      auto lt = [](double x, double y) { return x > y; };
      pc::compute_persistence_of_function_on_line(
          in, [&](double b, double d) { r.out0.emplace_back(back(b, -5, 100, r, "birth"), std::isinf(d) ? back(d, 1, 0, r, "death") : back(d, -5, 100, r, "death")); }, lt);
    } else if (variant == "tagged") {
      std::vector<Tagged> in;
      for (std::size_t i = 0; i < vals.size(); ++i) in.push_back(Tagged{static_cast<double>(vals[i]), static_cast<int>(i)});
      auto chk = [&](const Tagged& t, const char* what) {
        if (t.i == -1 && std::isinf(t.v)) return;
        if (t.i < 0 || t.i >= static_cast<int>(vals.size()) || static_cast<double>(vals[t.i]) != t.v)
          r.problems.push_back(std::string(what) + ": element (" + std::to_string(t.v) + ", index " + std::to_string(t.i) + ") is not an element of the input");
      };
      pc::compute_persistence_of_function_on_line(
          in,
          [&](Tagged b, Tagged d) {
            chk(b, "birth"); chk(d, "death");
            r.out0.emplace_back(back(b.v, 1, 0, r, "birth"), back(d.v, 1, 0, r, "death"));
            r.out1.emplace_back(b.i, d.i);
          },
          [](const Tagged& x, const Tagged& y) { return x.v < y.v; });
    } else {
      r.exception = "unknown variant " + variant;
    }
  } catch (const std::exception& e) {
    r.exception = e.what();
  }
  return r;
}

// ------------------------------------------------------------------------------------------- rectangle
inline const std::vector<std::string>& rect_variants() {
  static const std::vector<std::string> v{"val_double_size_t", "val_double_unsigned", "val_int_int", "val_float_long_affine",
                                          "idx_double_size_t", "idx_int_unsigned", "idx_float_int_affine",
                                          "val_double_size_t_dblmax", "val_double_unsigned_inf", "val_int_int_intmax",
                                          "idx_double_size_t_inf", "idx_float_int_fltmax"};
  return v;
}
inline bool is_index_variant(const std::string& v) { return v.rfind("idx_", 0) == 0; }

// top: 0 = the values as they are (affine image), 1 = the largest value of the input replaced by the largest finite
// value of the type, 2 = by +infinity (an order preserving relabelling: the pairs are relabelled in the same way)
template <bool idx, class F, class I>
inline void run_rect_t(Run& r, int rows, int cols, const std::vector<int>& vals, int a, int b, int top = 0) {
  std::vector<F> in;
  int vmax = vals.empty() ? 0 : *std::max_element(vals.begin(), vals.end());
  const F TOP = top == 2 ? std::numeric_limits<F>::infinity() : std::numeric_limits<F>::max();
  for (int v : vals) in.push_back(top != 0 && v == vmax ? TOP : static_cast<F>(a * v + b));
  auto back = [&](F x, int aa, int bb, Run& rr, const char* what) -> std::int64_t {
    if (top != 0 && x == TOP) return vmax;
    return lstar::back(x, aa, bb, rr, what);
  };
  const F* p = in.data();
  if constexpr (idx) {
    auto o0 = [&](I x, I y) { r.out0.emplace_back(static_cast<std::int64_t>(x), static_cast<std::int64_t>(y)); };
    auto o1 = [&](I x, I y) { r.out1.emplace_back(static_cast<std::int64_t>(x), static_cast<std::int64_t>(y)); };
    auto g = Gudhi::cubical_complex::persistence_on_rectangle_from_top_cells<true>(p, static_cast<I>(rows), static_cast<I>(cols), o0, o1);
    static_assert(std::is_same<decltype(g), I>::value, "index mode returns an index");
    r.ret = static_cast<std::int64_t>(g);
  } else {
    auto o0 = [&](F x, F y) { r.out0.emplace_back(back(x, a, b, r, "out0 birth"), back(y, a, b, r, "out0 death")); };
    auto o1 = [&](F x, F y) { r.out1.emplace_back(back(x, a, b, r, "out1 birth"), back(y, a, b, r, "out1 death")); };
    auto g = Gudhi::cubical_complex::persistence_on_rectangle_from_top_cells(p, static_cast<I>(rows), static_cast<I>(cols), o0, o1);
    static_assert(std::is_same<decltype(g), F>::value, "value mode returns a filtration value");
    r.ret = back(g, a, b, r, "returned minimum");
  }
}

inline Run run_rect(const std::string& variant, int rows, int cols, const std::vector<int>& vals) {
  Run r;
  try {
    if (variant == "val_double_size_t") run_rect_t<false, double, std::size_t>(r, rows, cols, vals, 1, 0);
    else if (variant == "val_double_unsigned") run_rect_t<false, double, unsigned>(r, rows, cols, vals, 1, 0);
    else if (variant == "val_int_int") run_rect_t<false, int, int>(r, rows, cols, vals, 1, 0);
    else if (variant == "val_float_long_affine") run_rect_t<false, float, long>(r, rows, cols, vals, 2, -7);
    else if (variant == "idx_double_size_t") run_rect_t<true, double, std::size_t>(r, rows, cols, vals, 1, 0);
    else if (variant == "idx_int_unsigned") run_rect_t<true, int, unsigned>(r, rows, cols, vals, 1, 0);
    else if (variant == "idx_float_int_affine") run_rect_t<true, float, int>(r, rows, cols, vals, 2, -7);
    else if (variant == "val_double_size_t_dblmax") run_rect_t<false, double, std::size_t>(r, rows, cols, vals, 1, 0, 1);
    else if (variant == "val_double_unsigned_inf") run_rect_t<false, double, unsigned>(r, rows, cols, vals, 1, 0, 2);
    else if (variant == "val_int_int_intmax") run_rect_t<false, int, int>(r, rows, cols, vals, 1, 0, 1);
    else if (variant == "idx_double_size_t_inf") run_rect_t<true, double, std::size_t>(r, rows, cols, vals, 1, 0, 2);
    else if (variant == "idx_float_int_fltmax") run_rect_t<true, float, int>(r, rows, cols, vals, 2, -7, 1);
    else r.exception = "unknown variant " + variant;
  } catch (const std::exception& e) {
    r.exception = e.what();
  }
  return r;
}

inline bj::array jpairs(const std::vector<P>& v) {
  bj::array a;
  for (auto& p : v) a.push_back(bj::array{p.first, p.second});
  return a;
}
// bag of the pairs with b < d, as a sorted list
inline std::vector<P> bag(const std::vector<P>& v) {
  std::vector<P> r;
  for (auto& p : v) if (p.first < p.second) r.push_back(p);
  std::sort(r.begin(), r.end());
  return r;
}
inline std::vector<P> bag_of_json(const bj::value& v) {  // [{b, d, n}]
  std::vector<P> r;
  for (auto& e : v.as_array()) {
    const bj::object& o = e.as_object();
    for (std::int64_t k = 0; k < o.at("n").as_int64(); ++k) r.emplace_back(o.at("b").as_int64(), o.at("d").as_int64());
  }
  std::sort(r.begin(), r.end());
  return r;
}

}  // namespace lstar
