// C10, spec -> code: executes every CASE printed by MC_Fields (one per state (field, x, y, z) of the register
// machine, carrying the result of every operation enabled in that state) on every real class that offers the
// operation and compares.  usage: fields_cases cases.ndjson out.ndjson [shard nshards]
//   VF_PART selects the classes compiled in: 0 = run-time classes + Zp_field_element<p>, 1 = small multi-field
//   element templates, 2 = GMP multi-field element templates.
#include "fields_common.hpp"
#include <set>
#include <map>

#include <functional>
#include <optional>

#ifndef VF_PART
#define VF_PART 0
#endif

using namespace fh;

struct Out {
  std::FILE* f = nullptr;
  long lines = 0;
  long cap = 6000000;
  bool overflow = false;
  void put(const bj::object& o) {
    if (lines >= cap) { overflow = true; return; }
    std::fprintf(f, "%s\n", bj::serialize(o).c_str());
    ++lines;
  }
};

struct CaseSink {
  Out* out;
  std::string cfg, family;
  const bj::object* c = nullptr;  // the whole case
  const bj::object* b = nullptr;  // base
  std::map<std::string, const bj::object*> mixed, pinv, pmi, conv;
  Plan pl;
  long evals = 0, devs = 0;
  std::map<std::string, long> by_sem;

  void load(const bj::object& cs) {
    c = &cs;
    b = &cs.at("b").as_object();
    mixed.clear(); pinv.clear(); pmi.clear(); conv.clear();
    if (auto u = cs.if_contains("u")) {
      for (auto& e : u->as_object().at("mixed").as_array()) mixed[fromJ(e.as_object().at("n")).get_str()] = &e.as_object();
      for (auto& e : u->as_object().at("pinv").as_array()) pinv[fromJ(e.as_object().at("q")).get_str()] = &e.as_object();
    }
    if (auto o = cs.if_contains("o")) {
      for (auto& e : o->as_object().at("pmi").as_array()) pmi[fromJ(e.as_object().at("q")).get_str()] = &e.as_object();
      for (auto& e : o->as_object().at("bigconv").as_array()) conv[fromJ(e.as_object().at("n")).get_str()] = &e.as_object();
    }
  }
  bj::object act(const char* sem, const char* via) {
    bj::object a{{"op", sem}, {"via", via}, {"lo", pl.lo}, {"hi", pl.hi}, {"mod", jint(pl.P)},
                 {"x", jint(pl.x)}, {"y", jint(pl.y)}, {"z", jint(pl.z)}};
    return a;
  }
  void dev(bj::object a, const char* path, const bj::value& exp, const bj::value& got) {
    ++devs;
    bj::object o{{"kind", "deviation"}, {"cfg", cfg}, {"family", family}, {"act", std::move(a)},
                 {"diffs", bj::array{bj::object{{"path", path}, {"exp", exp}, {"got", got}}}}};
    out->put(o);
  }
  void count(const char* sem) { ++evals; ++by_sem[sem]; }
  static Z expZ(const bj::object& o, const char* k) { return fromJ(o.at(k)); }

  void r(const char* sem, const char* via, const Z& got) {
    count(sem);
    Z e = std::string(sem) == "val" ? pl.x : std::string(sem) == "inv" ? expZ(c->at("u").as_object(), sem) : expZ(*b, sem);
    if (e != got) dev(act(sem, via), "ret", jint(e), jint(got));
  }
  void rb(const char* sem, const char* via, bool got) {
    count(sem);
    bool e = b->at(sem).as_bool();
    if (e != got) dev(act(sem, via), "ret", e, got);
  }
  const bj::object* entry_n(const Z& n) {
    auto it = mixed.find(n.get_str());
    if (it != mixed.end()) return it->second;
    auto jt = conv.find(n.get_str());
    return jt == conv.end() ? nullptr : jt->second;
  }
  static const char* key_of(const char* sem) {
    std::string s(sem);
    if (s == "val") return "val";
    if (s == "add_int") return "add";
    if (s == "sub_int") return "sub";
    if (s == "rsub_int") return "rsub";
    if (s == "mul_int") return "mul";
    return "eq";
  }
  void rn(const char* sem, const char* via, const Z& n, const char* ty, const Z& got) {
    count(sem);
    const bj::object* e = entry_n(n);
    if (!e) { std::cerr << "no expectation for n=" << n << std::endl; std::exit(2); }
    Z ex = expZ(*e, key_of(sem));
    if (ex != got) { auto a = act(sem, via); a["n"] = jint(n); a["ty"] = ty; dev(std::move(a), "ret", jint(ex), jint(got)); }
  }
  void rnb(const char* sem, const char* via, const Z& n, const char* ty, bool got) {
    count(sem);
    const bj::object* e = entry_n(n);
    if (!e) { std::cerr << "no expectation for n=" << n << std::endl; std::exit(2); }
    bool ex = e->at("eq").as_bool();
    if (ex != got) { auto a = act(sem, via); a["n"] = jint(n); a["ty"] = ty; dev(std::move(a), "ret", ex, got); }
  }
  void rq(const char* sem, const char* via, const Z& q, const Z& t, const Z& v, int trap) {
    count(sem);
    bool is_pinv = std::string(sem) == "pinv";
    auto& tab = is_pinv ? pinv : pmi;
    auto it = tab.find(q.get_str());
    if (it == tab.end()) { std::cerr << "no expectation for q=" << q << std::endl; std::exit(2); }
    auto a = act(sem, via);
    a["q"] = jint(q);
    if (trap != 0) { dev(std::move(a), "trap", 0, trap); return; }
    Z ev = expZ(*it->second, "v");
    if (is_pinv) {
      Z et = expZ(*it->second, "t");
      if (et != t || ev != v)
        dev(std::move(a), "t,v", bj::array{jint(et), jint(ev)}, bj::array{jint(t), jint(v)});
    } else if (ev != v) dev(std::move(a), "ret", jint(ev), jint(v));
  }
  void r0(const char* sem, const char* via, const Z& got) {
    count(sem);
    std::string s(sem);
    Z e = s == "zero" ? Z(0) : s == "one" ? Z(pl.P == 1 ? 0 : 1) : pl.P;
    if (e != got) dev(act(sem, via), "ret", jint(e), jint(got));
  }
  // outcome of set_characteristic / initialize / init
  void setchar(const char* via, long lo, long hi, bool exp_refused, const Z& exp_mod, const std::string& outcome, const Z& got_mod) {
    count("setchar");
    auto a = act("setchar", via);
    a["to_lo"] = lo; a["to_hi"] = hi;
    std::string eo = exp_refused ? "invalid_argument" : "ok";
    if (eo != outcome) dev(std::move(a), "outcome", bj::value(eo), bj::value(outcome));
    else if (!exp_refused && exp_mod != got_mod) dev(std::move(a), "characteristic", jint(exp_mod), jint(got_mod));
  }
};

struct Runner {
  std::string name, family;
  bool single = false;   // Z_p-like interface: get_partial_inverse(Q) / identity(Q) "for interface purposes", Q = p only
  std::function<bool(long, long)> supports;
  std::function<void(const Plan&, CaseSink&)> run;
  // tries to change the characteristic of a live field f = [pl.lo, pl.hi] to [lo, hi] and compares the outcome only
  // (accepted with the right characteristic / refused with std::invalid_argument); null for compile-time classes
  std::function<void(const Plan&, const bj::object& once, CaseSink&)> setchar;
};

template <class F>
std::string try_set(F&& f) {
  try { f(); } catch (const std::invalid_argument&) { return "invalid_argument"; } catch (const std::exception& e) { return std::string("exception:") + typeid(e).name(); }
  return "ok";
}

template <class Tr>
Runner elem_runner(bool single, bool runtime) {
  Runner r;
  r.name = Tr::name();
  r.family = Tr::family();
  r.single = single;
  r.supports = [](long lo, long hi) { return Tr::supports(lo, hi); };
  auto cur = std::make_shared<std::pair<long, long>>(-1, -1);
  r.run = [cur](const Plan& pl, CaseSink& s) {
    if (cur->first != pl.lo || cur->second != pl.hi) { Tr::init(pl.lo, pl.hi); *cur = {pl.lo, pl.hi}; }
    exercise_elem<Tr>(pl, s);
  };
  if (runtime) {
    r.setchar = [cur, single](const Plan& pl, const bj::object& once, CaseSink& s) {
      using E = typename Tr::E;
      for (auto& ev : once.at("setchar").as_array()) {
        const bj::object& g = ev.as_object();
        long lo = g.at("lo").as_int64(), hi = g.at("hi").as_int64();
        if (single && lo != hi) continue;
        Tr::init(pl.lo, pl.hi);
        std::string outcome = try_set([&] { Tr::init(lo, hi); });
        bool refused = g.at("refused").as_bool();
        s.setchar("initialize", lo, hi, refused, fromJ(g.at("mod")), outcome, outcome == "ok" ? toZ(E::get_characteristic()) : Z(0));
        // nothing is specified about the field after a refusal: it is not used again before the accepted
        // initialize at the top of the loop / below
      }
      Tr::init(pl.lo, pl.hi);
      *cur = {pl.lo, pl.hi};
    };
  }
  return r;
}

template <class Tr>
Runner op_runner(bool single, bool runtime) {
  Runner r;
  r.name = Tr::name();
  r.family = Tr::name();
  r.single = single;
  r.supports = [](long lo, long hi) { return Tr::supports(lo, hi); };
  auto cur = std::make_shared<std::pair<long, long>>(-1, -1);
  auto op = std::make_shared<std::optional<typename Tr::O>>();
  r.run = [cur, op](const Plan& pl, CaseSink& s) {
    if (cur->first != pl.lo || cur->second != pl.hi) { op->emplace(Tr::make(pl.lo, pl.hi)); *cur = {pl.lo, pl.hi}; }
    // the operator object is used in place, through a copy, through an assigned copy or through a moved copy in turn:
    // a copy must compute what its source computes
    static unsigned turn = 0;
    switch (turn++ % 4) {
      case 1: { typename Tr::O c(**op); exercise_op<Tr>(c, pl, s); break; }
      case 2: { typename Tr::O c = Tr::make(pl.lo, pl.hi); c = **op; exercise_op<Tr>(c, pl, s); break; }
      case 3: { typename Tr::O c(**op); typename Tr::O d(std::move(c)); exercise_op<Tr>(d, pl, s); break; }
      default: exercise_op<Tr>(**op, pl, s); break;
    }
  };
  if constexpr (Tr::has_setchar) {
    r.setchar = [single](const Plan& pl, const bj::object& once, CaseSink& s) {
      for (auto& ev : once.at("setchar").as_array()) {
        const bj::object& g = ev.as_object();
        long lo = g.at("lo").as_int64(), hi = g.at("hi").as_int64();
        if (single && lo != hi) continue;
        typename Tr::O o = Tr::make(pl.lo, pl.hi);
        std::string outcome;
        if constexpr (std::is_same_v<typename Tr::O, pf::Zp_field_operators<>>) outcome = try_set([&] { o.set_characteristic(static_cast<unsigned int>(lo)); });
        else outcome = try_set([&] { o.set_characteristic(static_cast<int>(lo), static_cast<int>(hi)); });
        bool refused = g.at("refused").as_bool();
        s.setchar("set_characteristic", lo, hi, refused, fromJ(g.at("mod")), outcome, outcome == "ok" ? toZ(o.get_characteristic()) : Z(0));
        // nothing is specified about the object after a refusal: `o` is discarded
        // constructor with the interval
        std::string oc = try_set([&] { typename Tr::O o2 = Tr::make(lo, hi); (void)o2; });
        if (!(std::is_same_v<typename Tr::O, pf::Zp_field_operators<>> && lo == 0))   // Zp_field_operators(0): "no characteristic yet"
          s.setchar("constructor", lo, hi, refused, fromJ(g.at("mod")), oc, oc == "ok" ? toZ(Tr::make(lo, hi).get_characteristic()) : Z(0));
      }
    };
  }
  return r;
}

Runner coh_zp_runner() {
  Runner r;
  r.name = r.family = "persistent_cohomology::Field_Zp";
  r.single = true;
  r.supports = [](long lo, long hi) { return lo == hi; };
  auto cur = std::make_shared<std::pair<long, long>>(-1, -1);
  auto f = std::make_shared<pc::Field_Zp>();
  r.run = [cur, f](const Plan& pl, CaseSink& s) {
    if (cur->first != pl.lo) { f->init(static_cast<int>(pl.lo)); *cur = {pl.lo, pl.hi}; }
    exercise_coh<pc::Field_Zp, int>(*f, pl, s);
  };
  r.setchar = [](const Plan& pl, const bj::object& once, CaseSink& s) {
    for (auto& ev : once.at("setchar").as_array()) {
      const bj::object& g = ev.as_object();
      long lo = g.at("lo").as_int64(), hi = g.at("hi").as_int64();
      if (lo != hi) continue;
      pc::Field_Zp o;
      o.init(static_cast<int>(pl.lo));
      std::string outcome = try_set([&] { o.init(static_cast<int>(lo)); });
      bool refused = g.at("refused").as_bool();
      s.setchar("init", lo, hi, refused, fromJ(g.at("mod")), outcome, outcome == "ok" ? toZ(o.characteristic()) : Z(0));
    }
  };
  return r;
}
Runner coh_multi_runner() {
  Runner r;
  r.name = r.family = "persistent_cohomology::Multi_field";
  r.supports = [](long lo, long hi) { return lo <= hi; };
  auto cur = std::make_shared<std::pair<long, long>>(-1, -1);
  auto f = std::make_shared<std::optional<pc::Multi_field>>();
  r.run = [cur, f](const Plan& pl, CaseSink& s) {
    if (cur->first != pl.lo || cur->second != pl.hi) { f->emplace(); (*f)->init(static_cast<int>(pl.lo), static_cast<int>(pl.hi)); *cur = {pl.lo, pl.hi}; }
    exercise_coh<pc::Multi_field, Z>(**f, pl, s);
  };
  return r;
}

#define VF_RANGES_CANON(X) \
  X(2, 2) X(2, 3) X(2, 5) X(2, 7) X(2, 11) X(2, 13) X(3, 3) X(3, 5) X(3, 7) X(3, 11) X(3, 13) X(5, 5) X(5, 7) X(5, 11) \
  X(5, 13) X(7, 7) X(7, 11) X(7, 13) X(11, 11) X(11, 13) X(13, 13)
#define VF_RANGES_OTHER(X) X(0, 3) X(1, 2) X(4, 6) X(6, 12) X(8, 13) X(4, 14) X(0, 14) X(12, 14)

std::vector<Runner> runners() {
  std::vector<Runner> v;
#if VF_PART == 0
  v.push_back(elem_runner<TrZ2>(true, false));
  v.push_back(elem_runner<TrZp<2>>(true, false));
  v.push_back(elem_runner<TrZp<3>>(true, false));
  v.push_back(elem_runner<TrZp<5>>(true, false));
  v.push_back(elem_runner<TrZp<7>>(true, false));
  v.push_back(elem_runner<TrZp<11>>(true, false));
  v.push_back(elem_runner<TrZp<13>>(true, false));
  v.push_back(elem_runner<TrZpShared>(true, true));
  v.push_back(elem_runner<TrSmallShared>(false, true));
  v.push_back(elem_runner<TrGmpShared>(false, true));
  v.push_back(op_runner<TrZpOp>(true, true));
  v.push_back(op_runner<TrZ2Op>(true, false));
  v.push_back(op_runner<TrZ2OpBool>(true, false));
  v.push_back(op_runner<TrSmallOp>(false, true));
  v.push_back(op_runner<TrGmpOp>(false, true));
  v.push_back(coh_zp_runner());
  v.push_back(coh_multi_runner());
#elif VF_PART == 1
#define X(a, b) v.push_back(elem_runner<TrSmall<a, b>>(false, false));
  VF_RANGES_CANON(X)
  VF_RANGES_OTHER(X)
#undef X
#else
#define X(a, b) v.push_back(elem_runner<TrGmp<a, b>>(false, false));
  VF_RANGES_CANON(X)
  VF_RANGES_OTHER(X)
#undef X
#endif
  return v;
}

int main(int argc, char** argv) {
  if (argc < 3) { std::cerr << "usage: fields_cases cases.ndjson out.ndjson [shard nshards]" << std::endl; return 2; }
  int shard = argc >= 5 ? std::atoi(argv[3]) : 0, nshards = argc >= 5 ? std::atoi(argv[4]) : 1;
  Out out;
  out.f = std::fopen(argv[2], "w");
  if (!out.f) return 2;
  vf::crash_ctx().out = out.f;
  Guard::install();
  std::vector<bj::value> cases = vf::read_ndjson(argv[1]);
  auto rs = runners();
  int ri = -1;
  for (auto& r : rs) {
    ++ri;
    if (ri % nshards != shard) continue;
    CaseSink s;
    s.out = &out;
    s.cfg = r.name;
    s.family = r.family;
    long ncases = 0;
    for (auto& cv : cases) {
      const bj::object& c = cv.as_object();
      const bj::object& b = c.at("b").as_object();
      long lo = b.at("lo").as_int64(), hi = b.at("hi").as_int64();
      if (!r.supports(lo, hi)) continue;
      if (r.single && b.at("primes").as_array().size() != 1) continue;
      ++ncases;
      s.load(c);
      Plan& pl = s.pl;
      pl = Plan();
      pl.lo = lo; pl.hi = hi;
      pl.P = fromJ(b.at("mod"));
      pl.x = fromJ(b.at("x")); pl.y = fromJ(b.at("y")); pl.z = fromJ(b.at("z"));
      pl.unary = c.contains("u");
      pl.once = c.contains("o");
      pl.inv_defined = !r.single || pl.x != 0;
      if (pl.unary) {
        for (auto& e : c.at("u").as_object().at("mixed").as_array()) pl.ns.push_back(fromJ(e.as_object().at("n")));
        if (r.single) { if (pl.x != 0) pl.qs.push_back(pl.P); }   // Z_p interface: Q = p, x invertible
        else for (auto& e : c.at("u").as_object().at("pinv").as_array()) pl.qs.push_back(fromJ(e.as_object().at("q")));
      }
      if (pl.once) {
        for (auto& e : c.at("o").as_object().at("bigconv").as_array()) pl.nc.push_back(fromJ(e.as_object().at("n")));
        for (auto& e : c.at("u").as_object().at("mixed").as_array()) pl.nc.push_back(fromJ(e.as_object().at("n")));
        if (r.single) pl.qi.push_back(pl.P);
        else for (auto& e : c.at("o").as_object().at("pmi").as_array()) pl.qi.push_back(fromJ(e.as_object().at("q")));
      }
      vf::crash_ctx().where = r.name + " lo=" + std::to_string(lo) + " hi=" + std::to_string(hi) + " x=" + pl.x.get_str() + " y=" + pl.y.get_str() + " z=" + pl.z.get_str();
      r.run(pl, s);
      if (pl.once && r.setchar) r.setchar(pl, c.at("o").as_object(), s);
    }
    // History independence across re-initialisations (static state keyed by an argument, e.g. a memoised partial
    // identity): for every ordered pair of intervals (A, B) and every sub-product Q that both know, the partial identity
    // of Q is asked under A and then, as the first request after the change of characteristics, under B; both answers are
    // compared with the tables TLC derived for A and for B.
    if (!r.single) {
      std::map<std::pair<long, long>, const bj::object*> once_case;
      for (auto& cv : cases) {
        const bj::object& c = cv.as_object();
        if (!c.contains("o")) continue;
        const bj::object& b = c.at("b").as_object();
        long lo = b.at("lo").as_int64(), hi = b.at("hi").as_int64();
        if (r.supports(lo, hi)) once_case.emplace(std::make_pair(lo, hi), &c);
      }
      auto ask = [&](const bj::object& c, const Z& q) {
        const bj::object& b = c.at("b").as_object();
        s.load(c);
        Plan& pl = s.pl;
        pl = Plan();
        pl.lo = b.at("lo").as_int64(); pl.hi = b.at("hi").as_int64();
        pl.P = fromJ(b.at("mod"));
        pl.x = fromJ(b.at("x")); pl.y = fromJ(b.at("y")); pl.z = fromJ(b.at("z"));
        pl.binary = false; pl.fused = false; pl.unary = false; pl.once = true;
        pl.qi.push_back(q);
        vf::crash_ctx().where = r.name + " re-initialisation lo=" + std::to_string(pl.lo) + " hi=" + std::to_string(pl.hi) + " q=" + q.get_str();
        r.run(pl, s);
      };
      for (auto& A : once_case) for (auto& B : once_case) {
        if (A.first == B.first) continue;
        std::set<std::string> qa;
        for (auto& e : A.second->at("o").as_object().at("pmi").as_array()) qa.insert(fromJ(e.as_object().at("q")).get_str());
        for (auto& e : B.second->at("o").as_object().at("pmi").as_array()) {
          Z q = fromJ(e.as_object().at("q"));
          if (!qa.count(q.get_str())) continue;
          ask(*A.second, q);
          ask(*B.second, q);
          ++ncases;
        }
      }
    }
    bj::object by;
    for (auto& p : s.by_sem) by[p.first] = p.second;
    out.put(bj::object{{"kind", "summary"}, {"cfg", r.name}, {"family", r.family}, {"cases", ncases}, {"evaluations", s.evals},
                       {"deviations", s.devs}, {"by_sem", by}});
  }
  if (out.overflow) out.cap += 10, out.put(bj::object{{"kind", "overflow"}});
  std::fclose(out.f);
  return 0;
}
