// Binding of ToplexMap.tla to Gudhi::Toplex_map and Gudhi::Lazy_toplex_map: executes the actions of the
// specification on real objects and projects them to the abstract state through the PUBLIC read API only
// (membership / maximality / maximal_simplices / maximal_cofaces / num_* ; for the lazy variant membership,
// all_facets_inside, num_vertices and num_maximal_simplices, the latter only as an upper bound because the
// class is documented as "not always up to date").
#pragma once
#include "common.hpp"

#include <gudhi/Lazy_toplex_map.h>
#include <gudhi/Toplex_map.h>

namespace vf {

using TVertex = Gudhi::Toplex_map::Vertex;  // std::size_t

// label maps: model vertex i -> label (Toplex_map accepts any std::size_t but its reserved maximum)
struct TLabelId {
  static TVertex to(int i) { return static_cast<TVertex>(i); }
  static const char* name() { return "id"; }
};
struct TLabelGap {
  static TVertex to(int i) { return static_cast<TVertex>(7 * i + 3); }
  static const char* name() { return "gap"; }
};
struct TLabelBig {  // beyond the range of int / of 32 bits
  static TVertex to(int i) { return (static_cast<TVertex>(1) << 33) + static_cast<TVertex>(3 * i); }
  static const char* name() { return "big"; }
};

inline int g_tnv = 4;  // size of the model vertex universe

template <class Label>
struct TLab {
  static std::vector<TVertex> lab(const std::vector<int>& s) {
    std::vector<TVertex> r;
    for (int i : s) r.push_back(Label::to(i));
    return r;
  }
  static int unlab(TVertex v) {
    for (int i = 0; i < 64; ++i)
      if (Label::to(i) == v) return i;
    return -999;
  }
  template <class R>
  static std::vector<int> unlab_sorted(const R& r) {
    std::vector<int> s;
    for (auto v : r) s.push_back(unlab(v));
    std::sort(s.begin(), s.end());
    return s;
  }
};

inline std::vector<std::vector<int>> all_subsets(int nv) {
  std::vector<std::vector<int>> r;
  for (unsigned m = 1; m < (1u << nv); ++m) {
    std::vector<int> s;
    for (int i = 0; i < nv; ++i)
      if (m & (1u << i)) s.push_back(i);
    r.push_back(s);
  }
  return r;
}
inline bj::array jsets(const std::vector<std::vector<int>>& v) {
  bj::array a;
  for (auto& s : v) a.push_back(jarr(s));
  return a;
}
inline std::vector<std::vector<int>> maximal_of(const std::vector<std::vector<int>>& c) {  // sorted
  std::vector<std::vector<int>> r;
  for (auto& s : c) {
    bool mx = true;
    for (auto& t : c)
      if (t.size() > s.size() && std::includes(t.begin(), t.end(), s.begin(), s.end())) { mx = false; break; }
    if (mx) r.push_back(s);
  }
  std::sort(r.begin(), r.end());
  return r;
}
inline std::size_t count_vertices(const std::vector<std::vector<int>>& c) {
  std::set<int> v;
  for (auto& s : c) v.insert(s.begin(), s.end());
  return v.size();
}
inline std::int64_t geti(const bj::object& o, const char* k) { return o.at(k).to_number<std::int64_t>(); }

// ------------------------------------------------------------------------------------------------- eager
template <class Label>
struct EagerModel {
  using L = TLab<Label>;
  Gudhi::Toplex_map tm;
  static constexpr bool lazy = false;
  static std::string name() { return std::string("eager/") + Label::name(); }
  bool applicable(const bj::object&) const { return true; }

  // executes the action; {"skip":true} when the implementation legitimately took the other outcome of a
  // non-deterministic action (contraction: which vertex remains is not documented)
  bj::object apply(const bj::object& act) {
    std::string op(act.at("op").as_string());
    bj::object out;
    if (op == "insert") {
      tm.insert_simplex(L::lab(ints(act.at("s"))));
    } else if (op == "insert_independent") {
      tm.insert_independent_simplex(L::lab(ints(act.at("s"))));
    } else if (op == "remove") {
      tm.remove_simplex(L::lab(ints(act.at("s"))));
    } else if (op == "remove_vertex") {
      tm.remove_vertex(Label::to(static_cast<int>(geti(act, "v"))));
    } else if (op == "clear") {
      tm.remove_simplex(std::vector<TVertex>());  // the empty vertex range
    } else if (op == "contract") {
      TVertex r = tm.contraction(Label::to(static_cast<int>(geti(act, "x"))), Label::to(static_cast<int>(geti(act, "y"))));
      out["ret"] = L::unlab(r);
    } else {
      out["exception"] = "unknown op " + op;
    }
    return out;
  }

  std::vector<std::vector<int>> toplices() const {
    std::vector<std::vector<int>> r;
    for (auto& sp : tm.maximal_simplices()) r.push_back(L::unlab_sorted(*sp));
    return r;
  }

  bj::object observe() {
    const Gudhi::Toplex_map& c = tm;
    bj::object o;
    std::vector<std::string> failed;
    auto subs = all_subsets(g_tnv);
    std::vector<std::vector<int>> member, maxq;
    bj::array cof;
    for (auto& s : subs) {
      auto ls = L::lab(s);
      bool in = c.membership(ls);
      if (in) member.push_back(s);
      // the argument is any vertex range: reversed order and a std::set must answer the same
      std::vector<TVertex> rev(ls.rbegin(), ls.rend());
      std::set<TVertex> st(ls.begin(), ls.end());
      if (c.membership(rev) != in || c.membership(st) != in) failed.push_back("membership depends on the kind/order of the vertex range " + bj::serialize(jarr(s)));
      bool mx = c.maximality(ls);
      if (mx) maxq.push_back(s);
      if (c.maximality(rev) != mx) failed.push_back("maximality depends on the order of the vertex range " + bj::serialize(jarr(s)));
      std::vector<std::vector<int>> t;
      for (auto& sp : c.maximal_cofaces(ls)) t.push_back(L::unlab_sorted(*sp));
      cof.push_back(bj::object{{"s", jarr(s)}, {"t_set", jsets(t)}});
      // max_number: "Gives not more than max_number maximal cofaces if max_number is strictly positive"
      auto one = c.maximal_cofaces(ls, 1);
      if (one.size() > 1 || (one.empty() != t.empty())) failed.push_back("maximal_cofaces(s,1) size wrong " + bj::serialize(jarr(s)));
      for (auto& sp : one)
        if (std::find(t.begin(), t.end(), L::unlab_sorted(*sp)) == t.end()) failed.push_back("maximal_cofaces(s,1) not a maximal coface " + bj::serialize(jarr(s)));
    }
    o["member_set"] = jsets(member);
    o["maxq_set"] = jsets(maxq);
    o["cof_set"] = cof;
    auto tops = toplices();
    o["max_set"] = jsets(tops);
    {  // "Gives all the toplices if given the empty simplex"
      std::vector<std::vector<int>> t2;
      for (auto& sp : c.maximal_cofaces(std::vector<TVertex>())) t2.push_back(L::unlab_sorted(*sp));
      auto a = tops;
      std::sort(a.begin(), a.end());
      std::sort(t2.begin(), t2.end());
      if (a != t2) failed.push_back("maximal_cofaces(empty) differs from maximal_simplices()");
      auto two = c.maximal_simplices(2);
      if (two.size() > 2 || two.size() < std::min<std::size_t>(2, tops.size())) failed.push_back("maximal_simplices(2) size wrong");
    }
    o["nmax"] = static_cast<std::int64_t>(c.num_maximal_simplices());
    o["nv"] = static_cast<std::int64_t>(c.num_vertices());
    // the reads must describe one and the same complex, whatever it is: the toplices are the maximal members
    // (no duplicate, none inside another), maximality() and maximal_cofaces() select among them, the counts agree
    {
      auto maxm = maximal_of(member);
      auto a = tops;
      std::sort(a.begin(), a.end());
      if (a != maxm) failed.push_back("maximal_simplices() is not the set of maximal members: " + bj::serialize(jsets(tops)));
      auto b = maxq;
      std::sort(b.begin(), b.end());
      if (b != maxm) failed.push_back("maximality() does not select the maximal members: " + bj::serialize(jsets(maxq)));
      if (c.num_maximal_simplices() != maxm.size()) failed.push_back("num_maximal_simplices() is not the number of maximal members");
      if (c.num_vertices() != count_vertices(member)) failed.push_back("num_vertices() is not the number of member vertices");
      std::size_t i = 0;
      for (auto& s : subs) {
        std::vector<std::vector<int>> want, have;
        for (auto& t : maxm) if (std::includes(t.begin(), t.end(), s.begin(), s.end())) want.push_back(t);
        for (auto& tv : cof[i].as_object().at("t_set").as_array()) have.push_back(ints(tv));
        std::sort(have.begin(), have.end());
        if (want != have) failed.push_back("maximal_cofaces(s) is not the set of maximal members containing s, s=" + bj::serialize(jarr(s)));
        ++i;
      }
    }
    bj::array fa;
    for (auto& s : failed) fa.emplace_back(s);
    o["checks_failed"] = fa;
    return o;
  }
  // make expected and observed comparable for this configuration
  void adjust(bj::object& exp, bj::object&) const { exp.erase("afi_set"); }
};

// ------------------------------------------------------------------------------------------------- lazy
template <class Label>
struct LazyModel {
  using L = TLab<Label>;
  Gudhi::Lazy_toplex_map tm;
  static constexpr bool lazy = true;
  static std::string name() { return std::string("lazy/") + Label::name(); }
  bool applicable(const bj::object& act) const { return act.at("op").as_string() != "remove_vertex"; }  // no such member

  bj::object apply(const bj::object& act) {
    std::string op(act.at("op").as_string());
    bj::object out;
    if (op == "insert") {
      tm.insert_simplex(L::lab(ints(act.at("s"))));  // the bool it returns is not documented
    } else if (op == "insert_independent") {
      tm.insert_independent_simplex(L::lab(ints(act.at("s"))));
    } else if (op == "remove") {
      tm.remove_simplex(L::lab(ints(act.at("s"))));
    } else if (op == "clear") {
      tm.remove_simplex(std::vector<TVertex>());  // the empty vertex range
    } else if (op == "contract") {
      TVertex r = tm.contraction(Label::to(static_cast<int>(geti(act, "x"))), Label::to(static_cast<int>(geti(act, "y"))));
      out["ret"] = L::unlab(r);
    } else {
      out["exception"] = "unknown op " + op;
    }
    return out;
  }

  std::vector<std::vector<int>> members() {
    std::vector<std::vector<int>> member;
    for (auto& s : all_subsets(g_tnv))
      if (tm.membership(L::lab(s))) member.push_back(s);
    return member;
  }

  bj::object observe() {
    bj::object o;
    std::vector<std::string> failed;
    auto subs = all_subsets(g_tnv);
    std::vector<std::vector<int>> member, afi;
    for (auto& s : subs) {
      auto ls = L::lab(s);
      bool in = tm.membership(ls);
      if (in) member.push_back(s);
      std::vector<TVertex> rev(ls.rbegin(), ls.rend());
      if (tm.membership(rev) != in) failed.push_back("membership depends on the order of the vertex range " + bj::serialize(jarr(s)));
    }
    for (auto& s : subs)
      if (s.size() >= 2 && tm.all_facets_inside(L::lab(s))) afi.push_back(s);
    // asking again after the queries above (which may have triggered cleaning) must not change the answers
    std::vector<std::vector<int>> member2 = members();
    if (member2 != member) failed.push_back("membership answers changed between two sweeps without a mutation");
    if (tm.num_vertices() != count_vertices(member)) failed.push_back("num_vertices() is not the number of member vertices");
    if (tm.num_maximal_simplices() < maximal_of(member).size()) failed.push_back("num_maximal_simplices() below the number of maximal members");
    o["member_set"] = jsets(member);
    o["afi_set"] = jsets(afi);
    o["nmax"] = static_cast<std::int64_t>(tm.num_maximal_simplices());
    o["nv"] = static_cast<std::int64_t>(tm.num_vertices());
    bj::array fa;
    for (auto& s : failed) fa.emplace_back(s);
    o["checks_failed"] = fa;
    return o;
  }
  void adjust(bj::object& exp, bj::object& got) const {
    for (const char* k : {"maxq_set", "max_set", "cof_set"}) exp.erase(k);
    // num_maximal_simplices of the lazy map counts stored simplices: an upper bound of the number of toplices
    if (geti(got, "nmax") >= geti(exp, "nmax")) got["nmax"] = exp.at("nmax");
  }
};

// ------------------------------------------------------------------------------------------------- both
// Drives an eager and a lazy map with the same calls and compares their membership answers directly.
template <class Label>
struct PairModel {
  using L = TLab<Label>;
  EagerModel<Label> e;
  std::unique_ptr<LazyModel<Label>> z = std::make_unique<LazyModel<Label>>();
  static constexpr bool lazy = false;
  static long& resyncs() { static long n = 0; return n; }
  static std::string name() { return std::string("pair/") + Label::name(); }
  bool applicable(const bj::object&) const { return true; }

  bj::object apply(const bj::object& act) {
    std::string op(act.at("op").as_string());
    bj::object out = e.apply(act);
    if (op == "remove_vertex") {  // the lazy map has no remove_vertex: continue from the eager result
      resync();
    } else {
      bj::object o2 = z->apply(act);
      if (op == "contract" && ser(o2.at("ret")) != ser(out.at("ret"))) {
        resync();  // both outcomes are legal; continue from the eager one
      }
    }
    return out;
  }
  void resync() {
    z = std::make_unique<LazyModel<Label>>();
    for (auto& t : e.toplices()) z->tm.insert_simplex(L::lab(t));
    ++resyncs();
  }
  bj::object observe() {
    bj::object o = e.observe();
    auto m2 = z->members();
    if (ser(bj::value(jsets(m2))) != ser(o.at("member_set"))) {
      bj::array fa = o.at("checks_failed").as_array();
      fa.emplace_back("eager and lazy membership disagree: lazy has " + bj::serialize(jsets(m2)));
      o["checks_failed"] = fa;
    }
    return o;
  }
  void adjust(bj::object& exp, bj::object& got) const { e.adjust(exp, got); }
};

}  // namespace vf
