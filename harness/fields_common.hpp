// Binding of Fields.tla to the real coefficient classes (property C10).
//
// One "exerciser" per family of classes calls EVERY public arithmetic entry point of the class on a
// state (x, y, z) / machine integers n / sub-products Q and hands each result to a Sink:
//   - CaseSink   (fields_cases.cpp) compares it with the value TLC printed for that state (spec -> code)
//   - RecordSink (fields_record.cpp) logs it as NDJSON for Trace_Fields.tla            (code -> spec)
// The harness does no modular arithmetic of its own: values go through decimal strings only.
#pragma once
#include <cassert>
#include <iostream>
#include <stdexcept>
#include <vector>
#include <gmpxx.h>

#include "common.hpp"

#include <csetjmp>
#include <limits>
#include <tuple>
#include <type_traits>
#include <typeinfo>

#include <gudhi/Fields/Z2_field.h>
#include <gudhi/Fields/Z2_field_operators.h>
#include <gudhi/Fields/Zp_field.h>
#include <gudhi/Fields/Zp_field_shared.h>
#include <gudhi/Fields/Zp_field_operators.h>
#include <gudhi/Fields/Multi_field.h>
#include <gudhi/Fields/Multi_field_shared.h>
#include <gudhi/Fields/Multi_field_operators.h>
#include <gudhi/Fields/Multi_field_small.h>
#include <gudhi/Fields/Multi_field_small_shared.h>
#include <gudhi/Fields/Multi_field_small_operators.h>
#include <gudhi/Persistent_cohomology/Field_Zp.h>
#include <gudhi/Persistent_cohomology/Multi_field.h>

namespace fh {
using Z = mpz_class;
namespace pf = Gudhi::persistence_fields;
namespace pc = Gudhi::persistent_cohomology;

// ------------------------------------------------------------------------------------------ numbers <-> JSON
template <class T>
inline Z toZ(const T& v) {
  if constexpr (std::is_same_v<T, Z>) return v;
  else if constexpr (std::is_same_v<T, bool>) return Z(v ? 1 : 0);
  else if constexpr (std::is_unsigned_v<T>) return Z(static_cast<unsigned long>(v));
  else return Z(static_cast<long>(v));
}
// signed big record {"neg":bool,"d":[little-endian base 10^4 limbs]} (the Big numbers of Fp.tla)
inline bj::array digits(const Z& v) {
  std::string s = Z(abs(v)).get_str(10);
  bj::array d;
  if (s == "0") return d;
  for (std::size_t end = s.size(); end > 0;) {
    std::size_t beg = end >= 4 ? end - 4 : 0;
    d.emplace_back(std::stoi(s.substr(beg, end - beg)));
    end = beg;
  }
  return d;
}
inline bj::value sbig(const Z& v) { return bj::object{{"neg", v < 0}, {"d", digits(v)}}; }
inline bj::value jint(const Z& v) {  // plain JSON integer when it fits 31 bits, else a big record
  if (v.fits_sint_p() && v > -2147483647) return bj::value(static_cast<std::int64_t>(v.get_si()));
  return sbig(v);
}
inline Z fromJ(const bj::value& v) {
  if (v.is_object()) {
    const bj::object& o = v.as_object();
    std::string s;
    const bj::array& d = o.at("d").as_array();
    for (std::size_t i = d.size(); i-- > 0;) {
      char buf[8];
      std::snprintf(buf, sizeof buf, i + 1 == d.size() ? "%d" : "%04d", static_cast<int>(d[i].to_number<std::int64_t>()));
      s += buf;
    }
    Z r(s.empty() ? "0" : s);
    return o.at("neg").as_bool() ? Z(-r) : r;
  }
  return Z(static_cast<long>(v.to_number<std::int64_t>()));
}
template <class T>
inline bool fits(const Z& n) {
  if constexpr (std::is_same_v<T, Z>) return true;
  else return n >= toZ(std::numeric_limits<T>::min()) && n <= toZ(std::numeric_limits<T>::max());
}
template <class T>
inline T fromZ(const Z& n) {
  if constexpr (std::is_same_v<T, Z>) return n;
  else if constexpr (std::is_unsigned_v<T>) return static_cast<T>(n.get_ui());
  else return static_cast<T>(n.get_si());
}
template <class T> inline const char* tname() {
  if constexpr (std::is_same_v<T, Z>) return "mpz_class";
  else if constexpr (std::is_same_v<T, int>) return "int";
  else if constexpr (std::is_same_v<T, unsigned int>) return "unsigned int";
  else if constexpr (std::is_same_v<T, long>) return "long";
  else if constexpr (std::is_same_v<T, unsigned long>) return "unsigned long";
  else if constexpr (std::is_same_v<T, short>) return "short";
  else if constexpr (std::is_same_v<T, unsigned short>) return "unsigned short";
  else if constexpr (std::is_same_v<T, bool>) return "bool";
  else return "?";
}
// "Integer_type: a native integer type. Should be able to contain the characteristic if signed."
template <class T>
inline bool legal_int(const Z& n, const Z& P) {
  if (!fits<T>(n)) return false;
  if constexpr (std::is_same_v<T, Z>) return true;
  else if constexpr (std::is_signed_v<T>) return toZ(std::numeric_limits<T>::max()) >= P;
  else return true;
}

// ------------------------------------------------------------------------------------------ guarded calls
// a hardware trap inside the library (integer division by zero) is turned into a reported result
struct Guard {
  static inline sigjmp_buf env;
  static inline volatile bool armed = false;
  static void handler(int sig) {
    if (armed) { armed = false; siglongjmp(env, sig); }
    vf::crash_handler(sig);
  }
  static void install() {
    vf::install_crash_handlers();
    std::signal(SIGFPE, handler);
  }
};
// returns 0 when f() returned normally, the signal number when it trapped, -1 on a C++ exception (what in `exc`)
template <class F>
inline int guarded(F&& f, std::string& exc) {
  int sig = sigsetjmp(Guard::env, 1);
  if (sig != 0) return sig;
  Guard::armed = true;
  int rc = 0;
  try { f(); } catch (const std::exception& e) { exc = e.what(); rc = -1; }
  Guard::armed = false;
  return rc;
}

// ------------------------------------------------------------------------------------------ plan of one state
struct Plan {
  long lo = 0, hi = 0;     // the interval (lo = hi = p for the Z_p classes)
  Z P;                     // modulus
  Z x, y, z;               // reduced operands
  bool binary = true;      // add/sub/mul/eq on (x, y)
  bool fused = true;       // fused operations on (x, y, z)
  bool unary = false;      // inverse, partial inverses of x, mixed operations x op n
  bool once = false;       // identities, characteristic, conversions (independent of the registers)
  std::vector<Z> ns;       // machine integers for the mixed operations x op n (unary)
  std::vector<Z> nc;       // machine integers for conversions only (once)
  std::vector<Z> qs;       // sub-products Q for the partial inverses of x (unary)
  std::vector<Z> qi;       // sub-products Q for the partial identities (once)
  bool inv_defined = true; // x has an inverse in the sense the class documents
};

// Sink concept:
//   void r(const char* sem, const char* via, const Z& got)                       result on the state (x,y,z)
//   void rb(const char* sem, const char* via, bool got)                          boolean result on the state
//   void rn(const char* sem, const char* via, const Z& n, const char* ty, const Z& got)   x op n (sem: val,add_int,..)
//   void rnb(const char* sem, const char* via, const Z& n, const char* ty, bool got)
//   void rq(const char* sem, const char* via, const Z& q, const Z& t, const Z& v, int trap)  pinv: (T, value); pmi: t unused
//   void r0(const char* sem, const char* via, const Z& got)                      nullary (char, zero, one)

// ------------------------------------------------------------------------------------------ element classes
// Traits: E (element class), Int (tuple of integer types accepted by the mixed operators), C (characteristic type),
//         static name(), bool supports(lo, hi), void init(lo, hi), Z val(const E&)
template <class E> inline Z elem_val(const E& e) { return toZ(e.get_value()); }

template <class Tr, class T, class Sink>
void elem_mixed_one(const Plan& pl, const Z& n, Sink& s) {
  using E = typename Tr::E;
  if (!legal_int<T>(n, pl.P)) return;
  const T v = fromZ<T>(n);
  const char* ty = tname<T>();
  const E x = Tr::make(pl.x);
  { E a(v); s.rn("val", "E(Integer)", n, ty, elem_val(a)); }
  if constexpr (Tr::assign_any || std::is_same_v<T, unsigned int>) { E a; a = v; s.rn("val", "operator=(Integer)", n, ty, elem_val(a)); }
  { E a(x); a += v; s.rn("add_int", "operator+=(E,Integer)", n, ty, elem_val(a)); }
  { E a = x + v; s.rn("add_int", "operator+(E,Integer)", n, ty, elem_val(a)); }
  // Integer op E returns Integer_type: the type must be able to hold a residue
  bool ret_ok = true;
  if constexpr (!std::is_same_v<T, Z>) ret_ok = toZ(std::numeric_limits<T>::max()) >= pl.P - 1;
  if (ret_ok) { T a = v + x; s.rn("add_int", "operator+(Integer,E)", n, ty, toZ(a)); }
  { E a(x); a -= v; s.rn("sub_int", "operator-=(E,Integer)", n, ty, elem_val(a)); }
  { E a = x - v; s.rn("sub_int", "operator-(E,Integer)", n, ty, elem_val(a)); }
  if (ret_ok) { T a = v - x; s.rn("rsub_int", "operator-(Integer,E)", n, ty, toZ(a)); }
  { E a(x); a *= v; s.rn("mul_int", "operator*=(E,Integer)", n, ty, elem_val(a)); }
  { E a = x * v; s.rn("mul_int", "operator*(E,Integer)", n, ty, elem_val(a)); }
  if (ret_ok) { T a = v * x; s.rn("mul_int", "operator*(Integer,E)", n, ty, toZ(a)); }
  s.rnb("eq_int", "operator==(E,Integer)", n, ty, x == v);
  s.rnb("eq_int", "operator==(Integer,E)", n, ty, v == x);
  s.rnb("eq_int", "!operator!=(E,Integer)", n, ty, !(x != v));
  s.rnb("eq_int", "!operator!=(Integer,E)", n, ty, !(v != x));
}
template <class Tr, class Sink, class... T>
void elem_mixed(const Plan& pl, const Z& n, Sink& s, std::tuple<T...>*) {
  (elem_mixed_one<Tr, T>(pl, n, s), ...);
}
template <class Tr, class T, class Sink>
void elem_conv_one(const Plan& pl, const Z& n, Sink& s) {
  using E = typename Tr::E;
  if (!legal_int<T>(n, pl.P)) return;
  const T v = fromZ<T>(n);
  { E a(v); s.rn("val", "E(Integer)", n, tname<T>(), elem_val(a)); }
  if constexpr (Tr::assign_any || std::is_same_v<T, unsigned int>) { E a; a = v; s.rn("val", "operator=(Integer)", n, tname<T>(), elem_val(a)); }
}
template <class Tr, class Sink, class... T>
void elem_conv(const Plan& pl, const Z& n, Sink& s, std::tuple<T...>*) {
  (elem_conv_one<Tr, T>(pl, n, s), ...);
}

template <class Tr, class Sink>
void exercise_elem(const Plan& pl, Sink& s) {
  using E = typename Tr::E;
  using C = typename Tr::C;
  const E x = Tr::make(pl.x), y = Tr::make(pl.y), z = Tr::make(pl.z);
  if (pl.binary) {
    s.r("val", "get_value", elem_val(x));
    if constexpr (Tr::has_uint_cast) s.r("val", "operator unsigned int", toZ(static_cast<unsigned int>(x)));
    { E a(x); a += y; s.r("add", "operator+=(E,E)", elem_val(a)); }
    { E a = x + y; s.r("add", "operator+(E,E)", elem_val(a)); }
    { E a(x); a -= y; s.r("sub", "operator-=(E,E)", elem_val(a)); }
    { E a = x - y; s.r("sub", "operator-(E,E)", elem_val(a)); }
    { E a(x); a *= y; s.r("mul", "operator*=(E,E)", elem_val(a)); }
    { E a = x * y; s.r("mul", "operator*(E,E)", elem_val(a)); }
    s.rb("eq", "operator==(E,E)", x == y);
    s.rb("eq", "!operator!=(E,E)", !(x != y));
    { E b; b = y; s.r("sub", "copy-assign then -", elem_val(x - b)); }
    { E a(x), b(y); swap(a, b); s.r("add", "swap then +", elem_val(b + a)); }
  }
  if (pl.fused) {  // element classes have no fused entry points: the compositions must agree with the fused results
    { E a = x * y + z; s.r("muladd", "x*y+z", elem_val(a)); }
    { E a = (x + y) * z; s.r("addmul", "(x+y)*z", elem_val(a)); }
  }
  if (pl.unary) {
    if (pl.inv_defined) { E a = x.get_inverse(); s.r("inv", "get_inverse", elem_val(a)); }
    for (const Z& q : pl.qs) {
      if (!fits<C>(q)) continue;
      Z t, v;
      std::string exc;
      int trap = guarded([&] { auto pr = x.get_partial_inverse(fromZ<C>(q)); v = elem_val(pr.first); t = toZ(pr.second); }, exc);
      s.rq("pinv", "get_partial_inverse", q, t, v, trap);
    }
    for (const Z& n : pl.ns) elem_mixed<Tr>(pl, n, s, static_cast<typename Tr::Int*>(nullptr));
  }
  if (pl.once) {
    s.r0("zero", "get_additive_identity", elem_val(E::get_additive_identity()));
    s.r0("one", "get_multiplicative_identity", elem_val(E::get_multiplicative_identity()));
    s.r0("zero", "E()", elem_val(E()));
    s.r0("char", "get_characteristic", toZ(E::get_characteristic()));
    for (const Z& q : pl.qi) {
      if (!fits<C>(q)) continue;
      s.rq("pmi", "get_partial_multiplicative_identity", q, Z(0), elem_val(E::get_partial_multiplicative_identity(fromZ<C>(q))), 0);
    }
    for (const Z& n : pl.nc) elem_conv<Tr>(pl, n, s, static_cast<typename Tr::Int*>(nullptr));
  }
}

using NativeInts = std::tuple<int, unsigned int, long, unsigned long, short, unsigned short>;

template <unsigned int p>
struct TrZp {
  using E = pf::Zp_field_element<p>;
  using C = unsigned int;
  using Int = NativeInts;
  static constexpr bool has_uint_cast = true, assign_any = true;
  static std::string name() { return "Zp_field_element<" + std::to_string(p) + ">"; }
  static std::string family() { return "Zp_field_element"; }
  static bool supports(long lo, long hi) { return lo == hi && lo == static_cast<long>(p); }
  static void init(long, long) {}
  static E make(const Z& v) { return E(static_cast<unsigned int>(v.get_ui())); }
};
struct TrZ2 {
  using E = pf::Z2_field_element;
  using C = unsigned int;
  using Int = NativeInts;
  static constexpr bool has_uint_cast = true, assign_any = false;   // operator=(unsigned int) only
  static std::string name() { return "Z2_field_element"; }
  static std::string family() { return "Z2_field_element"; }
  static bool supports(long lo, long hi) { return lo == 2 && hi == 2; }
  static void init(long, long) {}
  static E make(const Z& v) { return E(static_cast<unsigned int>(v.get_ui())); }
};
struct TrZpShared {
  using E = pf::Shared_Zp_field_element<>;
  using C = unsigned int;
  using Int = NativeInts;
  static constexpr bool has_uint_cast = true, assign_any = true;
  static std::string name() { return "Shared_Zp_field_element"; }
  static std::string family() { return "Shared_Zp_field_element"; }
  static bool supports(long lo, long hi) { return lo == hi; }
  static void init(long lo, long) { E::initialize(static_cast<unsigned int>(lo)); }
  static E make(const Z& v) { return E(static_cast<unsigned int>(v.get_ui())); }
};
template <unsigned int lo_, unsigned int hi_>
struct TrSmall {
  using E = pf::Multi_field_element_with_small_characteristics<lo_, hi_>;
  using C = unsigned int;
  using Int = NativeInts;
  static constexpr bool has_uint_cast = true, assign_any = true;
  static std::string name() { return "Multi_field_element_with_small_characteristics<" + std::to_string(lo_) + "," + std::to_string(hi_) + ">"; }
  static std::string family() { return "Multi_field_element_with_small_characteristics"; }
  static bool supports(long lo, long hi) { return lo == static_cast<long>(lo_) && hi == static_cast<long>(hi_); }
  static void init(long, long) {}
  static E make(const Z& v) { return E(static_cast<unsigned int>(v.get_ui())); }
};
struct TrSmallShared {
  using E = pf::Shared_multi_field_element_with_small_characteristics<>;
  using C = unsigned int;
  using Int = NativeInts;
  static constexpr bool has_uint_cast = true, assign_any = true;
  static std::string name() { return "Shared_multi_field_element_with_small_characteristics"; }
  static std::string family() { return "Shared_multi_field_element_with_small_characteristics"; }
  static bool supports(long lo, long hi) { return lo >= 0 && hi >= lo; }
  static void init(long lo, long hi) { E::initialize(static_cast<unsigned int>(lo), static_cast<unsigned int>(hi)); }
  static E make(const Z& v) { return E(static_cast<unsigned int>(v.get_ui())); }
};
template <unsigned int lo_, unsigned int hi_>
struct TrGmp {
  using E = pf::Multi_field_element<lo_, hi_>;
  using C = Z;
  using Int = std::tuple<Z>;
  static constexpr bool has_uint_cast = false, assign_any = true;   // operator unsigned int truncates: not compared
  static std::string name() { return "Multi_field_element<" + std::to_string(lo_) + "," + std::to_string(hi_) + ">"; }
  static std::string family() { return "Multi_field_element"; }
  static bool supports(long lo, long hi) { return lo == static_cast<long>(lo_) && hi == static_cast<long>(hi_); }
  static void init(long, long) {}
  static E make(const Z& v) { return E(v); }
};
struct TrGmpShared {
  using E = pf::Shared_multi_field_element;
  using C = Z;
  using Int = std::tuple<Z>;
  static constexpr bool has_uint_cast = false, assign_any = true;
  static std::string name() { return "Shared_multi_field_element"; }
  static std::string family() { return "Shared_multi_field_element"; }
  static bool supports(long lo, long hi) { return lo >= 0 && hi >= lo; }
  static void init(long lo, long hi) { E::initialize(static_cast<unsigned int>(lo), static_cast<unsigned int>(hi)); }
  static E make(const Z& v) { return E(v); }
};

// ------------------------------------------------------------------------------------------ operator classes
// Traits: O (operators class), El (its Element type), C, static name(), supports, O make(lo,hi), Int tuple for get_value
template <class Tr, class T, class Sink>
void op_conv_one(const typename Tr::O& op, const Plan& pl, const Z& n, Sink& s) {
  if (!legal_int<T>(n, pl.P)) return;
  if constexpr (!std::is_same_v<T, Z> && std::is_unsigned_v<T> && !Tr::templated_unsigned) {
    if (!fits<typename Tr::El>(n)) return;   // get_value(Element): an unsigned value must fit the Element type
  }
  s.rn("val", "get_value", n, tname<T>(), toZ(op.get_value(fromZ<T>(n))));
}
template <class Tr, class Sink, class... T>
void op_conv(const typename Tr::O& op, const Plan& pl, const Z& n, Sink& s, std::tuple<T...>*) {
  (op_conv_one<Tr, T>(op, pl, n, s), ...);
}

template <class Tr, class Sink>
void exercise_op(typename Tr::O& op, const Plan& pl, Sink& s) {
  using El = typename Tr::El;
  using C = typename Tr::C;
  const El x = fromZ<El>(pl.x), y = fromZ<El>(pl.y), z = fromZ<El>(pl.z);
  if (pl.binary) {
    s.r("val", "get_value(reduced)", toZ(op.get_value(x)));
    s.r("add", "add", toZ(op.add(x, y)));
    { El a = x; op.add_inplace(a, y); s.r("add", "add_inplace", toZ(a)); }
    s.r("sub", "subtract", toZ(op.subtract(x, y)));
    { El a = x; op.subtract_inplace_front(a, y); s.r("sub", "subtract_inplace_front", toZ(a)); }
    { El b = y; op.subtract_inplace_back(x, b); s.r("sub", "subtract_inplace_back", toZ(b)); }
    s.r("mul", "multiply", toZ(op.multiply(x, y)));
    { El a = x; op.multiply_inplace(a, y); s.r("mul", "multiply_inplace", toZ(a)); }
    s.rb("eq", "are_equal", op.are_equal(x, y));
  }
  if (pl.fused) {
    s.r("muladd", "multiply_and_add", toZ(op.multiply_and_add(x, y, z)));
    { El a = x; op.multiply_and_add_inplace_front(a, y, z); s.r("muladd", "multiply_and_add_inplace_front", toZ(a)); }
    { El c = z; op.multiply_and_add_inplace_back(x, y, c); s.r("muladd", "multiply_and_add_inplace_back", toZ(c)); }
    s.r("addmul", "add_and_multiply", toZ(op.add_and_multiply(x, y, z)));
    { El a = x; op.add_and_multiply_inplace_front(a, y, z); s.r("addmul", "add_and_multiply_inplace_front", toZ(a)); }
    { El a = x; El c = z; op.add_and_multiply_inplace_back(a, y, c); s.r("addmul", "add_and_multiply_inplace_back", toZ(c)); }
  }
  if (pl.unary) {
    if (pl.inv_defined) s.r("inv", "get_inverse", toZ(op.get_inverse(x)));
    for (const Z& q : pl.qs) {
      if (!fits<C>(q)) continue;
      Z t, v;
      std::string exc;
      int trap = guarded([&] { auto pr = op.get_partial_inverse(x, fromZ<C>(q)); v = toZ(pr.first); t = toZ(pr.second); }, exc);
      s.rq("pinv", "get_partial_inverse", q, t, v, trap);
    }
  }
  if (pl.once) {
    s.r0("zero", "get_additive_identity", toZ(op.get_additive_identity()));
    s.r0("one", "get_multiplicative_identity", toZ(op.get_multiplicative_identity()));
    s.r0("char", "get_characteristic", toZ(op.get_characteristic()));
    for (const Z& q : pl.qi) {
      if (!fits<C>(q)) continue;
      s.rq("pmi", "get_partial_multiplicative_identity", q, Z(0), toZ(op.get_partial_multiplicative_identity(fromZ<C>(q))), 0);
    }
    for (const Z& n : pl.nc) op_conv<Tr>(op, pl, n, s, static_cast<typename Tr::Int*>(nullptr));
  }
}

struct TrZpOp {
  using O = pf::Zp_field_operators<>;
  using El = unsigned int;
  using C = unsigned int;
  using Int = NativeInts;
  static constexpr bool has_setchar = true;
  static constexpr int unreduced = 1;
  static constexpr bool templated_unsigned = false;
  static std::string name() { return "Zp_field_operators"; }
  static bool supports(long lo, long hi) { return lo == hi; }
  static O make(long lo, long) { return O(static_cast<unsigned int>(lo)); }
};
struct TrZ2Op {
  using O = pf::Z2_field_operators;
  using El = unsigned int;   // the methods are templates on the unsigned operand type
  using C = unsigned int;
  using Int = NativeInts;
  static constexpr bool has_setchar = false;
  static constexpr int unreduced = 1;
  static constexpr bool templated_unsigned = true;
  static std::string name() { return "Z2_field_operators<unsigned int>"; }
  static bool supports(long lo, long hi) { return lo == 2 && hi == 2; }
  static O make(long, long) { return O(); }
};
struct TrZ2OpBool {
  using O = pf::Z2_field_operators;
  using El = bool;
  using C = unsigned int;
  using Int = NativeInts;
  static constexpr bool has_setchar = false;
  static constexpr int unreduced = 0;
  static constexpr bool templated_unsigned = true;
  static std::string name() { return "Z2_field_operators<bool>"; }
  static bool supports(long lo, long hi) { return lo == 2 && hi == 2; }
  static O make(long, long) { return O(); }
};
struct TrSmallOp {
  using O = pf::Multi_field_operators_with_small_characteristics;
  using El = unsigned int;
  using C = unsigned int;
  using Int = std::tuple<unsigned int, unsigned short>;   // get_value(Element) only
  static constexpr bool has_setchar = true;
  static constexpr int unreduced = 1;
  static constexpr bool templated_unsigned = false;
  static std::string name() { return "Multi_field_operators_with_small_characteristics"; }
  static bool supports(long lo, long hi) { return lo >= 0 && hi >= lo; }
  static O make(long lo, long hi) { return O(static_cast<int>(lo), static_cast<int>(hi)); }
};
struct TrGmpOp {
  using O = pf::Multi_field_operators;
  using El = Z;
  using C = Z;
  using Int = std::tuple<Z>;
  static constexpr bool has_setchar = true;
  static constexpr int unreduced = 2;
  static constexpr bool templated_unsigned = false;
  static std::string name() { return "Multi_field_operators"; }
  static bool supports(long lo, long hi) { return lo >= 0 && hi >= lo; }
  static O make(long lo, long hi) { return O(static_cast<int>(lo), static_cast<int>(hi)); }
};

// ------------------------------------------------------------------------------------------ cohomology engine
template <class F, class El, class Sink>
void exercise_coh(F& f, const Plan& pl, Sink& s) {
  const El x = fromZ<El>(pl.x), y = fromZ<El>(pl.y), z = fromZ<El>(pl.z);
  if (pl.binary) {
    s.r("add", "plus_equal", toZ(f.plus_equal(x, y)));
    s.r("mul", "times", toZ(f.times(x, y)));
    s.r("tminus", "times_minus", toZ(f.times_minus(x, y)));
  }
  if (pl.fused) s.r("pte", "plus_times_equal", toZ(f.plus_times_equal(x, y, z)));
  if (pl.unary) {
    for (const Z& q : pl.qs) {
      if (!fits<El>(q)) continue;
      if (!pl.inv_defined && pl.lo == pl.hi && std::is_same_v<El, int>) continue;   // Field_Zp::inverse(0, .) is not specified
      Z t, v;
      std::string exc;
      int trap = guarded([&] { auto pr = f.inverse(x, fromZ<El>(q)); v = toZ(pr.first); t = toZ(pr.second); }, exc);
      s.rq("pinv", "inverse", q, t, v, trap);
    }
  }
  if (pl.once) {
    s.r0("zero", "additive_identity", toZ(f.additive_identity()));
    s.r0("one", "multiplicative_identity", toZ(f.multiplicative_identity()));
    s.r0("char", "characteristic", toZ(f.characteristic()));
    for (const Z& q : pl.qi) {
      if (!fits<El>(q)) continue;
      s.rq("pmi", "multiplicative_identity(Q)", q, Z(0), toZ(f.multiplicative_identity(fromZ<El>(q))), 0);
    }
  }
}

}  // namespace fh
