// Spec -> code for C14: runs every CASE emitted by MC_LowerStar (TLC) on the real line / rectangle routines, in every
// variant of lstar_common.hpp, and writes one NDJSON deviation line per mismatch.
//   usage: lstar_cases cases.ndjson out.ndjson [shard nshards]
// What is compared (only what is promised):
//   line : every call but the last is a pair b < d of input values, their bag is the diagram of the specification;
//          the last call is (minimum, +infinity); an empty input produces no call.
//   rect : no reported pair has d < b; the bag of the pairs with b < d (the in-tree callers drop b = d) is the
//          diagram of the specification, dimension 0 through out0, dimension 1 through out1; the returned value is the
//          minimum.  Index mode: every reported index is a square of the input, the same comparison after mapping the
//          indices to their values, the returned index carries the minimum; two intervals of dimension 1 never die at
//          the same square, two intervals of dimension 0 are never born at the same square nor at the returned one.
#include "lstar_common.hpp"

using namespace lstar;

static std::FILE* out;
static long n_cases = 0, n_eval = 0, n_dev = 0, n_zero_len = 0, n_pairs = 0, n_tie_indices = 0, n_dropped = 0;
static const long max_dev_lines = 100000;
static std::map<std::string, long> per_variant;

struct Dev {
  std::string op, cfg;
  bj::object act;
  bj::array diffs;
  void add(const std::string& path, bj::value exp, bj::value got) {
    if (diffs.size() < 8) diffs.push_back(bj::object{{"path", path}, {"exp", exp}, {"got", got}});
  }
  ~Dev() {
    if (diffs.empty()) return;
    ++n_dev;
    if (n_dev > max_dev_lines) { ++n_dropped; return; }  // the check treats dropped lines as unknown deviations
    bj::object o{{"kind", "deviation"}, {"cfg", cfg}, {"op", op}, {"act", act}, {"diffs", diffs}};
    std::fprintf(out, "%s\n", bj::serialize(o).c_str());
    std::fflush(out);
  }
};

static void check_line(const bj::object& c) {
  const std::vector<int> vals = vf::ints(c.at("vals"));
  const std::vector<P> exp = bag_of_json(c.at("pairs"));
  const std::int64_t gmin = c.at("gmin").as_int64();
  for (auto& variant : line_variants()) {
    Dev dv{"line", variant, bj::object{{"vals", c.at("vals")}}};
    ++n_eval; per_variant["line:" + variant]++;
    vf::crash_ctx().where = "line " + variant + " " + bj::serialize(c.at("vals"));
    Run r = run_line(variant, vals);
    if (!r.exception.empty()) { dv.add("exception", nullptr, bj::value(r.exception)); continue; }
    for (auto& p : r.problems) dv.add("output", nullptr, bj::value(p));
    if (vals.empty()) {
      if (!r.out0.empty()) dv.add("calls", bj::array{}, jpairs(r.out0));
      continue;
    }
    if (r.out0.empty()) { dv.add("calls", "last call (minimum, inf)", bj::array{}); continue; }
    const P last = r.out0.back();
    if (last.first != gmin || last.second != INF_CODE) dv.add("last_call", bj::array{gmin, INF_CODE}, bj::array{last.first, last.second});
    std::vector<P> fin(r.out0.begin(), r.out0.end() - 1);
    n_pairs += fin.size();
    for (auto& p : fin)
      if (p.second <= p.first || p.second == INF_CODE) { dv.add("pair_not_positive", "b < d < inf", bj::array{p.first, p.second}); break; }
    std::vector<P> got = fin;
    std::sort(got.begin(), got.end());
    if (got != exp) dv.add("pairs", jpairs(exp), jpairs(got));
    if (variant == "tagged") {  // the infinity element only as the death of the last call
      for (std::size_t k = 0; k < r.out1.size(); ++k) {
        const bool is_last = k + 1 == r.out1.size();
        if (r.out1[k].first < 0 || (r.out1[k].second < 0) != is_last) { dv.add("tagged_indices", "indices of the input", jpairs(r.out1)); break; }
      }
    }
  }
}

static void check_rect(const bj::object& c) {
  const std::vector<int> vals = vf::ints(c.at("vals"));
  const int rows = static_cast<int>(c.at("rows").as_int64()), cols = static_cast<int>(c.at("cols").as_int64());
  const std::vector<P> e0 = bag_of_json(c.at("d0")), e1 = bag_of_json(c.at("d1"));
  const std::int64_t gmin = c.at("gmin").as_int64();
  const std::int64_t n = static_cast<std::int64_t>(vals.size());
  for (auto& variant : rect_variants()) {
    Dev dv{"rect", variant, bj::object{{"rows", rows}, {"cols", cols}, {"vals", c.at("vals")}}};
    ++n_eval; per_variant["rect:" + variant]++;
    vf::crash_ctx().where = "rect " + variant + " " + std::to_string(rows) + "x" + std::to_string(cols) + " " + bj::serialize(c.at("vals"));
    Run r = run_rect(variant, rows, cols, vals);
    if (!r.exception.empty()) { dv.add("exception", nullptr, bj::value(r.exception)); continue; }
    for (auto& p : r.problems) dv.add("output", nullptr, bj::value(p));
    std::vector<P> v0 = r.out0, v1 = r.out1;
    std::int64_t ret = r.ret;
    if (is_index_variant(variant)) {
      bool ok = true;
      auto in_range = [&](std::int64_t i) { return i >= 0 && i < n; };
      for (auto* v : {&v0, &v1})
        for (auto& p : *v) ok = ok && in_range(p.first) && in_range(p.second);
      ok = ok && in_range(ret);
      if (!ok) { dv.add("index_range", "indices of the input", bj::object{{"out0", jpairs(r.out0)}, {"out1", jpairs(r.out1)}, {"ret", r.ret}}); continue; }
      {  // distinctness
        std::set<std::int64_t> births{ret};
        for (auto& p : r.out0) births.insert(p.first);
        if (births.size() != r.out0.size() + 1) dv.add("index_distinct.births0", "distinct squares", bj::object{{"out0", jpairs(r.out0)}, {"ret", r.ret}});
        std::set<std::int64_t> deaths;
        for (auto& p : r.out1) deaths.insert(p.second);
        if (deaths.size() != r.out1.size()) dv.add("index_distinct.deaths1", "distinct squares", jpairs(r.out1));
      }
      for (auto* v : {&v0, &v1})
        for (auto& p : *v) {
          if (p.first != p.second && vals[p.first] == vals[p.second]) ++n_tie_indices;
          p = P(vals[p.first], vals[p.second]);
        }
      ret = vals[ret];
    }
    n_pairs += v0.size() + v1.size();
    for (auto* v : {&v0, &v1})
      for (auto& p : *v) {
        if (p.second < p.first) { dv.add(v == &v0 ? "out0.negative" : "out1.negative", "b <= d", bj::array{p.first, p.second}); break; }
        if (p.second == p.first) ++n_zero_len;
      }
    if (bag(v0) != e0) dv.add("out0", jpairs(e0), jpairs(bag(v0)));
    if (bag(v1) != e1) dv.add("out1", jpairs(e1), jpairs(bag(v1)));
    if (ret != gmin) dv.add("returned_minimum", gmin, ret);
  }
}

int main(int argc, char** argv) {
  if (argc < 3) { std::cerr << "usage: lstar_cases cases.ndjson out.ndjson [shard nshards]" << std::endl; return 2; }
  int shard = 0, nshards = 1;
  if (argc >= 5) { shard = std::atoi(argv[3]); nshards = std::atoi(argv[4]); }
  out = std::fopen(argv[2], "w");
  if (!out) return 2;
  vf::crash_ctx().out = out;
  vf::install_crash_handlers();
  std::ifstream in(argv[1]);
  if (!in) { std::cerr << "cannot open " << argv[1] << std::endl; return 2; }
  std::string line;
  long idx = -1;
  while (std::getline(in, line)) {
    if (line.empty()) continue;
    ++idx;
    if (idx % nshards != shard) continue;
    bj::value v = bj::parse(line);
    const bj::object& c = v.as_object();
    std::string kind(c.at("kind").as_string());
    ++n_cases;
    if (kind == "line") check_line(c);
    else if (kind == "rect") check_rect(c);
    else { std::cerr << "unknown case kind " << kind << std::endl; return 2; }
  }
  bj::object ops;
  for (auto& p : per_variant) ops[p.first] = p.second;
  bj::object o{{"kind", "summary"}, {"cfg", "lstar"}, {"cases", n_cases}, {"evaluations", n_eval}, {"deviations", n_dev}, {"deviations_dropped", n_dropped},
               {"pairs_reported", n_pairs}, {"zero_length_pairs_reported", n_zero_len}, {"index_pairs_between_equal_values", n_tie_indices},
               {"ops", ops}};
  std::fprintf(out, "%s\n", bj::serialize(o).c_str());
  std::fclose(out);
  return 0;
}
