// C10, code -> spec: drives the real coefficient classes with boundary-directed and random operands on
// characteristics far beyond the TLC bound (primes up to 65521, GMP multi-fields over hundreds of bits) and logs
// every call (entry point, operands, result) as NDJSON batches for Trace_Fields.tla.
// usage: fields_record <out.ndjson> <seed> <job> [args]
//   job = zp <effort> <p> [<p> ...]     run-time Z_p classes (Zp_field_operators, Shared_Zp_field_element, Field_Zp)
//         multi <effort>                 run-time multi-field classes on fixed + seeded random intervals
//         tmpl <effort>                  compile-time classes (Zp_field_element<p>, Multi_field_element*<lo,hi>)
// No modular arithmetic of the harness is trusted: values are logged as decimal digits, the specification reduces them.
#include "fields_common.hpp"

#include <functional>
#include <optional>

using namespace fh;

struct RecordSink {
  vf::Trace* tr;
  std::string cls, family;
  bool single = false, big = false;
  Plan pl;
  long evals = 0;
  struct Batch { std::string sem, via, ty; bj::array c; };
  std::map<std::string, Batch> batches;

  bj::value ev(const Z& v) const {  // element value / result
    if (big) return sbig(v);
    if (v < 0 || v > 2147483646) return bj::value(-1);   // not a residue of a 16-bit modulus: logged as -1 (never accepted)
    return bj::value(static_cast<std::int64_t>(v.get_si()));
  }
  Batch& batch(const char* sem, const char* via, const char* ty) {
    std::string k = std::string(sem) + "|" + via + "|" + ty;
    auto it = batches.find(k);
    if (it == batches.end()) it = batches.emplace(k, Batch{sem, via, ty, {}}).first;
    ++evals;
    return it->second;
  }
  void flush() {
    for (auto& p : batches) {
      Batch& b = p.second;
      bj::object o{{"cls", cls}, {"family", family}, {"single", single}, {"lo", pl.lo}, {"hi", pl.hi}, {"big", big},
                   {"sem", b.sem}, {"via", b.via}, {"ty", b.ty}, {"c", std::move(b.c)}};
      std::fprintf(tr->f, "%s\n", bj::serialize(o).c_str());
      ++tr->n;
    }
    batches.clear();
  }
  static bj::value no_n() { return bj::object{{"neg", false}, {"d", bj::array{-1}}}; }

  void r(const char* sem, const char* via, const Z& got) {
    std::string s(sem);
    if (s == "val") batch(sem, via, "").c.push_back(bj::array{ev(pl.x), no_n(), ev(got)});
    else if (s == "inv") batch(sem, via, "").c.push_back(bj::array{ev(pl.x), ev(got)});
    else batch(sem, via, "").c.push_back(bj::array{ev(pl.x), ev(pl.y), ev(pl.z), ev(got)});
  }
  void rb(const char* sem, const char* via, bool got) { batch(sem, via, "").c.push_back(bj::array{ev(pl.x), ev(pl.y), got}); }
  void rn(const char* sem, const char* via, const Z& n, const char* ty, const Z& got) {
    batch(sem, via, ty).c.push_back(bj::array{ev(pl.x), sbig(n), ev(got)});
  }
  void rnb(const char* sem, const char* via, const Z& n, const char* ty, bool got) {
    batch(sem, via, ty).c.push_back(bj::array{ev(pl.x), sbig(n), got});
  }
  void rq(const char* sem, const char* via, const Z& q, const Z& t, const Z& v, int trap) {
    if (std::string(sem) == "pinv") batch(sem, via, "").c.push_back(bj::array{ev(pl.x), ev(q), ev(t), ev(v), trap});
    else batch(sem, via, "").c.push_back(bj::array{ev(q), ev(v)});
  }
  void r0(const char* sem, const char* via, const Z& got) { batch(sem, via, "").c.push_back(bj::array{ev(got)}); }
  void setchar(const char* via, long lo, long hi, const std::string& outcome) {
    batch("setchar", via, "").c.push_back(bj::array{lo, hi, outcome});
  }
};

template <class F>
std::string try_set(F&& f) {
  try { f(); } catch (const std::invalid_argument&) { return "invalid_argument"; } catch (const std::exception& e) { return std::string("exception:") + typeid(e).name(); }
  return "ok";
}

// ------------------------------------------------------------------------------------------ operand generation
struct Gen {
  std::mt19937_64 rng;
  explicit Gen(std::uint64_t seed) : rng(seed) {}
  Z below(const Z& P) {  // uniform-ish in [0, P)
    Z r = 0;
    std::size_t bits = mpz_sizeinbase(P.get_mpz_t(), 2) + 16;
    for (std::size_t i = 0; i < bits; i += 32) { r <<= 32; r += static_cast<unsigned long>(rng() & 0xffffffffu); }
    Z m;
    mpz_mod(m.get_mpz_t(), r.get_mpz_t(), P.get_mpz_t());
    return m;
  }
  std::vector<Z> boundary(const Z& P) {  // {0, 1, 2, (P-1)/2, (P+1)/2, P-2, P-1} inside [0, P)
    std::vector<Z> b;
    for (Z v : {Z(0), Z(1), Z(2), Z((P - 1) / 2), Z((P + 1) / 2), Z(P - 2), Z(P - 1)})
      if (v >= 0 && v < P && std::find(b.begin(), b.end(), v) == b.end()) b.push_back(v);
    return b;
  }
  // machine integers: around 0, around multiples of P, at the limits of the 16/32/64 bit types, random
  std::vector<Z> ints(const Z& P, int nrandom) {
    std::vector<Z> v;
    auto add = [&](const Z& n) { if (std::find(v.begin(), v.end(), n) == v.end()) v.push_back(n); };
    for (long k : {0L, 1L, 2L, -1L, -2L}) add(Z(k));
    for (int m : {1, 2, 3})
      for (int d : {-1, 0, 1}) { add(Z(P * m + d)); add(Z(-(P * m) + d)); }
    Z lim[] = {Z(32767), Z(65535), Z(2147483647L), Z(4294967295UL), Z("9223372036854775807"), Z("18446744073709551615")};
    for (const Z& L : lim) {
      add(L); add(Z(-L)); add(Z(-L - 1)); add(Z(L - 1));
      Z k = L / P;  // the multiples of P next to the limit
      add(Z(k * P)); add(Z(k * P - 1)); add(Z(-(k * P))); add(Z(-(k * P) - 1));
    }
    for (int i = 0; i < nrandom; ++i) {
      Z r = static_cast<unsigned long>(rng());
      int sh = static_cast<int>(rng() % 64);
      r >>= sh;
      add(r); add(Z(-r));
    }
    return v;
  }
};

struct Effort {
  int rnd_ops = 3;       // random operands added to the boundary set
  int rnd_triples = 20;  // random triples added to boundary^3
  bool all_triples = true;
  int unary_states = 8;
  int mixed_ints = 14;
  int conv_random = 12;
  int qsets = 6;
  bool light = false;
};
Effort effort_of(const std::string& s) {
  Effort e;
  if (s == "light") { e.rnd_ops = 1; e.rnd_triples = 12; e.all_triples = false; e.unary_states = 3; e.mixed_ints = 8; e.conv_random = 4; e.qsets = 3; e.light = true; }
  if (s == "heavy") { e.rnd_ops = 8; e.rnd_triples = 200; e.unary_states = 16; e.mixed_ints = 30; e.conv_random = 60; e.qsets = 12; }
  return e;
}

// drives one class on one field: `run(plan)` executes the exerciser
struct Field { long lo, hi; Z P; std::vector<unsigned long> primes; };

// unred: 0 = reduced operands only; 1 = also unreduced operands below 2^31 (operator classes: "e % characteristic");
//        2 = also negative / huge operands (GMP operator class)
void drive(RecordSink& s, const Field& f, Gen& g, const Effort& ef, bool single, int unred,
           const std::function<void(const Plan&)>& run) {
  const Z& P = f.P;
  std::vector<Z> B = g.boundary(P);
  if (!single)  // multi-field: elements that vanish modulo some primes exercise the partial inverse
    for (std::size_t i = 0; i < f.primes.size() && i < 4; ++i) {
      Z p = f.primes[f.primes.size() - 1 - i];
      for (Z v : {p, Z(P / p), Z(P - p)}) if (v < P && std::find(B.begin(), B.end(), v) == B.end()) B.push_back(v);
    }
  std::vector<Z> O = B;
  if (ef.light) {  // 0, 1, (P-1)/2, P-1 and, in a multi-field, one zero divisor
    O.clear();
    for (std::size_t i : {std::size_t(0), std::size_t(1), std::size_t(3), std::size_t(6), std::size_t(7)}) if (i < B.size()) O.push_back(B[i]);
    if (B.size() < 7) O = B;
  }
  for (int i = 0; i < ef.rnd_ops; ++i) O.push_back(g.below(P));
  Plan base;
  base.lo = f.lo; base.hi = f.hi; base.P = P;
  auto go = [&](Plan pl) { pl.inv_defined = !single || pl.x != 0; s.pl = pl; run(s.pl); };
  // binary on all pairs
  for (const Z& x : O) for (const Z& y : O) { Plan pl = base; pl.x = x; pl.y = y; pl.z = 0; pl.fused = false; go(pl); }
  if (unred > 0) {  // documented for the operator classes: operands are taken modulo the characteristic
    std::vector<Z> W = {P, Z(P + 1), Z(2 * P - 1), Z(3 * P + 2)};
    if (unred == 1 && P < 65536) { W.push_back(Z(2147483646L)); W.push_back(Z(2147483645L)); }
    if (unred == 2) { W.push_back(Z(-1)); W.push_back(Z(-P)); W.push_back(Z(-P - 1)); W.push_back(Z(P * P + 3)); W.push_back(Z(-(P * P) - 5)); }
    for (const Z& x : W) for (const Z& y : {B[B.size() - 1], W[0], W[W.size() - 1], x}) {
      Plan pl = base; pl.x = x; pl.y = y; pl.z = 0; pl.fused = false; go(pl);
      Plan p2 = base; p2.x = y; p2.y = x; p2.z = 0; p2.fused = false; go(p2);
    }
  }
  // fused on triples
  std::vector<Z> T = B.size() > 7 ? std::vector<Z>(B.begin(), B.begin() + 7) : B;
  if (ef.all_triples) { for (const Z& x : T) for (const Z& y : T) for (const Z& z : T) { Plan pl = base; pl.x = x; pl.y = y; pl.z = z; pl.binary = false; go(pl); } }
  else for (const Z& x : T) { Plan pl = base; pl.x = x; pl.y = T[T.size() - 1]; pl.z = T[T.size() / 2]; pl.binary = false; go(pl); }
  for (int i = 0; i < ef.rnd_triples; ++i) { Plan pl = base; pl.x = g.below(P); pl.y = g.below(P); pl.z = i % 3 == 0 ? Z(P - 1) : g.below(P); pl.binary = false; go(pl); }
  // unary: inverse, partial inverses, mixed operations
  std::vector<Z> ns = g.ints(P, ef.conv_random);
  std::vector<Z> qs;
  if (single) qs.push_back(P);
  else {
    qs.push_back(P); qs.push_back(Z(1));
    for (int k = 0; k < ef.qsets; ++k) {
      Z q = 1;
      for (unsigned long p : f.primes) if (g.rng() & 1) q *= p;
      if (std::find(qs.begin(), qs.end(), q) == qs.end()) qs.push_back(q);
    }
    if (f.primes.size() > 1) { qs.push_back(Z(f.primes.front())); qs.push_back(Z(P / f.primes.back())); }
  }
  std::vector<Z> U = O;
  for (int i = 0; i < ef.unary_states; ++i) U.push_back(g.below(P));
  int k = 0;
  for (const Z& x : U) {
    Plan pl = base; pl.x = x; pl.y = 0; pl.z = 0; pl.binary = false; pl.fused = false; pl.unary = true;
    if (!single || x != 0) pl.qs = qs;
    if (k < ef.unary_states) for (int i = 0; i < ef.mixed_ints && i < static_cast<int>(ns.size()); ++i) pl.ns.push_back(ns[(i * 7 + k * 3) % ns.size()]);
    ++k;
    go(pl);
  }
  // once: identities, characteristic, conversions
  { Plan pl = base; pl.x = 0; pl.y = 0; pl.z = 0; pl.binary = false; pl.fused = false; pl.once = true; pl.nc = ns; pl.qi = single ? std::vector<Z>{P} : qs; go(pl); }
}

Field field_of(long lo, long hi) {  // primes of [lo, hi] for operand generation only (GMP nextprime)
  Field f{lo, hi, 1, {}};
  Z p = lo <= 2 ? 1 : Z(lo - 1);
  for (;;) {
    mpz_nextprime(p.get_mpz_t(), p.get_mpz_t());
    if (p > hi) break;
    f.primes.push_back(p.get_ui());
    f.P *= p;
  }
  return f;
}

template <class Tr>
void record_elem(vf::Trace& tr, const Field& f, Gen& g, const Effort& ef, bool single, bool big, long& evals) {
  RecordSink s;
  s.tr = &tr; s.cls = Tr::name(); s.family = Tr::family(); s.single = single; s.big = big;
  Tr::init(f.lo, f.hi);
  drive(s, f, g, ef, single, 0, [&](const Plan& pl) { exercise_elem<Tr>(pl, s); });
  s.flush();
  evals += s.evals;
}
template <class Tr>
void record_op(vf::Trace& tr, const Field& f, Gen& g, const Effort& ef, bool single, bool big, long& evals) {
  RecordSink s;
  s.tr = &tr; s.cls = Tr::name(); s.family = Tr::name(); s.single = single; s.big = big;
  typename Tr::O op = Tr::make(f.lo, f.hi);
  drive(s, f, g, ef, single, Tr::unreduced, [&](const Plan& pl) { exercise_op<Tr>(op, pl, s); });
  s.flush();
  evals += s.evals;
}

// set_characteristic / initialize / init with prime, composite and degenerate arguments around n.  Only the outcome of
// each call is logged; after a refusal the object is not used again before an accepted call (the shared classes are
// re-initialized by the next record_elem).
template <class Set>
void record_setchar(vf::Trace& tr, const std::string& cls, const char* via, long lo0, long hi0, const std::vector<std::pair<long, long>>& tries, Set&& set, long& evals) {
  RecordSink s;
  s.tr = &tr; s.cls = cls; s.family = cls; s.pl.lo = lo0; s.pl.hi = hi0;
  for (auto& t : tries) { s.setchar(via, t.first, t.second, try_set([&] { set(t.first, t.second); })); ++s.evals; }
  s.flush();
  evals += s.evals;
}

int main(int argc, char** argv) {
  if (argc < 5) { std::cerr << "usage: fields_record out.ndjson seed job effort [primes...]" << std::endl; return 2; }
  vf::Trace tr(argv[1]);
  Gen g(std::strtoull(argv[2], nullptr, 10) * 1000003ull + 17);
  std::string job = argv[3];
  Effort ef = effort_of(argv[4]);
  Guard::install();
  long evals = 0;
#ifndef VF_PART
#define VF_PART 0
#endif
#if VF_PART == 0
  if (job == "zp") {
    for (int i = 5; i < argc; ++i) {
      long p = std::atol(argv[i]);
      Field f = field_of(p, p);
      if (f.primes.size() != 1) { std::cerr << p << " is not a prime" << std::endl; return 2; }
      Effort e = (p <= 7 || p == 251 || p == 257 || p >= 46337) ? ef : effort_of("light");
      record_op<TrZpOp>(tr, f, g, e, true, false, evals);
      record_elem<TrZpShared>(tr, f, g, e, true, false, evals);
      if (p == 2) {
        record_elem<TrZ2>(tr, f, g, e, true, false, evals);
        record_op<TrZ2Op>(tr, f, g, e, true, false, evals);
        record_op<TrZ2OpBool>(tr, f, g, e, true, false, evals);
      }
      if (p <= 46337) {
        RecordSink s;
        s.tr = &tr; s.cls = s.family = "persistent_cohomology::Field_Zp"; s.single = true;
        pc::Field_Zp fz;
        fz.init(static_cast<int>(p));
        drive(s, f, g, e, true, 0, [&](const Plan& pl) { exercise_coh<pc::Field_Zp, int>(fz, pl, s); });
        s.flush();
        evals += s.evals;
      }
      // refusals around p: composite neighbours, multiples, 0, 1 (cheap: a composite is refused at its smallest factor)
      std::vector<std::pair<long, long>> tries;
      for (long n : {0L, 1L, p + 1, p - 1, 2 * p, p * 3, p * p > 70000 ? 65535L : p * p, 4L, 9L, 65536L, 46341L, 46338L}) if (n >= 0 && n != p) tries.emplace_back(n, n);
      if (p < 2000) tries.emplace_back(p, p);
      pf::Zp_field_operators<> o;
      record_setchar(tr, "Zp_field_operators", "set_characteristic", p, p, tries, [&](long a, long) { o.set_characteristic(static_cast<unsigned int>(a)); }, evals);
      record_setchar(tr, "Shared_Zp_field_element", "initialize", p, p, tries, [&](long a, long) { pf::Shared_Zp_field_element<>::initialize(static_cast<unsigned int>(a)); }, evals);
      pc::Field_Zp fz;
      std::vector<std::pair<long, long>> t2 = tries;
      for (long n : {46349L * 2, 46337L * 2, 46351L}) t2.emplace_back(n, n);   // above the documented maximum: refused without the quadratic table
      record_setchar(tr, "persistent_cohomology::Field_Zp", "init", p, p, t2, [&](long a, long) { fz.init(static_cast<int>(a)); }, evals);
    }
  } else if (job == "multi") {
    // documented domain of Multi_field_operators_with_small_characteristics: P^2 fits an unsigned int
    const bool lightrun = ef.light;
    std::vector<std::pair<long, long>> small16 = {{2, 13}, {31, 41}, {211, 223}, {251, 251}, {65521, 65521}, {4, 6}};
    // product fits an unsigned int
    std::vector<std::pair<long, long>> small32 = {{2, 23}, {3, 29}, {101, 109}, {65500, 65530}, {24, 30}};
    std::vector<std::pair<long, long>> gmp = {{2, 100}, {5, 13}, {65300, 65535}, {2, 2}};
    if (!lightrun) {
      for (auto iv : {std::pair<long, long>{7, 17}, {13, 19}}) small16.push_back(iv);
      for (auto iv : {std::pair<long, long>{5, 23}, {2, 13}, {1000, 1015}, {65521, 65521}}) small32.push_back(iv);
      for (auto iv : {std::pair<long, long>{2, 53}, {101, 199}, {90, 100}}) gmp.push_back(iv);
    }
    for (int i = 0; i < (std::string(argv[4]) == "heavy" ? 12 : lightrun ? 1 : 4); ++i) {  // seeded random intervals
      long lo = 2 + static_cast<long>(g.rng() % 300), w = 1 + static_cast<long>(g.rng() % 120);
      if (field_of(lo, lo + w).primes.empty()) continue;
      gmp.emplace_back(lo, lo + w);
      long lo2 = 2 + static_cast<long>(g.rng() % 60);
      Field f2 = field_of(lo2, lo2 + static_cast<long>(g.rng() % 12));
      if (!f2.primes.empty() && f2.P < Z(65536)) small16.emplace_back(f2.lo, f2.hi);
      if (!f2.primes.empty() && f2.P < Z(4294967296L)) small32.emplace_back(f2.lo, f2.hi);
    }
    Effort e = ef;
    for (auto& iv : small16) { Field f = field_of(iv.first, iv.second); record_op<TrSmallOp>(tr, f, g, e, false, true, evals); }
    for (auto& iv : small32) { Field f = field_of(iv.first, iv.second); record_elem<TrSmallShared>(tr, f, g, e, false, true, evals); }
    for (auto& iv : gmp) {
      Field f = field_of(iv.first, iv.second);
      record_op<TrGmpOp>(tr, f, g, e, false, true, evals);
      record_elem<TrGmpShared>(tr, f, g, e, false, true, evals);
      RecordSink s;
      s.tr = &tr; s.cls = s.family = "persistent_cohomology::Multi_field"; s.big = true;
      pc::Multi_field mf;
      mf.init(static_cast<int>(f.lo), static_cast<int>(f.hi));
      drive(s, f, g, e, false, 0, [&](const Plan& pl) { exercise_coh<pc::Multi_field, Z>(mf, pl, s); });
      s.flush();
      evals += s.evals;
    }
    // intervals without a prime / degenerate intervals are refused
    std::vector<std::pair<long, long>> tries = {{8, 10}, {24, 28}, {4, 4}, {5, 5}, {5, 3}, {0, 1}, {0, 0}, {1, 1}, {90, 96}, {89, 97}, {2, 2}, {0, 2}, {114, 126}, {113, 127}, {65522, 65536}, {65521, 65521}};
    pf::Multi_field_operators go;
    record_setchar(tr, "Multi_field_operators", "set_characteristic", 0, 0, tries, [&](long a, long b) { go.set_characteristic(static_cast<int>(a), static_cast<int>(b)); }, evals);
    pf::Multi_field_operators_with_small_characteristics so;
    std::vector<std::pair<long, long>> t16;
    for (auto& t : tries) if (t.second < 300) t16.push_back(t);
    record_setchar(tr, "Multi_field_operators_with_small_characteristics", "set_characteristic", 0, 0, t16, [&](long a, long b) { so.set_characteristic(static_cast<int>(a), static_cast<int>(b)); }, evals);
    record_setchar(tr, "Shared_multi_field_element", "initialize", 0, 0, tries, [&](long a, long b) { pf::Shared_multi_field_element::initialize(static_cast<unsigned int>(a), static_cast<unsigned int>(b)); }, evals);
    record_setchar(tr, "Shared_multi_field_element_with_small_characteristics", "initialize", 0, 0, t16, [&](long a, long b) { pf::Shared_multi_field_element_with_small_characteristics<>::initialize(static_cast<unsigned int>(a), static_cast<unsigned int>(b)); }, evals);
  } else
#else
  if (job == "tmpl") {
    Effort e = ef;
    Effort ez = ef.light ? effort_of("normal") : ef;
#define ZP(p) { Field f = field_of(p, p); record_elem<TrZp<p>>(tr, f, g, ez, true, false, evals); }
    ZP(2) ZP(3) ZP(251) ZP(257) ZP(32749) ZP(46337) ZP(46349) ZP(65519) ZP(65521)
#define SM(a, b) { Field f = field_of(a, b); record_elem<TrSmall<a, b>>(tr, f, g, e, false, true, evals); }
    SM(2, 23) SM(3, 29) SM(31, 41) SM(2, 19) SM(17, 31) SM(65521, 65521) SM(24, 30)
#define GM(a, b) { Field f = field_of(a, b); record_elem<TrGmp<a, b>>(tr, f, g, e, false, true, evals); }
    GM(2, 100) GM(5, 13) GM(2, 31) GM(101, 131) GM(65400, 65535) GM(24, 30)
  } else
#endif
  {
    std::cerr << "unknown job " << job << std::endl;
    return 2;
  }
  std::fprintf(stderr, "{\"evaluations\":%ld,\"events\":%ld}\n", evals, tr.n);
  return 0;
}
