// Standalone witnesses of the C09 findings (findings/C09.json): each one is a short history on a real
// Gudhi::persistence_matrix::Matrix through the public API, with the value a dense matrix would give.
// Every witness runs in a child process (several of them crash).  Prints one line per witness:
//   <finding id> DEFECT|ok  <details>
// usage: dense_witness            (build against the tree to examine: -I <tree>/src/*/include)
#include <gudhi/Matrix.h>
#include <gudhi/persistence_matrix_options.h>

#include <sys/wait.h>
#include <unistd.h>
#include <csignal>
#include <functional>
#include <iostream>
#include <sstream>
#include <string>
#include <vector>

using namespace Gudhi::persistence_matrix;

template <Column_types CT, bool Z2, int RA, bool RemRows, bool MapC, bool Swaps, bool Comp>
struct Opt : Default_options<CT, Z2> {
  static const bool has_column_compression = Comp;
  static const bool has_row_access = (RA != 0);
  static const bool has_intrusive_rows = (RA == 1);
  static const bool has_removable_rows = RemRows;
  static const bool has_removable_columns = MapC;
  static const bool has_map_column_container = MapC;
  static const bool has_column_and_row_swaps = Swaps;
};
using U = std::vector<unsigned>;
using PU = std::vector<std::pair<unsigned, unsigned>>;

template <class M>
std::string content(M& m, unsigned c, int n) {
  std::ostringstream s;
  auto v = m.get_column(c).get_content(n);
  s << "[";
  for (auto x : v) s << static_cast<unsigned>(x);
  s << "]";
  return s.str();
}
template <class M>
std::string row(M& m, unsigned r) {
  std::ostringstream s;
  std::vector<unsigned> cs;
  for (auto& e : m.get_row(r)) cs.push_back(e.get_column_index());
  std::sort(cs.begin(), cs.end());
  s << "{";
  for (auto c : cs) s << c << ",";
  s << "}";
  return s.str();
}
template <class M>
std::vector<typename M::Matrix_entry> range(std::initializer_list<std::pair<unsigned, unsigned>> l) {
  std::vector<typename M::Matrix_entry> r;
  for (auto& p : l) {
    typename M::Matrix_entry e(p.first);
    if constexpr (!M::Option_list::is_z2) e.set_element(p.second);
    r.push_back(e);
  }
  return r;
}

// returns "" when the behaviour is the dense one, otherwise a description
static void witness(const char* id, const std::function<std::string()>& f) {
  int fd[2];
  if (pipe(fd) != 0) return;
  std::cout.flush();
  pid_t pid = fork();
  if (pid == 0) {
    close(fd[0]);
    alarm(10);
    std::string r;
    try { r = f(); } catch (const std::exception& e) { r = std::string("throws ") + e.what(); }
    if (r.empty()) r = "-";
    (void)!write(fd[1], r.data(), r.size());
    close(fd[1]);
    _exit(0);
  }
  close(fd[1]);
  std::string s;
  char buf[1024];
  ssize_t n;
  while ((n = read(fd[0], buf, sizeof buf)) > 0) s.append(buf, static_cast<std::size_t>(n));
  close(fd[0]);
  int st = 0;
  waitpid(pid, &st, 0);
  if (WIFSIGNALED(st)) s = "killed by signal " + std::to_string(WTERMSIG(st));
  std::cout << id << (s == "-" ? " ok" : " DEFECT  " + s) << std::endl;
}

int main() {
  witness("C09-compression-add-onto-zero-column", [] {
    Matrix<Opt<Column_types::INTRUSIVE_SET, false, 0, false, false, false, true>> m(0, 5);
    m.insert_column(PU{});
    m.insert_column(PU{{1, 1}});
    m.add_to(1, 0);  // crashes: null representative of the zero column
    std::string c = content(m, 0, 3);
    return c == "[010]" ? std::string() : "column 0 after add_to(1,0): expected [010], got " + c;
  });
  witness("C09-compression-add-same-class", [] {
    Matrix<Opt<Column_types::INTRUSIVE_SET, true, 0, false, false, false, true>> m;
    m.insert_column(U{1});
    m.insert_column(U{1});
    m.multiply_target_and_add_to(1, 0, 0);  // 0 * col0 + col1
    std::string c = content(m, 0, 3);
    return c == "[010]" ? std::string() : "two identical columns {1}: multiply_target_and_add_to(1,0,0): expected [010], got " + c;
  });
  witness("C09-swap-columns-set-rows", [] {
    Matrix<Opt<Column_types::INTRUSIVE_SET, true, 2, false, false, true, false>> m(3);
    m.insert_column(U{2});
    m.insert_column(U{2});
    m.swap_columns(0, 1);
    std::string r = row(m, 2);
    return r == "{0,1,}" ? std::string() : "columns {2},{2}; swap_columns(0,1); get_row(2): expected {0,1,}, got " + r;
  });
  witness("C09-swap-columns-row-access-index", [] {
    using M = Matrix<Opt<Column_types::INTRUSIVE_SET, true, 1, false, false, true, false>>;
    M m(3);
    m.insert_column(U{});
    m.insert_column(U{2});
    m.swap_columns(0, 1);  // column 0 = {2}, column 1 = {}
    (void)content(m, 0, 3);           // orders the rows: the pending update of the column indices is done
    m.add_to(range<M>({{1, 1}}), 1);  // column 1 = {1}
    std::string r = row(m, 1);
    return r == "{1,}" ? std::string() : "after swap_columns(0,1), entry added to column 1 at row 1: get_row(1) expected {1,}, got " + r;
  });
  witness("C09-heap-msa-coefficient", [] {
    Matrix<Opt<Column_types::HEAP, false, 0, false, false, false, false>> m(0, 3);
    m.insert_column(PU{});
    m.insert_column(PU{{1, 1}});
    m.multiply_source_and_add_to(2, 1, 0);
    std::string c = content(m, 0, 3);
    return c == "[020]" ? std::string() : "Z_3: empty column += 2 * [010]: expected [020], got " + c;
  });
  witness("C09-heap-range-into-empty", [] {
    using M = Matrix<Opt<Column_types::HEAP, true, 0, false, false, false, false>>;
    M m;
    m.insert_column(U{});
    m.add_to(range<M>({{1, 1}, {2, 1}, {3, 1}, {4, 1}, {5, 1}}), 0);
    m.add_to(range<M>({{0, 1}, {1, 1}, {4, 1}, {5, 1}}), 0);
    m.add_to(range<M>({{0, 1}, {2, 1}, {3, 1}}), 0);
    std::string c = content(m, 0, 6);
    bool z = m.is_zero_column(0);
    return (c == "[000000]" && z) ? std::string() : "three ascending ranges summing to zero: content " + c + ", is_zero_column = " + (z ? "true" : "false");
  });
  witness("C09-vector-zero-entry-absent", [] {
    Matrix<Opt<Column_types::VECTOR, true, 0, false, false, false, false>> m;
    m.insert_column(U{0});
    m.zero_entry(0, 2);  // already zero
    std::string c = content(m, 0, 3);
    bool z = m.is_zero_column(0);
    return (c == "[100]" && !z) ? std::string() : "column {0}; zero_entry(0,2): content " + c + ", is_zero_column = " + (z ? "true" : "false");
  });
  witness("C09-vector-zero-entry-row", [] {
    Matrix<Opt<Column_types::VECTOR, true, 1, false, false, false, false>> m(3);
    m.insert_column(U{2});
    m.zero_entry(0, 2);
    std::string r = row(m, 2);
    return r == "{}" ? std::string() : "column {2}; zero_entry(0,2); get_row(2): expected {}, got " + r;
  });
  witness("C09-vector-add-from-lazy-source", [] {
    Matrix<Opt<Column_types::VECTOR, true, 0, false, false, false, false>> m;
    m.insert_column(U{0, 1});
    m.insert_column(U{});
    m.zero_entry(0, 0);
    m.add_to(0, 1);
    std::string c = content(m, 1, 3);
    return c == "[010]" ? std::string() : "column 0 = {0,1}; zero_entry(0,0); add_to(0, empty column 1): expected [010], got " + c + " (and a heap-buffer-overflow under ASan)";
  });
  witness("C09-swap-rows-unknown-row", [] {
    Matrix<Opt<Column_types::INTRUSIVE_SET, true, 0, false, false, true, false>> m;
    m.insert_column(U{1});
    m.swap_rows(1, 2);
    std::string c = content(m, 0, 3);
    return c == "[001]" ? std::string() : "column {1}; swap_rows(1,2): expected [001], got " + c;
  });
  witness("C09-swap-rows-unknown-row(empty matrix)", [] {
    Matrix<Opt<Column_types::INTRUSIVE_SET, true, 0, false, false, true, false>> m;
    m.swap_rows(0, 1);
    return std::string();
  });
  witness("C09-swap-order-rows-holes", [] {
    Matrix<Opt<Column_types::INTRUSIVE_SET, true, 0, false, true, true, false>> m(3);
    m.insert_column(U{0}, 1);
    m.swap_rows(0, 1);
    std::string c = content(m, 1, 3);
    return c == "[010]" ? std::string() : "got " + c;
  });
  witness("C09-swap-order-rows-holes(vector container)", [] {
    Matrix<Opt<Column_types::INTRUSIVE_SET, true, 0, false, false, true, false>> m;
    m.insert_column(U{0}, 0);
    m.swap_rows(0, 0);
    m.insert_column(U{0}, 1);
    std::string c = content(m, 1, 3);
    return c == "[100]" ? std::string() : "got " + c;
  });
  witness("C09-swap-rows-map-erase", [] {
    Matrix<Opt<Column_types::INTRUSIVE_SET, true, 0, false, true, true, false>> m;
    m.insert_column(U{1, 2});  // rows 1, 2 known
    m.swap_rows(1, 2);         // row 1 <-> row 2
    m.swap_rows(0, 1);         // row 0 unknown: the entry of index 1 has to be erased, not the one named by its value
    bool z0 = m.is_zero_entry(0, 0), z2 = m.is_zero_entry(0, 2);
    std::string c = content(m, 0, 3);
    return (c == "[101]" && !z0 && !z2) ? std::string() : "content " + c + " is_zero_entry(0,0)=" + (z0 ? "true" : "false") + " is_zero_entry(0,2)=" + (z2 ? "true" : "false");
  });
  witness("C09-range-add-pending-swaps", [] {
    using M = Matrix<Opt<Column_types::INTRUSIVE_SET, false, 0, false, false, true, false>>;
    M m(2, 3);
    m.insert_column(PU{{0, 1}, {1, 2}});
    m.insert_column(PU{});
    m.swap_rows(0, 1);                // column 0 = [2,1]
    m.add_to(range<M>({{1, 1}}), 0);  // + [0,1] = [2,2]
    std::string c = content(m, 0, 2);
    return c == "[22]" ? std::string() : "Z_3: [1,2]; swap_rows(0,1); add range {(1,1)}: expected [22], got " + c;
  });
  witness("C09-swap-order-rows-partial-reset", [] {
    Matrix<Opt<Column_types::INTRUSIVE_SET, true, 0, false, true, true, false>> m(3);  // map column container
    m.insert_column(U{2});
    m.swap_rows(0, 2);
    std::string c = content(m, 0, 3);  // orders the rows
    bool z0 = m.is_zero_entry(0, 0), z2 = m.is_zero_entry(0, 2);
    return (c == "[100]" && !z0 && z2) ? std::string() : "column {2}; swap_rows(0,2); get_column: content " + c + ", is_zero_entry(0,0)=" + (z0 ? "true" : "false") + ", is_zero_entry(0,2)=" + (z2 ? "true" : "false");
  });
  return 0;
}
