// Records random, precondition-respecting histories of real "basic" matrices as NDJSON traces for
// Trace_DenseMatrix.tla.   usage: dense_record <outdir> <seed> <executions> <steps>
// One file per instantiation of this translation unit (-DVF_CT, -DVF_PART, [-DVF_QUICK]); env VF_P (characteristic),
// VF_NR (rows), VF_NC (column indices), VF_FILTER / VF_ONLY (configurations), VF_AVOID (comma separated ids of
// known findings whose triggers the driver steers around, so that the rest of the execution stays checkable).
// Every step logs the call and what the public read API shows afterwards: always the reads that do not order
// the rows (is_zero_entry, is_zero_column, get_number_of_columns), and on a random third of the steps the full
// content (get_column().get_content, iteration, get_row), which flushes pending lazy swaps.
#include "dense_model.hpp"

using namespace vf;

static std::set<std::string> g_avoid;
static bool avoid(const char* id) { return g_avoid.count(id) > 0; }

struct Recorder {
  std::string outdir;
  std::uint64_t seed;
  int executions, steps, NC;

  template <class Mdl>
  void operator()() {
    std::string fname = Mdl::cfgname();
    fname = fname.substr(0, fname.rfind('/'));  // without the constructor suffix
    Mdl::cfgname() = fname;
    if (const char* pk = std::getenv("VF_PICK")) {  // "<seed>:<mod>": a pseudo-random 1/mod of the configurations
      unsigned long sd = 0, mod = 1;
      if (std::sscanf(pk, "%lu:%lu", &sd, &mod) == 2 && mod > 1 && (std::hash<std::string>()(fname) / 7 + sd) % mod != 0) return;
    }
    std::string flat = fname;
    std::replace(flat.begin(), flat.end(), '/', '_');
    Trace tr(outdir + "/dense_" + flat + "_p" + std::to_string(dg().P) + ".ndjson");
    std::mt19937_64 rng(seed * 7919 + std::hash<std::string>()(fname) + static_cast<unsigned>(dg().P));
    auto rnd = [&](int n) { return static_cast<int>(rng() % static_cast<std::uint64_t>(n)); };
    const int NR = dg().NR, P = dg().P;
    constexpr bool HEAP = Mdl::CT == Column_types::HEAP, VEC = Mdl::CT == Column_types::VECTOR;
    for (int ex = 0; ex < executions; ++ex) {
      // vector dictionaries are only sized by the reserving constructor / inserted columns: use the former
      dg().ctor = (Mdl::SwapVec || Mdl::RowsVec) ? 1 : (ex % 2);
      dg().reserve = NR;
      Mdl m;
      bool pending = false;
      tr.emit(bj::object{{"op", "reset"}, {"p", P}, {"nr", NR}, {"comp", Mdl::Comp}, {"cfg", fname}, {"ctor", dg().ctor}});
      for (int stp = 0; stp < steps; ++stp) {
        // current content through reads that do not order the rows
        auto entry_zero = [&](unsigned c, unsigned r) {
          try { return m.m().is_zero_entry(c, r); } catch (const std::out_of_range&) { return true; }
        };
        auto col_zero = [&](unsigned c) { return m.m().is_zero_column(c); };
        std::vector<unsigned> live(m.live.begin(), m.live.end());
        bool holes = !live.empty() && live.back() + 1 != live.size();
        auto rand_vec = [&](int maxnnz) {
          std::vector<int> v(NR, 0);
          int k = rnd(maxnnz + 1);
          for (int i = 0; i < k; ++i) v[rnd(NR)] = 1 + rnd(P - 1);
          return v;
        };
        bj::object act;
        for (int tries = 0; tries < 100 && act.empty(); ++tries) {
          int c = rnd(100);
          bj::object a;
          auto pick = [&]() { return live[rnd(static_cast<int>(live.size()))]; };
          if (c < 14) {
            if (static_cast<int>(m.next) >= NC) continue;
            a = {{"op", "insert"}, {"v", jarr(rand_vec(4))}};
          } else if (c < 18) {
            std::vector<int> freeidx;
            for (int i = 0; i < NC; ++i) if (!m.live.count(i)) freeidx.push_back(i);
            if (freeidx.empty()) continue;
            a = {{"op", "insert_at"}, {"v", jarr(rand_vec(4))}, {"i", freeidx[rnd(static_cast<int>(freeidx.size()))]}};
          } else if (c < 22) {
            if (m.next == 0) continue;
            a = {{"op", "remove_col"}, {"i", rnd(static_cast<int>(m.next))}};
          } else if (c < 25) {
            a = {{"op", "remove_last"}};
          } else if (c < 61) {
            if (live.empty()) continue;
            unsigned t = pick();
            int coef = rnd(4) == 0 ? rnd(2) : rnd(P + 2);
            int kind = (c - 25) / 6;  // 0 add, 1 add_r, 2 mta, 3 mta_r, 4 msa, 5 msa_r
            if (kind % 2 == 0) {
              if (live.size() < 2) continue;
              unsigned s = pick();
              if (s == t) continue;
              if (kind == 0) a = {{"op", "add"}, {"s", s}, {"t", t}};
              else if (kind == 2) a = {{"op", "mta"}, {"s", s}, {"c", coef}, {"t", t}};
              else a = {{"op", "msa"}, {"s", s}, {"c", coef}, {"t", t}};
            } else {
              std::vector<int> v = rand_vec(5);
              if (rnd(3) == 0) {
                // a range that cancels the target (additions that zero entries are where lazy columns differ)
                auto content = m.m().get_column(t).get_content(NR);
                pending = false;
                for (int r = 0; r < NR; ++r) v[r] = (P - static_cast<int>(static_cast<unsigned>(content[r])) % P) % P;
                if (rnd(2) == 0) v[rnd(NR)] = rnd(P);
                if (kind != 1) coef = 1;
              }
              const char* ords[3] = {"asc", "desc", "rot"};
              const char* o = Mdl::UnorderedRangeOK ? ords[rnd(3)] : "asc";
              if (kind == 1) a = {{"op", "add_r"}, {"v", jarr(v)}, {"t", t}, {"o", o}};
              else if (kind == 3) a = {{"op", "mta_r"}, {"v", jarr(v)}, {"c", coef}, {"t", t}, {"o", o}};
              else a = {{"op", "msa_r"}, {"v", jarr(v)}, {"c", coef}, {"t", t}, {"o", o}};
            }
          } else if (c < 70) {
            if (live.empty()) continue;
            a = {{"op", "zero_entry"}, {"c", pick()}, {"r", rnd(NR)}};
          } else if (c < 73) {
            if (live.empty()) continue;
            a = {{"op", "zero_col"}, {"c", pick()}};
          } else if (c < 80) {
            if (live.empty()) continue;
            unsigned x = pick(), y = pick();
            a = {{"op", "swap_cols"}, {"a", std::min(x, y)}, {"b", std::max(x, y)}};
          } else if (c < 90) {
            int x = rnd(NR), y = rnd(NR);
            a = {{"op", "swap_rows"}, {"a", std::min(x, y)}, {"b", std::max(x, y)}};
          } else if (c < 94) {
            int r = rnd(NR);
            bool empty = true;
            for (unsigned cc : live) if (!entry_zero(cc, static_cast<unsigned>(r))) empty = false;
            if (!empty) continue;
            a = {{"op", "erase_row"}, {"r", r}};
          } else {
            a = {{"op", "read"}};
          }
          std::string op(a.at("op").as_string());
          if (op != "read" && (!m.applicable(a) || m.risky(a))) continue;
          // ---- steering around the triggers of known findings (VF_AVOID) ----
          bool isrange = op == "add_r" || op == "mta_r" || op == "msa_r";
          if (HEAP && !Mdl::Z2 && avoid("C09-heap-msa-coefficient") && (op == "msa" || op == "msa_r") &&
              col_zero(static_cast<unsigned>(geti(a, "t"))) && geti(a, "c") % P > 1) continue;
          if (VEC && op == "zero_entry") {
            bool z = entry_zero(static_cast<unsigned>(geti(a, "c")), static_cast<unsigned>(geti(a, "r")));
            if (z && avoid("C09-vector-zero-entry-absent")) continue;
            if (!z && (avoid("C09-vector-add-from-lazy-source") || (Mdl::RA && avoid("C09-vector-zero-entry-row")))) continue;
          }
          if (Mdl::Swaps) {
            unsigned ncols = static_cast<unsigned>(m.m().get_number_of_columns());
            if (op == "swap_rows" && geti(a, "a") != geti(a, "b")) {
              if (avoid("C09-swap-order-rows-partial-reset") && static_cast<unsigned>(geti(a, "b")) >= ncols) continue;
              if (Mdl::MapC && avoid("C09-swap-rows-map-erase") && (m.reg.count(static_cast<unsigned>(geti(a, "a"))) != m.reg.count(static_cast<unsigned>(geti(a, "b"))))) continue;
            }
            if ((op == "swap_rows" || op == "swap_cols") && Mdl::MapC && holes && avoid("C09-swap-order-rows-holes")) continue;
            if (op == "swap_cols" && Mdl::RA && geti(a, "a") != geti(a, "b") &&
                (avoid("C09-swap-columns-row-access-index") || avoid("C09-swap-columns-set-rows"))) continue;
            if (pending && avoid("C09-swap-order-rows-partial-reset") && (op == "remove_col" || op == "remove_last")) continue;
            if (pending && isrange && avoid("C09-range-add-pending-swaps")) continue;
          }
          act = a;
        }
        if (act.empty()) act = {{"op", "read"}};
        std::string op(act.at("op").as_string());
        bj::object ev = act;
        bool full = op == "read" || rnd(3) == 0;
        try {
          if (op != "read") m.apply(act);
        } catch (const std::exception& e) { ev["exception"] = e.what(); }
        if (op == "swap_rows" || op == "swap_cols") pending = true;
        if (op == "insert" || op == "insert_at") pending = false;
        if (Mdl::Swaps && pending && (avoid("C09-swap-order-rows-partial-reset") || avoid("C09-swap-order-rows-holes"))) {
          // with these findings listed, stale permutations are not left pending while columns come and go
          if (rnd(2) == 0) full = true;
        }
        ev["map"] = Mdl::MapC;
        ev["nc"] = static_cast<std::int64_t>(m.m().get_number_of_columns());
        try {
          if (full) {
            bj::object o = m.observe_now();
            pending = false;
            bj::array cols;
            for (auto& cv : o.at("cols_set").as_array()) {
              const bj::object& c = cv.as_object();
              if (c.find("exception") != c.end()) { ev["exception"] = c.at("exception"); continue; }
              cols.push_back(bj::array{c.at("c"), c.at("v"), c.at("it")});
            }
            ev["cols"] = cols;
            if (Mdl::RA) {
              bj::array rows;
              for (auto& rv : o.at("rows").as_array()) {
                bj::array es;
                for (auto& e : rv.as_object().at("e_set").as_array()) es.push_back(bj::array{e.as_object().at("c"), e.as_object().at("x")});
                rows.push_back(bj::array{rv.as_object().at("r"), es});
              }
              ev["rows"] = rows;
            }
            ev["errors"] = o.at("errors");
            if (!o.at("holes_ok").as_bool()) ev["errors"] = bj::array{"hole of a vector container does not read as an empty column"};
          }
          bj::array ze, zc;
          for (unsigned c : m.live) {
            bj::array z;
            for (unsigned r = 0; r < m.rb_ze(); ++r) z.push_back(entry_zero(c, r));
            ze.push_back(bj::array{c, z});
            zc.push_back(bj::array{c, col_zero(c)});
          }
          ev["ze"] = ze;
          ev["zc"] = zc;
        } catch (const std::exception& e) { ev["exception"] = e.what(); }
        tr.emit(ev);
      }
    }
  }
};

int main(int argc, char** argv) {
  if (argc < 5) { std::cerr << "usage: dense_record <outdir> <seed> <executions> <steps>" << std::endl; return 2; }
  dense_globals_from_env();
  if (const char* e = std::getenv("VF_AVOID")) {
    std::stringstream ss(e);
    std::string t;
    while (std::getline(ss, t, ',')) if (!t.empty()) g_avoid.insert(t);
  }
  Recorder r{argv[1], std::strtoull(argv[2], nullptr, 10), std::atoi(argv[3]), std::atoi(argv[4]), 8};
  if (const char* e = std::getenv("VF_NC")) r.NC = std::atoi(e);
  dense_for_each_config(r);
  return 0;
}
