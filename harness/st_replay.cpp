// Replays every transition of the MC_SimplexTree state graph on real Simplex_trees, one configuration
// (option set x label map) after the other.  VF_GROUP selects a subset of configurations per binary.
#include "st_model.hpp"

using namespace vf;

template <class O, class L>
void run(ReplayCtx& ctx, const char* oname) {
  using M = StModel<O, L>;
  M::cfgname() = std::string(oname) + "/" + L::name();
  replay_config<M>(ctx);
}
template <class O>
void run_both(ReplayCtx& ctx, const char* oname) {
  const char* l = std::getenv("VF_LABELS");
  std::string ls = l ? l : "id";
  if (ls == "id") run<O, LabelId>(ctx, oname);
  if (ls == "gap" && !O::contiguous_vertices) run<O, LabelGap>(ctx, oname);
}

struct Low_options_ext : Gudhi::Simplex_tree_options_default {  // test/simplex_tree_extended_filtration_unit_test.cpp
  typedef float Filtration_value;
  typedef std::uint8_t Vertex_handle;
};
struct Low_options_ser : Gudhi::Simplex_tree_options_full_featured {  // test/simplex_tree_serialization_unit_test.cpp
  static const bool store_filtration = false;
  static const bool store_key = true;
  typedef std::uint8_t Vertex_handle;
  typedef std::uint8_t Simplex_key;
};

int main(int argc, char** argv) {
  ReplayCtx ctx = replay_setup(argc, argv);
  if (const char* e = std::getenv("VF_NV")) g_nv = std::atoi(e);
  if (const char* e = std::getenv("VF_MAXDIM")) g_maxdim = std::atoi(e);
#if VF_GROUP == 0
  run_both<StOpt<false, false, false>>(ctx, "S0L0C0");
  run_both<StOpt<false, false, true>>(ctx, "S0L0C1");
  run_both<Gudhi::Simplex_tree_options_default>(ctx, "default");
#elif VF_GROUP == 1
  run_both<StOpt<false, true, false>>(ctx, "S0L1C0");
  run_both<StOpt<false, true, true>>(ctx, "S0L1C1");
  run_both<Gudhi::Simplex_tree_options_fast_persistence>(ctx, "fast_persistence");
#elif VF_GROUP == 2
  run_both<StOpt<true, false, false>>(ctx, "S1L0C0");
  run_both<StOpt<true, false, true>>(ctx, "S1L0C1");
  run_both<Gudhi::Simplex_tree_options_minimal>(ctx, "minimal");
#elif VF_GROUP == 3
  run_both<StOpt<true, true, false>>(ctx, "S1L1C0");
  run_both<StOpt<true, true, true>>(ctx, "S1L1C1");
  run_both<Gudhi::Simplex_tree_options_full_featured>(ctx, "full_featured");
#elif VF_GROUP == 4
  run_both<Low_options_ext>(ctx, "Low_options_ext");
  run_both<Low_options_ser>(ctx, "Low_options_ser");
#endif
  std::fclose(ctx.out);
  return 0;
}
