// C11: the two drivers in one binary (they share every instantiation of the engine, which is what takes the time to
// compile).   ripser_harness cases <args of ripser_cases>   |   ripser_harness record <args of ripser_record>
#define RIPS_NO_MAIN
#include "ripser_cases.cpp"
#include "ripser_record.cpp"

int main(int argc, char** argv) {
  if (argc < 2) { std::cerr << "usage: ripser_harness cases|record ..." << std::endl; return 2; }
  const std::string mode = argv[1];
  if (mode == "cases") return cases_main(argc - 1, argv + 1);
  if (mode == "record") return record_main(argc - 1, argv + 1);
  std::cerr << "unknown mode " << mode << std::endl;
  return 2;
}
