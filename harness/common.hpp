// Common layer of the C++ conformance harnesses: JSON helpers (boost::json), canonical
// comparison of observations, the replay loop (TLC behaviours -> real objects) and the
// NDJSON trace writer (real executions -> Trace_* specifications).
#pragma once
#include <boost/json.hpp>

#include <algorithm>
#include <cmath>
#include <csignal>
#include <cstdint>
#include <cstdio>
#include <cstdlib>
#include <fstream>
#include <functional>
#include <iostream>
#include <limits>
#include <map>
#include <random>
#include <set>
#include <sstream>
#include <string>
#include <type_traits>
#include <memory>
#include <vector>
#include <unistd.h>
#include <sys/wait.h>

namespace bj = boost::json;

#if defined(__SANITIZE_ADDRESS__)
#define VF_HAS_ASAN 1
#elif defined(__has_feature)
#if __has_feature(address_sanitizer)
#define VF_HAS_ASAN 1
#endif
#endif
#ifdef VF_HAS_ASAN
extern "C" void __asan_set_error_report_callback(void (*)(const char*));
extern "C" void __sanitizer_set_death_callback(void (*)(void));
#endif

namespace vf {

// AddressSanitizer reports are captured (build with -fsanitize-recover=address, run with ASAN_OPTIONS=halt_on_error=0)
// and attached to the step during which they were raised
inline std::string& san_report() { static std::string s; return s; }
inline void san_callback(const char* r) { if (san_report().size() < 1500) san_report() += std::string(r).substr(0, 700); }

constexpr std::int64_t INF_CODE = 1000000;  // +infinity in the models

inline bool ends_with(const std::string& s, const char* suf) {
  std::string t(suf);
  return s.size() >= t.size() && s.compare(s.size() - t.size(), t.size(), t) == 0;
}

// canonical form: object keys sorted; arrays under keys ending in "_set" sorted by serialization
inline std::string ser(const bj::value& v);
inline bj::value canon(const bj::value& v, bool is_set = false) {
  if (v.is_object()) {
    std::vector<std::pair<std::string, bj::value>> kv;
    for (auto& p : v.as_object()) kv.emplace_back(std::string(p.key()), canon(p.value(), ends_with(std::string(p.key()), "_set")));
    std::sort(kv.begin(), kv.end(), [](auto& a, auto& b) { return a.first < b.first; });
    bj::object o;
    for (auto& p : kv) o[p.first] = std::move(p.second);
    return o;
  }
  if (v.is_array()) {
    std::vector<std::pair<std::string, bj::value>> el;
    for (auto& e : v.as_array()) {
      bj::value c = canon(e, false);
      el.emplace_back(bj::serialize(c), std::move(c));
    }
    if (is_set) std::sort(el.begin(), el.end(), [](auto& a, auto& b) { return a.first < b.first; });
    bj::array a;
    for (auto& p : el) a.push_back(std::move(p.second));
    return a;
  }
  if (v.is_double()) {  // integral doubles -> integers
    double d = v.as_double();
    if (std::floor(d) == d && std::fabs(d) < 1e15) return bj::value(static_cast<std::int64_t>(d));
  }
  if (v.is_uint64()) return bj::value(static_cast<std::int64_t>(v.as_uint64()));
  return v;
}
inline std::string ser(const bj::value& v) { return bj::serialize(canon(v)); }

struct Diff {
  std::string path;
  bj::value exp, got;
};

// both values canonical
inline void diff(const bj::value& e, const bj::value& g, const std::string& path, std::vector<Diff>& out, std::size_t limit = 6) {
  if (out.size() >= limit) return;
  if (e.is_object() && g.is_object()) {
    auto& eo = e.as_object();
    auto& go = g.as_object();
    for (auto& p : eo) {
      auto it = go.find(p.key());
      if (it == go.end()) continue;  // keys only the spec has are ignored (the harness does not observe them)
      diff(p.value(), it->value(), path + "." + std::string(p.key()), out, limit);
    }
    for (auto& p : go)
      if (eo.find(p.key()) == eo.end()) out.push_back({path + "." + std::string(p.key()), nullptr, p.value()});
    return;
  }
  if (e.is_array() && g.is_array() && e.as_array().size() == g.as_array().size()) {
    auto& ea = e.as_array();
    auto& ga = g.as_array();
    for (std::size_t i = 0; i < ea.size(); ++i) {
      std::string sub = path + "[" + std::to_string(i) + "]";
      if (ea[i].is_object()) {  // name the element by its "s" / "c" / "d" field when it has one
        for (const char* k : {"s", "c", "d"}) {
          auto it = ea[i].as_object().find(k);
          if (it != ea[i].as_object().end()) { sub = path + "[" + k + "=" + bj::serialize(it->value()) + "]"; break; }
        }
      }
      diff(ea[i], ga[i], sub, out, limit);
    }
    return;
  }
  if (bj::serialize(e) != bj::serialize(g)) out.push_back({path, e, g});
}

inline bj::value fv(double x) {  // filtration value -> model value
  if (std::isinf(x) && x > 0) return bj::value(INF_CODE);
  if (std::isinf(x)) return bj::value(-INF_CODE);
  if (std::isnan(x)) return bj::value("nan");
  if (std::floor(x) == x) return bj::value(static_cast<std::int64_t>(x));
  return bj::value(x);
}
inline double vf_to_double(const bj::value& v) {
  std::int64_t i = v.is_int64() ? v.as_int64() : static_cast<std::int64_t>(v.to_number<double>());
  if (i == INF_CODE) return std::numeric_limits<double>::infinity();
  if (i == -INF_CODE) return -std::numeric_limits<double>::infinity();
  return static_cast<double>(i);
}

inline std::vector<int> ints(const bj::value& v) {
  std::vector<int> r;
  for (auto& e : v.as_array()) r.push_back(static_cast<int>(e.to_number<std::int64_t>()));
  return r;
}
template <class R>
inline bj::array jarr(const R& r) {
  bj::array a;
  for (auto&& x : r) a.emplace_back(x);
  return a;
}

inline std::vector<bj::value> read_ndjson(const std::string& path) {
  std::ifstream in(path);
  if (!in) { std::cerr << "cannot open " << path << std::endl; std::exit(2); }
  std::vector<bj::value> out;
  std::string line;
  while (std::getline(in, line)) {
    if (line.empty()) continue;
    out.push_back(bj::parse(line));
  }
  return out;
}

// ---------------------------------------------------------------------------------------------
// crash handling: a crash inside the library is reported as a deviation of the current step
struct CrashCtx {
  std::FILE* out = nullptr;
  std::string where;
};
inline CrashCtx& crash_ctx() { static CrashCtx c; return c; }
inline void crash_handler(int sig) {
  auto& c = crash_ctx();
  if (c.out) {
    std::fprintf(c.out, "{\"kind\":\"crash\",\"signal\":%d,\"where\":%s}\n", sig, bj::serialize(bj::value(c.where)).c_str());
    std::fflush(c.out);
  }
  _exit(3);
}
// the sanitizer is about to terminate the process on an error it cannot recover from: leave a crash record
inline void san_death_callback() {
  auto& c = crash_ctx();
  if (c.out) {
    std::fprintf(c.out, "{\"kind\":\"crash\",\"signal\":-1,\"sanitizer\":%s,\"where\":%s}\n",
                 bj::serialize(bj::value(san_report().substr(0, 300))).c_str(), bj::serialize(bj::value(c.where)).c_str());
    std::fflush(c.out);
    c.out = nullptr;
  }
}
inline void install_crash_handlers() {
  std::signal(SIGSEGV, crash_handler);
  std::signal(SIGABRT, crash_handler);
  std::signal(SIGFPE, crash_handler);
  std::signal(SIGBUS, crash_handler);
  std::signal(SIGILL, crash_handler);
  std::signal(SIGALRM, crash_handler);   // watchdog (step_watchdog): an operation that does not terminate is a crash record
}
// Progress watchdog: armed before every replayed behaviour / step; a library call that loops (a reduction that never
// terminates) ends the configuration with a crash record of signal 14 instead of hanging the check.
inline void step_watchdog() {
  static int secs = [] { const char* e = std::getenv("VF_STEP_TIMEOUT"); return e ? std::atoi(e) : 60; }();
  alarm(static_cast<unsigned>(secs));
}
// for forked probe children: die silently when the probed operation does not terminate
inline void child_watchdog(unsigned secs = 20) { std::signal(SIGALRM, SIG_DFL); alarm(secs); }

// ---------------------------------------------------------------------------------------------
// Replay of TLC behaviours.
//   Model concept:
//     static const char* name();
//     Model();                                   fresh object
//     bool applicable(const bj::object& act);    can this configuration execute the action at all
//     bool state_ok(const bj::object& obs);      may this configuration be in that abstract state
//     bj::object apply(const bj::object& act);   executes, returns observed fields of the action (ret, added_set..)
//     bj::object observe();                      projection through the public read API
//     void mask(bj::object& obs)                 (optional) remove keys this configuration cannot observe
// optional Model::set_final(bool): told whether the next observation is the last one of the behaviour
template <class M, class = void> struct has_set_final : std::false_type {};
template <class M> struct has_set_final<M, std::void_t<decltype(std::declval<M&>().set_final(true))>> : std::true_type {};
template <class M> inline void set_final(M& m, bool f) { if constexpr (has_set_final<M>::value) m.set_final(f); }

// optional Model::set_expected(const bj::object&): the expected observation of the step, for observables the
// specification constrains by a predicate (membership in an emitted set) instead of determining them
template <class M, class = void> struct has_set_expected : std::false_type {};
template <class M> struct has_set_expected<M, std::void_t<decltype(std::declval<M&>().set_expected(std::declval<const bj::object&>()))>> : std::true_type {};
template <class M> inline void set_expected(M& m, const bj::object& o) { if constexpr (has_set_expected<M>::value) m.set_expected(o); }

struct ReplayStats {
  std::string cfg;
  long behaviours = 0, steps = 0, skipped = 0, deviations = 0, group = -1;
  std::vector<std::string> hist;  // operations of the current behaviour executed before the step being checked
};

struct ReplayCtx {
  std::FILE* trace = nullptr;      // VF_TRACE_OUT: every path step is also written as a trace event (act + observation)
  std::vector<bj::value> states;   // index -> canonical expected obs
  std::vector<bj::value> groups;
  std::FILE* out;
  int shard = 0, nshards = 1;
  std::size_t max_dev_report = 300;
};

template <class Model>
bool check_step(Model& m, const bj::object& act, const bj::object& got_act, const bj::value& expected_obs, ReplayCtx& ctx,
                ReplayStats& st, std::int64_t u, std::int64_t k, int step, const char* phase) {
  std::vector<Diff> d;
  bj::value ca = canon(bj::value(act));
  bj::value cg = canon(bj::value(got_act));
  for (auto& p : cg.as_object()) {
    auto it = ca.as_object().find(p.key());
    if (it == ca.as_object().end()) {
      // an exception the specification does not announce is a deviation of its own
      if (p.key() == "exception" || p.key() == "overread") d.push_back({std::string("act.") + std::string(p.key()), nullptr, p.value()});
      continue;
    }
    diff(it->value(), p.value(), std::string("act.") + std::string(p.key()), d);
  }
  set_expected(m, expected_obs.as_object());
  bj::object obs = m.observe();
  if (!san_report().empty()) {   // memory error reported by the sanitizer during this step (operation or observation)
    std::string rep = san_report();
    san_report().clear();
    std::string first = rep.substr(0, rep.find('\n'));
    std::size_t at = rep.find(" in ");
    d.push_back({"sanitizer", nullptr, bj::value(first + (at != std::string::npos ? " |" + rep.substr(at, 160) : ""))});
  }
  bj::object eo = expected_obs.as_object();  // already canonical (replay_setup)
  m.mask(eo);
  m.mask(obs);
  diff(bj::value(eo), canon(bj::value(obs)), "obs", d);
  if (d.empty()) return true;
  st.deviations++;
  if (static_cast<std::size_t>(st.deviations) <= ctx.max_dev_report) {
    bj::object o;
    o["kind"] = "deviation";
    o["cfg"] = st.cfg;
    o["g"] = st.group;  // line of the groups file (0-based): replays the behaviour
    o["u"] = u;
    o["k"] = k;
    o["step"] = step;
    o["phase"] = phase;
    o["act"] = act;
    { bj::array h; for (auto& x : st.hist) h.emplace_back(x); o["hist"] = h; }
    bj::array da;
    for (auto& x : d) da.push_back(bj::object{{"path", x.path}, {"exp", x.exp}, {"got", x.got}});
    o["diffs"] = da;
    std::fprintf(ctx.out, "%s\n", bj::serialize(o).c_str());
  }
  return false;
}

template <class Model>
void replay_config_inproc(ReplayCtx& ctx);

// Each configuration runs in a forked child so that a crash inside the library (reported by the crash
// handler as a "crash" record) does not lose the configurations that follow.  VF_FORK=0 disables.
template <class Model>
void replay_config(ReplayCtx& ctx) {
  const char* e = std::getenv("VF_FORK");
  if (e && std::string(e) == "0") { replay_config_inproc<Model>(ctx); return; }
  std::fflush(ctx.out);
  pid_t pid = fork();
  if (ctx.trace) std::fflush(ctx.trace);
  if (pid == 0) { replay_config_inproc<Model>(ctx); std::fflush(ctx.out); if (ctx.trace) std::fflush(ctx.trace); _exit(0); }
  int status = 0;
  waitpid(pid, &status, 0);
  if (WIFSIGNALED(status) || (WIFEXITED(status) && WEXITSTATUS(status) != 0 && WEXITSTATUS(status) != 3 && WEXITSTATUS(status) != 1)) {
    std::fprintf(ctx.out, "{\"kind\":\"crash\",\"signal\":%d,\"where\":%s}\n", WIFSIGNALED(status) ? WTERMSIG(status) : -WEXITSTATUS(status),
                 bj::serialize(bj::value(std::string(Model::name()) + " (child died without a report)")).c_str());
  }
  std::fflush(ctx.out);
}

template <class Model>
void replay_config_inproc(ReplayCtx& ctx) {
  ReplayStats st;
  st.cfg = Model::name();
  long gi = -1;
  for (auto& gv : ctx.groups) {
    ++gi;
    if (gi % ctx.nshards != ctx.shard) continue;
    st.group = gi;
    const bj::object& g = gv.as_object();
    std::int64_t u = g.at("u").as_int64();
    const bj::array& path = g.at("path").as_array();
    const bj::array& edges = g.at("edges").as_array();
    // can this configuration follow the path at all?
    bool ok = true;
    {
      Model probe;
      for (auto& sv : path) {
        const bj::object& s = sv.as_object();
        if (!probe.applicable(s.at("act").as_object())) { ok = false; break; }
        if (s.at("to").as_int64() >= 0 && !probe.state_ok(ctx.states[s.at("to").as_int64()].as_object())) { ok = false; break; }
      }
    }
    if (!ok) { st.skipped += edges.size(); continue; }
    // 1. the path itself, every step checked
    bool path_ok = true;
    {
      Model m;
      int step = 0;
      st.hist.clear();
      if (ctx.trace) { std::fprintf(ctx.trace, "{\"op\":\"reset\",\"cfg\":%s}\n", bj::serialize(bj::value(st.cfg)).c_str()); std::fflush(ctx.trace); }
      for (auto& sv : path) {
        const bj::object& s = sv.as_object();
        crash_ctx().where = st.cfg + " g=" + std::to_string(gi) + " path u=" + std::to_string(u) + " step=" + std::to_string(step);
        step_watchdog();
        set_final(m, edges.empty() && step + 1 == static_cast<int>(path.size()));
        bj::object got;
        try { got = m.apply(s.at("act").as_object()); } catch (const std::exception& e) { got["exception"] = e.what(); }
        if (got.contains("inapplicable")) { path_ok = false; break; }  // the configuration cannot go on (not a deviation)
        st.steps++;
        if (s.at("to").as_int64() < 0) {
          // free-running behaviour (no expected state from a bounded model): only recorded, validated by a Trace_* spec
          if (ctx.trace) {
            bj::object ev = s.at("act").as_object();
            for (auto& pr : got) ev[std::string("got_") + std::string(pr.key())] = pr.value();
            ev["obs"] = m.observe();
            if (!san_report().empty()) { ev["sanitizer"] = san_report().substr(0, 300); san_report().clear(); }
            std::fprintf(ctx.trace, "%s\n", bj::serialize(canon(bj::value(ev))).c_str());
            std::fflush(ctx.trace);   // a crash in a later step must not leave half a line in the file
          }
          st.hist.emplace_back(s.at("act").as_object().at("op").as_string());
          ++step;
          continue;
        }
        if (!check_step(m, s.at("act").as_object(), got, ctx.states[s.at("to").as_int64()], ctx, st, u, -1, step, "path")) { path_ok = false; break; }
        st.hist.emplace_back(s.at("act").as_object().at("op").as_string());
        ++step;
      }
    }
    if (!path_ok) { st.skipped += edges.size(); continue; }  // reported; python re-routes around the deviating tree edge
    // 2. one behaviour per outgoing edge
    for (auto& ev : edges) {
      const bj::object& e = ev.as_object();
      const bj::object& act = e.at("act").as_object();
      std::int64_t k = e.at("k").as_int64();
      step_watchdog();
      crash_ctx().where = st.cfg + " g=" + std::to_string(gi) + " edge u=" + std::to_string(u) + " k=" + std::to_string(e.at("k").as_int64());
      Model m;
      if (!m.applicable(act) || !m.state_ok(ctx.states[e.at("to").as_int64()].as_object())) { st.skipped++; continue; }
      st.hist.clear();
      for (auto& sv : path) st.hist.emplace_back(sv.as_object().at("act").as_object().at("op").as_string());
      set_final(m, false);
      bool inapp = false;
      for (auto& sv : path) if (m.apply(sv.as_object().at("act").as_object()).contains("inapplicable")) inapp = true;
      if (inapp) { st.skipped++; continue; }
      set_final(m, true);
      crash_ctx().where = st.cfg + " g=" + std::to_string(gi) + " edge u=" + std::to_string(u) + " k=" + std::to_string(k);
      bj::object got;
      try { got = m.apply(act); } catch (const std::exception& ex) { got["exception"] = ex.what(); }
      if (got.contains("inapplicable")) { st.skipped++; continue; }
      st.steps += path.size() + 1;
      st.behaviours++;
      check_step(m, act, got, ctx.states[e.at("to").as_int64()], ctx, st, u, k, static_cast<int>(path.size()), "edge");
    }
  }
  alarm(0);
  bj::object o{{"kind", "summary"}, {"cfg", st.cfg}, {"behaviours", st.behaviours}, {"steps", st.steps},
               {"skipped", st.skipped}, {"deviations", st.deviations}};
  std::fprintf(ctx.out, "%s\n", bj::serialize(o).c_str());
  std::fflush(ctx.out);
}

inline ReplayCtx replay_setup(int argc, char** argv) {
  if (argc < 4) { std::cerr << "usage: " << argv[0] << " states.ndjson groups.ndjson out.ndjson [shard nshards]" << std::endl; std::exit(2); }
  ReplayCtx ctx;
  for (auto& v : read_ndjson(argv[1])) {
    std::size_t i = v.as_object().at("i").as_int64();
    if (ctx.states.size() <= i) ctx.states.resize(i + 1);
    ctx.states[i] = canon(v.as_object().at("obs"));
  }
  ctx.groups = read_ndjson(argv[2]);
  ctx.out = std::fopen(argv[3], "w");
  if (argc >= 6) { ctx.shard = std::atoi(argv[4]); ctx.nshards = std::atoi(argv[5]); }
  if (const char* t = std::getenv("VF_TRACE_OUT")) {
    std::string tp = std::string(t) + "." + std::to_string(ctx.shard);
    ctx.trace = std::fopen(tp.c_str(), "w");
  }
  crash_ctx().out = ctx.out;
  install_crash_handlers();
#ifdef VF_HAS_ASAN
  __asan_set_error_report_callback(san_callback);
  __sanitizer_set_death_callback(san_death_callback);
#endif
  return ctx;
}

// ---------------------------------------------------------------------------------------------
// trace writer
struct Trace {
  std::FILE* f;
  long n = 0;
  explicit Trace(const std::string& path) : f(std::fopen(path.c_str(), "w")) {
    if (!f) { std::cerr << "cannot write " << path << std::endl; std::exit(2); }
  }
  ~Trace() { if (f) std::fclose(f); }
  void emit(const bj::object& o) { std::fprintf(f, "%s\n", bj::serialize(canon(bj::value(o))).c_str()); ++n; }
};

}  // namespace vf
