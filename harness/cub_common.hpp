// Binding of specs/Cubical.tla to Gudhi::cubical_complex::Bitmap_cubical_complex (over the plain and the periodic
// base) and Persistent_cohomology<.., Field_Zp>, through the public API only.  observe() builds the complex from
// the constructor arguments and reads everything the specification talks about.
#pragma once
#include "common.hpp"

#include <gudhi/Bitmap_cubical_complex.h>
#include <gudhi/Bitmap_cubical_complex_base.h>
#include <gudhi/Bitmap_cubical_complex_periodic_boundary_conditions_base.h>
#include <gudhi/Persistent_cohomology.h>

namespace cub {

using Base = Gudhi::cubical_complex::Bitmap_cubical_complex_base<double>;
using Per = Gudhi::cubical_complex::Bitmap_cubical_complex_periodic_boundary_conditions_base<double>;
using CBase = Gudhi::cubical_complex::Bitmap_cubical_complex<Base>;
using CPer = Gudhi::cubical_complex::Bitmap_cubical_complex<Per>;
using Field = Gudhi::persistent_cohomology::Field_Zp;

struct Input {
  std::string var;             // "base" | "periodic"
  std::vector<unsigned> dims;  // constructor argument `dimensions`
  std::vector<bool> per;       // periodic directions (all false for "base")
  std::vector<double> cells;   // input values, Fortran order
  bool top;                    // input_top_cells
};

template <class C>
std::unique_ptr<C> build(const Input& in);
template <>
inline std::unique_ptr<CBase> build<CBase>(const Input& in) {
  return std::make_unique<CBase>(in.dims, in.cells, in.top);
}
template <>
inline std::unique_ptr<CPer> build<CPer>(const Input& in) {
  return std::make_unique<CPer>(in.dims, in.cells, in.per, in.top);
}

inline bj::array jsz(const std::vector<std::size_t>& v) {
  bj::array a;
  for (auto x : v) a.emplace_back(static_cast<std::int64_t>(x));
  return a;
}

// one persistence run: bag of (dimension of the birth cell, birth value, death value), sorted; Betti numbers
template <class C>
bj::object persistence(const Input& in, int p, bool dim_max) {
  auto cpx = build<C>(in);  // a fresh complex: the computation writes keys into it
  Gudhi::persistent_cohomology::Persistent_cohomology<C, Field> pc(*cpx, dim_max);
  pc.init_coefficients(p);
  pc.compute_persistent_cohomology();
  std::vector<std::array<std::int64_t, 3>> pts;
  for (auto& pr : pc.get_persistent_pairs()) {
    auto b = std::get<0>(pr), d = std::get<1>(pr);
    bj::value bv = vf::fv(cpx->filtration(b));
    bj::value dv = d == cpx->null_simplex() ? bj::value(vf::INF_CODE) : vf::fv(cpx->filtration(d));
    pts.push_back({static_cast<std::int64_t>(cpx->dimension(b)), bv.is_int64() ? bv.as_int64() : -777777,
                   dv.is_int64() ? dv.as_int64() : -777777});
  }
  std::sort(pts.begin(), pts.end());
  bj::array bars;
  for (std::size_t i = 0; i < pts.size();) {
    std::size_t j = i;
    while (j < pts.size() && pts[j] == pts[i]) ++j;
    bars.push_back(bj::object{{"dim", pts[i][0]}, {"b", pts[i][1]}, {"d", pts[i][2]}, {"n", static_cast<std::int64_t>(j - i)}});
    i = j;
  }
  bj::array betti;
  for (int x : pc.betti_numbers()) betti.emplace_back(x);
  return bj::object{{"p", p}, {"diag", bars}, {"betti", betti}};
}

template <class C>
bj::object observe_t(const Input& in, const std::vector<int>& primes) {
  auto cpx = build<C>(in);
  C& K = *cpx;
  bj::object o;
  const std::size_t N = K.num_simplices();
  o["N"] = static_cast<std::int64_t>(N);
  o["size"] = static_cast<std::int64_t>(K.size());
  o["D"] = static_cast<std::int64_t>(K.dimension());
  bj::array dim, val, bd, cbd, inc;
  bool api_equal = true;
  std::string inc_err;
  for (std::size_t c = 0; c < N; ++c) {
    dim.emplace_back(static_cast<std::int64_t>(K.dimension(c)));
    if (K.dimension(c) != K.get_dimension_of_a_cell(c)) api_equal = false;
    val.push_back(vf::fv(K.filtration(c)));
    if (K.filtration(c) != K.get_cell_data(c)) api_equal = false;
    std::vector<std::size_t> b = K.boundary_simplex_range(c);
    if (b != K.get_boundary_of_a_cell(c) || b != K.boundary_range(c)) api_equal = false;
    bd.push_back(jsz(b));
    std::vector<std::size_t> cb = K.get_coboundary_of_a_cell(c);
    if (cb != K.coboundary_range(c)) api_equal = false;
    cbd.push_back(jsz(cb));
    bj::array ic;
    for (auto f : b) {
      if (f >= N) { ic.emplace_back(0); continue; }
      try {
        ic.emplace_back(K.compute_incidence_between_cells(c, f));
      } catch (const std::exception& e) {
        ic.emplace_back(0);
        inc_err = e.what();
      }
    }
    inc.push_back(ic);
  }
  o["dim"] = dim; o["val"] = val; o["bd"] = bd; o["cbd"] = cbd; o["inc"] = inc;
  o["api_equal"] = api_equal;
  if (!inc_err.empty()) o["inc_exception"] = inc_err;
  bj::array tops, verts;
  bool has_top = true;  // a top dimensional cell exists iff every direction has at least one top cell
  for (std::size_t i = 0; i < in.dims.size(); ++i)
    if (!in.top && in.dims[i] - (in.per[i] ? 0 : 1) == 0) has_top = false;
  if (has_top) {
    std::size_t guard = 0;
    for (auto t : K.top_dimensional_cells_range()) { tops.emplace_back(static_cast<std::int64_t>(t)); if (++guard > N) break; }
  }
  o["has_top"] = has_top;
  {
    std::size_t guard = 0;
    for (auto v : K.vertices_range()) { verts.emplace_back(static_cast<std::int64_t>(v)); if (++guard > N) break; }
  }
  o["tops"] = tops; o["verts"] = verts;
  {   // all_cells_range is 0 .. N-1 in order (for_each_vertex is @private and only meant for the non periodic base: not judged)
    std::size_t k = 0;
    bool ok = true;
    for (auto c : K.all_cells_range()) { if (static_cast<std::size_t>(c) != k) ok = false; if (++k > N) break; }
    if (k != N) ok = false;
    if (!ok) o["api_equal"] = false;
  }
  // get_top_dimensional_coface_of_a_cell (top-cell input) / get_vertex_of_a_cell (vertex input): "a top-dimensional cell
  // [a vertex] that is incident to the input cell and has the same filtration value ... an arbitrary one"
  {
    bj::array look;
    for (std::size_t c = 0; c < N; ++c) {
      std::int64_t r = -1;
      try {
        if (in.top) { if (has_top) r = static_cast<std::int64_t>(K.get_top_dimensional_coface_of_a_cell(c)); }
        else r = static_cast<std::int64_t>(K.get_vertex_of_a_cell(c));
      } catch (const std::exception&) { r = -2; }
      look.emplace_back(r);
    }
    o["lookup"] = look;
  }
  o["order"] = jsz(K.filtration_simplex_range());
  {  // simplex(k) is the k-th cell of the order once the filtration is initialized
    bool ok = true;
    const auto& ord = K.filtration_simplex_range();
    for (std::size_t k = 0; k < ord.size(); ++k) if (K.simplex(k) != ord[k]) ok = false;
    o["simplex_of_key"] = ok;
  }
  // Values may be changed after construction (get_cell_data is a reference, impose_lower_star_filtration propagates the
  // top cells, initialize_filtration recomputes the order): lowering one top cell below all others and refreshing must
  // give the complex, values and order of a complex built from the modified input.  K has a live sorted cache here.
  if (in.top && has_top && !tops.empty()) {
    bool finite = true;
    for (double x : in.cells) if (!std::isfinite(x)) finite = false;
    if (finite && tops.size() == in.cells.size()) {
      std::size_t t = 0;
      double mn = in.cells[0];
      for (std::size_t i = 0; i < in.cells.size(); ++i) { if (in.cells[i] > in.cells[t]) t = i; mn = std::min(mn, in.cells[i]); }
      Input in2 = in;
      in2.cells[t] = mn - 1;
      K.get_cell_data(static_cast<std::size_t>(tops[t].as_int64())) = mn - 1;
      K.impose_lower_star_filtration();
      K.initialize_filtration();
      auto fresh = build<C>(in2);
      bool ok = true;
      for (std::size_t c = 0; c < N; ++c) if (K.filtration(c) != fresh->filtration(c)) ok = false;
      if (std::vector<std::size_t>(K.filtration_simplex_range()) != std::vector<std::size_t>(fresh->filtration_simplex_range())) ok = false;
      o["refresh_ok"] = ok;
    }
  }
  bj::array pers, pers_nomax;
  for (int p : primes) {
    pers.push_back(persistence<C>(in, p, true));
    pers_nomax.push_back(persistence<C>(in, p, false));
  }
  o["pers"] = pers; o["pers_nomax"] = pers_nomax;
  return o;
}

inline bj::object observe(const Input& in, const std::vector<int>& primes) {
  return in.var == "base" ? observe_t<CBase>(in, primes) : observe_t<CPer>(in, primes);
}

inline Input input_of(const bj::object& c) {
  Input in;
  in.var = std::string(c.at("var").as_string());
  for (auto& e : c.at("dims").as_array()) in.dims.push_back(static_cast<unsigned>(e.to_number<std::int64_t>()));
  for (auto& e : c.at("per").as_array()) in.per.push_back(e.as_bool());
  for (auto& e : c.at("vals").as_array()) in.cells.push_back(vf::vf_to_double(e));
  in.top = std::string(c.at("conv").as_string()) == "top";
  return in;
}

}  // namespace cub
