// Records random, precondition-respecting histories of real Skeleton_blocker_complex objects (abstract and
// geometric instantiation) as NDJSON traces for Trace_SkeletonBlocker.tla.
//   usage: skbl_record <outdir> <seed> <executions> <steps> <nv> <files>
// One event per call, written after the call returns: the action with its arguments and return value and the
// complete projection of the object (skbl_model.hpp, "light" level).  Every execution runs in a forked child;
// if the library aborts or crashes inside a call, the pending action is written with a "crash" field.
// The guards below are the guards of SkeletonBlocker.tla evaluated on the simplex set read through contains().
#include "skbl_model.hpp"

#include <sys/resource.h>
#include <sys/wait.h>

using namespace vf;

static std::FILE* g_f = nullptr;
static std::string g_pending;

static void on_crash(int sig) {
  if (g_f && !g_pending.empty()) {
    std::string s = g_pending;
    s.pop_back();  // '}'
    std::fprintf(g_f, "%s,\"crash\":%d}\n", s.c_str(), sig);
    std::fflush(g_f);
  }
  _exit(3);
}

struct View {  // abstract state read from the real object
  VSetSet K;
  VSet verts;
  bool has(const VSet& s) const { return K.count(s) > 0; }
  bool active(int v) const { return has({v}); }
};

static VSetSet blockers(const View& w, int nv) {
  VSetSet B;
  for (unsigned m = 1; m < (1u << nv); ++m) {
    VSet s;
    for (int i = 0; i < nv; ++i) if (m & (1u << i)) s.push_back(i);
    if (s.size() < 3 || w.has(s)) continue;
    bool ok = true;
    for (std::size_t i = 0; i < s.size() && ok; ++i) {
      VSet f(s);
      f.erase(f.begin() + i);
      if (!w.has(f)) ok = false;
    }
    if (ok) B.insert(s);
  }
  return B;
}

template <class Model>
void execution(Model& m, std::mt19937_64& rng, int steps, int nv, bool scripted = false) {
  auto rnd = [&](int k) { return static_cast<int>(rng() % static_cast<std::uint64_t>(k)); };
  auto emit = [&](bj::object ev) {
    ev["obs"] = m.observe();
    std::fprintf(g_f, "%s\n", bj::serialize(canon(bj::value(ev))).c_str());
    std::fflush(g_f);
  };
  g_pending.clear();
  emit(bj::object{{"op", "reset"}});
  int n = 0;  // handles given out so far
  int style = rnd(3);  // 0: mostly flag-like growth, 1: blockers through add_edge, 2: simplex by simplex
  // Scripted prologue (every fourth execution, 6 handles or more): a blocker {a} + alpha through the vertex that a
  // contraction keeps, alpha inside the link of the vertex that disappears, and two or three further neighbours of
  // a and alpha ("tips"): the contraction has to produce one new blocker per tip.
  std::vector<bj::object> script;
  if (scripted && nv >= 6) {
    std::vector<int> role(static_cast<std::size_t>(nv));
    for (int i = 0; i < nv; ++i) role[static_cast<std::size_t>(i)] = i;
    std::shuffle(role.begin(), role.end(), rng);
    const int a = role[0], b = role[1], x = role[2], y = role[3];
    const int ntips = std::min(nv - 4, 2 + rnd(2));
    for (int i = 0; i < 4 + ntips; ++i) script.push_back({{"op", "add_vertex"}});
    auto edge = [&](int u, int v) { script.push_back({{"op", "add_edge_wb"}, {"a", u}, {"b", v}}); };
    // handles are given out in increasing order: only handles below 4 + ntips exist, so the roles are drawn among them
    std::vector<int> h;
    for (int i = 0; i < 4 + ntips; ++i) h.push_back(i);
    std::shuffle(h.begin(), h.end(), rng);
    const int A = h[0], B = h[1], X = h[2], Y = h[3];
    (void)a; (void)b; (void)x; (void)y;
    edge(A, B); edge(A, X); edge(A, Y); edge(B, X); edge(B, Y); edge(X, Y);
    for (int t = 0; t < ntips; ++t) { const int T = h[static_cast<std::size_t>(4 + t)]; edge(A, T); edge(X, T); edge(Y, T); }
    VSet tri{A, X, Y};
    std::sort(tri.begin(), tri.end());
    script.push_back({{"op", "remove_star"}, {"s", jarr(tri)}, {"via", "simplex"}});
    script.push_back({{"op", "contract"}, {"a", A}, {"b", B}, {"via", rnd(2) ? "pair" : "edge"}});
  }
  for (int stp = 0; stp < steps; ++stp) {
    View w;
    for (unsigned mk = 1; mk < (1u << nv); ++mk) {
      VSet s;
      for (int i = 0; i < nv; ++i) if (mk & (1u << i)) s.push_back(i);
      if (m.c.contains(Model::simplex(s))) w.K.insert(s);
    }
    for (int v = 0; v < nv; ++v) if (w.active(v)) w.verts.push_back(v);
    bool contiguous = static_cast<int>(w.verts.size()) == n;
    auto subset_of = [&](const VSet& pool, int minsize) {
      VSet s;
      if (static_cast<int>(pool.size()) < minsize) return s;
      int sz = minsize + rnd(static_cast<int>(pool.size()) - minsize + 1);
      VSet p(pool);
      std::shuffle(p.begin(), p.end(), rng);
      s.assign(p.begin(), p.begin() + sz);
      std::sort(s.begin(), s.end());
      return s;
    };
    auto pick_simplex = [&](int mindim, int maxdim) {
      std::vector<VSet> c;
      for (auto& s : w.K) if (static_cast<int>(s.size()) - 1 >= mindim && static_cast<int>(s.size()) - 1 <= maxdim) c.push_back(s);
      return c.empty() ? VSet() : c[rnd(static_cast<int>(c.size()))];
    };
    bj::object act;
    if (stp < static_cast<int>(script.size())) act = script[static_cast<std::size_t>(stp)];
    for (int tries = 0; tries < 300 && act.empty(); ++tries) {
      int c = rnd(100);
      int nvv = static_cast<int>(w.verts.size());
      if (n == nv && nvv < 3 && rnd(2)) { act = {{"op", "clear"}}; break; }  // handles used up: start over
      if (c < (nvv < 4 ? 45 : 6)) {
        if (n < nv) act = {{"op", "add_vertex"}};
      } else if (c < 36) {
        if (nvv < 2) continue;
        int a = w.verts[rnd(nvv)], b = w.verts[rnd(nvv)];
        if (a == b) continue;
        bool wb = style == 0 ? rnd(10) < 8 : (style == 1 ? rnd(10) < 3 : rnd(2) == 0);
        act = {{"op", wb ? "add_edge_wb" : "add_edge"}, {"a", a}, {"b", b}};
      } else if (c < 40) {
        VSet s = subset_of(w.verts, 3);
        if (s.empty()) continue;
        act = {{"op", "add_edges"}, {"s", jarr(s)}};
      } else if (c < 58) {
        VSet pool;
        if (contiguous && rnd(4) == 0) for (int v = 0; v < nv; ++v) pool.push_back(v); else pool = w.verts;
        VSet s = subset_of(pool, 3);
        if (s.empty() || w.has(s)) continue;
        act = {{"op", "add_simplex"}, {"s", jarr(s)}};
      } else if (c < 80) {
        VSet s = c < 61 ? pick_simplex(0, 0) : (c < 69 ? pick_simplex(1, 1) : pick_simplex(2, nv));
        if (s.empty()) continue;
        const char* via = "simplex";
        if (s.size() == 1 && rnd(2)) via = "vertex";
        if (s.size() == 2) { int r = rnd(3); via = r == 0 ? "pair" : (r == 1 ? "edge" : "simplex"); }
        act = {{"op", "remove_star"}, {"s", jarr(s)}, {"via", via}};
      } else if (c < 84) {
        VSet e = pick_simplex(1, 1);
        if (e.empty()) continue;
        bool blocked = false;
        for (auto& B : blockers(w, nv)) if (std::includes(B.begin(), B.end(), e.begin(), e.end())) blocked = true;
        if (blocked) continue;
        act = {{"op", "remove_edge"}, {"a", e[0]}, {"b", e[1]}, {"via", rnd(2) ? "pair" : "edge"}};
      } else if (c < 85) {
        std::vector<int> iso;
        for (int v : w.verts) {
          bool alone = true;
          for (auto& s : w.K) if (s.size() == 2 && (s[0] == v || s[1] == v)) alone = false;
          if (alone) iso.push_back(v);
        }
        if (iso.empty()) continue;
        act = {{"op", "remove_vertex"}, {"v", iso[rnd(static_cast<int>(iso.size()))]}};
      } else if (c < 97) {
        VSet e = pick_simplex(1, 1);
        if (e.empty()) continue;
        int r = rnd(2);
        act = {{"op", "contract"}, {"a", e[r]}, {"b", e[1 - r]}, {"via", rnd(2) ? "pair" : "edge"}};
      } else if (c < 98) {
        if (rnd(3) == 0) act = {{"op", "keep_only_vertices"}};
      } else if (c < 99) {
        act = {{"op", "remove_blockers"}};
      } else {
        if (rnd(3) == 0) act = {{"op", "clear"}};
      }
    }
    if (act.empty()) break;
    g_pending = bj::serialize(canon(bj::value(act)));
    bj::object got = m.apply(act);
    g_pending.clear();
    std::string op(act.at("op").as_string());
    if (op == "add_vertex") n += 1;
    if (op == "clear") n = 0;
    if (op == "add_simplex") for (auto& v : act.at("s").as_array()) n = std::max<int>(n, static_cast<int>(v.to_number<std::int64_t>()) + 1);
    for (auto& p : got) act[p.key()] = p.value();
    emit(act);
  }
}

template <class Model>
void record(const std::string& path, std::uint64_t seed, int executions, int steps, int nv) {
  g_f = std::fopen(path.c_str(), "w");
  if (!g_f) { std::cerr << "cannot write " << path << std::endl; std::exit(2); }
  for (int ex = 0; ex < executions; ++ex) {
    std::fflush(g_f);
    pid_t pid = fork();
    if (pid < 0) { std::perror("fork"); std::exit(2); }
    if (pid == 0) {
      // a corrupted object (after a deviation) may loop: the execution is cut after 5 s of CPU time
      struct rlimit rl{5, 6};
      setrlimit(RLIMIT_CPU, &rl);
      std::mt19937_64 rng(seed * 1000003ull + static_cast<std::uint64_t>(ex));
      Model m;
      execution(m, rng, steps, nv, ex % 4 == 3);
      std::fflush(g_f);
      _exit(0);
    }
    int status = 0;
    waitpid(pid, &status, 0);
  }
  std::fclose(g_f);
  g_f = nullptr;
}

int main(int argc, char** argv) {
  if (argc < 7) { std::cerr << "usage: skbl_record <outdir> <seed> <executions> <steps> <nv> <files>" << std::endl; return 2; }
  std::string outdir = argv[1];
  std::uint64_t seed = std::strtoull(argv[2], nullptr, 10);
  int executions = std::atoi(argv[3]), steps = std::atoi(argv[4]), nv = std::atoi(argv[5]), files = std::atoi(argv[6]);
  g_nv = nv;
  g_heavy = false;
  for (int s : {SIGSEGV, SIGABRT, SIGFPE, SIGBUS, SIGILL, SIGXCPU}) std::signal(s, on_crash);
  for (int f = 0; f < files; ++f) {
    std::string tag = std::to_string(f);
    if (f % 2 == 0) {
      SkblModel<SkblAbstract, false>::cfgname() = "abstract";
      record<SkblModel<SkblAbstract, false>>(outdir + "/skbl_abstract_" + tag + ".ndjson", seed * 131 + f, executions, steps, nv);
    } else {
      SkblModel<SkblGeometric, true>::cfgname() = "geometric";
      record<SkblModel<SkblGeometric, true>>(outdir + "/skbl_geometric_" + tag + ".ndjson", seed * 131 + f, executions, steps, nv);
    }
  }
  return 0;
}
