// C12: runs Gudhi::collapse::flag_complex_collapse_edges on the real code and records input + output of every call
// as NDJSON for Trace_EdgeCollapse.tla (the oracle, evaluated by TLC).  Built four times: with / without
// -DGUDHI_COLLAPSE_USE_DENSE_ARRAY and with / without -DGUDHI_USE_TBB.
//   collapse_run cases  <cases.ndjson> <out.ndjson> <seed> <build>   inputs enumerated by MC_EdgeCollapse (CASE lines)
//   collapse_run random <count>        <out.ndjson> <seed> <build> [big]  seeded graphs on 7-9 (big: 9-11) vertices, many equal weights
//   collapse_run sparse <count>        <out.ndjson> <seed> <build>   large sparse graphs (> 500 edges: the parallel sort
//                                                                     of the TBB build really runs in parallel)
// Every input is run in several presentations of the same abstract call (documented: any range of
// tuple<Vertex, Vertex, Filtration>, no need to be sorted): order as given / shuffled order and orientation /
// non-contiguous shuffled vertex numbers with an increasing affine change of the values, short + float in a std::list /
// a boost transformed range of long + double / unsigned vertices / (equal weights only) unsigned short and unsigned char.
#include "collapse_common.hpp"

using namespace vf;
using namespace collapse_h;

int main(int argc, char** argv) {
  if (argc < 6) { std::cerr << "usage: collapse_run cases|random|sparse <cases|count> <out> <seed> <build>\n"; return 2; }
  std::string mode = argv[1];
  std::string outp = argv[3];
  std::uint64_t seed = std::strtoull(argv[4], nullptr, 10);
  std::string build = argv[5];
  std::FILE* out = std::fopen(outp.c_str(), "w");
  if (!out) { std::cerr << "cannot write " << outp << "\n"; return 2; }
  install_crash_handlers();
  crash_ctx().out = out;
  Rng rng(seed * 1000003ULL + 17);
  Recorder rec{out, build, rng};
  if (mode == "cases") {
    long n = 0;
    for (auto& v : read_ndjson(argv[2])) {
      auto& o = v.as_object();
      Graph g;
      for (auto& e : o.at("edges").as_array()) {
        auto& a = e.as_array();
        g.push_back({static_cast<long>(a[0].to_number<std::int64_t>()), static_cast<long>(a[1].to_number<std::int64_t>()),
                     static_cast<long>(a[2].to_number<std::int64_t>())});
      }
      rec.run_all(std::string(o.at("id").as_string().c_str()), g, true);
      ++n;
    }
    std::fprintf(out, "{\"kind\":\"summary\",\"build\":\"%s\",\"inputs\":%ld,\"calls\":%ld}\n", build.c_str(), n, rec.calls);
  } else if (mode == "random") {
    long count = std::strtol(argv[2], nullptr, 10);
    for (long i = 0; i < count; ++i) {
      std::string fam;
      Graph g = random_graph(rng, i, fam, argc > 6 && std::string(argv[6]) == "big");
      rec.run_all("R." + std::to_string(seed) + "." + std::to_string(i) + "." + fam, g, i % 5 == 0);
    }
    std::fprintf(out, "{\"kind\":\"summary\",\"build\":\"%s\",\"inputs\":%ld,\"calls\":%ld}\n", build.c_str(), count, rec.calls);
  } else if (mode == "sparse") {
    long count = std::strtol(argv[2], nullptr, 10);
    for (long i = 0; i < count; ++i) {
      Graph g = i % 2 == 1 ? hub_graph(rng, i) : sparse_graph(rng, i);
      rec.run_all("S." + std::to_string(seed) + "." + std::to_string(i), g, false);
    }
    std::fprintf(out, "{\"kind\":\"summary\",\"build\":\"%s\",\"inputs\":%ld,\"calls\":%ld}\n", build.c_str(), count, rec.calls);
  } else {
    return 2;
  }
  std::fclose(out);
  return 0;
}
