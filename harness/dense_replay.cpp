// Replays every transition of the MC_DenseMatrix / MC_DenseMatrixC state graphs on real "basic" matrices, one
// instantiation (column type x coefficient mode x row access x containers x swaps x compression) after the other.
// -DVF_CT=<0..8> -DVF_PART=<0|1|2> [-DVF_QUICK=1] select the instantiations of this translation unit;
// env VF_P, VF_NR, VF_CTOR, VF_RESERVE, VF_FILTER select the model parameters and the configurations to run.
#include "dense_model.hpp"

using namespace vf;

struct RunReplay {
  ReplayCtx& ctx;
  template <class Mdl>
  void operator()() { dense_replay_config<Mdl>(ctx); }
};

int main(int argc, char** argv) {
  ReplayCtx ctx = replay_setup(argc, argv);
  dense_globals_from_env();
  RunReplay r{ctx};
  dense_for_each_config(r);
  std::fclose(ctx.out);
  return 0;
}
