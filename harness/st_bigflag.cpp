// C04 beyond the bounds of the TLC models: graphs with 80-140 vertices (a hub with 66 or more higher-labelled
// neighbours, other vertices of small degree, a few dense pockets) expanded to dimension 2 or 3 by every route the
// library offers; all routes must give the complex enumerated here by brute force from the adjacency matrix (cliques
// with the largest edge value, vertices at their own value).  No TLC oracle at this size (Cliques ranges over all
// subsets of the vertex set): the specification of the result is the same CliqueComplex / FlagValue, evaluated by the
// harness.    usage: st_bigflag out.ndjson seed graphs
#include "common.hpp"

#include <gudhi/Simplex_tree.h>
#include <gudhi/graph_simplicial_complex.h>

using namespace vf;

struct StableOpt : Gudhi::Simplex_tree_options_default { static const bool stable_simplex_handles = true; };
struct LinkOpt : Gudhi::Simplex_tree_options_default { static const bool link_nodes_by_label = true; };

using K = std::map<std::vector<int>, double>;

struct G {
  int n = 0;
  std::vector<double> vval;
  std::map<std::pair<int, int>, double> e;
};

static K brute(const G& g, int d) {
  K k;
  std::vector<std::vector<double>> w(static_cast<std::size_t>(g.n), std::vector<double>(static_cast<std::size_t>(g.n), -1));
  for (auto& x : g.e) w[x.first.first][x.first.second] = w[x.first.second][x.first.first] = x.second;
  for (int v = 0; v < g.n; ++v) k[{v}] = g.vval[v];
  std::function<void(std::vector<int>&, double)> grow = [&](std::vector<int>& s, double f) {
    if (static_cast<int>(s.size()) - 1 >= d) return;
    for (int v = s.back() + 1; v < g.n; ++v) {
      bool ok = true;
      double f2 = std::max(f, g.vval[v]);
      for (int u : s) { if (w[u][v] < 0) { ok = false; break; } f2 = std::max(f2, w[u][v]); }
      if (!ok) continue;
      s.push_back(v);
      k[s] = f2;
      grow(s, f2);
      s.pop_back();
    }
  };
  for (int v = 0; v < g.n; ++v) { std::vector<int> s{v}; grow(s, g.vval[v]); }
  return k;
}

template <class ST>
static K read(ST& st) {
  K k;
  for (auto sh : st.complex_simplex_range()) {
    std::vector<int> s;
    for (auto v : st.simplex_vertex_range(sh)) s.push_back(v);
    std::sort(s.begin(), s.end());
    k[s] = st.filtration(sh);
  }
  return k;
}

template <class ST>
static void load_graph(ST& st, const G& g) {
  for (int v = 0; v < g.n; ++v) st.insert_simplex({v}, g.vval[v]);
  for (auto& x : g.e) st.insert_simplex({x.first.first, x.first.second}, x.second);
}

static std::string diff(const K& exp, const K& got) {
  for (auto& p : exp) { auto it = got.find(p.first); if (it == got.end()) return "missing " + bj::serialize(jarr(p.first)); if (it->second != p.second) return "value of " + bj::serialize(jarr(p.first)); }
  for (auto& p : got) if (!exp.count(p.first)) return "extra " + bj::serialize(jarr(p.first));
  return "";
}

int main(int argc, char** argv) {
  if (argc < 4) { std::cerr << "usage: st_bigflag out.ndjson seed graphs" << std::endl; return 2; }
  std::FILE* out = std::fopen(argv[1], "w");
  if (!out) return 2;
  crash_ctx().out = out;
  install_crash_handlers();
  std::mt19937_64 rng(std::strtoull(argv[2], nullptr, 10) * 2654435761ULL + 99);
  auto rnd = [&](int n) { return static_cast<int>(rng() % static_cast<std::uint64_t>(n)); };
  const int graphs = std::atoi(argv[3]);
  long routes = 0, simplices = 0, deviations = 0;
  for (int gi = 0; gi < graphs; ++gi) {
    G g;
    g.n = 100 + rnd(61);
    for (int v = 0; v < g.n; ++v) g.vval.push_back(rnd(2));
    auto add = [&](int a, int b, double f) { if (a != b) g.e.emplace(std::make_pair(std::min(a, b), std::max(a, b)), std::max({f, g.vval[a], g.vval[b]})); };
    // hubs: a low label joined to most higher labels (66 or more), a second hub in the middle
    const int hub = 6 + rnd(4), hub2 = g.n / 2 + rnd(5);
    for (int v = 4; v < g.n; ++v) { if (rnd(8) != 0) add(hub, v, 1 + rnd(3)); if (rnd(3) == 0) add(hub2, v, 1 + rnd(3)); }   // (vertices 0-3: see below)
    // four vertices below a hub H, each adjacent to H and to two or three vertices chosen by their POSITION in H's list
    // of higher neighbours: 64 (63, 65, 32, 16) entries after the start of the list or after the previous common
    // neighbour - a short sorted list merged with a long one, at and around the block boundaries of any skipping or
    // galloping merge
    {
      const int H = 4 + rnd(2);
      for (int v = H + 1; v < g.n; ++v) if (rnd(12) != 0) add(H, v, 1 + rnd(3));
      std::vector<int> up;
      for (auto& x : g.e) if (x.first.first == H) up.push_back(x.first.second);
      std::sort(up.begin(), up.end());
      const std::vector<std::vector<int>> chains = {{64, 129}, {63, 127}, {65, 131}, {gi % 2 ? 32 : 16, gi % 2 ? 97 : 33, 120}};
      for (int low = 0; low < 4; ++low) {
        add(low, H, 1 + rnd(3));
        for (int pos : chains[static_cast<std::size_t>(low)])
          if (pos < static_cast<int>(up.size())) add(low, up[static_cast<std::size_t>(pos)], 1 + rnd(3));
      }
    }
    // sparse background and a few dense pockets
    for (int k = 0; k < 2 * g.n; ++k) add(4 + rnd(g.n - 4), 4 + rnd(g.n - 4), 1 + rnd(3));
    for (int p = 0; p < 3; ++p) { int base = 4 + rnd(g.n - 12); for (int a = 0; a < 6; ++a) for (int b = a + 1; b < 6; ++b) if (rnd(5) != 0) add(base + a, base + b, 1 + rnd(3)); }
    const int d = 2 + (gi % 2);
    const K exp = brute(g, d);
    simplices += static_cast<long>(exp.size());
    auto report = [&](const char* route, const std::string& why) {
      ++deviations;
      bj::array es;
      for (auto& x : g.e) es.push_back(bj::array{x.first.first, x.first.second, x.second});
      bj::object o{{"kind", "deviation"}, {"op", "big_flag"}, {"route", route}, {"n", g.n}, {"d", d}, {"why", why}, {"graph", gi}};
      if (deviations <= 3) { o["edges"] = es; o["vertex_values"] = jarr(std::vector<int>(g.vval.begin(), g.vval.end())); }
      std::fprintf(out, "%s\n", bj::serialize(o).c_str());
    };
    auto check = [&](const char* route, const K& got) { ++routes; std::string w = diff(exp, got); if (!w.empty()) report(route, w); };
    crash_ctx().where = "big_flag graph " + std::to_string(gi);
    { Gudhi::Simplex_tree<> st; load_graph(st, g); st.expansion(d); check("expansion (default options)", read(st)); }
    { Gudhi::Simplex_tree<StableOpt> st; load_graph(st, g); st.expansion(d); check("expansion (stable handles)", read(st)); }
    { Gudhi::Simplex_tree<Gudhi::Simplex_tree_options_fast_persistence> st; load_graph(st, g); st.expansion(d); check("expansion (fast_persistence)", read(st)); }
    { Gudhi::Simplex_tree<> st; load_graph(st, g); st.expansion_with_blockers(d, [](typename Gudhi::Simplex_tree<>::Simplex_handle) { return false; }); check("expansion_with_blockers (never blocking)", read(st)); }
    {
      Gudhi::Simplex_tree<LinkOpt> st;
      std::vector<typename Gudhi::Simplex_tree<LinkOpt>::Simplex_handle> added;
      std::size_t reported = 0;
      for (int v = 0; v < g.n; ++v) { added.clear(); st.insert_edge_as_flag(v, v, g.vval[v], d, added); reported += added.size(); }
      std::vector<std::pair<std::pair<int, int>, double>> es(g.e.begin(), g.e.end());
      std::shuffle(es.begin(), es.end(), rng);
      for (auto& x : es) { added.clear(); st.insert_edge_as_flag(x.first.first, x.first.second, x.second, d, added); reported += added.size(); }
      st.make_filtration_non_decreasing();
      check("insert_edge_as_flag edge by edge + make_filtration_non_decreasing", read(st));
      ++routes;
      if (reported != exp.size()) report("insert_edge_as_flag: number of reported simplices", std::to_string(reported) + " reported, " + std::to_string(exp.size()) + " simplices");
    }
  }
  bj::object o{{"kind", "summary"}, {"graphs", graphs}, {"routes", routes}, {"simplices", simplices}, {"deviations", deviations}};
  std::fprintf(out, "%s\n", bj::serialize(o).c_str());
  std::fclose(out);
  return deviations ? 3 : 0;
}
