// Records random, precondition-respecting histories of real Simplex_trees as NDJSON traces for
// Trace_SimplexTree.tla.  usage: st_record <outdir> <seed> <executions> <steps>  (one file per configuration)
#include "st_model.hpp"

using namespace vf;

using KMap = std::map<std::vector<int>, double>;

static bool monotone(const KMap& K) {
  for (auto& p : K) {
    if (p.first.size() < 2) continue;
    for (std::size_t i = 0; i < p.first.size(); ++i) {
      std::vector<int> f(p.first);
      f.erase(f.begin() + i);
      auto it = K.find(f);
      if (it != K.end() && it->second > p.second) return false;
    }
  }
  return true;
}
static bool facets_present(const KMap& K, const std::vector<int>& s) {
  if (s.size() < 2) return true;
  for (std::size_t i = 0; i < s.size(); ++i) {
    std::vector<int> f(s);
    f.erase(f.begin() + i);
    if (!K.count(f)) return false;
  }
  return true;
}
static bool has_coface(const KMap& K, const std::vector<int>& s) {
  for (auto& p : K) if (p.first.size() > s.size() && std::includes(p.first.begin(), p.first.end(), s.begin(), s.end())) return true;
  return false;
}
static bool is_flag(const KMap& K, int nv, int dmax) {
  // K == cliques of its graph with <= dmax+1 vertices
  std::size_t count = 0;
  for (unsigned m = 1; m < (1u << nv); ++m) {
    std::vector<int> s;
    for (int i = 0; i < nv; ++i) if (m & (1u << i)) s.push_back(i);
    if (static_cast<int>(s.size()) > dmax + 1) { if (K.count(s)) return false; continue; }
    bool clique = true;
    for (std::size_t a = 0; a < s.size() && clique; ++a) {
      if (!K.count({s[a]})) clique = false;
      for (std::size_t b = a + 1; b < s.size() && clique; ++b) if (!K.count({s[a], s[b]})) clique = false;
    }
    if (clique != (K.count(s) > 0)) return false;
    if (clique) ++count;
  }
  return count == K.size();
}

template <class O, class L>
void record(const std::string& outdir, const char* oname, std::uint64_t seed, int executions, int steps, int nv, int maxdim) {
  using M = StModel<O, L>;
  M::cfgname() = std::string(oname) + "_" + L::name();
  Trace tr(outdir + "/st_" + M::cfgname() + ".ndjson");
  std::mt19937_64 rng(seed * 7919 + std::hash<std::string>()(M::cfgname()));
  auto rnd = [&](int n) { return static_cast<int>(rng() % static_cast<std::uint64_t>(n)); };
  const int NVALS = 4;
  for (int ex = 0; ex < executions; ++ex) {
    M m;
    tr.emit(bj::object{{"op", "reset"}, {"k", bj::array{}}});
    int flagdim = 1 + rnd(maxdim);
    bool flagmode = O::link_nodes_by_label && (ex % 3 == 0);  // flag-complex executions for insert_edge_as_flag
    for (int stp = 0; stp < steps; ++stp) {
      KMap K;
      for (auto sh : m.st.complex_simplex_range()) K[m.vertices_of(sh)] = static_cast<double>(m.st.filtration(sh));
      bool mono = monotone(K);
      int dim = -1;
      for (auto& p : K) dim = std::max<int>(dim, static_cast<int>(p.first.size()) - 1);
      bj::object act;
      // choose an enabled action
      for (int tries = 0; tries < 200 && act.empty(); ++tries) {
        int c = rnd(100);
        int f = rnd(NVALS);
        auto random_subset = [&](int maxsize) {
          std::vector<int> s;
          int sz = 1 + rnd(maxsize);
          while (static_cast<int>(s.size()) < sz) { int v = rnd(nv); if (std::find(s.begin(), s.end(), v) == s.end()) s.push_back(v); }
          std::sort(s.begin(), s.end());
          return s;
        };
        if (flagmode) {
          if (c < 60) {
            int u = rnd(nv), v = rnd(nv);
            std::vector<int> e = u == v ? std::vector<int>{u} : std::vector<int>{std::min(u, v), std::max(u, v)};
            if (K.count(e)) continue;
            if (u != v && (!K.count({u}) || !K.count({v}))) continue;
            if (!is_flag(K, nv, flagdim)) continue;
            act = {{"op", "edge_as_flag"}, {"u", u}, {"v", v}, {"f", f}, {"d", flagdim}};
          } else if (c < 75) {
            // keep it a flag complex: remove a maximal simplex only if it is a vertex or an edge without cofaces
            std::vector<std::vector<int>> cand;
            for (auto& p : K) if (p.first.size() <= 2 && !has_coface(K, p.first)) cand.push_back(p.first);
            if (cand.empty()) continue;
            act = {{"op", "remove_maximal"}, {"s", jarr(cand[rnd(static_cast<int>(cand.size()))])}};
          } else if (c < 85) {
            act = {{"op", "make_non_decreasing"}};
          } else if (c < 90 && dim <= 1 && mono) {
            act = {{"op", "expansion"}, {"d", flagdim}};
          } else if (c < 93) {
            act = {{"op", "assign"}, {"s", bj::array{}}, {"f", f}};
            if (K.empty()) { act.clear(); continue; }
            auto it = K.begin(); std::advance(it, rnd(static_cast<int>(K.size())));
            act["s"] = jarr(it->first);
          }
          continue;
        }
        if (c < 30) {
          auto s = random_subset(maxdim + 1);
          if (!facets_present(K, s)) continue;
          act = {{"op", "insert"}, {"s", jarr(s)}, {"f", f}};
        } else if (c < 45) {
          if (!mono) continue;
          auto s = random_subset(maxdim + 1);
          act = {{"op", "insert_faces"}, {"s", jarr(s)}, {"f", f}};
        } else if (c < 50) {
          act = {{"op", "batch"}, {"vs", jarr(random_subset(3))}, {"f", f}};
        } else if (c < 68) {
          std::vector<std::vector<int>> cand;
          for (auto& p : K) if (!has_coface(K, p.first)) cand.push_back(p.first);
          if (cand.empty()) continue;
          act = {{"op", "remove_maximal"}, {"s", jarr(cand[rnd(static_cast<int>(cand.size()))])}};
        } else if (c < 74) {
          if (!mono) continue;
          int pf = rnd(NVALS + 1);
          act = {{"op", "prune_filt"}, {"f", pf == NVALS ? INF_CODE : pf}};
        } else if (c < 79) {
          act = {{"op", "prune_dim"}, {"d", rnd(maxdim + 2) - 1 + (rnd(3) == 0 ? 0 : 1)}};
        } else if (c < 80) {
          act = {{"op", "clear"}};
        } else if (c < 88) {
          if (K.empty()) continue;
          auto it = K.begin(); std::advance(it, rnd(static_cast<int>(K.size())));
          act = {{"op", "assign"}, {"s", jarr(it->first)}, {"f", rnd(8) == 0 ? INF_CODE : f}};
        } else if (c < 90) {
          act = {{"op", "reset_filt"}, {"f", f}, {"d", rnd(maxdim + 1)}};
        } else if (c < 96) {
          act = {{"op", "make_non_decreasing"}};
        } else {
          if (dim > 1 || !mono) continue;
          act = {{"op", "expansion"}, {"d", rnd(maxdim + 1)}};
        }
      }
      if (act.empty()) break;
      crash_ctx().where = M::cfgname() + " " + bj::serialize(act);
      bj::object got;
      try { got = m.apply(act); } catch (const std::exception& e) { got["exception"] = e.what(); }
      bj::object ev = act;
      for (auto& p : got) ev[p.key() == "added_set" ? "added" : p.key()] = p.value();
      // post state through the read API
      bj::array k;
      KMap K2;
      for (auto sh : m.st.complex_simplex_range()) { auto s = m.vertices_of(sh); K2[s] = static_cast<double>(m.st.filtration(sh)); k.push_back(bj::object{{"s", jarr(s)}, {"f", fv(static_cast<double>(m.st.filtration(sh)))}}); }
      ev["k"] = k;
      ev["dim"] = m.st.dimension();
      ev["ns"] = static_cast<std::int64_t>(m.st.num_simplices());
      { bj::array a; for (auto x : m.st.num_simplices_by_dimension()) a.push_back(static_cast<std::int64_t>(x)); ev["nbd"] = a; }
      m.st.initialize_filtration();
      { bj::array fl; for (auto sh : m.st.filtration_simplex_range()) fl.push_back(jarr(m.vertices_of(sh))); ev["filt"] = fl; }
      m.st.clear_filtration();
      // queries on a few simplices, present or not
      bj::array qs;
      for (int qi = 0; qi < 3; ++qi) {
        std::vector<int> s;
        if (!K2.empty() && rnd(4) != 0) { auto it = K2.begin(); std::advance(it, rnd(static_cast<int>(K2.size()))); s = it->first; }
        else { int sz = 1 + rnd(maxdim + 1); while (static_cast<int>(s.size()) < sz) { int v = rnd(nv); if (std::find(s.begin(), s.end(), v) == s.end()) s.push_back(v); } std::sort(s.begin(), s.end()); }
        auto sh = m.st.find(M::lab(s));
        bj::object q{{"s", jarr(s)}, {"present", sh != m.st.null_simplex()}};
        if (sh != m.st.null_simplex()) {
          int codim = 1 + rnd(2);
          q["f"] = fv(static_cast<double>(m.st.filtration(sh)));
          q["codim"] = codim;
          bj::array star, cof, bd;
          for (auto t : m.st.star_simplex_range(sh)) star.push_back(jarr(m.vertices_of(t)));
          for (auto t : m.st.cofaces_simplex_range(sh, codim)) cof.push_back(jarr(m.vertices_of(t)));
          for (auto& pr : m.st.boundary_opposite_vertex_simplex_range(sh)) bd.push_back(bj::object{{"face", jarr(m.vertices_of(pr.first))}, {"opp", M::unlab(pr.second)}});
          q["star"] = star; q["cof"] = cof; q["bd"] = bd;
        }
        qs.push_back(q);
      }
      ev["q"] = qs;
      tr.emit(ev);
    }
  }
}

int main(int argc, char** argv) {
  if (argc < 5) { std::cerr << "usage: st_record outdir seed executions steps" << std::endl; return 2; }
  std::string outdir = argv[1];
  std::uint64_t seed = std::strtoull(argv[2], nullptr, 10);
  int executions = std::atoi(argv[3]), steps = std::atoi(argv[4]);
  int nv = 6, maxdim = 3;
  g_nv = nv; g_maxdim = maxdim;
  install_crash_handlers();
  record<Gudhi::Simplex_tree_options_default, LabelId>(outdir, "default", seed, executions, steps, nv, maxdim);
  record<Gudhi::Simplex_tree_options_full_featured, LabelGap>(outdir, "full_featured", seed, executions, steps, nv, maxdim);
  record<StOpt<true, false, false>, LabelGap>(outdir, "S1L0C0", seed, executions, steps, nv, maxdim);
  record<StOpt<false, true, false>, LabelId>(outdir, "S0L1C0", seed, executions, steps, nv, maxdim);
  return 0;
}
