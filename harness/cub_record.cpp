// Code -> spec for C13: builds random cubical complexes larger than the bounded model (up to 4 directions, sides
// up to 5, random periodic directions, both input conventions and classes, random integer values with ties and
// some +infinity), reads every cell through the public API, runs Persistent_cohomology over Z_2, Z_3, Z_5 and
// writes one NDJSON event per complex for Trace_Cubical.tla.
//   usage: cub_record out.ndjson seed ncomplexes maxcells
#include "cub_common.hpp"

int main(int argc, char** argv) {
  if (argc < 5) { std::cerr << "usage: cub_record out.ndjson seed ncomplexes maxcells" << std::endl; return 2; }
  vf::Trace tr(argv[1]);
  vf::crash_ctx().out = tr.f;
  vf::install_crash_handlers();
  std::mt19937_64 rng(std::strtoull(argv[2], nullptr, 10));
  const int ncomplexes = std::atoi(argv[3]);
  const long maxcells = std::atol(argv[4]);
  auto rnd = [&](int lo, int hi) { return lo + static_cast<int>(rng() % static_cast<unsigned long>(hi - lo + 1)); };
  long total_cells = 0;
  for (int it = 0; it < ncomplexes; ++it) {
    int D;
    std::vector<int> n;
    std::vector<bool> per;
    bool top;
    long cells;
    for (;;) {  // rejection sampling under the cell budget (a budget of the trace specification, not of the library)
      D = rnd(1, 4);
      top = rnd(0, 1) == 1;
      n.assign(D, 0);
      per.assign(D, false);
      cells = 1;
      for (int i = 0; i < D; ++i) {
        n[i] = rnd(1, 5);
        if (!top && rnd(0, 7) == 0) n[i] = 0;          // a direction with a single layer of vertices
        per[i] = n[i] >= 2 && rnd(0, 2) == 0;
        cells *= per[i] ? 2 * n[i] : 2 * n[i] + 1;
      }
      if (cells <= maxcells && cells >= 3) break;
    }
    bool any_per = std::any_of(per.begin(), per.end(), [](bool b) { return b; });
    cub::Input in;
    in.var = any_per || rnd(0, 1) == 1 ? "periodic" : "base";
    in.per = per;
    in.top = top;
    long ninputs = 1;
    for (int i = 0; i < D; ++i) {
      unsigned d = top ? n[i] : (per[i] ? n[i] : n[i] + 1);
      in.dims.push_back(d);
      ninputs *= d;
    }
    // values: integers in a small window (ties), sometimes negative, sometimes +infinity
    int lo = rnd(-3, 0), hi = lo + rnd(0, 9);
    int inf_rate = rnd(0, 3) == 0 ? rnd(2, 6) : 0;
    bj::array vals;
    for (long k = 0; k < ninputs; ++k) {
      if (inf_rate && rnd(1, inf_rate) == 1) { in.cells.push_back(std::numeric_limits<double>::infinity()); vals.emplace_back(vf::INF_CODE); }
      else { int v = rnd(lo, hi); in.cells.push_back(v); vals.emplace_back(v); }
    }
    bj::array jn, jper, jdims;
    for (int i = 0; i < D; ++i) { jn.emplace_back(n[i]); jper.emplace_back(static_cast<bool>(per[i])); jdims.emplace_back(static_cast<std::int64_t>(in.dims[i])); }
    bj::object e{{"op", "complex"}, {"n", jn}, {"per", jper}, {"var", in.var}, {"conv", top ? "top" : "vert"},
                 {"dims", jdims}, {"vals", vals}, {"primes", bj::array{2, 3, 5}}};
    vf::crash_ctx().where = "observe " + bj::serialize(bj::value(e));
    try {
      e["obs"] = cub::observe(in, {2, 3, 5});
    } catch (const std::exception& ex) {
      e["exception"] = ex.what();
    }
    total_cells += cells;
    // written by hand: vf::Trace::emit canonicalizes (sorts "_set" arrays), nothing here is a set
    std::fprintf(tr.f, "%s\n", bj::serialize(e).c_str());
    ++tr.n;
  }
  std::printf("{\"complexes\":%ld,\"cells\":%ld}\n", tr.n, total_cells);
  return 0;
}
