// C19: binding of SparseRips.tla to Gudhi::rips_complex::Sparse_rips_complex (and Rips_complex as the reference
// filtration), through the public API only: constructor from a distance matrix / from points with a distance functor,
// create_complex into a Simplex_tree, then complex_simplex_range + simplex_vertex_range + filtration.
// Inputs are integer metrics and eps = p/q with q a power of two and (2 q d) divisible by p for every distance d, so
// that every floating point operation of the header is exact and every filtration value is an integer; a non-integer
// value is reported as a problem of its own ("inexact").
#pragma once
#include "common.hpp"

#include <gudhi/Simplex_tree.h>
#include <gudhi/Rips_complex.h>
#include <gudhi/Sparse_rips_complex.h>

namespace sprips {

using FV = double;
using ST = Gudhi::Simplex_tree<>;
constexpr std::int64_t BIG = std::int64_t(1) << 30;   // BIG of SparseRips.tla (above every distance of the 'wide' family)

struct Input {
  int n = 0;
  std::vector<std::vector<FV>> D;                 // full symmetric matrix
  std::vector<std::vector<FV>> coords;            // optional: points of Z^k whose L1 distances are D
  FV scale = 1;                                   // a power of two: the library is given scale * D (exact in double, the
                                                  // construction is homogeneous), values are divided by it when read back
  std::vector<std::vector<FV>> scaled(const std::vector<std::vector<FV>>& m) const {
    std::vector<std::vector<FV>> r = m;
    for (auto& row : r) for (auto& x : row) x *= scale;
    return r;
  }
  std::vector<std::vector<FV>> lower() const {    // lower[i][j], j < i
    std::vector<std::vector<FV>> l(n);
    for (int i = 0; i < n; ++i) for (int j = 0; j < i; ++j) l[i].push_back(D[i][j] * scale);
    return l;
  }
  bj::array d_set() const {
    bj::array a;
    for (int i = 0; i < n; ++i) for (int j = i + 1; j < n; ++j) a.push_back(bj::object{{"a", i}, {"b", j}, {"w", vf::fv(D[i][j])}});
    return a;
  }
};

inline Input input_of_json(std::int64_t n, const bj::value& d_set) {
  Input in;
  in.n = static_cast<int>(n);
  in.D.assign(in.n, std::vector<FV>(in.n, 0));
  for (auto& e : d_set.as_array()) {
    const bj::object& o = e.as_object();
    int a = static_cast<int>(o.at("a").to_number<std::int64_t>()), b = static_cast<int>(o.at("b").to_number<std::int64_t>());
    FV w = static_cast<FV>(o.at("w").to_number<std::int64_t>());
    in.D[a][b] = in.D[b][a] = w;
  }
  return in;
}

struct Params {
  std::int64_t p = 1, q = 2, mini = 0, maxi = BIG;   // eps = p/q ; mini = 0 / maxi = BIG : the default arguments
  int dmax = 1;
  double eps() const { return static_cast<double>(p) / static_cast<double>(q); }
  bool defaults() const { return mini == 0 && maxi == BIG; }
};

struct Cx {
  std::map<std::vector<int>, std::int64_t> K;
  std::vector<std::string> problems;
  std::string exception;
  bj::array k_set() const {
    bj::array a;
    for (auto& kv : K) a.push_back(bj::object{{"s", vf::jarr(kv.first)}, {"f", kv.second}});
    return a;
  }
  std::string key() const { return bj::serialize(bj::value(k_set())); }
};

inline Cx cx_of_json(const bj::value& k_set) {
  Cx c;
  for (auto& e : k_set.as_array()) c.K[vf::ints(e.as_object().at("s"))] = e.as_object().at("f").to_number<std::int64_t>();
  return c;
}

inline Cx read_complex(ST& st, FV scale = 1) {
  Cx c;
  for (auto sh : st.complex_simplex_range()) {
    std::vector<int> s;
    for (auto v : st.simplex_vertex_range(sh)) s.push_back(v);
    std::sort(s.begin(), s.end());
    double f = st.filtration(sh) / scale;
    if (!(std::floor(f) == f) || std::fabs(f) > 1e9) {
      std::ostringstream o;
      o.precision(17);
      o << "inexact filtration value " << f << " of " << bj::serialize(vf::jarr(s));
      c.problems.push_back(o.str());
      continue;
    }
    if (!c.K.emplace(s, static_cast<std::int64_t>(f)).second) c.problems.push_back("simplex enumerated twice " + bj::serialize(vf::jarr(s)));
  }
  if (c.K.size() != st.num_simplices()) c.problems.push_back("num_simplices() differs from the size of complex_simplex_range");
  return c;
}

struct L1 {
  FV operator()(const std::vector<FV>& a, const std::vector<FV>& b) const {
    FV s = 0;
    for (std::size_t i = 0; i < a.size(); ++i) s += std::fabs(a[i] - b[i]);
    return s;
  }
};

// form: "matrix" (lower triangular range of ranges), "points" (indices + functor looking the matrix up),
//       "coords" (integer points + L1 functor; needs in.coords)
// reuse: the same Sparse_rips_complex object first builds a complex of dimension 1 into a scratch tree (the documented
// interface allows any number of create_complex calls; the farthest-point order is fixed by the constructor)
inline Cx run_sparse(const Input& in, const Params& pr, const std::string& form, bool reuse = false) {
  namespace R = Gudhi::rips_complex;
  const FV ninf = -std::numeric_limits<FV>::infinity(), pinf = std::numeric_limits<FV>::infinity();
  const FV mini = pr.mini == 0 ? ninf : static_cast<FV>(pr.mini) * in.scale, maxi = pr.maxi == BIG ? pinf : static_cast<FV>(pr.maxi) * in.scale;
  ST st;
  try {
    if (form == "matrix") {
      auto lower = in.lower();
      if (pr.defaults()) { R::Sparse_rips_complex<FV> s(lower, pr.eps()); if (reuse) { ST scratch; s.create_complex(scratch, 1); } s.create_complex(st, pr.dmax); }
      else { R::Sparse_rips_complex<FV> s(lower, pr.eps(), mini, maxi); if (reuse) { ST scratch; s.create_complex(scratch, 1); } s.create_complex(st, pr.dmax); }
    } else if (form == "points") {
      std::vector<int> pts(in.n);
      for (int i = 0; i < in.n; ++i) pts[i] = i;
      auto dist = [&](int a, int b) { return in.D[a][b] * in.scale; };
      if (pr.defaults()) { R::Sparse_rips_complex<FV> s(pts, dist, pr.eps()); if (reuse) { ST scratch; s.create_complex(scratch, 1); } s.create_complex(st, pr.dmax); }
      else { R::Sparse_rips_complex<FV> s(pts, dist, pr.eps(), mini, maxi); if (reuse) { ST scratch; s.create_complex(scratch, 1); } s.create_complex(st, pr.dmax); }
    } else {
      if (pr.defaults()) { R::Sparse_rips_complex<FV> s(in.scaled(in.coords), L1(), pr.eps()); if (reuse) { ST scratch; s.create_complex(scratch, 1); } s.create_complex(st, pr.dmax); }
      else { R::Sparse_rips_complex<FV> s(in.scaled(in.coords), L1(), pr.eps(), mini, maxi); if (reuse) { ST scratch; s.create_complex(scratch, 1); } s.create_complex(st, pr.dmax); }
    }
  } catch (const std::exception& e) {
    Cx c;
    c.exception = e.what();
    return c;
  }
  return read_complex(st, in.scale);
}

inline Cx run_rips(const Input& in, int dmax, const std::string& form) {
  namespace R = Gudhi::rips_complex;
  const FV pinf = std::numeric_limits<FV>::infinity();
  ST st;
  try {
    if (form == "matrix") {
      R::Rips_complex<FV> r(in.lower(), pinf);
      r.create_complex(st, dmax);
    } else if (form == "points") {
      std::vector<int> pts(in.n);
      for (int i = 0; i < in.n; ++i) pts[i] = i;
      R::Rips_complex<FV> r(pts, pinf, [&](int a, int b) { return in.D[a][b] * in.scale; });
      r.create_complex(st, dmax);
    } else {
      R::Rips_complex<FV> r(in.scaled(in.coords), pinf, L1());
      r.create_complex(st, dmax);
    }
  } catch (const std::exception& e) {
    Cx c;
    c.exception = e.what();
    return c;
  }
  return read_complex(st, in.scale);
}

}  // namespace sprips
