// Binding of RipsPersistence.tla to the real Ripser engine (C11): gudhi/ripser.h.
// An input is a weighted graph on the points 0..n-1 with small non-negative integer weights (exact in float and
// double), dense (every pair: a dissimilarity matrix) or sparse (edge list), a threshold (-1 = none), dim_max and
// a prime.  Every "form" hands it to the engine through one of its entry points and input layouts and converts
// what the output_dim / output_pair callbacks received back to model integers (+infinity = vf::INF_CODE).
//   RIPS_VALUE_T (float by default) is the value type of this build.
#pragma once
#include "common.hpp"

#include <gudhi/ripser.h>

#include <sys/resource.h>

#ifndef RIPS_VALUE_T
#define RIPS_VALUE_T float
#endif

namespace rips {
namespace gr = Gudhi::ripser;
using vf::INF_CODE;
typedef RIPS_VALUE_T T;
inline const char* value_name() { return sizeof(T) == 4 ? "float" : "double"; }

struct Edge { int a, b; std::int64_t w; };  // a < b
struct Input {
  int n = 0;
  std::vector<Edge> edges;
  bool dense = true;
  std::int64_t t = -1;  // -1: no threshold
  int dmax = 0;
  unsigned p = 2;
  std::vector<std::vector<int>> points;  // optional: integer points whose Euclidean distances are exactly the weights
};
struct Bar {
  int dim; std::int64_t b, d;
  bool operator<(const Bar& o) const { return std::tie(dim, b, d) < std::tie(o.dim, o.b, o.d); }
  bool operator==(const Bar& o) const { return dim == o.dim && b == o.b && d == o.d; }
};
struct Run {
  std::vector<int> dims;   // output_dim calls in order
  std::vector<Bar> out;    // output_pair calls in order, attributed to the last announced dimension
  std::vector<std::string> problems;
  std::string exception;
};

// ---------------------------------------------------------------------------------------------- the dispatcher's formulas
inline int log2up(long n) { --n; int k = 0; while (n > 0) { n >>= 1; ++k; } return k; }
inline int clamp_dim(int n, int dmax) { return dmax > n - 2 ? n - 2 : dmax; }
inline int bitfield_size(int n, int dmax, unsigned p) { return log2up(n) * (clamp_dim(n, dmax) + 2) + log2up((long)p - 1); }
// the encoding help1 (ripser.h) picks
inline const char* dispatched_encoding(int n, int dmax, unsigned p) {
  int s = bitfield_size(n, dmax, p);
  return s <= 64 ? "bf64" : s <= 128 ? "bf128" : "cns128";
}
// Cns_encoding<128 bits>(n, k = dim_max + 2) followed by the spare-bits test of Rips_filtration: can it be built
inline bool cns128_feasible(int n, int dmax, unsigned p) {
  typedef unsigned __int128 U;
  int k = clamp_dim(n, dmax) + 2;
  if (k < 0) return false;
  std::vector<std::vector<U>> B(k + 1, std::vector<U>(n + 1, 0));
  U mx = 0;
  for (int i = 0; i <= n; ++i) {
    B[0][i] = 1;
    for (int j = 1; j < std::min(i, k + 1); ++j) {
      B[j][i] = B[j - 1][i - 1] + B[j][i - 1];
      if (B[j][i] < B[j][i - 1]) return false;  // wrapped
    }
    if (i <= k) B[i][i] = 1;
    int mi = std::min(i >> 1, k);
    mx = B[mi][i];
    if (i > 1 && mx < B[mi][i - 1]) return false;
  }
  int used = 0;  // log2up(mx + 1) on 128 bits
  { U x = mx; while (x > 0) { x >>= 1; ++used; } }
  return p == 2 || 128 - used >= log2up((long)p - 1);
}
inline bool encoding_feasible(const std::string& enc, int n, int dmax, unsigned p) {
  if (enc == "bf64") return bitfield_size(n, dmax, p) <= 64;
  if (enc == "bf128") return bitfield_size(n, dmax, p) <= 128;
  return cns128_feasible(n, dmax, p);
}

// ---------------------------------------------------------------------------------------------- input helpers
inline std::vector<std::vector<std::int64_t>> dense_matrix(const Input& in) {
  std::vector<std::vector<std::int64_t>> M(in.n, std::vector<std::int64_t>(in.n, 0));
  for (auto& e : in.edges) { M[e.a][e.b] = e.w; M[e.b][e.a] = e.w; }
  return M;
}
inline std::int64_t enclosing_radius(const Input& in) {
  if (in.n <= 1) return 0;
  auto M = dense_matrix(in);
  std::int64_t r = std::numeric_limits<std::int64_t>::max();
  for (int i = 0; i < in.n; ++i) r = std::min(r, *std::max_element(M[i].begin(), M[i].end()));
  return r;
}
inline std::int64_t eff_threshold(const Input& in) { return in.t < 0 ? enclosing_radius(in) : in.t; }
// integer points of a line whose pairwise distances are the matrix, when there are some
inline bool realise_on_line(const Input& in, std::vector<std::vector<int>>& pts) {
  if (!in.dense || in.n > 12) return false;
  auto M = dense_matrix(in);
  const int n = in.n;
  for (unsigned mask = 0; mask < (1u << std::max(0, n - 1)); ++mask) {
    std::vector<std::int64_t> x(n, 0);
    for (int i = 1; i < n; ++i) x[i] = ((mask >> (i - 1)) & 1) ? -M[0][i] : M[0][i];
    bool ok = true;
    for (int i = 0; i < n && ok; ++i)
      for (int j = 0; j < i; ++j)
        if (std::llabs(x[i] - x[j]) != M[i][j]) { ok = false; break; }
    if (ok) {
      pts.clear();
      for (int i = 0; i < n; ++i) pts.push_back({static_cast<int>(x[i])});
      return true;
    }
  }
  return false;
}
// number of cliques with at most maxdim + 1 vertices of the graph formed by the edges of weight <= thr (thr < 0: all),
// isolated vertices not counted, stopped once it exceeds `limit`
inline long count_cliques(const Input& in, std::int64_t thr, int maxdim, long limit) {
  std::map<int, std::set<int>> nb;
  for (auto& e : in.edges)
    if (thr < 0 || e.w <= thr) { nb[e.a].insert(e.b); nb[e.b].insert(e.a); }
  long cnt = static_cast<long>(nb.size());
  std::function<void(const std::vector<int>&, int)> grow = [&](const std::vector<int>& cand, int dim) {
    for (std::size_t i = 0; i < cand.size() && cnt <= limit; ++i) {
      ++cnt;
      if (dim >= maxdim) continue;
      std::vector<int> next;
      for (std::size_t j = i + 1; j < cand.size(); ++j)
        if (nb[cand[i]].count(cand[j])) next.push_back(cand[j]);
      if (!next.empty()) grow(next, dim + 1);
    }
  };
  for (auto& kv : nb) {
    if (cnt > limit) break;
    std::vector<int> cand;
    for (int u : kv.second) if (u > kv.first) cand.push_back(u);
    if (maxdim >= 1) grow(cand, 1);
  }
  return cnt;
}

// ---------------------------------------------------------------------------------------------- matrix types
template <class V> struct DP { typedef int vertex_t; typedef V value_t; };
// a user-provided dense matrix (what the Python binding passes: struct Full in _ripser.cc)
struct UserFull {
  typedef gr::Tag_dense Category;
  typedef int vertex_t;
  typedef T value_t;
  std::vector<T> data;
  int n = 0;
  int size() const { return n; }
  T operator()(int i, int j) const { return data[static_cast<std::size_t>(i) * n + j]; }
};
typedef gr::Full_distance_matrix<DP<T>> FullM;
typedef gr::Compressed_distance_matrix<DP<T>, gr::LOWER_TRIANGULAR> LowerM;
typedef gr::Compressed_distance_matrix<DP<T>, gr::UPPER_TRIANGULAR> UpperM;
typedef gr::Sparse_distance_matrix<DP<T>> SparseM;
typedef gr::Euclidean_distance_matrix<DP<T>> EuclidM;

inline UserFull make_userfull(const Input& in) {
  UserFull f; f.n = in.n; f.data.assign(static_cast<std::size_t>(in.n) * in.n, T(0));
  for (auto& e : in.edges) { f.data[static_cast<std::size_t>(e.a) * in.n + e.b] = T(e.w); f.data[static_cast<std::size_t>(e.b) * in.n + e.a] = T(e.w); }
  return f;
}
inline std::vector<T> lower_vector(const Input& in) {  // row by row, below the diagonal
  auto M = dense_matrix(in);
  std::vector<T> v;
  for (int i = 1; i < in.n; ++i) for (int j = 0; j < i; ++j) v.push_back(T(M[i][j]));
  return v;
}
inline std::vector<T> upper_vector(const Input& in) {  // row by row, above the diagonal
  auto M = dense_matrix(in);
  std::vector<T> v;
  for (int i = 0; i < in.n; ++i) for (int j = i + 1; j < in.n; ++j) v.push_back(T(M[i][j]));
  return v;
}
// sparse edge list the way ripser.cc and the Python binding build it; thr < 0: every listed edge
inline SparseM make_sparse(const Input& in, std::int64_t thr, bool shuffled = false) {
  typedef SparseM::vertex_diameter_t VD;
  std::vector<std::vector<VD>> nb(in.n);
  std::size_t m = 0;
  if (!shuffled) {
    for (auto& e : in.edges)
      if (thr < 0 || e.w <= thr) { nb[e.a].emplace_back(e.b, T(e.w)); nb[e.b].emplace_back(e.a, T(e.w)); ++m; }
  } else {  // edges listed in the reverse order, endpoints swapped
    for (auto it = in.edges.rbegin(); it != in.edges.rend(); ++it)
      if (thr < 0 || it->w <= thr) { nb[it->b].emplace_back(it->a, T(it->w)); nb[it->a].emplace_back(it->b, T(it->w)); ++m; }
  }
  for (auto& l : nb) std::sort(l.begin(), l.end());
  return SparseM(std::move(nb), m);
}
inline EuclidM make_points(const Input& in) {
  std::vector<std::vector<T>> pts;
  for (auto& p : in.points) { pts.emplace_back(); for (int c : p) pts.back().push_back(T(c)); }
  return EuclidM(std::move(pts));
}

// ---------------------------------------------------------------------------------------------- output collection
struct Collector {
  Run& r;
  int cur = -1000;
  std::int64_t back(T x, const char* what) {
    double d = static_cast<double>(x);
    if (std::isinf(d) && d > 0) return INF_CODE;
    if (std::isnan(d) || std::isinf(d) || std::floor(d) != d || std::fabs(d) >= 1e6) {
      if (r.problems.size() < 4) r.problems.push_back(std::string(what) + " is not a weight of the input: " + std::to_string(d));
      return -INF_CODE;
    }
    return static_cast<std::int64_t>(d);
  }
  void dim(int d) { cur = d; r.dims.push_back(d); }
  void pair(T b, T d) {
    if (cur == -1000 && r.problems.size() < 4) r.problems.push_back("output_pair before any output_dim");
    std::int64_t bb = back(b, "birth");
    std::int64_t dd = back(d, "death");
    if (bb == INF_CODE && r.problems.size() < 4) r.problems.push_back("infinite birth");
    r.out.push_back(Bar{cur, bb, dd});
  }
};
inline T none_value(bool use_max) { return use_max ? std::numeric_limits<T>::max() : std::numeric_limits<T>::infinity(); }

// a defective engine must not take the (shared) machine down: address space capped (allocation failures surface as
// std::bad_alloc, i.e. as the "exception" of the run), and a run that does not come back within 10 s is reported as a
// crash with signal 14 by the crash handler
inline void protect_process() {
  struct rlimit rl;
  rl.rlim_cur = rl.rlim_max = static_cast<rlim_t>(4) << 30;
  setrlimit(RLIMIT_AS, &rl);
  std::signal(SIGALRM, vf::crash_handler);
}
inline bool& in_child_process() { static bool b = false; return b; }
inline int& child_timeouts() { static int n = 0; return n; }   // isolated runs killed by their alarm so far
struct Watchdog {
  Watchdog() { if (!in_child_process()) alarm(10); }
  ~Watchdog() { if (!in_child_process()) alarm(0); }
};

template <class F> inline Run guarded(F&& f) {
  Run r;
  Watchdog wd;
  try { f(r); }
  catch (const std::exception& ex) { r.exception = std::string(typeid(ex).name()) + ": " + ex.what(); }
  catch (...) { r.exception = "unknown exception"; }
  return r;
}
#define RIPS_CB(c) [&](int d_) { c.dim(d_); }, [&](T b_, T d_) { c.pair(b_, d_); }

// help1 with the encoding chosen by the caller instead of the bit count (help2 is the engine behind every entry point)
template <class Dist> inline void forced_encoding(const std::string& enc, Dist&& dist, int dmax, T thr, unsigned p, Collector& c) {
  const int n = dist.size();
  dmax = clamp_dim(n, dmax);
  auto od = [&](int d_) { c.dim(d_); };
  auto op = [&](T b_, T d_) { c.pair(b_, d_); };
  typedef typename std::decay_t<Dist>::value_t V;
  if (p == 2) {
    if (enc == "bf64") { typedef gr::TParams<false, std::uint64_t, V> P; gr::help2<P, gr::Bitfield_encoding<P>>(std::move(dist), dmax, thr, p, od, op); }
    else if (enc == "bf128") { typedef gr::TParams<false, Gudhi::numbers::uint128_t, V> P; gr::help2<P, gr::Bitfield_encoding<P>>(std::move(dist), dmax, thr, p, od, op); }
    else { typedef gr::TParams<false, Gudhi::numbers::uint128_t, V> P; gr::help2<P, gr::Cns_encoding<P>>(std::move(dist), dmax, thr, p, od, op); }
  } else {
    if (enc == "bf64") { typedef gr::TParams<true, std::uint64_t, V> P; gr::help2<P, gr::Bitfield_encoding<P>>(std::move(dist), dmax, thr, p, od, op); }
    else if (enc == "bf128") { typedef gr::TParams<true, Gudhi::numbers::uint128_t, V> P; gr::help2<P, gr::Bitfield_encoding<P>>(std::move(dist), dmax, thr, p, od, op); }
    else { typedef gr::TParams<true, Gudhi::numbers::uint128_t, V> P; gr::help2<P, gr::Cns_encoding<P>>(std::move(dist), dmax, thr, p, od, op); }
  }
}

// ---------------------------------------------------------------------------------------------- forms
// dense input.  The threshold argument is in.t, "none" being numeric_limits::max() (ripser.cc) or +infinity (Python).
// auto_*   : ripser_auto on the layout (the engine truncates at the threshold / at the enclosing radius itself)
// ripser_* : the lower level ripser() the way ripser.cc uses it: the caller computes the enclosing radius
// enc_*    : help2 with each simplex encoding that can hold the input
inline const std::vector<std::string>& dense_forms() {
  static const std::vector<std::string> v{
      "auto_userfull", "auto_full", "auto_lower", "auto_upper", "auto_lower_of_upper", "auto_lower_of_full", "auto_full_of_lower",
      "auto_upper_of_lower",
      "auto_points", "auto_sparse", "auto_sparse_shuffled", "auto_sparse_all_edges", "auto_sparse_threshold_arg_ignored",
      "ripser_userfull", "ripser_full", "ripser_lower", "ripser_upper", "ripser_lower_untruncated",
      "ripser_sparse_of_lower", "ripser_sparse_of_points",
      "enc_bf64_lower", "enc_bf128_lower", "enc_cns128_lower", "enc_bf64_sparse", "enc_bf128_sparse", "enc_cns128_sparse"};
  return v;
}
inline const std::vector<std::string>& sparse_forms() {
  static const std::vector<std::string> v{"auto_sparse", "auto_sparse_shuffled", "auto_sparse_threshold_arg_ignored", "ripser_sparse",
                                          "enc_bf64_sparse", "enc_bf128_sparse", "enc_cns128_sparse"};
  return v;
}
inline bool starts_with(const std::string& s, const char* pre) { return s.rfind(pre, 0) == 0; }

// can this form take this input
inline bool applicable(const std::string& form, const Input& in) {
  if (form == "auto_points" || form == "ripser_sparse_of_points") return in.dense && !in.points.empty();
  if (form == "auto_sparse_all_edges" || form == "ripser_lower_untruncated") return in.dense && in.t < 0;
  if (starts_with(form, "enc_")) {
    std::string enc = form.substr(4, form.find('_', 4) - 4);
    return encoding_feasible(enc, in.n, in.dmax, in.p);
  }
  if (!in.dense) return form == "auto_sparse" || form == "auto_sparse_shuffled" || form == "auto_sparse_threshold_arg_ignored" || form == "ripser_sparse";
  if (form == "ripser_sparse") return false;
  // the compressed layouts cannot describe a single point from an empty vector with a defined row pointer; one point
  // is still a legal lower / upper matrix (0 entries)
  return true;
}
// which simplex encoding ran
inline std::string encoding_of(const std::string& form, const Input& in) {
  if (starts_with(form, "enc_")) return form.substr(4, form.find('_', 4) - 4);
  return dispatched_encoding(in.n, in.dmax, in.p);
}

inline Run run_form(const std::string& form, const Input& in, bool none_as_max) {
  const bool none = in.t < 0;
  const T thr_arg = none ? none_value(none_as_max) : T(in.t);   // what a caller of ripser_auto passes
  const std::int64_t teff_i = in.dense ? eff_threshold(in) : -1;
  const T teff = T(teff_i);                                     // what a caller of ripser() passes (ripser.cc)
  const int dmax = in.dmax;
  const unsigned p = in.p;
  return guarded([&](Run& r) {
    Collector c{r};
    if (!in.dense) {
      if (form == "auto_sparse") gr::ripser_auto(make_sparse(in, -1), dmax, none_value(none_as_max), p, RIPS_CB(c));
      else if (form == "auto_sparse_shuffled") gr::ripser_auto(make_sparse(in, -1, true), dmax, none_value(none_as_max), p, RIPS_CB(c));
      else if (form == "auto_sparse_threshold_arg_ignored") gr::ripser_auto(make_sparse(in, -1), dmax, T(0), p, RIPS_CB(c));
      else if (form == "ripser_sparse") gr::ripser(make_sparse(in, -1), dmax, none_value(none_as_max), p, RIPS_CB(c));
      else if (starts_with(form, "enc_")) forced_encoding(encoding_of(form, in), make_sparse(in, -1), dmax, none_value(none_as_max), p, c);
      else r.exception = "unknown form " + form;
      return;
    }
    if (form == "auto_userfull") gr::ripser_auto(make_userfull(in), dmax, thr_arg, p, RIPS_CB(c));
    else if (form == "auto_full") gr::ripser_auto(FullM(make_userfull(in)), dmax, thr_arg, p, RIPS_CB(c));
    else if (form == "auto_lower") gr::ripser_auto(LowerM(lower_vector(in)), dmax, thr_arg, p, RIPS_CB(c));
    else if (form == "auto_upper") gr::ripser_auto(UpperM(upper_vector(in)), dmax, thr_arg, p, RIPS_CB(c));
    else if (form == "auto_lower_of_upper") gr::ripser_auto(LowerM(UpperM(upper_vector(in))), dmax, thr_arg, p, RIPS_CB(c));
    else if (form == "auto_lower_of_full") gr::ripser_auto(LowerM(make_userfull(in)), dmax, thr_arg, p, RIPS_CB(c));
    else if (form == "auto_full_of_lower") gr::ripser_auto(FullM(LowerM(lower_vector(in))), dmax, thr_arg, p, RIPS_CB(c));
    else if (form == "auto_upper_of_lower") gr::ripser_auto(UpperM(LowerM(lower_vector(in))), dmax, thr_arg, p, RIPS_CB(c));
    else if (form == "auto_points") gr::ripser_auto(make_points(in), dmax, thr_arg, p, RIPS_CB(c));
    else if (form == "auto_sparse") gr::ripser_auto(make_sparse(in, teff_i), dmax, teff, p, RIPS_CB(c));
    else if (form == "auto_sparse_shuffled") gr::ripser_auto(make_sparse(in, teff_i, true), dmax, teff, p, RIPS_CB(c));
    else if (form == "auto_sparse_all_edges") gr::ripser_auto(make_sparse(in, -1), dmax, thr_arg, p, RIPS_CB(c));
    else if (form == "auto_sparse_threshold_arg_ignored") gr::ripser_auto(make_sparse(in, teff_i), dmax, T(0), p, RIPS_CB(c));
    else if (form == "ripser_userfull") gr::ripser(make_userfull(in), dmax, teff, p, RIPS_CB(c));
    else if (form == "ripser_full") gr::ripser(FullM(make_userfull(in)), dmax, teff, p, RIPS_CB(c));
    else if (form == "ripser_lower") gr::ripser(LowerM(lower_vector(in)), dmax, teff, p, RIPS_CB(c));
    else if (form == "ripser_upper") gr::ripser(UpperM(upper_vector(in)), dmax, teff, p, RIPS_CB(c));
    else if (form == "ripser_lower_untruncated") gr::ripser(LowerM(lower_vector(in)), dmax, thr_arg, p, RIPS_CB(c));
    else if (form == "ripser_sparse_of_lower") gr::ripser(SparseM(LowerM(lower_vector(in)), teff), dmax, teff, p, RIPS_CB(c));
    else if (form == "ripser_sparse_of_points") gr::ripser(SparseM(make_points(in), teff), dmax, teff, p, RIPS_CB(c));
    else if (starts_with(form, "enc_") && form.size() > 6 && form.substr(form.size() - 6) == "_lower")
      forced_encoding(encoding_of(form, in), LowerM(lower_vector(in)), dmax, teff, p, c);
    else if (starts_with(form, "enc_")) forced_encoding(encoding_of(form, in), make_sparse(in, teff_i), dmax, teff, p, c);
    else r.exception = "unknown form " + form;
  });
}

// ---------------------------------------------------------------------------------------------- JSON
// equal intervals grouped, in the order of first appearance: [dim, birth, death, how many]
inline bj::array jbars(const std::vector<Bar>& v) {
  std::map<Bar, std::size_t> where;
  std::vector<std::pair<Bar, std::int64_t>> g;
  for (auto& b : v) {
    auto it = where.find(b);
    if (it == where.end()) { where[b] = g.size(); g.emplace_back(b, 1); } else ++g[it->second].second;
  }
  bj::array a;
  for (auto& q : g) a.push_back(bj::array{q.first.dim, q.first.b, q.first.d, q.second});
  return a;
}
inline bj::object jrun(const Run& r) {
  bj::object o{{"dims", vf::jarr(r.dims)}, {"out", jbars(r.out)}};
  if (!r.exception.empty()) o["exception"] = r.exception;
  if (!r.problems.empty()) o["problems"] = vf::jarr(r.problems);
  return o;
}
inline Run run_of_json(const bj::object& o) {
  Run r;
  r.dims = vf::ints(o.at("dims"));
  for (auto& b : o.at("out").as_array()) {
    auto& a = b.as_array();
    for (std::int64_t m = 0; m < a[3].as_int64(); ++m) r.out.push_back(Bar{static_cast<int>(a[0].as_int64()), a[1].as_int64(), a[2].as_int64()});
  }
  if (o.contains("exception")) r.exception = std::string(o.at("exception").as_string());
  if (o.contains("problems")) for (auto& q : o.at("problems").as_array()) r.problems.push_back(std::string(q.as_string()));
  return r;
}
// the same in a child process: a crash of the engine becomes the "exception" of the run and the driver goes on
inline Run run_form_isolated(const std::string& form, const Input& in, bool none_as_max) {
  int fd[2];
  if (pipe(fd) != 0) { Run r; r.exception = "harness: pipe failed"; return r; }
  std::fflush(nullptr);
  pid_t pid = fork();
  if (pid < 0) { Run r; r.exception = "harness: fork failed"; return r; }
  if (pid == 0) {
    close(fd[0]);
    for (int sg : {SIGSEGV, SIGABRT, SIGFPE, SIGBUS, SIGILL, SIGALRM}) std::signal(sg, SIG_DFL);
    in_child_process() = true;
    alarm(6);   // a run takes milliseconds; an engine that does not terminate is killed (reported as signal 14)
    Run r = run_form(form, in, none_as_max);
    std::string js = bj::serialize(jrun(r));
    std::size_t off = 0;
    while (off < js.size()) { ssize_t w = write(fd[1], js.data() + off, js.size() - off); if (w <= 0) break; off += static_cast<std::size_t>(w); }
    _exit(0);
  }
  close(fd[1]);
  std::string js;
  char buf[65536];
  for (;;) { ssize_t k = read(fd[0], buf, sizeof buf); if (k <= 0) break; js.append(buf, static_cast<std::size_t>(k)); }
  close(fd[0]);
  int st = 0;
  waitpid(pid, &st, 0);
  if (WIFSIGNALED(st)) {
    if (WTERMSIG(st) == SIGALRM) ++child_timeouts();
    Run r; r.exception = "crash: signal " + std::to_string(WTERMSIG(st)); return r;
  }
  try { return run_of_json(bj::parse(js).as_object()); }
  catch (...) { Run r; r.exception = "harness: unreadable result of the child process"; return r; }
}
// forms / inputs that are run in a child process (see findings/C11.json: they crash the unpatched engine)
inline bool& isolate_all() { static bool b = false; return b; }
inline bool needs_isolation(const std::string& form, const Input& in) {
  return isolate_all() || form == "auto_upper_of_lower" || (in.n >= 128 && clamp_dim(in.n, in.dmax) >= 120);
}
// which 128-bit integer this build uses (gudhi/uint128.h): the compiler's, or the fallback class of platforms without one
inline const char* build_name() {
#ifdef GUDHI_FORCE_FAKE_UINT128
  return sizeof(T) == 4 ? "float+fallback_uint128" : "double+fallback_uint128";
#else
  return value_name();
#endif
}
inline bj::array jedges(const Input& in) {
  bj::array a;
  for (auto& e : in.edges) a.push_back(bj::array{e.a, e.b, e.w});
  return a;
}
inline bj::object jinput(const Input& in) {
  bj::object o{{"n", in.n}, {"edges", jedges(in)}, {"dense", in.dense}, {"t", in.t}, {"dmax", in.dmax}, {"p", in.p}};
  if (!in.points.empty()) { bj::array pa; for (auto& q : in.points) pa.push_back(vf::jarr(q)); o["points"] = pa; }
  return o;
}
}  // namespace rips
