// C02: runs every CASE of MC_PersistentCohomology on the real Persistent_cohomology engine (Simplex_tree under several
// option sets, Hasse_complex built from it; Field_Zp and Multi_field) and compares every read interface with the
// expectation derived by TLC.  usage: pc_cases cases.ndjson out.ndjson [shard nshards]
#include <sstream>
#include <fstream>
#include "common.hpp"

#include <gudhi/Simplex_tree.h>
#include <gudhi/Hasse_complex.h>
#include <gudhi/Persistent_cohomology.h>
#include <gudhi/Persistent_cohomology/Field_Zp.h>
#include <gudhi/Persistent_cohomology/Multi_field.h>

using namespace vf;
namespace pc = Gudhi::persistent_cohomology;

struct Dev {
  std::string scratch;   // a file of this run's work directory (write_output_diagram)
  std::FILE* out;
  long n = 0, evals = 0;
  void report(const std::string& cfg, long ci, const bj::object& params, const std::string& what, const bj::value& exp, const bj::value& got) {
    ++n;
    if (n > 300) return;
    bj::object o{{"kind", "deviation"}, {"cfg", cfg}, {"case", ci}, {"act", params},
                 {"diffs", bj::array{bj::object{{"path", what}, {"exp", exp}, {"got", got}}}}};
    std::fprintf(out, "%s\n", bj::serialize(o).c_str());
  }
};

inline bool divides(int q, int charac) { return charac % q == 0; }
inline bool divides(int q, const mpz_class& charac) { return mpz_divisible_ui_p(charac.get_mpz_t(), static_cast<unsigned long>(q)) != 0; }

template <class Complex, class PC>
bj::array diagram_of(Complex& cpx, PC& pcoh, int q /* 0: all, else only intervals whose characteristic product q divides */) {
  std::map<std::tuple<int, std::int64_t, std::int64_t>, int> bag;
  for (auto& pr : pcoh.get_persistent_pairs()) {
    if (q != 0 && !divides(q, std::get<2>(pr))) continue;
    int dim = cpx.dimension(std::get<0>(pr));
    double b = cpx.filtration(std::get<0>(pr));
    double d = cpx.filtration(std::get<1>(pr));
    bag[{dim, fv(b).as_int64(), fv(d).as_int64()}]++;
  }
  bj::array a;
  for (auto& e : bag) a.push_back(bj::object{{"dim", std::get<0>(e.first)}, {"b", std::get<1>(e.first)}, {"d", std::get<2>(e.first)}, {"n", e.second}});
  return a;
}

template <class Complex>
void check_field(Complex& cpx, const std::string& cfg, long ci, const bj::object& ex, Dev& dev) {
  int p = static_cast<int>(ex.at("p").to_number<std::int64_t>());
  double minlen = ex.at("minlen").to_number<double>();
  bool flag = ex.at("flag").as_bool();
  bj::object params{{"op", "persistence"}, {"p", p}, {"minlen", minlen}, {"flag", flag}};
  pc::Persistent_cohomology<Complex, pc::Field_Zp> pcoh(cpx, flag);
  // the coefficient field of an engine object may be initialised again before the computation: every second case first
  // initialises another prime, every fourth first asks for a composite (refused with an exception)
  if (ci % 2 == 1) pcoh.init_coefficients(p == 2 ? 3 : 2);
  if (ci % 4 == 2) { try { pcoh.init_coefficients(4); dev.report(cfg, ci, params, "init_coefficients(4) refused", true, false); } catch (const std::exception&) {} }
  pcoh.init_coefficients(p);
  pcoh.compute_persistent_cohomology(minlen);
  dev.evals++;
  bj::value exp_diag = canon(ex.at("diag_set"), true);
  bj::value got_diag = canon(bj::value(diagram_of(cpx, pcoh, 0)), true);
  if (ser(exp_diag) != ser(got_diag)) dev.report(cfg, ci, params, "diagram", exp_diag, got_diag);
  // the derived queries, asked right after the computation and again after the diagram has been printed (output_diagram
  // sorts the stored pairs in place: the answers may not depend on the order of the queries)
  auto queries = [&](const std::string& phase) {
    // betti numbers
    bj::array bet;
    for (int x : pcoh.betti_numbers()) bet.push_back(x);
    if (ser(bj::value(bet)) != ser(ex.at("betti"))) dev.report(cfg, ci, params, phase + "betti_numbers", ex.at("betti"), bet);
    for (std::size_t k = 0; k < bet.size(); ++k)
      if (pcoh.betti_number(static_cast<int>(k)) != bet[k].as_int64()) dev.report(cfg, ci, params, phase + "betti_number(k)", bet[k], pcoh.betti_number(static_cast<int>(k)));
    for (auto& pv : ex.at("pbetti_set").as_array()) {
      const bj::object& pb = pv.as_object();
      double from = pb.at("from").to_number<double>(), to = pb.at("to").to_number<double>();
      bj::array got;
      for (int x : pcoh.persistent_betti_numbers(from, to)) got.push_back(x);
      if (ser(bj::value(got)) != ser(pb.at("v"))) dev.report(cfg, ci, params, phase + "persistent_betti_numbers(" + std::to_string(from) + "," + std::to_string(to) + ")", pb.at("v"), got);
      for (std::size_t k = 0; k < got.size(); ++k)
        if (pcoh.persistent_betti_number(static_cast<int>(k), from, to) != got[k].as_int64()) dev.report(cfg, ci, params, phase + "persistent_betti_number(k,from,to)", got[k], -1);
    }
    // intervals_in_dimension agrees with the pairs
    std::map<std::tuple<int, std::int64_t, std::int64_t>, int> bag;
    int maxd = 0;
    for (auto& e : got_diag.as_array()) maxd = std::max<int>(maxd, static_cast<int>(e.as_object().at("dim").as_int64()));
    bj::array viaint;
    for (int d = 0; d <= maxd + 1; ++d)
      for (auto& iv : pcoh.intervals_in_dimension(d)) bag[{d, fv(iv.first).as_int64(), fv(iv.second).as_int64()}]++;
    for (auto& e : bag) viaint.push_back(bj::object{{"dim", std::get<0>(e.first)}, {"b", std::get<1>(e.first)}, {"d", std::get<2>(e.first)}, {"n", e.second}});
    if (ser(canon(bj::value(viaint), true)) != ser(got_diag)) dev.report(cfg, ci, params, phase + "intervals_in_dimension", got_diag, viaint);
  };
  queries("");
  bool inf_birth = false;
  for (auto& pr : pcoh.get_persistent_pairs()) if (std::isinf(cpx.filtration(std::get<0>(pr)))) inf_birth = true;
  if (!inf_birth) {   // (the length comparator of output_diagram is not a strict weak order on inf - inf)
    std::ostringstream os;
    pcoh.output_diagram(os);
    std::map<std::tuple<int, std::int64_t, std::int64_t>, int> printed;
    std::istringstream is(os.str());
    std::string line;
    bool parse_ok = true;
    while (std::getline(is, line)) {
      std::istringstream ls(line);
      std::string c, b, d;
      int dim;
      if (!(ls >> c >> dim >> b >> d)) { parse_ok = false; continue; }
      if (c != std::to_string(p)) parse_ok = false;
      printed[{dim, fv(std::stod(b)).as_int64(), fv(std::stod(d)).as_int64()}]++;
    }
    bj::array pa;
    for (auto& e : printed) pa.push_back(bj::object{{"dim", std::get<0>(e.first)}, {"b", std::get<1>(e.first)}, {"d", std::get<2>(e.first)}, {"n", e.second}});
    if (!parse_ok || ser(canon(bj::value(pa), true)) != ser(got_diag)) dev.report(cfg, ci, params, "output_diagram", got_diag, pa);
    bj::value again = canon(bj::value(diagram_of(cpx, pcoh, 0)), true);
    if (ser(again) != ser(got_diag)) dev.report(cfg, ci, params, "get_persistent_pairs after output_diagram", got_diag, again);
    queries("after output_diagram: ");
    if (!dev.scratch.empty()) {   // the same diagram through write_output_diagram: lines "dim birth death"
      pcoh.write_output_diagram(dev.scratch);
      std::ifstream in(dev.scratch);
      std::map<std::tuple<int, std::int64_t, std::int64_t>, int> written;
      std::string b, d;
      int dim;
      while (in >> dim >> b >> d) written[{dim, fv(std::stod(b)).as_int64(), fv(std::stod(d)).as_int64()}]++;
      bj::array wa;
      for (auto& e : written) wa.push_back(bj::object{{"dim", std::get<0>(e.first)}, {"b", std::get<1>(e.first)}, {"d", std::get<2>(e.first)}, {"n", e.second}});
      if (ser(canon(bj::value(wa), true)) != ser(got_diag)) dev.report(cfg, ci, params, "write_output_diagram", got_diag, wa);
    }
  }
}

template <class Complex>
void check_multi(Complex& cpx, const std::string& cfg, long ci, const bj::array& expects, int lo, int hi, const std::vector<int>& primes, Dev& dev) {
  // multi-field over the primes of [lo, hi]: for each prime q the intervals whose product q divides are the Z_q diagram
  for (double minlen : {-1.0, 0.0}) for (bool flag : {false, true}) {
    pc::Persistent_cohomology<Complex, pc::Multi_field> pcoh(cpx, flag);
    pcoh.init_coefficients(lo, hi);
    pcoh.compute_persistent_cohomology(minlen);
    dev.evals++;
    for (int q : primes) {
      const bj::object* ex = nullptr;
      for (auto& e : expects) { const bj::object& o = e.as_object(); if (o.at("p").to_number<std::int64_t>() == q && o.at("minlen").to_number<double>() == minlen && o.at("flag").as_bool() == flag) ex = &o; }
      if (!ex) continue;
      bj::object params{{"op", "multi_field"}, {"lo", lo}, {"hi", hi}, {"q", q}, {"minlen", minlen}, {"flag", flag}};
      bj::value exp_diag = canon(ex->at("diag_set"), true);
      bj::value got_diag = canon(bj::value(diagram_of(cpx, pcoh, q)), true);
      if (ser(exp_diag) != ser(got_diag)) dev.report(cfg, ci, params, "multi_field diagram restricted to q", exp_diag, got_diag);
    }
  }
}

template <class Options>
void run_case(const std::string& oname, long ci, const bj::object& c, Dev& dev, bool multi) {
  using ST = Gudhi::Simplex_tree<Options>;
  if (Options::contiguous_vertices) {  // documented requirement of that option: vertices 0..n-1
    std::set<int> vs;
    for (auto& e : c.at("k_set").as_array()) for (int v : ints(e.as_object().at("s"))) vs.insert(v);
    if (!vs.empty() && *vs.rbegin() != static_cast<int>(vs.size()) - 1) return;
  }
  ST st;
  // insertion order: as listed (TLC's set order), which is not the filtration order
  for (auto& e : c.at("k_set").as_array())
    st.insert_simplex(ints(e.as_object().at("s")), static_cast<typename ST::Filtration_value>(e.as_object().at("f").to_number<double>()));
  const bj::array& expects = c.at("expect_set").as_array();
  for (auto& ev : expects) check_field(st, oname + "/simplex_tree", ci, ev.as_object(), dev);
  if (multi) {
    check_multi(st, oname + "/simplex_tree", ci, expects, 2, 3, {2, 3}, dev);
  }
  // Hasse complex of the same filtered complex (keys = filtration order)
  {
    st.initialize_filtration();
    typename ST::Simplex_key k = 0;
    for (auto sh : st.filtration_simplex_range()) st.assign_key(sh, k++);
    Gudhi::Hasse_complex<> hasse(st);
    for (auto& ev : expects) check_field(hasse, oname + "/hasse", ci, ev.as_object(), dev);
  }
}

struct Stable_opts : Gudhi::Simplex_tree_options_default { static const bool stable_simplex_handles = true; };

int main(int argc, char** argv) {
  if (argc < 3) { std::cerr << "usage: pc_cases cases.ndjson out.ndjson [shard nshards]" << std::endl; return 2; }
  auto cases = read_ndjson(argv[1]);
  Dev dev;
  dev.out = std::fopen(argv[2], "w");
  dev.scratch = std::string(argv[2]) + ".diagram";
  int shard = argc >= 5 ? std::atoi(argv[3]) : 0, nshards = argc >= 5 ? std::atoi(argv[4]) : 1;
  crash_ctx().out = dev.out;
  install_crash_handlers();
  long ci = -1, done = 0;
  for (auto& cv : cases) {
    ++ci;
    if (ci % nshards != shard) continue;
    const bj::object& c = cv.as_object();
    crash_ctx().where = "case " + std::to_string(ci);
    run_case<Gudhi::Simplex_tree_options_default>("default", ci, c, dev, true);
    run_case<Gudhi::Simplex_tree_options_full_featured>("full_featured", ci, c, dev, false);
    run_case<Gudhi::Simplex_tree_options_fast_persistence>("fast_persistence", ci, c, dev, false);
    run_case<Stable_opts>("stable", ci, c, dev, false);
    ++done;
  }
  std::fprintf(dev.out, "%s\n", bj::serialize(bj::object{{"kind", "summary"}, {"cfg", "pc_cases"}, {"behaviours", done}, {"steps", dev.evals}, {"skipped", 0}, {"deviations", dev.n}}).c_str());
  std::fclose(dev.out);
  return 0;
}
