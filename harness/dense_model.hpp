// Binding of DenseMatrix.tla / CompressedMatrix.tla to "basic" Gudhi::persistence_matrix::Matrix instantiations:
// executes the actions of the specification on a real matrix and projects the matrix to the abstract dense
// state through the public read API only (get_column().get_content, iteration over the column, is_zero_entry,
// is_zero_column, get_row, get_number_of_columns).
#pragma once
#include "common.hpp"

#include <gudhi/Matrix.h>
#include <gudhi/persistence_matrix_options.h>

#include <sys/wait.h>
#include <memory>

namespace vf {

using Gudhi::persistence_matrix::Column_indexation_types;
using Gudhi::persistence_matrix::Column_types;

// RA: 0 no row access, 1 intrusive rows, 2 set rows
template <Column_types CT, bool Z2, int RA, bool RemRows, bool MapC, bool Swaps, bool Comp>
struct DOpt {
  using Field_coeff_operators = Gudhi::persistence_fields::Zp_field_operators<>;
  using Index = unsigned int;
  using Dimension = int;
  static const bool is_z2 = Z2;
  static const Column_types column_type = CT;
  static const Column_indexation_types column_indexation_type = Column_indexation_types::CONTAINER;
  static const bool has_matrix_maximal_dimension_access = false;
  static const bool has_column_pairings = false;
  static const bool has_vine_update = false;
  static const bool can_retrieve_representative_cycles = false;
  static const bool is_of_boundary_type = true;
  static const bool has_column_compression = Comp;
  static const bool has_row_access = (RA != 0);
  static const bool has_intrusive_rows = (RA == 1);
  static const bool has_removable_rows = RemRows;
  static const bool has_removable_columns = MapC;
  static const bool has_map_column_container = MapC;
  static const bool has_column_and_row_swaps = Swaps;
  // for the harness
  static const int ra = RA;
};

inline const char* ct_name(Column_types c) {
  switch (c) {
    case Column_types::LIST: return "LIST";
    case Column_types::SET: return "SET";
    case Column_types::HEAP: return "HEAP";
    case Column_types::VECTOR: return "VECTOR";
    case Column_types::NAIVE_VECTOR: return "NAIVE_VECTOR";
    case Column_types::SMALL_VECTOR: return "SMALL_VECTOR";
    case Column_types::UNORDERED_SET: return "UNORDERED_SET";
    case Column_types::INTRUSIVE_LIST: return "INTRUSIVE_LIST";
    case Column_types::INTRUSIVE_SET: return "INTRUSIVE_SET";
  }
  return "?";
}

struct DenseGlobals {
  int P = 2;       // characteristic of the model being replayed
  int NR = 3;      // rows of the model
  int ctor = 0;    // 0: Matrix() (+ set_characteristic), 1: Matrix(numberOfColumns, characteristic)
  int reserve = 4; // argument of the reserving constructor
  int fork_timeout_s = 5;
};
inline DenseGlobals& dg() { static DenseGlobals g; return g; }

inline std::int64_t geti(const bj::object& o, const char* k) { return o.at(k).to_number<std::int64_t>(); }

template <class Opt>
struct DenseModel {
  using M = Gudhi::persistence_matrix::Matrix<Opt>;
  using Entry = typename M::Matrix_entry;
  using Element = typename M::Element;
  using Col = typename M::Column;
  static constexpr bool Z2 = Opt::is_z2;
  static constexpr bool RA = Opt::has_row_access;
  static constexpr bool MapC = Opt::has_map_column_container;
  static constexpr bool Swaps = Opt::has_column_and_row_swaps;
  static constexpr bool Comp = Opt::has_column_compression;
  static constexpr Column_types CT = Opt::column_type;
  static constexpr bool UnorderedRangeOK = (CT == Column_types::HEAP || CT == Column_types::UNORDERED_SET);

  std::unique_ptr<M> mp;
  // mirror of the documented index bookkeeping (which indices hold a column, next unused index)
  std::set<unsigned> live;
  unsigned next = 0;
  // rows known to the lazy-swap dictionaries of a map-container matrix (only used to keep
  // erase_empty_row inside its documented use: the row has to exist)
  std::set<unsigned> reg;
  // number of rows the matrix has been told about (reserving constructor, inserted columns): configurations whose
  // row dictionaries are plain vectors are only asked about rows that exist
  unsigned rowbound = 0;
  static constexpr bool RowsVec = RA && !Opt::has_removable_rows;   // rows_ is a std::vector<Row>
  static constexpr bool SwapVec = Swaps && !MapC;                   // indexToRow_ is a std::vector
  bool row_known(unsigned r) const {
    if (SwapVec) return r < rowbound;
    if (MapC && Swaps) return reg.count(r) > 0;
    return true;
  }
  unsigned rb_rows() const { return RowsVec ? std::min<unsigned>(rowbound, dg().NR) : dg().NR; }
  unsigned rb_ze() const { return SwapVec ? std::min<unsigned>(rowbound, dg().NR) : dg().NR; }
  // result of a step executed in a child process (crash containment), consumed by observe()
  bool have_forked_obs = false;
  bj::object forked_obs;

  // an exception escaped from the library in the middle of an operation: the object may be half-updated, it is
  // reported as a deviation and never destroyed (its destructor could take the process down)
  bool poisoned = false;
  ~DenseModel() { if (poisoned) (void)mp.release(); }

  static std::string& cfgname() { static std::string n; return n; }
  static const char* name() { return cfgname().c_str(); }
  static std::string make_name() {
    std::string s = ct_name(CT);
    s += Z2 ? "/z2" : "/zp";
    s += Opt::ra == 0 ? "/ra0" : (Opt::ra == 1 ? "/raI" : "/raS");
    s += Opt::has_removable_rows ? "/rr1" : "/rr0";
    s += MapC ? "/map" : "/vec";
    s += Swaps ? "/sw1" : "/sw0";
    s += Comp ? "/comp" : "/plain";
    s += dg().ctor ? "/ctorN" : "/ctor0";
    return s;
  }

  DenseModel() {
    if (dg().ctor == 0) {
      mp.reset(new M());
      if constexpr (!Z2) {
        // set_characteristic warns on std::cerr ("already initialised") even on a fresh default-constructed matrix
        auto st = std::cerr.rdstate();
        std::cerr.setstate(std::ios::failbit);
        mp->set_characteristic(static_cast<unsigned>(dg().P));
        std::cerr.clear(st);
      }
    } else {
      mp.reset(new M(static_cast<unsigned>(dg().reserve), static_cast<unsigned>(dg().P)));
      if (MapC && Swaps) for (int r = 0; r < dg().reserve; ++r) reg.insert(r);
      rowbound = static_cast<unsigned>(dg().reserve);
    }
  }
  M& m() { return *mp; }

  // ----- which actions / states this configuration can execute -----
  bool applicable(const bj::object& act) const {
    std::string op(act.at("op").as_string());
    if (Z2 && dg().P != 2) return false;
    if (op == "insert_at") return !RA && !Comp;
    if (op == "remove_col") return MapC && !Comp;
    if ((op == "remove_last" || op == "zero_entry" || op == "zero_col") && Comp) return false;
    if ((op == "swap_cols" || op == "swap_rows") && !(Swaps && !Comp)) return false;
    if (op == "add_r" || op == "mta_r" || op == "msa_r") {
      std::string o(act.at("o").as_string());
      if (o != "asc" && !UnorderedRangeOK) return false;  // ranges have to be ordered by row index for this column type
    }
    if (op == "erase_row" && MapC && Swaps) {
      if (!reg.count(static_cast<unsigned>(geti(act, "r")))) return false;
    }
    // Row indices handed to a matrix with lazy swaps have to be rows the matrix knows (reserving constructor or
    // an inserted column mentioning them): its dictionaries are only filled by those two.  swap_rows is exempt:
    // base_swap.h handles unknown indices explicitly.
    if (op == "erase_row" || op == "zero_entry") if (!row_known(static_cast<unsigned>(geti(act, "r")))) return false;
    if (op == "add_r" || op == "mta_r" || op == "msa_r") {
      auto v = ints(act.at("v"));
      for (std::size_t r = 0; r < v.size(); ++r) if (v[r] != 0 && !row_known(static_cast<unsigned>(r))) return false;
    }
    return true;
  }
  bool state_ok(const bj::object&) const { return true; }
  void mask(bj::object& o) const {
    if (!RA) o.erase("rows");
    if (MapC) o.erase("ncols_vec"); else o.erase("ncols_map");
    o.erase("next");
    o.erase("pend");
    if (!Comp) o.erase("cls_ok");
    if (RowsVec && rb_rows() < static_cast<unsigned>(dg().NR)) {
      auto it = o.find("rows");
      if (it != o.end()) { bj::array& a = it->value().as_array(); while (a.size() > rb_rows()) a.pop_back(); }
    }
    if (SwapVec && rb_ze() < static_cast<unsigned>(dg().NR)) {
      auto it = o.find("cols_set");
      if (it != o.end()) for (auto& c : it->value().as_array()) {
        auto z = c.as_object().find("ze");
        if (z != c.as_object().end()) { bj::array& a = z->value().as_array(); while (a.size() > rb_ze()) a.pop_back(); }
      }
    }
  }

  // ----- argument conversion -----
  static std::vector<int> vec_of(const bj::value& v) { return ints(v); }
  auto container_of(const std::vector<int>& v) const {
    if constexpr (Z2) {
      std::vector<unsigned> c;
      for (std::size_t r = 0; r < v.size(); ++r) if (v[r] != 0) c.push_back(static_cast<unsigned>(r));
      return c;
    } else {
      std::vector<std::pair<unsigned, Element>> c;
      for (std::size_t r = 0; r < v.size(); ++r) if (v[r] != 0) c.emplace_back(static_cast<unsigned>(r), static_cast<Element>(v[r]));
      return c;
    }
  }
  static std::vector<Entry> range_of(const std::vector<int>& v, const std::string& order) {
    std::vector<Entry> rg;
    for (std::size_t r = 0; r < v.size(); ++r) {
      if (v[r] == 0) continue;
      Entry e(static_cast<unsigned>(r));
      if constexpr (!Z2) e.set_element(static_cast<Element>(v[r]));
      rg.push_back(e);
    }
    if (order == "desc") std::reverse(rg.begin(), rg.end());
    if (order == "rot" && rg.size() > 1) std::rotate(rg.begin(), rg.begin() + 1, rg.end());
    return rg;
  }

  void note_rows(const std::vector<int>& v) {
    for (std::size_t r = 0; r < v.size(); ++r) if (v[r] != 0) {
      if (MapC && Swaps) reg.insert(static_cast<unsigned>(r));
      rowbound = std::max<unsigned>(rowbound, static_cast<unsigned>(r) + 1);
    }
  }

  // a step that may crash or hang the process is executed in a child; the child reports its observation
  template <class F>
  void contained(F&& f) {
    int fd[2];
    if (pipe(fd) != 0) { f(); return; }
    std::fflush(nullptr);
    pid_t pid = fork();
    if (pid < 0) { f(); return; }
    if (pid == 0) {
      close(fd[0]);
      std::signal(SIGSEGV, SIG_DFL); std::signal(SIGABRT, SIG_DFL); std::signal(SIGFPE, SIG_DFL);
      std::signal(SIGBUS, SIG_DFL); std::signal(SIGILL, SIG_DFL);
      alarm(static_cast<unsigned>(dg().fork_timeout_s));
      bj::object o;
      try { f(); o = observe_now(); } catch (const std::exception& e) { o["exception_in_step"] = e.what(); }
      std::string s = bj::serialize(o);
      std::size_t off = 0;
      while (off < s.size()) { ssize_t w = write(fd[1], s.data() + off, s.size() - off); if (w <= 0) break; off += static_cast<std::size_t>(w); }
      close(fd[1]);
      _exit(0);
    }
    close(fd[1]);
    std::string s;
    char buf[4096];
    ssize_t n;
    while ((n = read(fd[0], buf, sizeof buf)) > 0) s.append(buf, static_cast<std::size_t>(n));
    close(fd[0]);
    int status = 0;
    waitpid(pid, &status, 0);
    bj::object o;
    if (WIFSIGNALED(status)) {
      o["crashed_with_signal"] = WTERMSIG(status);
    } else {
      try { o = bj::parse(s).as_object(); } catch (...) { o["crashed_with_signal"] = -1; }
    }
    forked_obs = o;
    have_forked_obs = true;
  }

  // ----- actions -----
  bj::object apply(const bj::object& act) {
    try { return apply_(act); } catch (...) { poisoned = true; throw; }
  }
  bj::object apply_(const bj::object& act) {
    std::string op(act.at("op").as_string());
    bj::object out;
    have_forked_obs = false;
    M& mm = m();
    const bool contain = risky(act);
    auto run = [&](auto&& f) { if (contain) contained(f); else f(); };
    if (op == "insert") {
      auto v = vec_of(act.at("v"));
      mm.insert_column(container_of(v));
      live.insert(next);
      ++next;
      note_rows(v);
    } else if (op == "insert_at") {
      if constexpr (!RA && !Comp) {
        auto v = vec_of(act.at("v"));
        unsigned i = static_cast<unsigned>(geti(act, "i"));
        mm.insert_column(container_of(v), i);
        live.insert(i);
        if (i >= next) next = i + 1;
        note_rows(v);
      }
    } else if (op == "remove_col") {
      if constexpr (MapC && !Comp) {
        unsigned i = static_cast<unsigned>(geti(act, "i"));
        mm.remove_column(i);
        live.erase(i);
        if (next > 0 && i == next - 1) --next;
      }
    } else if (op == "remove_last") {
      if constexpr (!Comp) {
        mm.remove_last();
        if (next > 0) { --next; live.erase(next); }
      }
    } else if (op == "add" || op == "mta" || op == "msa") {
      unsigned s = static_cast<unsigned>(geti(act, "s")), t = static_cast<unsigned>(geti(act, "t"));
      int c = op == "add" ? 1 : static_cast<int>(geti(act, "c"));
      auto doit = [&, s, t, c]() {
        if (op == "add") mm.add_to(s, t);
        else if (op == "mta") mm.multiply_target_and_add_to(s, c, t);
        else mm.multiply_source_and_add_to(c, s, t);
      };
      run(doit);
    } else if (op == "add_r" || op == "mta_r" || op == "msa_r") {
      auto v = vec_of(act.at("v"));
      unsigned t = static_cast<unsigned>(geti(act, "t"));
      int c = op == "add_r" ? 1 : static_cast<int>(geti(act, "c"));
      std::vector<Entry> rg = range_of(v, std::string(act.at("o").as_string()));
      auto doit = [&, t, c]() {
        if (op == "add_r") mm.add_to(rg, t);
        else if (op == "mta_r") mm.multiply_target_and_add_to(rg, c, t);
        else mm.multiply_source_and_add_to(c, rg, t);
      };
      run(doit);
    } else if (op == "zero_entry") {
      if constexpr (!Comp) mm.zero_entry(static_cast<unsigned>(geti(act, "c")), static_cast<unsigned>(geti(act, "r")));
    } else if (op == "zero_col") {
      if constexpr (!Comp) mm.zero_column(static_cast<unsigned>(geti(act, "c")));
    } else if (op == "swap_cols") {
      if constexpr (Swaps && !Comp) mm.swap_columns(static_cast<unsigned>(geti(act, "a")), static_cast<unsigned>(geti(act, "b")));
    } else if (op == "swap_rows") {
      if constexpr (Swaps && !Comp) {
        unsigned a = static_cast<unsigned>(geti(act, "a")), b = static_cast<unsigned>(geti(act, "b"));
        run([&]() { mm.swap_rows(a, b); });
        if (MapC && reg.count(a) != reg.count(b)) {  // the existing row takes the other index
          if (reg.count(a)) { reg.erase(a); reg.insert(b); } else { reg.erase(b); reg.insert(a); }
        }
      }
    } else if (op == "erase_row") {
      unsigned r = static_cast<unsigned>(geti(act, "r"));
      mm.erase_empty_row(r);
      reg.erase(r);
    } else if (op == "flush") {
      if (!live.empty()) (void)mm.get_column(*live.begin()).get_content(dg().NR);
    } else {
      out["exception"] = "unknown op " + op;
    }
    return out;
  }

  // Steps that can take the whole process down are executed in a child process (see contained()):
  //  - column compression: the target column is zero, or source and target share one representative;
  //  - vector containers with swaps: swap_rows with a row index the matrix has not been told about yet.
  bool risky(const bj::object& act) {
    std::string op(act.at("op").as_string());
    if constexpr (Comp) {
      if (op == "add" || op == "mta" || op == "msa" || op == "add_r" || op == "mta_r" || op == "msa_r") {
        unsigned t = static_cast<unsigned>(geti(act, "t"));
        if (m().is_zero_column(t)) return true;
        if (act.find("s") != act.end() && &m().get_column(static_cast<unsigned>(geti(act, "s"))) == &m().get_column(t)) return true;
      }
    }
    if constexpr (SwapVec) {
      if (op == "swap_rows" && static_cast<unsigned>(std::max(geti(act, "a"), geti(act, "b"))) >= rowbound) return true;
    }
    if constexpr (CT == Column_types::VECTOR && !Comp) {
      //  - VECTOR columns: addition of a source column that still stores lazily erased entries
      if (op == "add" || op == "mta") {
        auto& src = m().get_column(static_cast<unsigned>(geti(act, "s")));
        std::size_t stored = 0, nnz = 0;
        for (const Entry& e : src) { (void)e; ++stored; }
        for (auto x : src.get_content(dg().NR)) if (x != 0) ++nnz;
        if (stored != nnz) return true;
      }
    }
    return false;
  }

  // ----- projection -----
  bj::object observe() {
    if (have_forked_obs) { have_forked_obs = false; return forked_obs; }
    return observe_now();
  }

  int elem(const Entry& e) const {
    if constexpr (Z2) return 1; else return static_cast<int>(e.get_element());
  }

  bj::object observe_now() {
    M& mm = m();
    const int NR = dg().NR, P = dg().P;
    bj::object o;
    bj::array errors;
    // classes of a compressed matrix: columns sharing one representative object
    std::map<unsigned, unsigned> cls;
    if constexpr (Comp) {
      std::map<const void*, unsigned> first;
      for (unsigned i : live) {
        const void* a = &mm.get_column(i);
        // all zero columns share the static empty column: they are their own class unless the spec says otherwise;
        // classes are only used to name row entries, which zero columns do not have
        auto it = first.find(a);
        if (it == first.end()) { first[a] = i; cls[i] = i; } else cls[i] = it->second;
      }
    }
    bj::array cs;
    for (unsigned i : live) {
      bj::object c;
      c["c"] = static_cast<std::int64_t>(i);
      try {
        auto& col = mm.get_column(i);
        auto content = col.get_content(NR);
        bj::array v;
        for (auto x : content) v.push_back(static_cast<std::int64_t>(static_cast<unsigned>(x)));
        if (static_cast<int>(content.size()) != NR) errors.emplace_back("get_content(n) has not n elements");
        c["v"] = v;
        // iteration over the entries of the column
        std::vector<std::int64_t> it(NR, 0);
        std::vector<int> seen(NR, 0);
        for (const Entry& e : col) {
          unsigned r = e.get_row_index();
          if (r >= static_cast<unsigned>(NR)) { errors.emplace_back("entry with row index outside the matrix"); continue; }
          if constexpr (CT == Column_types::HEAP) {
            it[r] = (it[r] + elem(e)) % P;  // documented: the value of a row is the sum of the stored entries of that row
          } else if constexpr (CT == Column_types::VECTOR) {
            // documented: lazily erased entries may still be in the container, row indices stay unique
            if (seen[r]++) errors.emplace_back("two entries with the same row index in a VECTOR column");
            if (col.is_non_zero(r)) it[r] = elem(e);
          } else {
            if (seen[r]++) errors.emplace_back("two entries with the same row index");
            it[r] = elem(e);
            if (elem(e) == 0) errors.emplace_back("stored entry with value zero");
          }
        }
        c["it"] = jarr(it);
        c["zc"] = mm.is_zero_column(i);
        bj::array ze;
        for (int r = 0; r < static_cast<int>(rb_ze()); ++r) {
          bool z;
          try { z = mm.is_zero_entry(i, static_cast<unsigned>(r)); }
          catch (const std::out_of_range&) { z = true; if (!(MapC && Swaps)) throw; }  // a row the swap dictionaries never saw
          ze.push_back(z);
        }
        c["ze"] = ze;
      } catch (const std::exception& e) {
        c["exception"] = e.what();
        poisoned = true;
      }
      cs.push_back(c);
    }
    o["cols_set"] = cs;
    // holes of a vector container read as empty columns
    bool holes_ok = true;
    if constexpr (!MapC && !Comp) {
      for (unsigned i = 0; i < next; ++i) {
        if (live.count(i)) continue;
        try {
          auto content = mm.get_column(i).get_content(NR);
          for (auto x : content) if (x != 0) holes_ok = false;
          if (!mm.is_zero_column(i)) holes_ok = false;
        } catch (const std::exception&) { holes_ok = false; }
      }
    }
    o["holes_ok"] = holes_ok;
    std::int64_t nc = static_cast<std::int64_t>(mm.get_number_of_columns());
    if (MapC) o["ncols_map"] = nc; else o["ncols_vec"] = nc;
    if constexpr (RA) {
      bj::array rows;
      for (int r = 0; r < static_cast<int>(rb_rows()); ++r) {
        bj::array es;
        try {
          for (const auto& e : mm.get_row(static_cast<unsigned>(r))) {
            std::int64_t c = static_cast<std::int64_t>(e.get_column_index());
            if constexpr (Comp) {
              auto it = cls.find(static_cast<unsigned>(c));
              if (it == cls.end()) errors.emplace_back("row entry with unknown column index"); else c = it->second;
            }
            if (e.get_row_index() != static_cast<unsigned>(r)) errors.emplace_back("row entry with another row index");
            es.push_back(bj::object{{"c", c}, {"x", elem(e)}});
          }
        } catch (const std::out_of_range&) {
          // removable rows: a row without entries may have been removed from the dictionary (reads as empty)
          if (!Opt::has_removable_rows) errors.emplace_back("get_row throws out_of_range");
        }
        rows.push_back(bj::object{{"r", r}, {"e_set", es}});
      }
      o["rows"] = rows;
    }
    o["errors"] = errors;
    return o;
  }
};

}  // namespace vf

// ---------------------------------------------------------------------------------------------
// Replay of a path cover (same file formats and report lines as vf::replay_config of common.hpp); the only
// difference is that the applicability of an action is asked of the model *in the state in which the
// action is about to be executed* (row bookkeeping of the configuration decides some of them).
namespace vf {

inline bool name_selected(const std::string& name) {
  if (const char* only = std::getenv("VF_ONLY")) {
    if (*only) {
      std::string o = std::string("|") + only + "|";
      if (o.find("|" + name + "|") == std::string::npos) return false;
    }
  }
  const char* f = std::getenv("VF_FILTER");
  if (!f || !*f) return true;
  std::stringstream ss(f);
  std::string tok;
  while (std::getline(ss, tok, ',')) {
    if (tok.empty()) continue;
    bool neg = tok[0] == '!';
    std::string t = neg ? tok.substr(1) : tok;
    bool has = (name + "/").find(t) != std::string::npos;
    if (has == neg) return false;
  }
  return true;
}

inline void report_exception(ReplayCtx& ctx, ReplayStats& st, std::int64_t u, std::int64_t k, int step, const char* phase,
                             const bj::object& act, const std::string& what) {
  st.deviations++;
  if (static_cast<std::size_t>(st.deviations) > ctx.max_dev_report) return;
  bj::object o{{"kind", "deviation"}, {"cfg", st.cfg}, {"u", u}, {"k", k}, {"step", step}, {"phase", phase}, {"act", act}};
  o["diffs"] = bj::array{bj::object{{"path", "act.exception"}, {"exp", nullptr}, {"got", what}}};
  std::fprintf(ctx.out, "%s\n", bj::serialize(o).c_str());
}

template <class Model>
void dense_replay_config(ReplayCtx& ctx) {
  ReplayStats st;
  st.cfg = Model::name();
  long gi = -1;
  for (auto& gv : ctx.groups) {
    ++gi;
    if (gi % ctx.nshards != ctx.shard) continue;
    const bj::object& g = gv.as_object();
    std::int64_t u = g.at("u").as_int64();
    const bj::array& path = g.at("path").as_array();
    const bj::array& edges = g.at("edges").as_array();
    bool path_ok = true, followable = true;
    {
      Model m;
      int step = 0;
      for (auto& sv : path) {
        const bj::object& s = sv.as_object();
        const bj::object& act = s.at("act").as_object();
        if (!m.applicable(act) || m.risky(act)) { followable = false; break; }
        crash_ctx().where = st.cfg + " path u=" + std::to_string(u) + " step=" + std::to_string(step);
        bj::object got;
        try { got = m.apply(act); } catch (const std::exception& e) {
          report_exception(ctx, st, u, -1, step, "path", act, e.what());
          path_ok = false;
          break;
        }
        st.steps++;
        if (!check_step(m, act, got, ctx.states[s.at("to").as_int64()], ctx, st, u, -1, step, "path")) {
          m.poisoned = true;  // an object that deviated is never destroyed (its destructor may crash)
          path_ok = false;
          break;
        }
        ++step;
      }
    }
    if (!followable || !path_ok) { st.skipped += edges.size(); continue; }
    for (auto& ev : edges) {
      const bj::object& e = ev.as_object();
      const bj::object& act = e.at("act").as_object();
      std::int64_t k = e.at("k").as_int64();
      Model m;
      crash_ctx().where = st.cfg + " edge u=" + std::to_string(u) + " k=" + std::to_string(k);
      // the prefix is executed without observations in between (observing orders the rows: lazy state differs)
      bool prefix_ok = true;
      int pstep = 0;
      for (auto& sv : path) {
        const bj::object& pact = sv.as_object().at("act").as_object();
        try { m.apply(pact); } catch (const std::exception& ex) {
          report_exception(ctx, st, u, -1, pstep, "path", pact, ex.what());
          prefix_ok = false;
          break;
        }
        ++pstep;
      }
      if (!prefix_ok) { st.skipped += edges.size(); break; }
      if (!m.applicable(act)) { st.skipped++; continue; }
      bj::object got;
      try { got = m.apply(act); } catch (const std::exception& ex) {
        report_exception(ctx, st, u, k, static_cast<int>(path.size()), "edge", act, ex.what());
        st.behaviours++;
        continue;
      }
      st.steps += path.size() + 1;
      st.behaviours++;
      if (!check_step(m, act, got, ctx.states[e.at("to").as_int64()], ctx, st, u, k, static_cast<int>(path.size()), "edge"))
        m.poisoned = true;
    }
  }
  bj::object o{{"kind", "summary"}, {"cfg", st.cfg}, {"behaviours", st.behaviours}, {"steps", st.steps},
               {"skipped", st.skipped}, {"deviations", st.deviations}};
  std::fprintf(ctx.out, "%s\n", bj::serialize(o).c_str());
  std::fflush(ctx.out);
}

// ---- enumeration of the instantiations of one translation unit ----
// VF_CT      : column type 0..8 (order of the Column_types enum)
// VF_PART    : 0 = Z_2 plain, 1 = Z_p plain, 2 = column compression (both coefficient modes)
// VF_QUICK   : 1 = a covering selection of the option cross product instead of all of it
#ifndef VF_QUICK
#define VF_QUICK 0
#endif
constexpr bool dense_selected(bool z2, int ra, bool rr, bool mapc, bool sw, bool comp) {
  if (!VF_QUICK) return true;
  if (comp) return (z2 && ra == 1 && rr) || (!z2 && ra == 0) || (!z2 && ra == 2 && !rr);
  // every pair of option values occurs in one of these
  if (ra == 0) return (z2 && !mapc && !sw) || (!z2 && mapc && sw) || (!z2 && !mapc && sw) || (z2 && mapc && !sw);
  if (ra == 1) return (!z2 && !rr && !mapc && sw) || (z2 && rr && mapc && sw) || (!z2 && rr && !mapc && !sw);
  return (z2 && rr && mapc && !sw) || (!z2 && !rr && mapc && sw) || (z2 && !rr && !mapc && sw);
}

template <class F, Column_types CT, bool Z2, int RA, bool RR, bool MapC, bool Sw, bool Comp>
void dense_one(F& f) {
  if constexpr ((CT != Column_types::HEAP || (RA == 0 && !Comp)) && (RA != 0 || !RR) && dense_selected(Z2, RA, RR, MapC, Sw, Comp)) {
    using Mdl = DenseModel<DOpt<CT, Z2, RA, RR, MapC, Sw, Comp>>;
    Mdl::cfgname() = Mdl::make_name();
    if (name_selected(Mdl::cfgname())) f.template operator()<Mdl>();
  }
}
template <class F, Column_types CT, bool Z2, bool Comp>
void dense_all_of(F& f) {
  if constexpr (Comp) {
    dense_one<F, CT, Z2, 0, false, false, false, true>(f);
    dense_one<F, CT, Z2, 1, false, false, false, true>(f);
    dense_one<F, CT, Z2, 1, true, false, false, true>(f);
    dense_one<F, CT, Z2, 2, false, false, false, true>(f);
    dense_one<F, CT, Z2, 2, true, false, false, true>(f);
  } else {
    dense_one<F, CT, Z2, 0, false, false, false, false>(f);
    dense_one<F, CT, Z2, 0, false, false, true, false>(f);
    dense_one<F, CT, Z2, 0, false, true, false, false>(f);
    dense_one<F, CT, Z2, 0, false, true, true, false>(f);
    dense_one<F, CT, Z2, 1, false, false, false, false>(f);
    dense_one<F, CT, Z2, 1, false, false, true, false>(f);
    dense_one<F, CT, Z2, 1, false, true, false, false>(f);
    dense_one<F, CT, Z2, 1, false, true, true, false>(f);
    dense_one<F, CT, Z2, 1, true, false, false, false>(f);
    dense_one<F, CT, Z2, 1, true, false, true, false>(f);
    dense_one<F, CT, Z2, 1, true, true, false, false>(f);
    dense_one<F, CT, Z2, 1, true, true, true, false>(f);
    dense_one<F, CT, Z2, 2, false, false, false, false>(f);
    dense_one<F, CT, Z2, 2, false, false, true, false>(f);
    dense_one<F, CT, Z2, 2, false, true, false, false>(f);
    dense_one<F, CT, Z2, 2, false, true, true, false>(f);
    dense_one<F, CT, Z2, 2, true, false, false, false>(f);
    dense_one<F, CT, Z2, 2, true, false, true, false>(f);
    dense_one<F, CT, Z2, 2, true, true, false, false>(f);
    dense_one<F, CT, Z2, 2, true, true, true, false>(f);
  }
}
template <class F>
void dense_for_each_config(F& f) {
  constexpr Column_types CT = static_cast<Column_types>(VF_CT);
#if VF_PART == 0
  dense_all_of<F, CT, true, false>(f);
#elif VF_PART == 1
  dense_all_of<F, CT, false, false>(f);
#else
  dense_all_of<F, CT, true, true>(f);
  dense_all_of<F, CT, false, true>(f);
#endif
}

inline void dense_globals_from_env() {
  if (const char* e = std::getenv("VF_P")) dg().P = std::atoi(e);
  if (const char* e = std::getenv("VF_NR")) dg().NR = std::atoi(e);
  if (const char* e = std::getenv("VF_CTOR")) dg().ctor = std::atoi(e);
  if (const char* e = std::getenv("VF_RESERVE")) dg().reserve = std::atoi(e);
}

}  // namespace vf
