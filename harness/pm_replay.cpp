// Replays the MC_PersistenceMatrix state graph on real Matrix instantiations.  VF_GROUP selects the list.
#include "pm_model.hpp"

using namespace vf;
using CT = Column_types;
using IX = Column_indexation_types;

template <class O, class I>
void run1(ReplayCtx& ctx, const std::string& oname) {
  using Mo = PmModel<O, I>;
  Mo::cfgname() = oname + "/" + I::name();
  replay_config<Mo>(ctx);
}
template <class O>
void run(ReplayCtx& ctx, const std::string& oname) {
  const char* e = std::getenv("VF_IDS");
  std::string ids = e ? e : "both";
#if VF_FAMILY == 2
  // representative cycles are computed under the assumption that identifiers equal positions
  // (chain_rep_cycles.h says so in a comment; known finding C08-ids-not-positions, witnessed with VF_IDS=gap)
  if (ids != "gap") run1<O, IdPos>(ctx, oname);
  else run1<O, IdGap>(ctx, oname);
  return;
#endif
  if constexpr (O::flavour == FL_RU && O::has_vine_update) {
    // RU matrices with vine updates address U with R's row labels: identifiers must equal positions
    // (known finding C06-ru-vine-ids, witnessed separately with VF_IDS=gap)
    if (ids != "gap") run1<O, IdPos>(ctx, oname);
    else run1<O, IdGap>(ctx, oname);
  } else {
    if (ids != "gap") run1<O, IdSeq>(ctx, oname);
    if (ids != "seq") run1<O, IdGap>(ctx, oname);
    if (ids != "seq" && ids != "gap") run1<O, IdMix>(ctx, oname);
  }
}

// FL, Z2, CT, IDX, Vine, Rep, Barcode, RowAccess, RemRows, MapCols
template <CT ct, bool Z2>
void per_column_type(ReplayCtx& ctx, const std::string& cn) {
  std::string z = Z2 ? "z2" : "zp";
  constexpr int RA = (ct == CT::HEAP) ? 0 : 1;
#if VF_FAMILY == 0  // C05: boundary, RU (rep cycles, no vine), chain (barcode, rep)
  run<PmOpt<FL_BOUNDARY, Z2, ct, IX::CONTAINER, false, false, true, 0, false, false>>(ctx, "B/" + cn + "/" + z + "/cont");
  run<PmOpt<FL_BOUNDARY, Z2, ct, IX::IDENTIFIER, false, false, true, RA, RA != 0, true>>(ctx, "B/" + cn + "/" + z + "/id/row/map");
  run<PmOpt<FL_RU, Z2, ct, IX::CONTAINER, false, true, true, 0, false, false>>(ctx, "RU/" + cn + "/" + z + "/cont");
  run<PmOpt<FL_RU, Z2, ct, IX::POSITION, false, true, true, RA, false, true>>(ctx, "RU/" + cn + "/" + z + "/pos/row/map");
  run<PmOpt<FL_RU, Z2, ct, IX::IDENTIFIER, false, true, true, 0, false, true>>(ctx, "RU/" + cn + "/" + z + "/id/map");
  run<PmOpt<FL_CHAIN, Z2, ct, IX::CONTAINER, false, false, true, 0, false, false>>(ctx, "CH/" + cn + "/" + z + "/cont");
  run<PmOpt<FL_CHAIN, Z2, ct, IX::POSITION, false, true, true, RA, RA != 0, true>>(ctx, "CH/" + cn + "/" + z + "/pos/row/map");
  run<PmOpt<FL_CHAIN, Z2, ct, IX::IDENTIFIER, false, true, true, 0, false, true>>(ctx, "CH/" + cn + "/" + z + "/id/map");
#elif VF_FAMILY == 2  // C08: flavours offering representative cycles
  run<PmOpt<FL_RU, Z2, ct, IX::CONTAINER, false, true, true, 0, false, false>>(ctx, "RU/" + cn + "/" + z + "/cont");
  run<PmOpt<FL_RU, Z2, ct, IX::POSITION, false, true, true, RA, false, true>>(ctx, "RU/" + cn + "/" + z + "/pos/row/map");
  run<PmOpt<FL_RU, Z2, ct, IX::IDENTIFIER, false, true, true, 0, false, true>>(ctx, "RU/" + cn + "/" + z + "/id/map");
  run<PmOpt<FL_CHAIN, Z2, ct, IX::CONTAINER, false, true, true, 0, false, true>>(ctx, "CH/" + cn + "/" + z + "/cont/map");
  run<PmOpt<FL_CHAIN, Z2, ct, IX::POSITION, false, true, true, RA, RA != 0, true>>(ctx, "CH/" + cn + "/" + z + "/pos/row/map");
  run<PmOpt<FL_CHAIN, Z2, ct, IX::IDENTIFIER, false, true, true, 0, false, true>>(ctx, "CH/" + cn + "/" + z + "/id/map");
#else               // C06: vine updates (Z2 only)
  if constexpr (Z2) {
    run<PmOpt<FL_RU, true, ct, IX::CONTAINER, true, false, true, 0, false, false>>(ctx, "RUv/" + cn + "/cont");
    run<PmOpt<FL_RU, true, ct, IX::POSITION, true, true, true, RA, false, true>>(ctx, "RUv/" + cn + "/pos/rep/row/map");
    run<PmOpt<FL_RU, true, ct, IX::IDENTIFIER, true, false, true, 0, false, true>>(ctx, "RUv/" + cn + "/id/map");
    run<PmOpt<FL_RU, true, ct, IX::CONTAINER, true, false, false, 0, false, true>>(ctx, "RUv/" + cn + "/cont/nobarcode/map");
    run<PmOpt<FL_CHAIN, true, ct, IX::CONTAINER, true, false, true, 0, false, true>>(ctx, "CHv/" + cn + "/cont/map");
    run<PmOpt<FL_CHAIN, true, ct, IX::POSITION, true, true, true, RA, RA != 0, true>>(ctx, "CHv/" + cn + "/pos/rep/row/map");
    run<PmOpt<FL_CHAIN, true, ct, IX::IDENTIFIER, true, false, true, 0, false, true>>(ctx, "CHv/" + cn + "/id/map");
  }
#endif
}

int main(int argc, char** argv) {
  ReplayCtx ctx = replay_setup(argc, argv);
  if (const char* e = std::getenv("VF_P")) g_p = std::atoi(e);
  if (std::getenv("VF_LOGMAT")) g_log_matrices = true;
  if (std::getenv("VF_LOGREPS")) g_log_reps = true;
#ifndef VF_Z2
#define VF_Z2 1
#endif
  constexpr bool Z2 = VF_Z2;
  if (Z2 && g_p != 2) { std::fclose(ctx.out); return 0; }
#if VF_COL == 0
  per_column_type<CT::INTRUSIVE_SET, Z2>(ctx, "INTRUSIVE_SET");
#elif VF_COL == 1
  per_column_type<CT::INTRUSIVE_LIST, Z2>(ctx, "INTRUSIVE_LIST");
#elif VF_COL == 2
  per_column_type<CT::SET, Z2>(ctx, "SET");
#elif VF_COL == 3
  per_column_type<CT::LIST, Z2>(ctx, "LIST");
#elif VF_COL == 4
  per_column_type<CT::VECTOR, Z2>(ctx, "VECTOR");
#elif VF_COL == 5
  per_column_type<CT::NAIVE_VECTOR, Z2>(ctx, "NAIVE_VECTOR");
#elif VF_COL == 6
  per_column_type<CT::SMALL_VECTOR, Z2>(ctx, "SMALL_VECTOR");
#elif VF_COL == 7
  per_column_type<CT::UNORDERED_SET, Z2>(ctx, "UNORDERED_SET");
#elif VF_COL == 8
  per_column_type<CT::HEAP, Z2>(ctx, "HEAP");
#endif
  std::fclose(ctx.out);
  return 0;
}
