// Binding of ZigzagSpec.tla to the real classes of Gudhi's Zigzag_persistence module, through the public
// API only: Zigzag_persistence (callback + get_current_infinite_intervals), Filtered_zigzag_persistence
// (callback + get_current_infinite_intervals), Filtered_zigzag_persistence_with_storage
// (get_index_persistence_diagram, get_persistence_diagram).  Spec cell keys are arrow numbers, which is
// also the naming of Zigzag_persistence; the filtered classes take user keys, produced by a key map.
#pragma once
#include "common.hpp"

#include <gudhi/filtered_zigzag_persistence.h>
#include <gudhi/zigzag_persistence.h>

#include <csetjmp>
#include <memory>
#include <tuple>

namespace vf {

using CT = Gudhi::persistence_matrix::Column_types;

template <CT ct>
struct ZzOpt : Gudhi::zigzag_persistence::Default_filtered_zigzag_options {
  static const CT column_type = ct;
};

inline const char* ct_name(CT c) {
  switch (c) {
    case CT::LIST: return "LIST";
    case CT::SET: return "SET";
    case CT::HEAP: return "HEAP";
    case CT::VECTOR: return "VECTOR";
    case CT::NAIVE_VECTOR: return "NAIVE_VECTOR";
    case CT::SMALL_VECTOR: return "SMALL_VECTOR";
    case CT::UNORDERED_SET: return "UNORDERED_SET";
    case CT::INTRUSIVE_LIST: return "INTRUSIVE_LIST";
    case CT::INTRUSIVE_SET: return "INTRUSIVE_SET";
  }
  return "?";
}

using Bar = std::tuple<int, std::int64_t, std::int64_t>;  // dim, birth, death
inline bj::object bar_obj(int dim, std::int64_t b, std::int64_t d) { return bj::object{{"dim", dim}, {"b", b}, {"d", d}}; }
inline bj::array bars_arr(const std::vector<Bar>& v) {
  bj::array a;
  for (auto& x : v) a.push_back(bar_obj(std::get<0>(x), std::get<1>(x), std::get<2>(x)));
  return a;
}
// multiset of bars as the spec's bag: set of {k: bar, n: multiplicity}
inline bj::array bag_arr(const std::vector<Bar>& v, bool with_death = true) {
  std::map<Bar, int> m;
  for (auto& x : v) m[x]++;
  bj::array a;
  for (auto& p : m) {
    bj::object k{{"dim", std::get<0>(p.first)}, {"b", std::get<1>(p.first)}};
    if (with_death) k["d"] = std::get<2>(p.first);
    a.push_back(bj::object{{"k", k}, {"n", p.second}});
  }
  return a;
}
// exact lattice: the harness only feeds integers; anything else coming back is reported as such
inline std::int64_t val_code(double x) {
  if (std::isinf(x)) return x > 0 ? INF_CODE : -INF_CODE;
  if (std::floor(x) != x || std::fabs(x) > 9e5) return -777777;
  return static_cast<std::int64_t>(x);
}

// runtime configuration of the filtered models (one replay_config call per configuration)
struct ZzCfg {
  std::string name = "?";
  std::string sched = "inc";   // which value schedule of the act's "fv" field is fed
  std::string keymap = "fresh";  // "fresh": a new user key per insertion; "simp": the simplex itself (re-used on re-insertion)
  int D = -1;                  // ignoreCyclesAboveDim (storage)
  double shortest = 0;         // get_persistence_diagram threshold (storage)
  bool reverse_bd = false;     // feed the boundary in decreasing order (filtered classes do not require an order)
};
inline ZzCfg& zz_cfg() { static ZzCfg c; return c; }

struct KeyMap {
  std::map<std::int64_t, int> user;  // spec key -> user key
  int operator()(std::int64_t key, const bj::object& act) {
    int id = 1000 - 3 * static_cast<int>(key);
    if (zz_cfg().keymap == "simp") {
      auto it = act.find("s");
      if (it != act.end() && it->value().is_array() && !it->value().as_array().empty()) {
        id = 0;
        for (auto& v : it->value().as_array()) id |= 1 << static_cast<int>(v.to_number<std::int64_t>());
      }
    }
    user[key] = id;
    return id;
  }
  std::vector<int> boundary(const bj::object& act) const {
    std::vector<int> b;
    for (int k : ints(act.at("bd"))) b.push_back(user.at(k));
    if (zz_cfg().reverse_bd) std::reverse(b.begin(), b.end());
    return b;
  }
};
inline double act_value(const bj::object& act) { return vf_to_double(act.at("fv").as_object().at(zz_cfg().sched)); }  // INF_CODE -> +infinity

// A read of the storage front end that dies with SIGSEGV/SIGBUS is turned into an observation ("crash" key, which the
// specification never has) instead of ending the process, so that the remaining behaviours are still replayed.
inline sigjmp_buf& zz_jmp() { static sigjmp_buf b; return b; }
inline void zz_segv(int) { siglongjmp(zz_jmp(), 1); }
template <class F>
bool guarded(F&& f) {
  auto old1 = std::signal(SIGSEGV, zz_segv);
  auto old2 = std::signal(SIGBUS, zz_segv);
  bool ok = true;
  if (sigsetjmp(zz_jmp(), 1) == 0) f(); else ok = false;
  std::signal(SIGSEGV, old1);
  std::signal(SIGBUS, old2);
  return ok;
}
inline std::string dname(int D) { return D < 0 ? "m" + std::to_string(-D) : std::to_string(D); }

// ------------------------------------------------------------------------------------------------- plain
template <CT ct>
struct ZzPlain {
  using ZP = Gudhi::zigzag_persistence::Zigzag_persistence<ZzOpt<ct>>;
  std::vector<Bar> all, last;
  std::int64_t arrows = 0;
  std::unique_ptr<ZP> zp;
  ZzPlain() : zp(new ZP([this](int dim, int b, int d) { last.emplace_back(dim, b, d); all.emplace_back(dim, b, d); },
                        ct == CT::LIST || ct == CT::SET || ct == CT::SMALL_VECTOR ? 28 : 0)) {}   // preallocationSize
  ZzPlain(const ZzPlain&) = delete;
  static std::string& cfgname() { static std::string s; return s; }
  static const char* name() { return cfgname().c_str(); }
  bool applicable(const bj::object&) { return true; }
  bool state_ok(const bj::object&) { return true; }
  void mask(bj::object&) {}
  bj::object apply(const bj::object& act) {
    last.clear();
    std::string op(act.at("op").as_string());
    std::int64_t ret = -1;
    if (op == "insert") ret = zp->insert_cell(ints(act.at("bd")), static_cast<int>(act.at("dim").to_number<std::int64_t>()));
    else if (op == "remove") ret = zp->remove_cell(static_cast<int>(act.at("k").to_number<std::int64_t>()));
    else if (op == "identity") ret = zp->apply_identity();
    arrows = ret + 1;
    return bj::object{{"ret", ret}, {"closed_set", bars_arr(last)}};
  }
  bj::array open() {
    bj::array o;
    zp->get_current_infinite_intervals([&](int dim, int b) { o.push_back(bj::object{{"dim", dim}, {"b", b}}); });
    return o;
  }
  bj::object observe() { return bj::object{{"arrow", arrows}, {"open_set", open()}, {"diag_set", bars_arr(all)}}; }
};

// ------------------------------------------------------------------------------------------------- filtered, streaming
template <CT ct>
struct ZzFiltered {
  using ZP = Gudhi::zigzag_persistence::Filtered_zigzag_persistence<ZzOpt<ct>>;
  std::vector<Bar> all, last;
  std::int64_t arrows = 0;
  KeyMap km;
  std::unique_ptr<ZP> zp;
  ZzFiltered() : zp(new ZP([this](int dim, double b, double d) {
    last.emplace_back(dim, val_code(b), val_code(d));
    all.emplace_back(dim, val_code(b), val_code(d));
  }, zz_cfg().reverse_bd ? 6 : 0)) {}   // preallocationSize: 0 or 6 cells
  ZzFiltered(const ZzFiltered&) = delete;
  static const char* name() { return zz_cfg().name.c_str(); }
  bool applicable(const bj::object&) { return true; }
  bool state_ok(const bj::object&) { return true; }
  void mask(bj::object&) {}
  bj::object apply(const bj::object& act) {
    last.clear();
    std::string op(act.at("op").as_string());
    std::int64_t ret = -1;
    if (op == "insert") {
      int id = km(act.at("key").to_number<std::int64_t>(), act);
      ret = zp->insert_cell(id, km.boundary(act), static_cast<int>(act.at("dim").to_number<std::int64_t>()), act_value(act));
    } else if (op == "remove") {
      ret = zp->remove_cell(km.user.at(act.at("k").to_number<std::int64_t>()), act_value(act));
    } else if (op == "identity") {
      ret = zp->apply_identity();
    }
    arrows = ret + 1;
    return bj::object{{"ret", ret}};
  }
  bj::array open() {
    std::vector<Bar> o;
    zp->get_current_infinite_intervals([&](int dim, double b) { o.emplace_back(dim, val_code(b), 0); });
    return bag_arr(o, false);
  }
  bj::object observe() {
    return bj::object{{"arrow", arrows}, {"f_" + zz_cfg().sched + "_set", bag_arr(all)}, {"o_" + zz_cfg().sched + "_set", open()}};
  }
};

// ------------------------------------------------------------------------------------------------- filtered, with storage
template <CT ct>
struct ZzStorage {
  using ZP = Gudhi::zigzag_persistence::Filtered_zigzag_persistence_with_storage<ZzOpt<ct>>;
  std::int64_t arrows = 0;
  KeyMap km;
  std::unique_ptr<ZP> zp;
  ZzStorage() : zp(new ZP(zz_cfg().reverse_bd ? 6 : 0, zz_cfg().D)) {}   // preallocationSize: 0 or 6 cells
  ZzStorage(const ZzStorage&) = delete;
  static const char* name() { return zz_cfg().name.c_str(); }
  bool applicable(const bj::object&) { return true; }
  bool state_ok(const bj::object&) { return true; }
  void mask(bj::object&) {}
  bj::object apply(const bj::object& act) {
    std::string op(act.at("op").as_string());
    std::int64_t ret = -1;
    if (op == "insert") {
      int id = km(act.at("key").to_number<std::int64_t>(), act);
      ret = zp->insert_cell(id, km.boundary(act), static_cast<int>(act.at("dim").to_number<std::int64_t>()), act_value(act));
    } else if (op == "remove") {
      ret = zp->remove_cell(km.user.at(act.at("k").to_number<std::int64_t>()), act_value(act));
    } else if (op == "identity") {
      ret = zp->apply_identity();
    }
    arrows = ret + 1;
    return bj::object{{"ret", ret}};
  }
  bj::array index_diagram() {
    std::vector<Bar> v;
    for (auto& b : zp->get_index_persistence_diagram()) v.emplace_back(b.dim, b.birth, b.death);
    return bars_arr(v);
  }
  bj::array diagram() {
    std::vector<Bar> v;
    for (auto& b : zp->get_persistence_diagram(zz_cfg().shortest, true)) v.emplace_back(b.dim, val_code(b.birth), val_code(b.death));
    return bag_arr(v);
  }
  bj::object observe() {
    bj::object o{{"arrow", arrows}, {"si_" + dname(zz_cfg().D) + "_set", index_diagram()}};
    bj::array d;
    if (guarded([&] { d = diagram(); })) o["sd_" + zz_cfg().sched + "_" + dname(zz_cfg().D) + "_set"] = d;
    else o["crash"] = "SIGSEGV in get_persistence_diagram";
    return o;
  }
};

}  // namespace vf
