// Code -> spec for C18: drives the real Persistence_landscape / Persistence_landscape_on_grid with random integer
// diagrams (up to 8 intervals with endpoints in 0..20, repeated / nested / touching on purpose) and random landscape
// expressions over them, and records every call with its result as integers over the denominators of
// specs/Landscape.tla.  specs/Trace_Landscape.tla recomputes every line.
//   usage: land_record out.ndjson seed rounds
#include "land_common.hpp"

using namespace land;

static std::mt19937 rng;
static long rnd(long lo, long hi) { return lo + static_cast<long>(rng() % static_cast<unsigned long>(hi - lo + 1)); }
static bool coin(int percent) { return rnd(1, 100) <= percent; }

constexpr long LO_T = -16, HI_T = 176;  // the lattice of Trace_Landscape.tla: [-2, 22]

static Diagram rand_diagram(bool even) {
  Diagram d;
  long n = coin(10) ? 0 : rnd(1, 8);
  std::vector<long> ends;
  for (long i = 0; i < n; ++i) {
    if (!d.empty() && coin(12)) { d.push_back(d[rng() % d.size()]); continue; }  // repeated interval
    long b, e;
    for (;;) {
      b = (!ends.empty() && coin(40)) ? ends[rng() % ends.size()] : rnd(0, 19);
      e = (!ends.empty() && coin(40)) ? ends[rng() % ends.size()] : rnd(1, 20);
      if (even) { b -= b % 2; e -= e % 2; }
      if (b < e) break;
    }
    ends.push_back(b);
    ends.push_back(e);
    d.emplace_back(static_cast<double>(b), static_cast<double>(e));
  }
  return d;
}
static bj::value jdiagram(const Diagram& d) {
  bj::array a;
  for (auto& p : d) a.push_back(bj::array{static_cast<std::int64_t>(p.first), static_cast<std::int64_t>(p.second)});
  return a;
}
static Spec make_spec(const std::string& op, std::vector<Diagram> args, std::vector<long> coef, long den, bool abs) {
  Spec s;
  s.op = op;
  s.args = std::move(args);
  s.coef = std::move(coef);
  s.den = den;
  s.abs = abs;
  bj::array ja, jc;
  for (auto& d : s.args) ja.push_back(jdiagram(d));
  for (long c : s.coef) jc.push_back(c);
  s.json = bj::object{{"op", op}, {"args", ja}, {"coef", jc}, {"den", den}, {"abs", abs}};
  return s;
}
struct Scalar { long n, d; };
static const Scalar SCALARS[] = {{-2, 1}, {1, 2}, {-3, 4}, {3, 2}, {1, 4}, {-1, 1}};

static Spec rand_expr(const Diagram& A, const Diagram& B, const Diagram& C, bool unit_den) {
  Scalar s = SCALARS[rng() % 6], t = SCALARS[rng() % 6];
  switch (unit_den ? rnd(0, 5) : rnd(0, 12)) {
    case 0: return make_spec("land", {A}, {1}, 1, false);
    case 1: return make_spec("sum", {A, B}, {1, 1}, 1, false);
    case 2: return make_spec("diff", {A, B}, {1, -1}, 1, false);
    case 3: return make_spec("absdiff", {A, B}, {1, -1}, 1, true);
    case 4: return make_spec("sum_diff", {A, B, C}, {1, 1, -1}, 1, false);
    case 5: return make_spec("diff_sum", {A, B, C}, {1, -1, -1}, 1, false);
    case 6: return make_spec("scal", {A}, {s.n}, s.d, false);
    case 7: return make_spec("abs_scal_diff", {A, B}, {s.n, -s.n}, s.d, true);
    case 8: return make_spec("avg", {A, B}, {1, 1}, 2, false);
    case 9: return make_spec("avg", {A, B, C, B}, {1, 1, 1, 1}, 4, false);
    case 10: return make_spec("avg", {A, B, C}, {1, 1, 1}, 3, false);
    case 11: return make_spec("lincomb", {A, B}, {s.n * t.d, t.n * s.d}, s.d * t.d, false);
    default: return make_spec("avg", {A}, {1}, 1, false);
  }
}

static long height8(const Diagram& d) {  // 8 * largest value of a level of the landscape
  double h = 0;
  for (auto& p : d) h = std::max(h, (p.second - p.first) / 2);
  return static_cast<long>(8 * h);
}
static long levels_of(const Spec& s) {
  std::size_t n = 0;
  for (auto& d : s.args) n = std::max(n, d.size());
  return static_cast<long>(n);
}
static double bound8(const Spec& s) {  // bound of |8 den value|
  double f = 0;
  for (std::size_t i = 0; i < s.args.size(); ++i) f += std::labs(s.coef[i]) * static_cast<double>(height8(s.args[i]));
  return f;
}
// the numerators of Trace_Landscape.tla stay below 2^31 (TLC integers)
static bool fits(double fx, double fy, long nlev) { return 6.0 * fx * fy * 96.0 * static_cast<double>(nlev + 1) < 1.5e9; }

// got * scale as a lattice integer; ok = 0 when it is not one (exact) / not within tolerance of one
static long scaled(double got, double scale, bool exact, int& ok) {
  if (!std::isfinite(got)) { ok = 0; return 0; }
  double v = got * scale, r = std::nearbyint(v);
  if (std::fabs(r) > 2e9) { ok = 0; return 0; }
  if (exact) { if (v != r) ok = 0; }
  else if (std::fabs(v - r) > 1e-7 * (1.0 + std::fabs(r))) ok = 0;
  return static_cast<long>(r);
}

static std::vector<long> interesting_T(const Spec& s) {
  std::vector<long> ts;
  for (auto& d : s.args)
    for (auto& p : d) {
      long b = static_cast<long>(p.first), e = static_cast<long>(p.second);
      for (long T : {8 * b, 8 * e, 4 * (b + e)}) for (long o : {-2, 0, 2}) ts.push_back(T + o);
    }
  for (auto& d : s.args)  // crossings of tents
    for (auto& p : d) for (auto& q : d) ts.push_back(4 * (static_cast<long>(p.second) + static_cast<long>(q.first)));
  return ts;
}
static long rand_T(const std::vector<long>& ts) {
  long T = (!ts.empty() && coin(60)) ? ts[rng() % ts.size()] : 2 * rnd(LO_T / 2, HI_T / 2);
  T -= T % 2;
  return std::min(std::max(T, LO_T), HI_T);
}

template <class L>
static bj::array value_points(const L& x, const Spec& s, const std::vector<long>& Ts, long maxk) {
  bj::array pts;
  const bool ex = pow2(s.den);
  for (long T : Ts) {
    long k = rnd(0, maxk);
    int ok = 1;
    long v = scaled(x.compute_value_at_a_given_point(static_cast<unsigned>(k), T / 8.0), 8.0 * s.den, ex, ok);
    pts.push_back(bj::array{k, T, v, ok});
  }
  return pts;
}

static vf::Trace* tr;
static void emit(bj::object o) { tr->emit(o); std::fflush(tr->f); }

template <class L>
static void integral_events(L& x, const Spec& s, bj::object base) {
  const bool ex = pow2(s.den);
  const long K = levels_of(s);
  base["op"] = "integral";
  {
    int ok = 1;
    bj::object e = base;
    e["p"] = 0; e["level"] = -1;
    e["num"] = scaled(x.compute_integral_of_landscape(), 64.0 * s.den, ex, ok);
    e["ok"] = ok;
    emit(e);
  }
  {
    int ok = 1;
    long k = rnd(0, K);
    bj::object e = base;
    e["p"] = 0; e["level"] = k;
    double got;
    if constexpr (std::is_same<L, PL>::value) got = x.compute_integral_of_a_level_of_a_landscape(static_cast<std::size_t>(k));
    else got = x.compute_integral_of_landscape(static_cast<std::size_t>(k));
    e["num"] = scaled(got, 64.0 * s.den, ex, ok);
    e["ok"] = ok;
    emit(e);
  }
  for (int p = 1; p <= 2; ++p) {
    if (p == 2 && !fits(bound8(s), bound8(s), K)) continue;
    const double scale = p == 1 ? 64.0 * s.den : 1536.0 * s.den * s.den;
    {
      int ok = 1;
      bj::object e = base;
      e["p"] = p; e["level"] = -1;
      e["num"] = scaled(x.compute_integral_of_landscape(static_cast<double>(p)), scale, false, ok);
      e["ok"] = ok;
      emit(e);
    }
    if constexpr (std::is_same<L, PG>::value) {
      int ok = 1;
      long k = rnd(0, K);
      bj::object e = base;
      e["p"] = p; e["level"] = k;
      e["num"] = scaled(x.compute_integral_of_landscape(static_cast<double>(p), static_cast<std::size_t>(k)), scale, false, ok);
      e["ok"] = ok;
      emit(e);
    }
  }
}

template <class L>
static void distance_events(L& x, L& y, const Spec& X, const Spec& Y, bj::object base) {
  const double den = static_cast<double>(X.den * Y.den);
  const bool ex = pow2(X.den * Y.den);
  const long K = std::max(levels_of(X), levels_of(Y));
  const double f = bound8(X) * Y.den + bound8(Y) * X.den;
  base["x"] = X.json;
  base["y"] = Y.json;
  for (int order = 0; order < 2; ++order) {
    L& a = order == 0 ? x : y;
    L& b = order == 0 ? y : x;
    for (int p : {1, 2, 0}) {
      if (p == 2 && !fits(f, f, K)) continue;
      int ok = 1;
      bj::object e = base;
      e["op"] = "distance";
      e["p"] = p;
      e["order"] = order;
      if (p == 1) e["num"] = scaled(a.distance(b, 1.0), 64 * den, ex, ok);
      else if (p == 2) { double d = a.distance(b, 2.0); if (!(d >= 0)) ok = 0; e["num"] = scaled(d * d, 1536 * den * den, false, ok); }
      else e["num"] = scaled(a.distance(b, SUP), 8 * den, ex, ok);
      e["ok"] = ok;
      emit(e);
    }
    if (fits(bound8(X), bound8(Y), K)) {
      int ok = 1;
      bj::object e = base;
      e["op"] = "inner";
      e["order"] = order;
      e["num"] = scaled(a.compute_scalar_product(b), 1536 * den, false, ok);
      e["ok"] = ok;
      emit(e);
    }
  }
}

static Grid pick_grid(bool even, const std::vector<Diagram>& ds) {
  long lo = 20, hi = 0;
  for (auto& d : ds) for (auto& p : d) { lo = std::min(lo, static_cast<long>(p.first)); hi = std::max(hi, static_cast<long>(p.second)); }
  const bool hull = lo < hi;
  Grid g;
  switch (rnd(0, 4)) {
    case 0: g = Grid{-8, 168, 44}; break;                                   // [-1, 21], step 1/2
    case 1: if (hull) { g = Grid{8 * lo, 8 * hi, 2 * (hi - lo)}; break; }   // hull of the diagrams, step 1/2
      g = Grid{-8, 168, 44}; break;
    case 2: if (even) { g = Grid{-16, 176, 24}; break; }                    // [-2, 22], step 1 (even endpoints)
      g = Grid{0, 160, 40}; break;                                          // [0, 20], step 1/2
    case 3: if (even && hull) { g = Grid{8 * lo, 8 * hi, hi - lo}; break; } // hull, step 1
      g = Grid{-16, 176, 48}; break;                                        // [-2, 22], step 1/2
    default: g = Grid{0, 160, 80}; break;                                   // [0, 20], step 1/4
  }
  return g;
}

int main(int argc, char** argv) {
  if (argc < 4) { std::cerr << "usage: land_record out.ndjson seed rounds" << std::endl; return 2; }
  vf::Trace trace(argv[1]);
  tr = &trace;
  rng.seed(static_cast<unsigned>(std::atol(argv[2])));
  const long rounds = std::atol(argv[3]);
  no_core_dumps();
  long crashes = 0;
  for (long r = 0; r < rounds; ++r) {
    const bool even = coin(30);
    const Diagram A = rand_diagram(even), B = rand_diagram(even), C = rand_diagram(even);
    const Spec s = rand_expr(A, B, C, false);
    const std::vector<long> ts = interesting_T(s);
    const long K = levels_of(s);
    {  // ---- exact form
      ExactForm f{&rng};
      PL x = build(f, s, false)[0].second;
      std::vector<long> Ts;
      for (int i = 0; i < 14; ++i) Ts.push_back(rand_T(ts));
      emit(bj::object{{"op", "value"}, {"form", "exact"}, {"e", s.json}, {"pts", value_points(x, s, Ts, K + 1)}});
      integral_events(x, s, bj::object{{"form", "exact"}, {"e", s.json}});
      if (s.op == "land") {
        emit(bj::object{{"op", "size"}, {"form", "exact"}, {"e", s.json}, {"size", static_cast<std::int64_t>(x.size())}});
        if (!A.empty()) {
          const long lv = rnd(1, static_cast<long>(A.size()));
          PL m(shuffled(A, rng), static_cast<std::size_t>(lv));
          emit(bj::object{{"op", "levels"}, {"form", "exact"}, {"e", s.json}, {"L", lv}, {"pts", value_points(m, s, Ts, K)}});
        }
      }
    }
    {  // ---- gridded form
      const Grid g = pick_grid(even, s.args);
      GridForm f{&rng, g};
      PG x = build(f, s, false)[0].second;
      bj::object base{{"form", "grid"}, {"grid", g.json()}, {"e", s.json}};
      const bool ex = pow2(s.den);
      {
        const long k = std::min(rnd(0, K + 1), g.n);
        std::vector<double> v = x.vectorize(static_cast<int>(k));
        int ok = 1;
        bj::array a;
        for (double y : v) a.push_back(scaled(y, 8.0 * s.den, ex, ok));
        bj::object e = base;
        e["op"] = "vectorize"; e["k"] = k; e["v"] = a; e["ok"] = ok;
        emit(e);
      }
      std::vector<long> off, on;
      for (int i = 0; i < 40 && off.size() < 12; ++i) { long T = rand_T(ts); if (!g.on_grid(T)) off.push_back(T); }
      for (int i = 0; i < 6; ++i) on.push_back(g.min8 + rnd(0, g.n) * g.dx8());
      if (!off.empty()) {
        bj::object e = base;
        e["op"] = "value"; e["pts"] = value_points(x, s, off, K + 1);
        emit(e);
      }
      {  // exactly at grid points: may index past the end of a vector, runs in a child process
        int sig = in_child(trace.f, [&] {
          bj::object e = base;
          e["op"] = "value_at"; e["pts"] = value_points(x, s, on, K + 1);
          emit(e);
        });
        if (sig != 0) {
          ++crashes;
          bj::object e = base;
          e["op"] = "crash"; e["what"] = "grid.value_at"; e["signal"] = sig;
          emit(e);
        } else {
          ++trace.n;
        }
      }
      integral_events(x, s, base);
      if (s.op == "land") {
        bj::object e = base;
        e["op"] = "size"; e["size"] = static_cast<std::int64_t>(x.size());
        emit(e);
        if (!A.empty()) {
          const long lv = rnd(1, static_cast<long>(A.size()));
          PG m(shuffled(A, rng), g.gmin(), g.gmax(), static_cast<std::size_t>(g.n), static_cast<unsigned>(lv));
          bj::array pts;
          for (int i = 0; i < 12; ++i) {
            const long k = std::min(rnd(0, K), g.n), j = rnd(0, g.n);
            int ok = 1;
            long v = scaled(m.vectorize(static_cast<int>(k))[j], 8.0, true, ok);
            pts.push_back(bj::array{k, g.min8 + j * g.dx8(), v, ok});
          }
          bj::object e2 = base;
          e2["op"] = "levels"; e2["L"] = lv; e2["pts"] = pts;
          emit(e2);
        }
      }
    }
    {  // ---- distances and inner product of two expressions with denominator 1
      const Spec X = rand_expr(A, B, C, true);
      const Spec Y = coin(15) ? make_spec("zero", {}, {}, 1, false) : (coin(50) ? make_spec("land", {C}, {1}, 1, false) : rand_expr(B, C, A, true));
      {
        ExactForm f{&rng};
        PL x = build(f, X, false)[0].second, y = build(f, Y, false)[0].second;
        distance_events(x, y, X, Y, bj::object{{"form", "exact"}});
      }
      {
        std::vector<Diagram> all = X.args;
        all.insert(all.end(), Y.args.begin(), Y.args.end());
        const Grid g = pick_grid(even, all);
        GridForm f{&rng, g};
        PG x = build(f, X, false)[0].second, y = build(f, Y, false)[0].second;
        distance_events(x, y, X, Y, bj::object{{"form", "grid"}, {"grid", g.json()}});
      }
    }
  }
  std::cout << bj::serialize(bj::object{{"events", trace.n}, {"rounds", rounds}, {"crashes", crashes}}) << std::endl;
  return 0;
}
