// C12 witness (standalone): with a vertex type that is unsigned and narrower than int, flag_complex_collapse_edges drops
// every edge that has NO dominator.  `Vertex dominator = -1; ... if(dominator==-1) break;` (Flag_complex_edge_collapser.h,
// process_edges): for unsigned short the stored value is 65535 and the comparison is done in int, 65535 == -1 is false, so
// "no dominator" is not recognised; with no later common neighbour the edge is declared dominated for ever and removed.
// (With a later common neighbour the code goes on to index neighbors[65535]: out of bounds.)
//   g++ -std=c++17 -I/repo/src/Collapse/include -I/repo/src/common/include collapse_witness.cpp && ./a.out
// prints the surviving edges of a single edge and of a 4-cycle (nothing is dominated: all edges must survive) for
// short (correct) and unsigned short / unsigned char (empty); exit status 1 when the defect is present.
#include <gudhi/Flag_complex_edge_collapser.h>

#include <iostream>
#include <tuple>
#include <vector>

template <class V>
std::size_t survivors(const char* name, std::vector<std::tuple<V, V, double>> in) {
  auto out = Gudhi::collapse::flag_complex_collapse_edges(in);
  std::cout << name << ": " << in.size() << " edges in, " << out.size() << " out" << std::endl;
  return out.size();
}

int main() {
  bool bad = false;
  bad |= survivors<short>("short, single edge", {{0, 1, 1.}}) != 1;
  bad |= survivors<unsigned short>("unsigned short, single edge", {{0, 1, 1.}}) != 1;
  bad |= survivors<short>("short, 4-cycle", {{0, 1, 1.}, {1, 2, 1.}, {2, 3, 1.}, {0, 3, 1.}}) != 4;
  bad |= survivors<unsigned short>("unsigned short, 4-cycle", {{0, 1, 1.}, {1, 2, 1.}, {2, 3, 1.}, {0, 3, 1.}}) != 4;
  bad |= survivors<unsigned char>("unsigned char, 4-cycle", {{0, 1, 1.}, {1, 2, 1.}, {2, 3, 1.}, {0, 3, 1.}}) != 4;
  std::cout << (bad ? "DEFECT PRESENT: undominated edges were removed" : "ok") << std::endl;
  return bad ? 1 : 0;
}
