// Standalone witness for finding C14-rect-two-rows-shared-corner-vertex (against the unmodified headers):
//   g++ -std=c++17 -I /repo/src/Persistent_cohomology/include -I /repo/src/common/include lstar_witness.cpp && ./a.out
// persistence_on_rectangle_from_top_cells accepts n_rows >= 2 and n_cols >= 2.  With exactly 2 rows (or 2 columns)
// two corner squares share the same inner vertex; fill_and_pair marks that vertex critical once per corner,
// unconditionally, so the value written by the LAST corner stays even when another corner is smaller.
// exit code 1 = defect present, 0 = absent.
#include <gudhi/Persistence_on_rectangle.h>
#include <cstdio>
#include <vector>

int main() {
  int bad = 0;
  {  // 2 x 2: the minimum is 1, the routine returns the value of the last corner
    std::vector<double> in{1, 2, 3, 4};
    double m = Gudhi::cubical_complex::persistence_on_rectangle_from_top_cells(
        in.data(), 2u, 2u, [](double, double) {}, [](double, double) {});
    std::printf("2x2 {1,2;3,4}: returned minimum %g (expected 1)\n", m);
    bad += m != 1;
  }
  {  // 2 x 3: one component {1 (top left)} is born at 1 and dies at 3 when it meets the component of 0; the routine
     // reports birth 4 > death 3
    std::vector<double> in{1, 3, 0,
                           4, 3, 5};
    std::vector<std::pair<double, double>> d0;
    double m = Gudhi::cubical_complex::persistence_on_rectangle_from_top_cells(
        in.data(), 2u, 3u, [&](double b, double d) { d0.emplace_back(b, d); }, [](double, double) {});
    std::printf("2x3 {1,3,0;4,3,5}: returned minimum %g (expected 0), dimension 0:", m);
    bool found = false;
    for (auto& p : d0) { std::printf(" (%g,%g)", p.first, p.second); found = found || (p.first == 1 && p.second == 3); }
    std::printf(" (expected (1,3))\n");
    bad += !found || m != 0;
  }
  {  // index mode, 3 x 2 (two columns)
    std::vector<double> in{0, 2,
                           5, 5,
                           3, 1};
    std::size_t g = Gudhi::cubical_complex::persistence_on_rectangle_from_top_cells<true>(
        in.data(), std::size_t(3), std::size_t(2), [](std::size_t, std::size_t) {}, [](std::size_t, std::size_t) {});
    std::printf("3x2 {0,2;5,5;3,1} index mode: returned index %zu of value %g (expected index 0 of value 0)\n", g, in[g]);
    bad += in[g] != 0;
  }
  std::printf(bad ? "DEFECT PRESENT\n" : "defect absent\n");
  return bad ? 1 : 0;
}
