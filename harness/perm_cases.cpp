// Spec -> code for C20: runs every CASE emitted by MC_Permutahedral (TLC) on the real
// Permutahedral_representation / Freudenthal_triangulation / Coxeter_triangulation and writes one NDJSON
// deviation line per mismatch.   usage: perm_cases cases.ndjson out.ndjson [shard nshards]
#include "perm_common.hpp"

using namespace perm;
using vf::crash_ctx;

static std::FILE* out;
static long n_cases = 0, n_eval = 0, n_dev = 0, n_skipped_inexact = 0, n_margin = 0, n_exact = 0;
static std::map<std::string, long> per_op;

struct Dev {
  std::string op;
  bj::object act;
  bj::array diffs;
  void add(const std::string& path, bj::value exp, bj::value got) {
    if (diffs.size() < 8) diffs.push_back(bj::object{{"path", path}, {"exp", exp}, {"got", got}});
  }
  ~Dev() {
    if (diffs.empty()) return;
    ++n_dev;
    if (n_dev > 400) return;
    bj::object o{{"kind", "deviation"}, {"cfg", "perm"}, {"op", op}, {"act", act}, {"diffs", diffs}};
    std::fprintf(out, "%s\n", bj::serialize(o).c_str());
    std::fflush(out);
  }
};

static bj::value jreps(const std::vector<Rep>& v) {
  bj::array a;
  for (auto& r : v) a.push_back(jrep(r));
  return a;
}
static bj::value jrepset(const std::set<Rep>& v) {
  bj::array a;
  for (auto& r : v) a.push_back(jrep(r));
  return a;
}

// universe of canonical partitions per ambient dimension (from the model)
static std::map<int, std::vector<std::vector<std::vector<int>>>> universe_parts;
static std::map<int, std::pair<int, int>> universe_box;

static Simplex simplex_of(const Rep& r) {
  Partition p;
  for (auto& q : r.second) p.emplace_back(q.begin(), q.end());
  return Simplex(r.first, p);
}

static void check_simplex(const bj::object& c) {
  const int d = static_cast<int>(c.at("d").as_int64());
  const bool canon = c.at("canon").as_bool();
  const int dim = static_cast<int>(c.at("dim").as_int64());
  Simplex s = make(c.at("s"));
  const Rep srep = rep_of(s);
  bj::object sact{{"s", c.at("s")}, {"d", d}, {"canon", canon}};
  const VSet exp_vs = vset_of_json(c.at("vertices"));

  {  // dimension, vertex_range: dimension + 1 distinct vertices, the documented ones
    Dev dv{"vertex_range", sact};
    ++n_eval; per_op["vertex_range"]++;
    crash_ctx().where = "vertex_range " + bj::serialize(c.at("s"));
    if (static_cast<int>(s.dimension()) != dim) dv.add("dimension", dim, static_cast<std::int64_t>(s.dimension()));
    std::vector<Vertex> vl = vertex_list(s);
    VSet vs(vl.begin(), vl.end());
    if (static_cast<int>(vl.size()) != dim + 1) dv.add("count", dim + 1, static_cast<std::int64_t>(vl.size()));
    if (vs.size() != vl.size()) dv.add("distinct", true, jvlist(vl));
    if (vs != exp_vs) dv.add("vertices_set", jvset(exp_vs), jvlist(vl));
  }

  std::set<Rep> all_faces;  // expected, all dimensions
  for (auto& fk : c.at("faces").as_array()) {
    const int k = static_cast<int>(fk.as_object().at("k").as_int64());
    std::set<Rep> exp_reps;
    std::set<VSet> exp_vsets;
    for (auto& f : fk.as_object().at("f").as_array()) {
      exp_reps.insert(rep_of_json(f));
      exp_vsets.insert(vset_of_json(f.as_object().at("vs")));
    }
    all_faces.insert(exp_reps.begin(), exp_reps.end());
    for (int which = 0; which < 2; ++which) {
      if (which == 1 && (k != dim - 1 || dim == 0)) continue;  // facet_range: dimension strictly positive
      bj::object act = sact;
      act["k"] = k;
      Dev dv{which == 0 ? "face_range" : "facet_range", act};
      ++n_eval; per_op[dv.op]++;
      crash_ctx().where = dv.op + " " + bj::serialize(bj::value(act));
      std::vector<Rep> got;
      std::set<VSet> got_vsets;
      bool wf = true;
      auto visit = [&](const Simplex& f) {
        got.push_back(rep_of(f));
        if (static_cast<int>(f.dimension()) != k) { dv.add("face.dimension", k, jsimplex(f)); wf = false; return; }
        if (static_cast<int>(f.vertex().size()) != d) { dv.add("face.ambient", d, jsimplex(f)); wf = false; return; }
        for (auto& part : f.partition())
          for (auto x : part) if (static_cast<int>(x) > d) { dv.add("face.label", d, jsimplex(f)); wf = false; return; }
        got_vsets.insert(vset_of(f));
        if (canon && !f.is_face_of(s)) dv.add("face.is_face_of(s)", true, jsimplex(f));
      };
      if (which == 0) for (auto& f : s.face_range(k)) visit(f);
      else for (auto& f : s.facet_range()) visit(f);
      if (got.size() != exp_vsets.size()) dv.add("count", static_cast<std::int64_t>(exp_vsets.size()), static_cast<std::int64_t>(got.size()));
      if (wf && got_vsets != exp_vsets) dv.add("faces_as_vertex_sets", fk.as_object().at("f"), jreps(got));
      if (wf && canon && std::set<Rep>(got.begin(), got.end()) != exp_reps) dv.add("faces_set", jrepset(exp_reps), jreps(got));
    }
  }
  if (!canon) return;

  std::set<Rep> all_cofaces;
  for (auto& cl : c.at("cofaces").as_array()) {
    const int l = static_cast<int>(cl.as_object().at("l").as_int64());
    std::set<Rep> exp_reps;
    for (auto& f : cl.as_object().at("f").as_array()) exp_reps.insert(rep_of_json(f));
    all_cofaces.insert(exp_reps.begin(), exp_reps.end());
    for (int which = 0; which < 2; ++which) {
      if (which == 1 && (l != dim + 1)) continue;  // cofacet_range: dimension different from the ambient one
      bj::object act = sact;
      act["l"] = l;
      Dev dv{which == 0 ? "coface_range" : "cofacet_range", act};
      ++n_eval; per_op[dv.op]++;
      crash_ctx().where = dv.op + " " + bj::serialize(bj::value(act));
      std::vector<Rep> got;
      bool wf = true;
      auto visit = [&](const Simplex& t) {
        got.push_back(rep_of(t));
        if (static_cast<int>(t.dimension()) != l) { dv.add("coface.dimension", l, jsimplex(t)); wf = false; return; }
        if (static_cast<int>(t.vertex().size()) != d) { dv.add("coface.ambient", d, jsimplex(t)); wf = false; return; }
        std::set<int> labels;
        for (auto& part : t.partition()) {
          if (part.empty()) { dv.add("coface.empty_part", nullptr, jsimplex(t)); wf = false; return; }
          for (auto x : part) labels.insert(static_cast<int>(x));
        }
        if (static_cast<int>(labels.size()) != d + 1 || *labels.begin() != 0 || *labels.rbegin() != d) { dv.add("coface.labels", d, jsimplex(t)); wf = false; return; }
        if (!subset(exp_vs, vset_of(t))) dv.add("coface.contains_s", jvset(exp_vs), jsimplex(t));
        if (!s.is_face_of(t)) dv.add("s.is_face_of(coface)", true, jsimplex(t));
        bool listed = false;  // "a simplex is a coface of another exactly when the other is listed among its faces"
        for (auto& f : t.face_range(dim)) if (rep_of(f) == srep) listed = true;
        if (!listed) dv.add("s in coface.face_range(dim s)", true, jsimplex(t));
      };
      if (which == 0) for (auto& t : s.coface_range(l)) visit(t);
      else for (auto& t : s.cofacet_range()) visit(t);
      std::set<Rep> gs(got.begin(), got.end());
      if (gs.size() != got.size()) dv.add("distinct", true, jreps(got));
      if (got.size() != exp_reps.size()) dv.add("count", static_cast<std::int64_t>(exp_reps.size()), static_cast<std::int64_t>(got.size()));
      if (wf && gs != exp_reps) dv.add("cofaces_set", jrepset(exp_reps), jreps(got));
    }
  }

  // is_face_of against every canonical simplex of the neighbourhood, in both directions, and the face relation
  // recomputed through face_range of the other simplex
  auto up = universe_parts.find(d);
  if (up == universe_parts.end()) { std::cerr << "perm_cases: no universe for d=" << d << std::endl; std::exit(2); }
  const int lo = universe_box[d].first, hi = universe_box[d].second;
  Dev dv{"is_face_of", sact};
  crash_ctx().where = "is_face_of " + bj::serialize(c.at("s"));
  std::vector<int> w(d, lo);
  while (true) {
    Vertex tv(d);
    for (int i = 0; i < d; ++i) tv[i] = s.vertex()[i] + w[i];
    for (auto& parts : up->second) {
      Rep tr{tv, parts};
      Simplex t = simplex_of(tr);
      n_eval += 2; per_op["is_face_of"] += 2;
      const bool exp_up = all_cofaces.count(tr) > 0, exp_down = all_faces.count(tr) > 0;
      const bool got_up = s.is_face_of(t), got_down = t.is_face_of(s);
      if (got_up != exp_up) dv.add("s.is_face_of(t)", exp_up, jrep(tr));
      if (got_down != exp_down) dv.add("t.is_face_of(s)", exp_down, jrep(tr));
      if (static_cast<int>(t.dimension()) >= dim) {
        bool listed = false;
        for (auto& f : t.face_range(dim)) if (rep_of(f) == srep) { listed = true; break; }
        if (listed != exp_up) dv.add("s in t.face_range(dim s)", exp_up, jrep(tr));
      }
    }
    int i = 0;
    while (i < d && w[i] == hi) w[i++] = lo;
    if (i == d) break;
    ++w[i];
  }
}

// ------------------------------------------------------------------------------------------------ point location
struct Config {
  std::string name;
  bool exact;        // all arithmetic of the library is exact on the dyadic lattice (verified per point)
  double scale;
  std::function<FK(int)> build;
};

static Eigen::MatrixXd diag_matrix(int d) {
  static const int e[] = {-1, 2, 0, 1, -2, 3};
  Eigen::MatrixXd m = Eigen::MatrixXd::Zero(d, d);
  for (int i = 0; i < d; ++i) m(i, i) = std::ldexp(1.0, e[i % 6]);
  return m;
}
static Eigen::MatrixXd mono_matrix(int d) {  // signed permutation (cyclic shift) times powers of two
  static const int e[] = {1, -1, 2, 0, -2, 1};
  Eigen::MatrixXd m = Eigen::MatrixXd::Zero(d, d);
  for (int i = 0; i < d; ++i) m(i, (i + 1) % d) = (i % 2 ? -1.0 : 1.0) * std::ldexp(1.0, e[i % 6]);
  return m;
}
static Eigen::MatrixXd shear_matrix(int d) {  // unimodular, as in the GUDHI unit test
  Eigen::MatrixXd m = Eigen::MatrixXd::Identity(d, d);
  for (int i = 1; i < d; ++i) m(i, 0) = -1;
  if (d > 2) m(d - 1, 1) = 2;
  return m;
}
static Eigen::VectorXd offset_vec(int d) {
  static const double b[] = {0.25, -1.5, 3, 0.125, -0.75, 2.5};
  Eigen::VectorXd v(d);
  for (int i = 0; i < d; ++i) v(i) = b[i % 6];
  return v;
}

static std::vector<Config> configs() {
  std::vector<Config> c;
  c.push_back({"fk", true, 1, [](int d) { return FK(d); }});
  c.push_back({"fk_scale2", true, 2, [](int d) { return FK(d); }});
  c.push_back({"fk_scale_half", true, 0.5, [](int d) { return FK(d); }});
  c.push_back({"identity_affine", true, 1, [](int d) { return FK(d, Eigen::MatrixXd::Identity(d, d), Eigen::VectorXd::Zero(d)); }});
  c.push_back({"diag_offset", true, 1, [](int d) { return FK(d, diag_matrix(d), offset_vec(d)); }});
  c.push_back({"monomial_changed_scale4", true, 4, [](int d) { FK t(d); t.change_matrix(mono_matrix(d)); t.change_offset(offset_vec(d)); return t; }});
  // every order of the two setters on every constructor form (the setters may cache what kind of triangulation it is)
  c.push_back({"offset_only_on_fk", true, 1, [](int d) { FK t(d); t.change_offset(offset_vec(d)); return t; }});
  c.push_back({"offset_then_matrix_on_fk", true, 2, [](int d) { FK t(d); t.change_offset(offset_vec(d)); t.change_matrix(mono_matrix(d)); return t; }});
  c.push_back({"affine_then_offset", true, 1, [](int d) { FK t(d, diag_matrix(d), Eigen::VectorXd::Zero(d)); t.change_offset(offset_vec(d)); return t; }});
  c.push_back({"identity_matrix_set_on_fk", true, 1, [](int d) { FK t(d); t.change_matrix(Eigen::MatrixXd::Identity(d, d)); return t; }});
  c.push_back({"coxeter", false, 1, [](int d) { return FK(Cox(d)); }});
  c.push_back({"coxeter_offset_scale2", false, 2, [](int d) { Cox t(d); t.change_offset(offset_vec(d)); return FK(t); }});
  c.push_back({"shear_offset", false, 1, [](int d) { return FK(d, shear_matrix(d), offset_vec(d)); }});
  return c;
}

static std::map<std::pair<int, std::string>, FK> tri_cache;

static void check_locate(const bj::object& c) {
  static const std::vector<Config> cfgs = configs();
  const int d = static_cast<int>(c.at("d").as_int64());
  const double S = static_cast<double>(c.at("S").as_int64());
  std::vector<int> yi = vf::ints(c.at("y"));
  const Rep exp = rep_of_json(c.at("expect"));
  const bool full_dim = static_cast<int>(exp.second.size()) == d + 1;  // at distance >= 1/S from every wall
  for (auto& cf : cfgs) {
    if (!cf.exact && !full_dim) continue;  // inexact transformation: only points away from the walls are judged
    auto key = std::make_pair(d, cf.name);
    auto it = tri_cache.find(key);
    if (it == tri_cache.end()) it = tri_cache.emplace(key, cf.build(d)).first;
    const FK& tr = it->second;
    Eigen::VectorXd yref(d);
    for (int i = 0; i < d; ++i) yref(i) = yi[i] / S;  // exact: S is a power of two
    Eigen::VectorXd pv = tr.matrix() * (yref / cf.scale) + tr.offset();
    if (cf.exact) {
      // the reference coordinates the library computes (same Eigen calls) must be exactly y, else not judged
      bool ok = true;
      if (cf.name.rfind("fk", 0) == 0) {
        for (int i = 0; i < d; ++i) ok = ok && (cf.scale * pv(i) == yref(i));
      } else {
        Eigen::MatrixXd m = tr.matrix();
        Eigen::VectorXd x = m.colPivHouseholderQr().solve(pv - tr.offset());
        for (int i = 0; i < d; ++i) ok = ok && (cf.scale * x(i) == yref(i));
      }
      if (!ok) { ++n_skipped_inexact; continue; }
      ++n_exact;
    } else {
      ++n_margin;
    }
    std::vector<double> pt(pv.data(), pv.data() + d);
    bj::object act{{"config", cf.name}, {"d", d}, {"S", c.at("S")}, {"y", c.at("y")}, {"scale", cf.scale}, {"point", vf::jarr(pt)}};
    Dev dv{"locate_point", act};
    ++n_eval; per_op["locate_point:" + cf.name]++;
    crash_ctx().where = "locate_point " + bj::serialize(bj::value(act));
    Simplex got = tr.locate_point(pt, cf.scale);
    if (rep_of(got) != exp) dv.add("simplex", jrep(exp), jsimplex(got));
  }
}

int main(int argc, char** argv) {
  if (argc < 3) { std::cerr << "usage: perm_cases cases.ndjson out.ndjson [shard nshards]" << std::endl; return 2; }
  int shard = 0, nshards = 1;
  if (argc >= 5) { shard = std::atoi(argv[3]); nshards = std::atoi(argv[4]); }
  out = std::fopen(argv[2], "w");
  if (!out) return 2;
  vf::crash_ctx().out = out;
  vf::install_crash_handlers();
  std::ifstream in(argv[1]);
  if (!in) { std::cerr << "cannot open " << argv[1] << std::endl; return 2; }
  std::string line;
  long idx = -1;
  std::vector<bj::value> mine;
  while (std::getline(in, line)) {
    if (line.empty()) continue;
    bj::value v = bj::parse(line);
    const bj::object& c = v.as_object();
    std::string kind(c.at("kind").as_string());
    if (kind == "universe") {
      int d = static_cast<int>(c.at("d").as_int64());
      std::vector<std::vector<std::vector<int>>> ps;
      for (auto& p : c.at("parts").as_array()) {
        std::vector<std::vector<int>> q;
        for (auto& part : p.as_array()) { auto x = vf::ints(part); std::sort(x.begin(), x.end()); q.push_back(x); }
        ps.push_back(q);
      }
      universe_parts[d] = ps;
      universe_box[d] = {static_cast<int>(c.at("lo").as_int64()), static_cast<int>(c.at("hi").as_int64())};
      continue;
    }
    ++idx;
    if (idx % nshards != shard) continue;
    mine.push_back(std::move(v));
  }
  for (auto& v : mine) {
    const bj::object& c = v.as_object();
    std::string kind(c.at("kind").as_string());
    ++n_cases;
    if (kind == "simplex") check_simplex(c);
    else if (kind == "locate") check_locate(c);
    else { std::cerr << "unknown case kind " << kind << std::endl; return 2; }
  }
  bj::object ops;
  for (auto& p : per_op) ops[p.first] = p.second;
  bj::object o{{"kind", "summary"}, {"cfg", "perm"}, {"cases", n_cases}, {"evaluations", n_eval}, {"deviations", n_dev},
               {"located_exact", n_exact}, {"located_margin", n_margin}, {"skipped_inexact", n_skipped_inexact}, {"ops", ops}};
  std::fprintf(out, "%s\n", bj::serialize(o).c_str());
  std::fclose(out);
  return 0;
}
