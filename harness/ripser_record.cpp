// Code -> spec for C11: drives the real Ripser engine with random inputs far beyond the bounded model and records
// input + everything the callbacks received as NDJSON events for Trace_Ripser.tla (which recomputes the diagram
// with the algorithmic operators of RipsPersistence.tla).
//   usage: ripser_record out.ndjson seed nevents dense|sparse|boundary|deep|wide max_simplices
// dense : 5..9 points, tie-rich integer dissimilarities (uniform, with zeros, metrics of points on a line or of the
//         corners of a 3x4 rectangle - these are also fed as Euclidean point clouds -, shortest-path metrics of small
//         graphs, multipartite dissimilarities whose short edges span joins of discrete sets = wedges of spheres, and
//         13 / 17 points carrying a flag triangulation of the Moore space of Z/2 / Z/3: torsion, the diagram depends
//         on the prime), thresholds none / below the minimum / any value, dim_max 0..n+1 (clamped by the engine),
//         primes 2, 3, 5, 7, 11, 251, 32749, 65521; every form of ripser_common.hpp.
// sparse: 16, 64 or 512 vertices of which 6 to 30 carry a few small gadgets (cycles, octahedra, 16-cells, cliques,
//         random graphs, Moore spaces of Z/2, Z/3, Z/5) on random vertex numbers (0 and n-1 included half of the time),
//         dim_max chosen so that bits_per_vertex*(dim_max+2)+bits(p-1) falls in each range of the dispatcher (<=64,
//         <=128, beyond), primes 2, 3, 5, 65521.  The simplex encoding each run used is recorded (formula of help1).
// boundary: 127..131 vertices, a tiny graph, dim_max 120..n-2 and beyond (the limits of dimension_t = int8_t).
// wide : see random_wide (4096 / 65536 vertices, small complex with large vertex numbers; with oracle).
// deep : see random_deep (encoded simplex indices beyond 64 bits; no oracle, the forms must agree).
// An input whose Rips complex (dimension <= dim_max+1, after truncation) has more than max_simplices simplices gets a
// smaller dim_max, so that TLC recomputes every event in well under a second.
#include <map>
#include "ripser_common.hpp"

using namespace rips;
typedef std::mt19937_64 Rng;
static int rnd(Rng& g, int lo, int hi) { return lo + static_cast<int>(g() % static_cast<std::uint64_t>(hi - lo + 1)); }
template <class V> static const V& pick(Rng& g, const std::vector<V>& v) { return v[rnd(g, 0, static_cast<int>(v.size()) - 1)]; }

static unsigned random_prime(Rng& g, bool small_only) {
  int k = rnd(g, 0, 99);
  if (k < 35) return 2;
  if (k < 60) return 3;
  if (small_only) return pick<unsigned>(g, {5, 7, 11});
  return pick<unsigned>(g, {5, 7, 11, 251, 32749, 65521, 65521});
}


// A flag triangulation of the Moore space M(Z/k, 1) (k = 2: the projective plane): a disc whose boundary runs k times
// along the 4-cycle x0 x1 x2 x3.  Vertices 0..3 = the cycle, 4..4+4k-1 = an inner ring y_i, the last one = the centre;
// triangles (b_i, b_i+1, y_i), (b_i+1, y_i, y_i+1), (y_i, y_i+1, z) with b_i = x_(i mod 4): every clique of the edge
// graph is one of them, so the Rips complex of the graph (all weights below the threshold) is that space:
// H1 = H2 = Z/p exactly when p divides k.  4k + 5 vertices, 16k + 4 edges, 12k triangles.
static std::vector<std::pair<int, int>> moore_edges(int k) {
  const int m = 4 * k, z = 4 + m;
  std::set<std::pair<int, int>> E;
  auto add = [&](int a, int b) { E.insert({std::min(a, b), std::max(a, b)}); };
  for (int i = 0; i < m; ++i) {
    const int b0 = i % 4, b1 = (i + 1) % 4, y0 = 4 + i, y1 = 4 + (i + 1) % m;
    add(b0, b1); add(b0, y0); add(b1, y0); add(b1, y1); add(y0, y1); add(y0, z);
  }
  return std::vector<std::pair<int, int>>(E.begin(), E.end());
}

static void all_pairs(Input& in, const std::function<std::int64_t(int, int)>& w) {
  for (int b = 1; b < in.n; ++b)
    for (int a = 0; a < b; ++a) in.edges.push_back(Edge{a, b, w(a, b)});
}

static Input random_dense(Rng& g, long limit) {
  Input in;
  in.dense = true;
  in.n = limit >= 500 ? pick<int>(g, {6, 7, 8, 8, 9, 9, 10, 11, 12}) : pick<int>(g, {5, 6, 6, 7, 7, 7, 8, 8, 8, 9});
  int style = pick<int>(g, {0, 1, 2, 3, 4, 5, 6, 6, 7});
  if (style == 7 && limit < 110) style = 6;
  if (style == 7) in.n = 13 + 4 * rnd(g, 0, 1);  // Moore space of Z/2 or Z/3
  const int n = in.n;
  bool keep_t = false;
  if (style == 0 || style == 1) {  // uniform small integers, style 1 with zeros
    const int k = pick<int>(g, {2, 3, 3, 4, 6});
    all_pairs(in, [&](int, int) { return static_cast<std::int64_t>(rnd(g, style == 1 ? 0 : 1, k)); });
  } else if (style == 2) {  // points of a line, repeated points allowed; embedded in R, R^2 or R^3 with integer distances
    const int span = pick<int>(g, {3, 4, 6, 9});
    std::vector<int> x(n);
    for (int& v : x) v = rnd(g, 0, span);
    const int emb = rnd(g, 0, 2);
    const int scale = emb == 0 ? 1 : emb == 1 ? 5 : 7;
    for (int v : x) in.points.push_back(emb == 0 ? std::vector<int>{v} : emb == 1 ? std::vector<int>{3 * v, 4 * v} : std::vector<int>{2 * v, 3 * v, 6 * v});
    all_pairs(in, [&](int a, int b) { return static_cast<std::int64_t>(scale * std::abs(x[a] - x[b])); });
  } else if (style == 3) {  // corners of a 3 x 4 rectangle (distances 0, 3, 4, 5), repeated
    std::vector<std::pair<int, int>> c(n);
    for (auto& q : c) q = {3 * rnd(g, 0, 1), 4 * rnd(g, 0, 1)};
    for (auto& q : c) in.points.push_back({q.first, q.second});
    all_pairs(in, [&](int a, int b) {
      int dx = c[a].first - c[b].first, dy = c[a].second - c[b].second;
      int s = dx * dx + dy * dy;
      return static_cast<std::int64_t>(s == 0 ? 0 : s == 9 ? 3 : s == 16 ? 4 : 5);
    });
  } else if (style == 6) {  // multipartite: the points of a group are far from each other, the flag complex of the
    // short edges is a join of discrete sets (a wedge of spheres; 2 points per group: a cross-polytope boundary)
    std::vector<int> grp(n);
    const int per = rnd(g, 1, 3);
    for (int i = 0; i < n; ++i) grp[i] = i / per;
    std::shuffle(grp.begin(), grp.end(), g);
    const int noise = rnd(g, 0, 2);
    all_pairs(in, [&](int a, int b) { return static_cast<std::int64_t>(grp[a] == grp[b] ? 3 + (noise ? rnd(g, 0, 1) : 0) : 1 + (noise == 2 ? rnd(g, 0, 1) : 0)); });
  } else if (style == 7) {  // torsion: the edges of a Moore space are short, every other pair is long
    const int k = (n - 5) / 4;
    std::vector<int> lab(n);
    std::iota(lab.begin(), lab.end(), 0);
    std::shuffle(lab.begin(), lab.end(), g);
    std::set<std::pair<int, int>> E;
    for (auto& e : moore_edges(k)) E.insert({std::min(lab[e.first], lab[e.second]), std::max(lab[e.first], lab[e.second])});
    const int wm = rnd(g, 1, 2);
    all_pairs(in, [&](int a, int b) { return static_cast<std::int64_t>(E.count({a, b}) ? rnd(g, 1, wm) : 3); });
    in.t = wm;
    in.p = pick<unsigned>(g, {2, 3, 2, 3, 5, 65521});
    in.dmax = 2;
    keep_t = true;
  } else {  // shortest-path metric of a connected graph: a cycle plus random chords (style 5: weighted 1..2)
    std::vector<std::vector<std::int64_t>> d(n, std::vector<std::int64_t>(n, 1000));
    std::vector<int> perm(n);
    std::iota(perm.begin(), perm.end(), 0);
    std::shuffle(perm.begin(), perm.end(), g);
    auto link = [&](int a, int b) { std::int64_t w = style == 5 ? rnd(g, 1, 2) : 1; d[a][b] = std::min(d[a][b], w); d[b][a] = d[a][b]; };
    for (int i = 0; i < n; ++i) { d[i][i] = 0; link(perm[i], perm[(i + 1) % n]); }
    for (int c = rnd(g, 0, 2); c > 0; --c) { int a = rnd(g, 0, n - 1), b = rnd(g, 0, n - 1); if (a != b) link(a, b); }
    for (int k = 0; k < n; ++k) for (int i = 0; i < n; ++i) for (int j = 0; j < n; ++j) d[i][j] = std::min(d[i][j], d[i][k] + d[k][j]);
    all_pairs(in, [&](int a, int b) { return d[a][b]; });
  }
  std::int64_t mx = 0;
  for (auto& e : in.edges) mx = std::max(mx, e.w);
  const int tk = rnd(g, 0, 9);
  if (!keep_t) {
    in.t = tk < 4 ? -1 : tk == 4 ? 0 : rnd(g, 0, static_cast<int>(mx));
    in.p = random_prime(g, false);
    in.dmax = rnd(g, 0, 9) == 0 ? n + rnd(g, -1, 1) : rnd(g, 0, n - 2);
  }
  while (in.dmax > 0 && count_cliques(in, eff_threshold(in), in.dmax + 1, limit) > limit) --in.dmax;
  return in;
}

static Input random_sparse(Rng& g, long limit) {
  Input in;
  in.dense = false;
  in.n = pick<int>(g, {16, 64, 512});
  const int n = in.n;
  // the vertex numbers that carry something
  std::set<int> chosen;
  if (rnd(g, 0, 1)) chosen.insert(n - 1);
  if (rnd(g, 0, 1)) chosen.insert(0);
  const int budget = std::min(n, rnd(g, 0, 3) == 0 ? rnd(g, 13, 30) : rnd(g, 6, 22));
  while (static_cast<int>(chosen.size()) < budget) chosen.insert(rnd(g, 0, n - 1));
  std::vector<int> vs(chosen.begin(), chosen.end());
  std::shuffle(vs.begin(), vs.end(), g);
  const int wmax = pick<int>(g, {1, 2, 3, 5});
  std::map<std::pair<int, int>, std::int64_t> E;
  auto add = [&](int a, int b) { if (a != b) E[{std::min(a, b), std::max(a, b)}] = rnd(g, 1, wmax); };
  std::size_t pos = 0;
  while (pos + 2 <= vs.size()) {
    const int kind = rnd(g, 0, 6);
    const std::size_t left = vs.size() - pos;
    std::size_t k;
    if (kind == 6 && left >= 13) {  // Moore space of Z/2 (13 vertices), Z/3 (17) or Z/5 (25): torsion
      const int mk = left >= 25 && rnd(g, 0, 2) == 0 ? 5 : left >= 17 && rnd(g, 0, 1) ? 3 : 2;
      k = 4 * mk + 5;
      for (auto& e : moore_edges(mk)) add(vs[pos + e.first], vs[pos + e.second]);
    } else if (kind == 0 || kind == 6) {  // cycle
      k = std::min<std::size_t>(left, rnd(g, 3, 6));
      for (std::size_t i = 0; i < k; ++i) add(vs[pos + i], vs[pos + (i + 1) % k]);
    } else if (kind == 1 || kind == 2) {  // cross-polytope boundary (sphere): pairs of antipodes are the non-edges
      k = std::min<std::size_t>(left & ~std::size_t(1), kind == 1 ? 6 : 8);
      for (std::size_t i = 0; i < k; ++i) for (std::size_t j = 0; j < i; ++j) if (i / 2 != j / 2) add(vs[pos + i], vs[pos + j]);
    } else if (kind == 3) {  // clique
      k = std::min<std::size_t>(left, rnd(g, 2, 5));
      for (std::size_t i = 0; i < k; ++i) for (std::size_t j = 0; j < i; ++j) add(vs[pos + i], vs[pos + j]);
    } else {  // random graph
      k = std::min<std::size_t>(left, rnd(g, 4, 6));
      for (std::size_t i = 0; i < k; ++i) for (std::size_t j = 0; j < i; ++j) if (rnd(g, 0, 9) < 6) add(vs[pos + i], vs[pos + j]);
    }
    if (k == 0) break;
    pos += k;
  }
  for (int c = rnd(g, 0, 2); c > 0; --c) add(pick(g, vs), pick(g, vs));  // bridges between gadgets
  for (auto& kv : E) in.edges.push_back(Edge{kv.first.first, kv.first.second, kv.second});
  in.t = -1;
  // dim_max: around the borders of the dispatcher's ranges for this n
  static const std::map<int, std::vector<int>> dims{{16, {0, 1, 2, 3, 7, 13, 14, 15, 20}},
                                                    {64, {0, 1, 2, 4, 8, 9, 12, 19, 20}},
                                                    {512, {0, 1, 2, 5, 6, 9, 12, 13, 16, 19, 20}}};
  for (int attempt = 0; attempt < 50; ++attempt) {
    in.dmax = pick(g, dims.at(n));
    in.p = pick<unsigned>(g, {2, 2, 3, 3, 65521, 5});
    if (encoding_feasible(dispatched_encoding(n, in.dmax, in.p), n, in.dmax, in.p)) break;
    in.dmax = 1; in.p = 2;
  }
  // a complex too large for the trace specification: drop edges of the largest weight classes / the last edges
  while (count_cliques(in, -1, in.dmax + 1, limit) > limit && !in.edges.empty()) in.edges.pop_back();
  return in;
}

// the largest dimensions: 127..131 vertices (beyond, no encoding can hold dimension n/2), a tiny graph, dim_max from 120
// up to n-2 and beyond (clamped by the engine), among them the default of the Python binding (INT_MAX)
static Input random_boundary(Rng& g) {
  Input in;
  in.dense = false;
  in.n = rnd(g, 127, 131);
  const int n = in.n;
  std::vector<int> vs{0, n - 1, rnd(g, 1, n - 2), rnd(g, 1, n - 2), rnd(g, 1, n - 2)};
  std::map<std::pair<int, int>, std::int64_t> E;
  for (int c = rnd(g, 2, 6); c > 0; --c) { int a = pick(g, vs), b = pick(g, vs); if (a != b) E[{std::min(a, b), std::max(a, b)}] = rnd(g, 1, 3); }
  for (auto& kv : E) in.edges.push_back(Edge{kv.first.first, kv.first.second, kv.second});
  in.t = -1;
  for (int attempt = 0; attempt < 50; ++attempt) {
    in.dmax = pick<int>(g, {120, 124, 125, 126, 127, 128, 129, 200, 2147483647});
    in.p = pick<unsigned>(g, {2, 2, 3});
    if (cns128_feasible(n, in.dmax, in.p)) return in;
  }
  in.n = 127; in.dmax = 125; in.p = 2;
  return in;
}

// simplices whose encoded index needs more than 64 bits: a dense random graph on the 16..24 highest of 512 (or 64)
// vertices, dim_max 9..13 (bit field of 128 bits, combinatorial number system), mostly odd primes.  Such a complex has
// up to 60 000 simplices: no oracle (Trace_Ripser.tla then only checks that the forms agree and the structural clauses).
static Input random_deep(Rng& g, long limit) {
  Input in;
  in.dense = false;
  in.n = pick<int>(g, {512, 512, 512, 64});
  const int n = in.n;
  for (int attempt = 0; attempt < 30; ++attempt) {
    in.edges.clear();
    const int k = rnd(g, 16, 24), prob = rnd(g, 78, 91), wmax = rnd(g, 1, 2);
    for (int b = n - k; b < n; ++b)
      for (int a = n - k; a < b; ++a)
        if (rnd(g, 0, 99) < prob) in.edges.push_back(Edge{a, b, rnd(g, 1, wmax)});
    in.dmax = n == 64 ? 12 : pick<int>(g, {9, 9, 13});
    in.p = pick<unsigned>(g, {3, 3, 5, 65521, 2});
    in.t = -1;
    if (count_cliques(in, -1, in.dmax + 1, 60000) <= 60000) break;
  }
  (void)limit;
  return in;
}

// many vertices, few of them used: 4096 or 65536 vertices (12 / 16 bits each) of which 7..11, with large numbers, carry
// a dense random graph, a cross-polytope or a Moore space; the encoded index of a simplex with 5-6 vertices then needs
// more than 64 bits although the complex is small enough for the oracle.  dim_max 3..7: bit field of 128 bits or
// combinatorial number system.
static Input random_wide(Rng& g, long limit) {
  Input in;
  in.dense = false;
  in.n = pick<int>(g, {65536, 65536, 262144, 262144, 4096});
  const int n = in.n;
  std::set<int> chosen;
  if (rnd(g, 0, 2)) chosen.insert(n - 1);
  // styles 4, 5: a cross-polytope / Moore space on short edges plus an apex joined to everything by longer edges (the
  // classes die late, through columns that really have to be reduced: sums of coefficients on large simplices)
  const int style = rnd(g, 0, 5);
  const int base = style == 3 || style == 5 ? 17 : style == 2 || style == 4 ? 2 * rnd(g, 3, 5) : rnd(g, 7, 11);
  const int k = base + (style >= 4 ? rnd(g, 1, 2) : 0);
  while (static_cast<int>(chosen.size()) < k) chosen.insert(rnd(g, n / 2, n - 1));
  std::vector<int> vs(chosen.begin(), chosen.end());
  std::shuffle(vs.begin(), vs.end(), g);
  const int wmax = pick<int>(g, {1, 2, 3});
  std::map<std::pair<int, int>, std::int64_t> E;
  auto add = [&](int a, int b) { if (a != b) E[{std::min(a, b), std::max(a, b)}] = rnd(g, 1, wmax); };
  if (style == 3 || style == 5) { for (auto& e : moore_edges(3)) add(vs[e.first], vs[e.second]); }
  else if (style == 2 || style == 4) { for (int i = 0; i < base; ++i) for (int j = 0; j < i; ++j) if (i / 2 != j / 2) add(vs[i], vs[j]); }
  else { const int prob = rnd(g, 60, 95); for (int i = 0; i < k; ++i) for (int j = 0; j < i; ++j) if (rnd(g, 0, 99) < prob) add(vs[i], vs[j]); }
  for (int a = base; a < k; ++a)   // the apexes
    for (int i = 0; i < a; ++i) E[{std::min(vs[a], vs[i]), std::max(vs[a], vs[i])}] = wmax + rnd(g, 1, 2);
  for (auto& kv : E) in.edges.push_back(Edge{kv.first.first, kv.first.second, kv.second});
  std::shuffle(in.edges.begin(), in.edges.end(), g);   // so that dropping the last ones is unbiased
  in.t = -1;
  for (int attempt = 0; attempt < 50; ++attempt) {
    in.dmax = n == 4096 ? pick<int>(g, {3, 5, 8, 9}) : n == 65536 ? pick<int>(g, {3, 4, 5, 6, 7}) : pick<int>(g, {2, 3, 4, 5});
    in.p = pick<unsigned>(g, {3, 3, 5, 2, 65521});
    if (encoding_feasible(dispatched_encoding(n, in.dmax, in.p), n, in.dmax, in.p)) break;
    in.dmax = 3; in.p = 3;
  }
  while (count_cliques(in, -1, in.dmax + 1, limit) > limit && !in.edges.empty()) in.edges.pop_back();
  std::sort(in.edges.begin(), in.edges.end(), [](const Edge& x, const Edge& y) { return std::tie(x.b, x.a) < std::tie(y.b, y.a); });
  return in;
}

// linkage: 100-220 points, a hierarchical (dendrogram-like) dissimilarity with small perturbations, dim_max = 0, no
// threshold.  Too many simplices for the trace specification to list; dimension 0 is judged by the harness through
// the theorem ThSingleLinkage of RipsPersistence.tla (checked by TLC on every bounded case): the finite deaths are the
// weights Kruskal's algorithm keeps, the essential classes are the components.  (The union-find of the engine only
// reaches depth 4 and more from 16 vertices on, with balanced merges.)
static Input random_linkage(Rng& g) {
  Input in;
  in.dense = true;
  in.n = rnd(g, 100, 220);
  in.dmax = 0;
  in.t = -1;
  in.p = pick<unsigned>(g, {2u, 3u});
  if (rnd(g, 0, 1) == 0) {
    // perfectly balanced dendrogram on 16, 32 or 64 points, every merge joining the last vertices of two clusters
    // (lengths 1, 2, ... in merge order), then the pair (0, n-1) closing a cycle, every other pair longer: under union by
    // rank the first vertex ends up at depth log2(n)
    const int N = pick<int>(g, {16, 32, 64});
    in.n = N;
    std::map<std::pair<int, int>, std::int64_t> w;
    std::int64_t len = 1;
    for (int step = 1; step < N; step *= 2)
      for (int i = step - 1; i + step < N; i += 2 * step) w[{i, i + step}] = len++;
    w[{0, N - 1}] = N + 4;
    all_pairs(in, [&](int a, int b) { auto it = w.find({a, b}); return it != w.end() ? it->second : static_cast<std::int64_t>(2 * N + rnd(g, 0, 2)); });
    return in;
  }
  std::vector<int> label(static_cast<std::size_t>(in.n));
  for (int i = 0; i < in.n; ++i) label[static_cast<std::size_t>(i)] = i;
  for (int i = in.n - 1; i > 0; --i) std::swap(label[static_cast<std::size_t>(i)], label[static_cast<std::size_t>(rnd(g, 0, i))]);
  all_pairs(in, [&](int a, int b) {
    int x = label[static_cast<std::size_t>(a)] ^ label[static_cast<std::size_t>(b)], level = 0;
    while (x > 0) { x >>= 1; ++level; }
    return static_cast<std::int64_t>(8 * level + rnd(g, 0, 3));
  });
  return in;
}

// expected dimension 0 of a dense input without threshold: MSTWeights (zero weights give intervals of length 0, dropped)
static std::vector<std::int64_t> mst_weights(const Input& in) {
  std::vector<Edge> es = in.edges;
  std::stable_sort(es.begin(), es.end(), [](const Edge& x, const Edge& y) { return x.w < y.w; });
  std::vector<int> comp(static_cast<std::size_t>(in.n));
  for (int i = 0; i < in.n; ++i) comp[static_cast<std::size_t>(i)] = i;
  std::vector<std::int64_t> kept;
  for (auto& e : es) {
    int ca = comp[static_cast<std::size_t>(e.a)], cb = comp[static_cast<std::size_t>(e.b)];
    if (ca == cb) continue;
    for (auto& c : comp) if (c == cb) c = ca;   // (no ranks, no path compression: nothing in common with the engine)
    kept.push_back(e.w);
  }
  return kept;
}

static void record_event(Rng& g, vf::Trace& tr, int kind, long limit) {
  Input in = kind == 0 ? random_dense(g, limit) : kind == 1 ? random_sparse(g, limit) : kind == 2 ? random_boundary(g) : kind == 3 ? random_deep(g, limit) : kind == 5 ? random_linkage(g) : random_wide(g, limit);
  isolate_all() = kind == 3 || kind == 4;   // deep, wide: these inputs crash the fallback 128-bit integer build (findings/C11.json)
  bj::object e = jinput(in);
  e["op"] = "ripser";
  e["value"] = build_name();
  const long nsimp = count_cliques(in, in.dense ? eff_threshold(in) : -1, in.dmax + 1, 1000000);
  e["nsimp"] = nsimp;
  e["oracle"] = kind == 5 ? false : (kind != 3 || nsimp <= limit);   // false: too large for the trace specification to recompute the diagram
  bj::array runs;
  long f = 0;
  for (auto& form : in.dense ? dense_forms() : sparse_forms()) {
    ++f;
    if (!applicable(form, in)) continue;
    if (form == "auto_upper_of_lower" && tr.n % 8 != 0) continue;   // crashes (known finding): a child process each time
    if (kind == 2 && form != "auto_sparse" && form != "ripser_sparse") continue;
    if (kind == 3 && (form == "auto_sparse_shuffled" || form == "auto_sparse_threshold_arg_ignored")) continue;
    const bool none_as_max = ((tr.n + f) & 1) != 0;
    vf::crash_ctx().where = std::string(build_name()) + ":" + form + " " + bj::serialize(jinput(in));
    Run r = needs_isolation(form, in) ? run_form_isolated(form, in, none_as_max) : run_form(form, in, none_as_max);
    if (kind == 5 && r.exception.empty()) {
      std::map<std::int64_t, long> want, got;
      long ess = 0;
      std::vector<std::int64_t> mst = mst_weights(in);
      for (auto w : mst) if (w > 0) want[w]++;
      for (auto& b : r.out) if (b.dim == 0) { if (b.d == INF_CODE) ++ess; else got[b.d]++; }
      if (want != got || ess != in.n - static_cast<long>(mst.size()))
        r.problems.push_back("dimension 0 is not single linkage (ThSingleLinkage: the finite deaths are the weights Kruskal keeps)");
    }
    bj::object ro{{"form", form}, {"enc", encoding_of(form, in)}, {"dims", vf::jarr(r.dims)}, {"out", jbars(r.out)}};
    if (!r.exception.empty()) ro["exception"] = r.exception;
    if (!r.problems.empty()) ro["problems"] = vf::jarr(r.problems);
    runs.push_back(ro);
  }
  e["runs"] = runs;
  tr.emit(e);
}

#ifndef RIPS_NO_MAIN
int main(int argc, char** argv) {
#else
int record_main(int argc, char** argv) {
#endif
  if (argc < 6) { std::cerr << "usage: ripser_record out.ndjson seed nevents dense|sparse|boundary|deep|wide max_simplices" << std::endl; return 2; }
  Rng g(std::strtoull(argv[2], nullptr, 10));
  const long n = std::atol(argv[3]);
  const std::string ks = argv[4];
  const int kind = ks == "dense" ? 0 : ks == "sparse" ? 1 : ks == "boundary" ? 2 : ks == "deep" ? 3 : ks == "linkage" ? 5 : 4;
  const long limit = std::atol(argv[5]);
  vf::Trace tr(argv[1]);
  vf::crash_ctx().out = tr.f;
  vf::install_crash_handlers();
  protect_process();
  // an engine that keeps running into the time limit of the child processes: stop early, what was recorded is judged
  for (long k = 0; k < n && child_timeouts() < 12; ++k) record_event(g, tr, kind, limit);
  std::printf("{\"events\":%ld}\n", tr.n);
  return 0;
}
