// Binding of SimplexTree.tla to Gudhi::Simplex_tree: executes the actions of the specification on a
// real tree and projects the tree to the abstract state through the public read API only.
#pragma once
#include "common.hpp"
#include <cmath>

#include <gudhi/Simplex_tree.h>
#include <gudhi/graph_simplicial_complex.h>
#include <gudhi/Rips_complex.h>

namespace vf {

template <bool Stable, bool Link, bool Contig, class Filt = double, bool StoreFilt = true, class Vertex = int,
          class Key = std::uint32_t, bool StoreKey = true>
struct StOpt {
  typedef Gudhi::linear_indexing_tag Indexing_tag;
  typedef Vertex Vertex_handle;
  typedef Filt Filtration_value;
  typedef Key Simplex_key;
  static const bool store_key = StoreKey;
  static const bool store_filtration = StoreFilt;
  static const bool contiguous_vertices = Contig;
  static const bool link_nodes_by_label = Link;
  static const bool stable_simplex_handles = Stable;
};

// label maps: model vertex i -> label
struct LabelId {
  static int to(int i) { return i; }
  static const char* name() { return "id"; }
  static constexpr bool identity = true;
};
struct LabelGap {  // monotone, gaps, negative labels, avoids -1 (null_vertex)
  static int to(int i) { return 3 * i - 5; }
  static const char* name() { return "gap"; }
  static constexpr bool identity = false;
};

inline int g_nv = 3;      // size of the model vertex universe
inline int g_maxdim = 2;  // MaxDim of the model

template <class Options, class Label>
struct StModel {
  using ST = Gudhi::Simplex_tree<Options>;
  using SH = typename ST::Simplex_handle;
  using VH = typename ST::Vertex_handle;
  using FV = typename ST::Filtration_value;
  ST st;
  static std::string& cfgname() { static std::string n; return n; }
  static const char* name() { return cfgname().c_str(); }

  // the label map must be monotone for the vertex type: unsigned vertex types get non-negative labels
  static VH lab1(std::int64_t i) {
    int l = Label::to(static_cast<int>(i));
    if (!Label::identity && std::is_unsigned<VH>::value) l += 7;
    return static_cast<VH>(l);
  }
  static std::vector<VH> lab(const std::vector<int>& s) {
    std::vector<VH> r;
    for (int i : s) r.push_back(lab1(i));
    return r;
  }
  static int unlab(VH v) {
    for (int i = 0; i < 64; ++i) if (lab1(i) == v) return i;
    return -999;
  }
  static FV tofv(const bj::value& v) { return static_cast<FV>(vf_to_double(v)); }

  std::vector<int> vertices_of(SH sh) const {
    std::vector<int> r;
    for (auto v : st.simplex_vertex_range(sh)) r.push_back(unlab(v));
    std::sort(r.begin(), r.end());
    return r;
  }

  bool applicable(const bj::object& act) const {
    std::string op(act.at("op").as_string());
    if (op == "edge_as_flag") return Options::link_nodes_by_label;
    if (op == "graph" || op == "rips") return Label::identity;   // boost vertex descriptors / point indices are the labels
    if (!Options::store_filtration) {
      if (op == "rips") return false;
      if (op == "make_non_decreasing") return false;  // does not compile without stored values
      // a tree that stores no value behaves as if every value were 0
      auto it = act.find("f");
      if (it != act.end() && it->value().to_number<std::int64_t>() != 0) return false;
      if (op == "graph") for (auto& e : act.at("g_set").as_array()) if (e.as_object().at("f").to_number<std::int64_t>() != 0) return false;
    }
    return true;
  }
  bool state_ok(const bj::object& obs) const {
    if (Options::contiguous_vertices) {
      const bj::array& vs = obs.at("vertices").as_array();
      for (std::size_t i = 0; i < vs.size(); ++i) if (vs[i].to_number<std::int64_t>() != static_cast<std::int64_t>(i)) return false;
    }
    if (!Options::store_filtration)
      for (auto& e : obs.at("k_set").as_array()) if (e.as_object().at("f").to_number<std::int64_t>() != 0) return false;
    return true;
  }
  void mask(bj::object& o) const { o.erase("same_set"); }   // constrained by membership (observe), not by equality
  const bj::object* expected_ = nullptr;
  void set_expected(const bj::object& o) { expected_ = &o; }

  // Operations must not depend on whether a VALID filtration cache is alive when they are called (the cache only has
  // to be refreshed by the user AFTER a modification): with VF_LIVE_CACHE=1 every operation is also run on two copies of
  // the tree whose cache was just computed - once over all simplices, once ignoring infinite values - and the returned
  // value and the resulting tree must be the same as without cache.
  bj::object apply(const bj::object& act) {
    static const bool live = [] { const char* e = std::getenv("VF_LIVE_CACHE"); return e && std::string(e) == "1"; }();
    if constexpr (Options::store_filtration) {
      if (live) {
        std::string with_cache[2];
        StModel twin[2];
        for (int k = 0; k < 2; ++k) {
          twin[k].st = st;
          twin[k].st.initialize_filtration(k == 1);
          with_cache[k] = ser(bj::value(twin[k].apply_core(act)));
        }
        bj::object out = apply_core(act);
        for (int k = 0; k < 2; ++k)
          if (with_cache[k] != ser(bj::value(out)) || !(twin[k].st == st))
            out["exception"] = std::string("the operation behaves differently when a valid filtration cache (") +
                               (k ? "ignoring infinite values" : "all simplices") + ") is alive";
        return out;
      }
    }
    return apply_core(act);
  }
  bj::object apply_core(const bj::object& act) {
    std::string op(act.at("op").as_string());
    bj::object out;
    auto insret = [&](std::pair<SH, bool> r) {
      out["ret"] = r.second ? "new" : (r.first != st.null_simplex() ? "lowered" : "none");
      if constexpr (Options::store_key) {   // "If no key has been assigned, returns null_key()"
        if (r.second && r.first != st.null_simplex() && ST::key(r.first) != st.null_key()) out["exception"] = "a simplex reported as new already has a key";
      }
    };
    if (op == "insert") {
      insret(st.insert_simplex(lab(ints(act.at("s"))), tofv(act.at("f"))));
    } else if (op == "insert_faces") {
      insret(st.insert_simplex_and_subfaces(lab(ints(act.at("s"))), tofv(act.at("f"))));
    } else if (op == "batch") {
      // the range is a presentation of the vertex SET: in increasing order, reversed, or with a vertex listed twice
      // (adjacent in a sorted range, or apart)
      auto vs = lab(ints(act.at("vs")));
      switch (nbatch_++ % 4) {
        case 1: std::reverse(vs.begin(), vs.end()); break;
        case 2: if (!vs.empty()) { vs.push_back(vs[vs.size() / 2]); std::sort(vs.begin(), vs.end()); } break;
        case 3: if (!vs.empty()) vs.push_back(vs.front()); break;
        default: break;
      }
      st.insert_batch_vertices(vs, tofv(act.at("f")));
    } else if (op == "graph") {
      using Graph = Gudhi::Proximity_graph<ST>;
      std::vector<typename boost::graph_traits<Graph>::edges_size_type> dummy;
      std::vector<std::pair<int, int>> edges;
      std::vector<FV> efilt;
      std::map<int, FV> vfilt;
      for (auto& e : act.at("g_set").as_array()) {
        auto s = ints(e.as_object().at("s"));
        FV f = tofv(e.as_object().at("f"));
        if (s.size() == 1) vfilt[s[0]] = f; else { edges.emplace_back(s[0], s[1]); efilt.push_back(f); }
      }
      Graph g(edges.begin(), edges.end(), efilt.begin(), vfilt.size());
      auto vprop = boost::get(Gudhi::vertex_filtration_t(), g);
      for (auto& p : vfilt) boost::put(vprop, static_cast<typename boost::graph_traits<Graph>::vertex_descriptor>(p.first), p.second);
      st.insert_graph(g);
    } else if (op == "remove_maximal") {
      st.remove_maximal_simplex(st.find(lab(ints(act.at("s")))));
    } else if (op == "prune_filt") {
      out["ret"] = st.prune_above_filtration(tofv(act.at("f")));
    } else if (op == "prune_dim") {
      out["ret"] = st.prune_above_dimension(static_cast<int>(act.at("d").to_number<std::int64_t>()));
    } else if (op == "clear") {
      st.clear();
    } else if (op == "assign") {
      st.assign_filtration(st.find(lab(ints(act.at("s")))), tofv(act.at("f")));
    } else if (op == "reset_filt") {
      st.reset_filtration(tofv(act.at("f")), static_cast<int>(act.at("d").to_number<std::int64_t>()));
    } else if (op == "make_non_decreasing") {
      if constexpr (Options::store_filtration) out["ret"] = st.make_filtration_non_decreasing();
    } else if (op == "expansion") {
      st.expansion(static_cast<int>(act.at("d").to_number<std::int64_t>()));
    } else if (op == "expansion_blockers") {
      std::set<std::vector<int>> blocked;
      for (auto& b : act.at("blocked_set").as_array()) blocked.insert(ints(b));
      st.expansion_with_blockers(static_cast<int>(act.at("d").to_number<std::int64_t>()),
                                 [&](SH sh) { return blocked.count(vertices_of(sh)) > 0; });
    } else if (op == "rips") {
      int n = static_cast<int>(act.at("n").to_number<std::int64_t>());
      std::vector<std::vector<FV>> D(n, std::vector<FV>(n, FV(0)));
      for (auto& e : act.at("d_set").as_array()) {
        int a = static_cast<int>(e.as_object().at("a").to_number<std::int64_t>()), b = static_cast<int>(e.as_object().at("b").to_number<std::int64_t>());
        D[a][b] = D[b][a] = tofv(e.as_object().at("w"));
      }
      FV t = tofv(act.at("t"));
      int d = static_cast<int>(act.at("d").to_number<std::int64_t>());
      if (act.at("form").as_string() == "matrix") {
        std::vector<std::vector<FV>> lower(n);   // lower[i][j], j < i
        for (int i = 0; i < n; ++i) for (int j = 0; j < i; ++j) lower[i].push_back(D[i][j]);
        Gudhi::rips_complex::Rips_complex<FV> rips(lower, t);
        rips.create_complex(st, d);
      } else {
        std::vector<int> pts(n);
        for (int i = 0; i < n; ++i) pts[i] = i;
        Gudhi::rips_complex::Rips_complex<FV> rips(pts, t, [&](int a, int b) { return D[a][b]; });
        rips.create_complex(st, d);
      }
    } else if (op == "edge_as_flag") {
      if constexpr (Options::link_nodes_by_label) {
        std::vector<SH> added;
        st.insert_edge_as_flag(lab1(act.at("u").to_number<std::int64_t>()),
                               lab1(act.at("v").to_number<std::int64_t>()), tofv(act.at("f")),
                               static_cast<int>(act.at("d").to_number<std::int64_t>()), added);
        bj::array a;
        for (auto sh : added) a.push_back(jarr(vertices_of(sh)));
        out["added_set"] = a;
      }
    } else {
      out["exception"] = "unknown op " + op;
    }
    return out;
  }

  // ----- projection -----
  static inline unsigned nobs_rot_ = 0, nbatch_ = 0;   // process-wide: a fresh model object is built for every behaviour
  bj::object observe() {
    const ST& c = st;
    bj::object o;
    std::vector<std::string> failed;
    // (1) complex_simplex_range
    std::map<std::vector<int>, double> K;
    std::size_t n1 = 0;
    for (auto sh : c.complex_simplex_range()) { K[vertices_of(sh)] = static_cast<double>(c.filtration(sh)); ++n1; }
    if (n1 != K.size()) failed.push_back("complex_simplex_range lists a simplex twice");
    int D = -1;
    for (auto& p : K) D = std::max<int>(D, static_cast<int>(p.first.size()) - 1);
    // The three dimension-sensitive queries (the counts by dimension, dimension(), operator== against a rebuilt tree) are
    // asked in a rotating order: the stored dimension may be a stale upper bound after removals until one of them
    // recomputes it, and each must be right when it is the first to be asked.
    auto q_nbd = [&]() {
      {
        bj::array a;
        for (auto x : c.num_simplices_by_dimension()) a.push_back(static_cast<std::int64_t>(x));
        o["nbd"] = a;
      }
    };
    auto q_dim = [&]() {
      {
        int ub = c.upper_bound_dimension();
        int dim = c.dimension();
        o["dim"] = dim;
        if (ub < D) failed.push_back("upper_bound_dimension below the dimension");
        if (c.is_empty() != K.empty()) failed.push_back("is_empty wrong");
      }
    };
    auto q_eq = [&]() {
      // equality with a tree rebuilt from scratch from the observed complex
      {
        ST fresh;
        std::vector<std::pair<std::vector<int>, double>> byd(K.begin(), K.end());
        std::stable_sort(byd.begin(), byd.end(), [](auto& a, auto& b) { return a.first.size() < b.first.size(); });
        for (auto& p : byd) fresh.insert_simplex(lab(p.first), static_cast<FV>(p.second));
        if (!(fresh == c) || (fresh != c)) failed.push_back("operator== false against a tree rebuilt from the same complex");
        if (!(c == fresh) || (c != fresh)) failed.push_back("operator== (object on the left) false against a tree rebuilt from the same complex");
        if (!K.empty()) {
          ST other;
          bool first = true;
          for (auto& p : byd) { other.insert_simplex(lab(p.first), static_cast<FV>(Options::store_filtration && first ? (std::isinf(p.second) ? 0. : p.second + 1) : p.second)); first = false; }   // inf + 1 == inf
          if (!Options::store_filtration) other.insert_simplex(lab({g_nv + 1}), FV(0));
          if (other == c) failed.push_back("operator== true against a different tree");
        }
      }
    };
    switch (nobs_rot_++ % 3) {
      case 0: q_eq(); q_nbd(); q_dim(); break;
      case 1: q_nbd(); q_dim(); q_eq(); break;
      default: q_dim(); q_eq(); q_nbd(); break;
    }
    // (2) find on every non-empty subset of the universe
    std::map<std::vector<int>, double> K2;
    for (unsigned m = 1; m < (1u << g_nv); ++m) {
      std::vector<int> s;
      for (int i = 0; i < g_nv; ++i) if (m & (1u << i)) s.push_back(i);
      SH sh = c.find(lab(s));
      if (sh != c.null_simplex()) K2[s] = static_cast<double>(c.filtration(sh));
    }
    if (K2 != K) failed.push_back("find() disagrees with complex_simplex_range");
    // reversed-order argument to find (find sorts a copy)
    for (auto& p : K) {
      std::vector<int> r(p.first.rbegin(), p.first.rend());
      if (c.find(lab(r)) == c.null_simplex()) failed.push_back("find(reversed vertex order) fails");
    }
    bj::array kset;
    for (auto& p : K) kset.push_back(bj::object{{"s", jarr(p.first)}, {"f", fv(p.second)}});
    o["k_set"] = kset;
    // (3) skeleton ranges
    bj::array skel;
    for (int d = 0; d <= g_maxdim; ++d) {
      std::vector<std::vector<int>> t;
      for (auto sh : c.skeleton_simplex_range(d)) t.push_back(vertices_of(sh));
      bj::array ta;
      for (auto& s : t) ta.push_back(jarr(s));
      skel.push_back(bj::object{{"d", d}, {"t_set", ta}});
    }
    o["skel"] = skel;
    // vertices
    {
      std::vector<int> vs;
      for (auto v : c.complex_vertex_range()) vs.push_back(unlab(v));
      if (!std::is_sorted(vs.begin(), vs.end())) failed.push_back("complex_vertex_range not increasing");
      o["vertices"] = jarr(vs);
      o["nv"] = static_cast<std::int64_t>(c.num_vertices());
    }
    o["ns"] = static_cast<std::int64_t>(c.num_simplices());
    // per-simplex queries
    bj::array qset;
    for (auto& p : K) {
      SH sh = c.find(lab(p.first));
      bj::object q;
      q["s"] = jarr(p.first);
      q["f"] = fv(p.second);
      q["dim"] = c.dimension(sh);
      bj::array bd;
      std::vector<std::vector<int>> faces1;
      for (auto& pr : c.boundary_opposite_vertex_simplex_range(sh)) {
        auto f = vertices_of(pr.first);
        faces1.push_back(f);
        bd.push_back(bj::object{{"face", jarr(f)}, {"opp", unlab(pr.second)}});
      }
      if constexpr (Options::store_filtration) {
        if (expected_ && expected_->contains("same_set")) {
          for (auto& rv : expected_->at("same_set").as_array()) {
            const bj::object& r = rv.as_object();
            if (ints(r.at("s")) != p.first) continue;
            auto has = [&](const char* key, const std::vector<int>& x) {
              for (auto& e : r.at(key).as_array()) if ((e.is_array() ? ints(e) : std::vector<int>{static_cast<int>(e.to_number<std::int64_t>())}) == x) return true;
              return false;
            };
            auto v = c.vertex_with_same_filtration(sh);
            if (v == c.null_vertex() ? !r.at("v_set").as_array().empty() : !has("v_set", {unlab(v)}))
              failed.push_back("vertex_with_same_filtration is not a vertex with the simplex's value / null although one exists");
            if (p.first.size() >= 2) {
              SH e = c.edge_with_same_filtration(sh);
              if (e == c.null_simplex() ? !r.at("e_set").as_array().empty() : !has("e_set", vertices_of(e)))
                failed.push_back("edge_with_same_filtration is not an edge with the simplex's value / null although one exists");
            }
            if (!r.at("m_set").as_array().empty()) {
              SH t = c.minimal_simplex_with_same_filtration(sh);
              if (t == c.null_simplex() || !has("m_set", vertices_of(t)))
                failed.push_back("minimal_simplex_with_same_filtration is not a minimal face with the simplex's value");
            }
          }
        }
      }
      if (p.first.size() == 2) {   // endpoints of an edge are its two vertices
        auto ep = c.endpoints(sh);
        auto e1 = vertices_of(ep.first), e2 = vertices_of(ep.second);
        if (e1.size() != 1 || e2.size() != 1 || std::min(e1[0], e2[0]) != p.first[0] || std::max(e1[0], e2[0]) != p.first[1])
          failed.push_back("endpoints(edge) are not the two vertices of the edge");
      }
      {   // has_children: some simplex extends this one by a larger vertex (the node has a Siblings below it)
        bool hc = false;
        for (auto& r : K)
          if (r.first.size() == p.first.size() + 1 && std::equal(p.first.begin(), p.first.end(), r.first.begin())) { hc = true; break; }
        if (c.has_children(sh) != hc) failed.push_back("has_children disagrees with the complex");
      }
      std::vector<std::vector<int>> faces2;
      for (auto b : c.boundary_simplex_range(sh)) faces2.push_back(vertices_of(b));
      if (faces1 != faces2) failed.push_back("boundary_simplex_range and boundary_opposite_vertex_simplex_range disagree");
      q["bd"] = bd;
      bj::array star;
      for (auto t : c.star_simplex_range(sh)) star.push_back(jarr(vertices_of(t)));
      q["star_set"] = star;
      bj::array cof;
      for (int cd = 1; cd <= g_maxdim; ++cd) {
        bj::array ta;
        for (auto t : c.cofaces_simplex_range(sh, cd)) ta.push_back(jarr(vertices_of(t)));
        cof.push_back(bj::object{{"c", cd}, {"t_set", ta}});
      }
      q["cof"] = cof;
      qset.push_back(q);
    }
    o["q_set"] = qset;
    // for_each_simplex visits every simplex exactly once with its dimension; returning true skips the children
    {
      std::multiset<std::vector<int>> seen;
      bool dim_ok = true;
      c.for_each_simplex([&](SH sh, int dim) { seen.insert(vertices_of(sh)); if (dim != c.dimension(sh)) dim_ok = false; });
      std::multiset<std::vector<int>> want;
      for (auto& p : K) want.insert(p.first);
      if (seen != want) failed.push_back("for_each_simplex does not visit every simplex exactly once");
      if (!dim_ok) failed.push_back("for_each_simplex passes a wrong dimension");
      std::size_t roots = 0, nvert = 0;
      c.for_each_simplex([&](SH, int dim) -> bool { ++roots; if (dim == 0) ++nvert; return true; });
      if (roots != nvert || nvert != c.num_vertices()) failed.push_back("for_each_simplex with a callback returning true does not skip the children");
    }
    // filtration order (the cache must be refreshed explicitly after modifications, as documented)
    if constexpr (Options::store_filtration) {
      st.initialize_filtration();
      bj::array fl;
      for (auto sh : st.filtration_simplex_range()) fl.push_back(jarr(vertices_of(sh)));
      o["filt"] = fl;
      // simplex(idx) is the idx-th simplex of the filtration; keys are user data that read back as assigned
      {
        std::size_t idx = 0;
        for (auto sh : st.filtration_simplex_range()) {
          if (st.simplex(static_cast<typename ST::Simplex_key>(idx)) != sh) failed.push_back("simplex(idx) is not the idx-th simplex of the filtration");
          if constexpr (Options::store_key) {
            st.assign_key(sh, static_cast<typename ST::Simplex_key>(idx + 3));
            if (ST::key(sh) != static_cast<typename ST::Simplex_key>(idx + 3)) failed.push_back("key(sh) is not the key assigned by assign_key");
          }
          ++idx;
        }
      }
      st.initialize_filtration(true);
      bj::array fl2;
      for (auto sh : st.filtration_simplex_range()) fl2.push_back(jarr(vertices_of(sh)));
      o["filt_noinf"] = fl2;
      st.clear_filtration();
    }
    bj::array fa;
    for (auto& s : failed) fa.emplace_back(s);
    o["checks_failed"] = fa;
    return o;
  }
};

}  // namespace vf
