// C15, thread clause: independent objects used from different threads.  Each thread owns its objects (Simplex_trees
// of different option sets, persistence matrices, a persistent cohomology computation) and drives them through a
// seeded random history; the same histories are then run sequentially and the final states must coincide.  Built
// with -fsanitize=thread: any report of the sanitizer is printed on stderr and counted by the check.
// usage: lc_threads <seed> <nthreads> <steps>   prints one JSON line.
#include "common.hpp"

#include <gudhi/Simplex_tree.h>
#include <gudhi/Matrix.h>
#include <gudhi/persistence_matrix_options.h>
#include <gudhi/Persistent_cohomology.h>
#include <gudhi/Persistent_cohomology/Field_Zp.h>
#include <thread>

using namespace vf;

template <class Options>
std::string tree_history(std::uint64_t seed, int steps) {
  using ST = Gudhi::Simplex_tree<Options>;
  std::mt19937_64 rng(seed);
  ST st, copy;
  for (int k = 0; k < steps; ++k) {
    int c = static_cast<int>(rng() % 100);
    std::vector<int> s;
    int sz = 1 + static_cast<int>(rng() % 4);
    while (static_cast<int>(s.size()) < sz) { int v = static_cast<int>(rng() % 7); if (std::find(s.begin(), s.end(), v) == s.end()) s.push_back(v); }
    if (c < 55) st.insert_simplex_and_subfaces(s, static_cast<double>(rng() % 5));
    else if (c < 70) {
      auto sh = st.find(s);
      if (sh != st.null_simplex()) { std::size_t n = 0; for (auto t : st.star_simplex_range(sh)) { (void)t; ++n; } if (n == 1) st.remove_maximal_simplex(sh); }   // only maximal simplices
    }
    else if (c < 78) st.prune_above_dimension(static_cast<int>(rng() % 4));
    else if (c < 84) { st.make_filtration_non_decreasing(); st.prune_above_filtration(static_cast<double>(rng() % 5)); }
    else if (c < 90) { copy = st; }
    else if (c < 94) { ST tmp(std::move(st)); st = std::move(tmp); }
    else if (c < 97) { st.initialize_filtration(); for (auto sh : st.filtration_simplex_range()) (void)st.filtration(sh); st.clear_filtration(); }
    else { st.make_filtration_non_decreasing(); st.initialize_filtration();  // documented: refresh the cache after modifications
      Gudhi::persistent_cohomology::Persistent_cohomology<ST, Gudhi::persistent_cohomology::Field_Zp> pc(st); pc.init_coefficients(3); pc.compute_persistent_cohomology(); }
  }
  std::ostringstream os;
  st.make_filtration_non_decreasing();
  st.clear_filtration();
  os << st << "#" << copy.num_simplices();
  return os.str();
}

template <Gudhi::persistence_matrix::Column_types CT, bool Chain>
struct MOpt : Gudhi::persistence_matrix::Default_options<CT, true> {
  static const bool is_of_boundary_type = !Chain;
  static const bool has_column_pairings = true;
  static const bool has_vine_update = true;
  static const bool has_removable_columns = true;
  static const bool has_map_column_container = true;
};
template <class Opt>
std::string matrix_history(std::uint64_t seed, int steps) {
  using M = Gudhi::persistence_matrix::Matrix<Opt>;
  std::mt19937_64 rng(seed);
  M m;
  std::vector<int> dims;
  unsigned n = 0;
  for (int k = 0; k < steps; ++k) {
    // vertices and edges between existing vertices, positions = identifiers
    if (n < 3 || rng() % 3 == 0) { m.insert_boundary(n, std::vector<unsigned>{}, 0); dims.push_back(0); ++n; }
    else {
      std::vector<unsigned> vs;
      for (unsigned i = 0; i < n; ++i) if (dims[i] == 0) vs.push_back(i);
      unsigned a = vs[rng() % vs.size()], b = vs[rng() % vs.size()];
      if (a == b) continue;
      m.insert_boundary(n, std::vector<unsigned>{std::min(a, b), std::max(a, b)}, 1); dims.push_back(1); ++n;
    }
    if (n > 40) break;
  }
  M copy(m);
  std::ostringstream os;
  std::multiset<std::tuple<int, int, int>> bars;
  for (auto& b : copy.get_current_barcode()) bars.insert({b.dim, static_cast<int>(b.birth), static_cast<int>(b.death)});
  for (auto& b : bars) os << std::get<0>(b) << ":" << std::get<1>(b) << ":" << std::get<2>(b) << " ";
  return os.str();
}

std::string one(int kind, std::uint64_t seed, int steps) {
  switch (kind % 6) {
    case 0: return tree_history<Gudhi::Simplex_tree_options_default>(seed, steps);
    case 1: return tree_history<Gudhi::Simplex_tree_options_full_featured>(seed, steps);
    case 2: return matrix_history<MOpt<Gudhi::persistence_matrix::Column_types::INTRUSIVE_SET, false>>(seed, steps);
    case 3: return matrix_history<MOpt<Gudhi::persistence_matrix::Column_types::INTRUSIVE_LIST, true>>(seed, steps);
    case 4: return tree_history<Gudhi::Simplex_tree_options_default>(seed + 1, steps);   // same type in two threads
    default: return matrix_history<MOpt<Gudhi::persistence_matrix::Column_types::VECTOR, false>>(seed, steps);
  }
}

int main(int argc, char** argv) {
  std::uint64_t seed = argc > 1 ? std::strtoull(argv[1], nullptr, 10) : 1;
  int nth = argc > 2 ? std::atoi(argv[2]) : 6, steps = argc > 3 ? std::atoi(argv[3]) : 400;
  std::vector<std::string> par(nth), seq(nth);
  std::vector<std::thread> ts;
  for (int t = 0; t < nth; ++t) ts.emplace_back([&, t] { par[t] = one(t, seed * 131 + t, steps); });
  for (auto& t : ts) t.join();
  for (int t = 0; t < nth; ++t) seq[t] = one(t, seed * 131 + t, steps);
  int diff = 0;
  for (int t = 0; t < nth; ++t) if (par[t] != seq[t]) ++diff;
  std::printf("{\"threads\":%d,\"steps\":%d,\"differences\":%d,\"state_bytes\":%zu}\n", nth, steps, diff, par[0].size());
  return diff ? 1 : 0;
}
