// C02, code -> spec: records runs of Persistent_cohomology on complexes the bounded model excludes (torsion: RP^2,
// Klein bottle, a Moore-like space; random flag complexes with ties) for Trace_PC.tla.
// usage: pc_record outdir seed n_random
#include "common.hpp"
#include <sys/wait.h>

#include <gudhi/Simplex_tree.h>
#include <gudhi/Hasse_complex.h>
#include <gudhi/Persistent_cohomology.h>
#include <gudhi/Persistent_cohomology/Field_Zp.h>
#include <gudhi/Persistent_cohomology/Multi_field.h>

using namespace vf;
namespace pc = Gudhi::persistent_cohomology;
using ST = Gudhi::Simplex_tree<>;

inline bool divides(int q, int charac) { return charac % q == 0; }
inline bool divides(int q, const mpz_class& charac) { return mpz_divisible_ui_p(charac.get_mpz_t(), static_cast<unsigned long>(q)) != 0; }

// the cell complex the engine sees: filtration order, boundary_simplex_range with alternating signs
bj::array exposed_cells(ST& st, int p) {
  st.initialize_filtration();
  std::map<std::vector<int>, int> pos;
  int i = 0;
  for (auto sh : st.filtration_simplex_range()) {
    std::vector<int> s;
    for (auto v : st.simplex_vertex_range(sh)) s.push_back(v);
    std::sort(s.begin(), s.end());
    pos[s] = i++;
  }
  bj::array cells;
  for (auto sh : st.filtration_simplex_range()) {
    int dim = st.dimension(sh);
    bj::array bd;
    int sign = 1;
    if (dim > 0)
      for (auto b : st.boundary_simplex_range(sh)) {
        std::vector<int> s;
        for (auto v : st.simplex_vertex_range(b)) s.push_back(v);
        std::sort(s.begin(), s.end());
        bd.push_back(bj::object{{"x", pos.at(s)}, {"c", sign == 1 ? 1 : p - 1}});
        sign = -sign;
      }
    cells.push_back(bj::object{{"dim", dim}, {"val", fv(st.filtration(sh))}, {"bd", bd}});
  }
  return cells;
}

// every run of the engine happens in a forked child which appends its event to the trace; a crash of the engine
// becomes a "crash" event written by the parent (the check separates those from the events TLC validates)
template <class F>
void isolated(Trace& tr, const bj::object& what, F&& body) {
  std::fflush(tr.f);
  pid_t pid = fork();
  if (pid == 0) { body(); std::fflush(tr.f); _exit(0); }
  int status = 0;
  waitpid(pid, &status, 0);
  if (!(WIFEXITED(status) && WEXITSTATUS(status) == 0)) {
    bj::object ev = what;
    ev["op"] = "crash";
    ev["signal"] = WIFSIGNALED(status) ? WTERMSIG(status) : -WEXITSTATUS(status);
    tr.emit(ev);
    std::fflush(tr.f);
  }
}

void run_zp_(Trace& tr, ST& st, int p, double minlen, bool flag, const char* name);
void run_multi_(Trace& tr, ST& st, int lo, int hi, const std::vector<int>& primes, double minlen, bool flag, const char* name);
void run_zp(Trace& tr, ST& st, int p, double minlen, bool flag, const char* name) {
  isolated(tr, bj::object{{"engine", "Field_Zp"}, {"name", name}, {"p", p}, {"minlen", fv(minlen)}, {"flag", flag}},
           [&] { run_zp_(tr, st, p, minlen, flag, name); });
}
void run_multi(Trace& tr, ST& st, int lo, int hi, const std::vector<int>& primes, double minlen, bool flag, const char* name) {
  isolated(tr, bj::object{{"engine", "Multi_field"}, {"name", name}, {"lo", lo}, {"hi", hi}, {"minlen", fv(minlen)}, {"flag", flag}},
           [&] { run_multi_(tr, st, lo, hi, primes, minlen, flag, name); });
}
void run_zp_(Trace& tr, ST& st, int p, double minlen, bool flag, const char* name) {
  pc::Persistent_cohomology<ST, pc::Field_Zp> pcoh(st, flag);
  pcoh.init_coefficients(p);
  pcoh.compute_persistent_cohomology(minlen);
  bj::array pairs;
  for (auto& pr : pcoh.get_persistent_pairs())
    pairs.push_back(bj::object{{"dim", st.dimension(std::get<0>(pr))}, {"b", fv(st.filtration(std::get<0>(pr)))}, {"d", fv(st.filtration(std::get<1>(pr)))}});
  tr.emit(bj::object{{"op", "pc"}, {"name", name}, {"p", p}, {"minlen", fv(minlen)}, {"flag", flag}, {"dimK", st.dimension()},
                     {"cells", exposed_cells(st, p)}, {"pairs", pairs}});
}
// the same filtered complex through Hasse_complex (converting constructor, keys = filtration order)
void run_zp_hasse_(Trace& tr, ST& st, int p, double minlen, bool flag, const char* name) {
  bj::array cells = exposed_cells(st, p);   // also refreshes the filtration cache
  typename ST::Simplex_key k = 0;
  for (auto sh : st.filtration_simplex_range()) st.assign_key(sh, k++);
  Gudhi::Hasse_complex<> hasse(st);
  pc::Persistent_cohomology<Gudhi::Hasse_complex<>, pc::Field_Zp> pcoh(hasse, flag);
  pcoh.init_coefficients(p);
  pcoh.compute_persistent_cohomology(minlen);
  bj::array pairs;
  for (auto& pr : pcoh.get_persistent_pairs())
    pairs.push_back(bj::object{{"dim", hasse.dimension(std::get<0>(pr))}, {"b", fv(hasse.filtration(std::get<0>(pr)))}, {"d", fv(hasse.filtration(std::get<1>(pr)))}});
  tr.emit(bj::object{{"op", "pc"}, {"name", std::string(name) + "/hasse"}, {"p", p}, {"minlen", fv(minlen)}, {"flag", flag}, {"dimK", st.dimension()},
                     {"cells", cells}, {"pairs", pairs}});
}
void run_zp_hasse(Trace& tr, ST& st, int p, double minlen, bool flag, const char* name) {
  isolated(tr, bj::object{{"engine", "Field_Zp on Hasse_complex"}, {"name", name}, {"p", p}, {"minlen", fv(minlen)}, {"flag", flag}},
           [&] { run_zp_hasse_(tr, st, p, minlen, flag, name); });
}
void run_multi_(Trace& tr, ST& st, int lo, int hi, const std::vector<int>& primes, double minlen, bool flag, const char* name) {
  pc::Persistent_cohomology<ST, pc::Multi_field> pcoh(st, flag);
  pcoh.init_coefficients(lo, hi);
  pcoh.compute_persistent_cohomology(minlen);
  bj::array pairs;
  for (auto& pr : pcoh.get_persistent_pairs()) {
    bj::array qs;
    for (int q : primes) if (divides(q, std::get<2>(pr))) qs.push_back(q);
    pairs.push_back(bj::object{{"dim", st.dimension(std::get<0>(pr))}, {"b", fv(st.filtration(std::get<0>(pr)))}, {"d", fv(st.filtration(std::get<1>(pr)))}, {"qs", qs}});
  }
  // the boundary coefficients are logged as signs (c = 1 or "minus one"): 2 stands for -1, resolved per prime by the spec
  bj::array cells = exposed_cells(st, 3);
  tr.emit(bj::object{{"op", "pcm"}, {"name", name}, {"lo", lo}, {"hi", hi}, {"primes", jarr(primes)}, {"minlen", fv(minlen)}, {"flag", flag},
                     {"dimK", st.dimension()}, {"cells", cells}, {"pairs", pairs}});
}

void add(ST& st, std::initializer_list<std::vector<int>> tops, std::mt19937_64& rng, int nvals) {
  for (auto& t : tops) st.insert_simplex_and_subfaces(t, 0.);
  for (auto sh : st.complex_simplex_range()) st.assign_filtration(sh, static_cast<double>(rng() % nvals));
  st.make_filtration_non_decreasing();
}

int main(int argc, char** argv) {
  if (argc < 4) { std::cerr << "usage: pc_record outdir seed n_random" << std::endl; return 2; }
  std::string outdir = argv[1];
  std::mt19937_64 rng(std::strtoull(argv[2], nullptr, 10) * 7777 + 5);
  int n_random = std::atoi(argv[3]);
  const int primes[] = {2, 3, 5, 7, 11, 46337};
  {
    Trace tr(outdir + "/pc_torsion.ndjson");
    for (int rep = 0; rep < 2; ++rep) {
      ST rp2, klein, moore3;
      // minimal triangulation of the projective plane (6 vertices, 10 triangles): H1 = Z/2
      add(rp2, {{1,2,4},{1,2,5},{1,3,4},{1,3,6},{1,5,6},{2,3,5},{2,3,6},{2,4,6},{3,4,5},{4,5,6}}, rng, rep == 0 ? 1 : 3);
      // Klein bottle, 3x3 grid identification (9 vertices, 18 triangles): H1 = Z + Z/2
      add(klein, {{0,1,3},{1,3,4},{1,2,4},{2,4,5},{2,0,5},{0,5,6},{3,4,6},{4,6,7},{4,5,7},{5,7,8},{5,6,8},{6,8,3},
                  {6,7,0},{7,0,1},{7,8,1},{8,1,2},{8,3,2},{3,2,0}}, rng, rep == 0 ? 1 : 3);
      // a 2-complex with H1 = Z/3: triangle boundary abc attached three times around (subdivided Moore space M(Z/3,1))
      add(moore3, {{0,1,3},{1,2,3},{2,0,3},{0,1,4},{1,2,4},{2,0,4},{0,1,5},{1,2,5},{2,0,5},{3,4,6},{4,5,6},{5,3,6}}, rng, rep == 0 ? 1 : 2);
      for (int p : primes) for (bool flag : {false, true}) {
        run_zp(tr, rp2, p, 0, flag, "rp2");
        run_zp(tr, klein, p, rep == 0 ? 0 : -1, flag, "klein");
      }
      for (int p : {2, 3, 5}) run_zp(tr, moore3, p, 0, true, "moore3");
      // cones: one simplex can kill different classes over different primes
      ST cone_rp2;
      {
        std::vector<std::vector<int>> tops = {{1,2,4},{1,2,5},{1,3,4},{1,3,6},{1,5,6},{2,3,5},{2,3,6},{2,4,6},{3,4,5},{4,5,6}};
        for (auto& t : tops) cone_rp2.insert_simplex_and_subfaces(t, 0.);
        for (auto t : tops) { t.push_back(7); cone_rp2.insert_simplex_and_subfaces(t, 1.); }
        cone_rp2.make_filtration_non_decreasing();
      }
      for (int p : {2, 3}) run_zp(tr, cone_rp2, p, 0, true, "cone_rp2");
      run_multi(tr, cone_rp2, 2, 3, {2, 3}, 0, true, "cone_rp2");
      run_multi(tr, cone_rp2, 2, 5, {2, 3, 5}, -1, false, "cone_rp2");
      run_multi(tr, rp2, 2, 3, {2, 3}, 0, true, "rp2");
      run_multi(tr, rp2, 2, 5, {2, 3, 5}, 0, true, "rp2");
      run_multi(tr, klein, 3, 7, {3, 5, 7}, 0, true, "klein");
      run_multi(tr, klein, 2, 11, {2, 3, 5, 7, 11}, -1, false, "klein");
    }
  }
  {
    Trace tr(outdir + "/pc_random.ndjson");
    for (int r = 0; r < n_random; ++r) {
      ST st;
      int nv = 5 + static_cast<int>(rng() % 4);
      int ntop = 4 + static_cast<int>(rng() % 5);
      for (int k = 0; k < ntop; ++k) {
        std::vector<int> s;
        int sz = 2 + static_cast<int>(rng() % 3);
        while (static_cast<int>(s.size()) < sz) { int v = static_cast<int>(rng() % nv); if (std::find(s.begin(), s.end(), v) == s.end()) s.push_back(v); }
        st.insert_simplex_and_subfaces(s, 0.);
      }
      for (auto sh : st.complex_simplex_range()) st.assign_filtration(sh, static_cast<double>(rng() % 4));
      st.make_filtration_non_decreasing();
      int p = primes[rng() % 6];
      double minlen = static_cast<double>(static_cast<int>(rng() % 3)) - 1;
      run_zp(tr, st, p, minlen, rng() % 2 == 0, "random");
      if (r % 4 == 0) run_multi(tr, st, 2, 5, {2, 3, 5}, minlen, rng() % 2 == 0, "random");
      if (r % 2 == 1) run_zp_hasse(tr, st, p, minlen, true, "random");
    }
  }
  // dense graphs with many simultaneously open H1 classes killed by random triangles, p > 2: annotation columns with a
  // common support of three or more classes that differ in a late coefficient (argv[4] complexes, default none)
  int n_dense = argc >= 5 ? std::atoi(argv[4]) : 0;
  if (n_dense > 0) {
    Trace tr(outdir + "/pc_dense.ndjson");
    for (int r = 0; r < n_dense; ++r) {
      ST st;
      int n = 11 + static_cast<int>(rng() % 3);
      double f = 0;
      for (int v = 0; v < n; ++v) st.insert_simplex({v}, 0.);
      std::vector<std::pair<int, int>> edges;
      for (int a = 0; a < n; ++a) for (int b = a + 1; b < n; ++b) edges.emplace_back(a, b);
      std::shuffle(edges.begin(), edges.end(), rng);
      for (auto& e : edges) st.insert_simplex({e.first, e.second}, f += 1);
      std::vector<std::vector<int>> tris;
      for (int a = 0; a < n; ++a) for (int b = a + 1; b < n; ++b) for (int c = b + 1; c < n; ++c) tris.push_back({a, b, c});
      std::shuffle(tris.begin(), tris.end(), rng);
      int T = 90 + static_cast<int>(rng() % 30);
      for (int k = 0; k < T && k < static_cast<int>(tris.size()); ++k) st.insert_simplex(tris[k], f += 1);
      const int ps[] = {3, 5, 7};
      int pp = ps[rng() % 3];
      run_zp(tr, st, pp, 0, true, "dense");
      run_zp_hasse(tr, st, pp, 0, true, "dense");
    }
  }
  return 0;
}
