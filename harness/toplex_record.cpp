// Records random histories of real Toplex_map / Lazy_toplex_map objects over 7 vertices as NDJSON traces for
// Trace_ToplexMap.tla: one line per call after it returned (arguments, return value, reads of the new state).
// Every remove_simplex is followed by a "sync" line carrying the complete state read back through the public
// API (eager: maximal_simplices(); lazy: membership() of all 127 vertex sets), a few other steps too.
//   usage: toplex_record <outdir> <seed> <executions> <steps>      (one file per variant x label map)
// Every third execution is insertion-heavy with bursts of 45 insertions without any membership read (the lazy
// variant's BETTA test size > 8 * (size_lbound + 1) is evaluated by insert_simplex and fires only while no read
// has cleaned recently); the others are balanced.  The number of reads per step is random (0-3) so that the lazy
// cleaning (ALPHA test, evaluated by every read and removal) happens at varying distances from the mutations.
// Measured once with counters in a scratch copy of the header (12 executions x 500 steps, seed 1): see DESIGN.
#include "toplex_model.hpp"

using namespace vf;

static const int NV = 7;

template <class Model>
void record(const std::string& outdir, std::uint64_t seed, int executions, int steps, bool contract_ok) {
  std::string nm = Model::name();
  std::replace(nm.begin(), nm.end(), '/', '_');
  Trace tr(outdir + "/toplex_" + nm + ".ndjson");
  std::mt19937_64 rng(seed * 1000003 + std::hash<std::string>()(nm));
  auto rnd = [&](int n) { return static_cast<int>(rng() % static_cast<std::uint64_t>(n)); };
  auto random_subset = [&](int maxsize) {
    std::vector<int> s;
    int sz = 1 + rnd(maxsize);
    while (static_cast<int>(s.size()) < sz) {
      int v = rnd(NV);
      if (std::find(s.begin(), s.end(), v) == s.end()) s.push_back(v);
    }
    std::sort(s.begin(), s.end());
    return s;
  };
  using L = typename Model::L;
  for (int ex = 0; ex < executions; ++ex) {
    Model m;
    tr.emit(bj::object{{"op", "reset"}});
    const bool heavy = (ex % 3 == 0);
    // 'vanish' executions (lazy variants): a vertex with several stored cofaces leaves the map (contraction into
    // another vertex, or removal of the vertex itself) and a burst of insertions on the OTHER vertices follows, with no
    // read in between, until the size-triggered cleaning fires while the vanished vertex is still absent
    const bool vanish = Model::lazy && (ex % 3 == 1);
    const int gone = rnd(NV);
    std::vector<bj::object> script;
    if (vanish) {
      std::vector<int> others;
      for (int v = 0; v < NV; ++v) if (v != gone) others.push_back(v);
      std::shuffle(others.begin(), others.end(), rng);
      for (int k = 0; k < 3 + rnd(2); ++k) { std::vector<int> e{gone, others[k]}; std::sort(e.begin(), e.end()); script.push_back({{"op", "insert"}, {"s", jarr(e)}}); }
      if (rnd(2)) script.push_back({{"op", "contract"}, {"x", gone}, {"y", others[5]}});
      else script.push_back({{"op", "remove"}, {"s", jarr(std::vector<int>{gone})}});
    }
    const int maxsz = 2 + rnd(4);  // simplices of at most 2..5 vertices in this execution
    // an execution is cut short when it has used its share of the step budget
    for (int stp = 0; stp < steps; ++stp) {
      bj::object act;
      // bursts of insertions with no membership read in between (insert_simplex does not evaluate the ALPHA
      // test, only reads and removals do): the stored simplices accumulate until the BETTA test fires
      const bool vburst = vanish && stp >= static_cast<int>(script.size()) && stp < 70;
      const bool burst = (heavy && ((stp / 45) % 2 == 0)) || vburst;
      if (vanish && stp < static_cast<int>(script.size())) act = script[stp];
      for (int tries = 0; tries < 100 && act.empty(); ++tries) {
        int c = burst ? 0 : rnd(100);
        int pi = heavy ? 76 : 42, pr = heavy ? 82 : 68, pc = heavy ? 90 : 78, pv = heavy ? 94 : 86;
        if (c == 99 && !Model::lazy && rnd(4) == 0) {
          // (not on the lazy variant: there the next insertion after it is undefined behaviour, see findings/C16.json;
          //  checks/c16.py runs that continuation under AddressSanitizer instead)
          act = {{"op", "clear"}};
        } else if (c < pi) {
          std::vector<int> s = random_subset(maxsz);
          if (vburst && std::find(s.begin(), s.end(), gone) != s.end()) continue;   // the vanished vertex stays away
          act = {{"op", "insert"}, {"s", jarr(s)}};
        } else if (c < pr) {
          // any vertex set: maximal, non-maximal or absent; biased towards members
          std::vector<int> s = random_subset(maxsz);
          for (int t = 0; t < 4 && !m.tm.membership(L::lab(s)); ++t) s = random_subset(maxsz);
          act = {{"op", "remove"}, {"s", jarr(s)}};
        } else if (c < pc) {
          if (!contract_ok) continue;
          int x = rnd(NV), y = rnd(NV);
          if (x == y) continue;
          act = {{"op", "contract"}, {"x", x}, {"y", y}};
        } else if (c < pv) {
          if constexpr (Model::lazy) continue;
          int v = rnd(NV);
          if (!m.tm.membership(L::lab({v}))) continue;  // remove_vertex reads t0.at(v)
          act = {{"op", "remove_vertex"}, {"v", v}};
        } else {
          if constexpr (Model::lazy) continue; else {
            std::vector<int> s = random_subset(maxsz);
            if (m.tm.membership(L::lab(s))) continue;
            bool indep = true;
            for (auto& t : m.toplices())
              if (std::includes(s.begin(), s.end(), t.begin(), t.end())) indep = false;
            if (!indep) continue;
            act = {{"op", "insert_independent"}, {"s", jarr(s)}};
          }
        }
      }
      if (act.empty()) break;
      crash_ctx().where = nm + " " + bj::serialize(act);
      bj::object got;
      try { got = m.apply(act); } catch (const std::exception& e) { got["exception"] = e.what(); }
      bj::object ev = act;
      for (auto& p : got) ev[p.key()] = p.value();
      if (got.contains("exception")) { tr.emit(ev); break; }  // the object may be broken: next execution
      const bool is_remove = act.at("op").as_string() == "remove";
      try {
        if (!is_remove) {
          // reads of the new state
          ev["nv"] = static_cast<std::int64_t>(m.tm.num_vertices());
          if constexpr (Model::lazy) ev["nmax_ub"] = static_cast<std::int64_t>(m.tm.num_maximal_simplices());
          else {
            ev["nmax"] = static_cast<std::int64_t>(m.tm.num_maximal_simplices());
            ev["max"] = jsets(m.toplices());
          }
          bj::array qs;
          int nq = burst ? 0 : rnd(4);
          for (int qi = 0; qi < nq; ++qi) {
            std::vector<int> s = random_subset(rnd(3) == 0 ? NV - 1 : maxsz);
            bj::object q{{"s", jarr(s)}, {"mem", m.tm.membership(L::lab(s))}};
            if constexpr (Model::lazy) {
              if (s.size() >= 2) q["afi"] = m.tm.all_facets_inside(L::lab(s));
            } else {
              q["maxq"] = m.tm.maximality(L::lab(s));
              std::vector<std::vector<int>> t;
              for (auto& sp : m.tm.maximal_cofaces(L::lab(s))) t.push_back(L::unlab_sorted(*sp));
              q["cof"] = jsets(t);
            }
            qs.push_back(q);
          }
          ev["q"] = qs;
        }
        tr.emit(ev);
        if (is_remove || (!burst && rnd(25) == 0)) {
          bj::object sy{{"op", "sync"}};
          if constexpr (Model::lazy) { g_tnv = NV; sy["full"] = jsets(m.members()); }
          else sy["max"] = jsets(m.toplices());
          tr.emit(sy);
        }
      } catch (const std::exception& e) {
        tr.emit(bj::object{{"op", "read"}, {"exception", e.what()}});
        break;
      }
    }
  }
}

// Wide executions (lazy variants): 40 vertex labels, small simplices, no complete read-back (the state is followed by
// the specification alone, reads are membership / all_facets_inside queries of small vertex sets).  A vertex with
// several stored cofaces leaves the map (contraction, removal of the vertex) and insertions on fresh vertices follow
// until the size-triggered cleaning fires: with 7 labels no execution can keep a vanished vertex at the top of the
// cleaning queue that long.
template <class Model>
void record_wide(const std::string& outdir, std::uint64_t seed, int executions, int steps) {
  std::string nm = Model::name();
  std::replace(nm.begin(), nm.end(), '/', '_');
  Trace tr(outdir + "/toplex_wide_" + nm + ".ndjson");
  std::mt19937_64 rng(seed * 7368787 + std::hash<std::string>()(nm));
  auto rnd = [&](int n) { return static_cast<int>(rng() % static_cast<std::uint64_t>(n)); };
  using L = typename Model::L;
  const int W = 60;
  for (int ex = 0; ex < executions; ++ex) {
    Model m;
    tr.emit(bj::object{{"op", "reset"}});
    std::vector<int> fresh;
    for (int v = 0; v < W; ++v) fresh.push_back(v);
    std::shuffle(fresh.begin(), fresh.end(), rng);
    std::vector<int> used;
    auto take = [&]() { int v = fresh.back(); fresh.pop_back(); used.push_back(v); return v; };
    // every second execution starts with a script: two stars, one centre contracted into the other (the centre with
    // no more stored cofaces than the other one disappears), then only disjoint fresh edges
    std::vector<bj::object> script;
    const bool scripted = (ex % 2 == 1);
    // every sixth execution: the two contracted vertices have a common stored coface {a, b, x} and a has a large star
    // that was never cleaned (no read during the burst); the faces {a, x} / {b, x} and {x} of the renamed simplex must
    // still be there after the contraction: asked on the contraction event itself
    const bool coface = (ex % 6 == 3);
    std::vector<std::vector<int>> directed;
    if (coface) {
      int a = take(), b = take(), x = take(), k = 7 + rnd(3);
      { std::vector<int> t{a, b, x}; std::sort(t.begin(), t.end()); script.push_back({{"op", "insert"}, {"s", jarr(t)}}); }
      for (int i = 0; i < k; ++i) { std::vector<int> e{a, take()}; std::sort(e.begin(), e.end()); script.push_back({{"op", "insert"}, {"s", jarr(e)}}); }
      if (rnd(2)) script.push_back({{"op", "contract"}, {"x", a}, {"y", b}}); else script.push_back({{"op", "contract"}, {"x", b}, {"y", a}});
      directed = {{x}, {std::min(a, x), std::max(a, x)}, {std::min(b, x), std::max(b, x)}, {a}, {b}, {std::min(a, b), std::max(a, b)}};
    } else if (scripted) {
      int a = take(), b = take(), k = 3 + rnd(2);
      std::vector<int> leaves;
      for (int i = 0; i < k; ++i) leaves.push_back(take());
      const bool shared = rnd(3) != 0;   // the two stars share their leaves: the contraction creates nothing new
      for (int i = 0; i < k; ++i) { std::vector<int> e{a, leaves[i]}; std::sort(e.begin(), e.end()); script.push_back({{"op", "insert"}, {"s", jarr(e)}}); }
      const bool tie = (ex % 4 == 1);    // equal numbers of stored cofaces, the vertex with the larger label disappears
      for (int i = 0; i < k - (tie ? 0 : rnd(2)); ++i) { std::vector<int> e{b, shared || tie ? leaves[i] : take()}; std::sort(e.begin(), e.end()); script.push_back({{"op", "insert"}, {"s", jarr(e)}}); }
      if (tie) script.push_back({{"op", "contract"}, {"x", std::max(a, b)}, {"y", std::min(a, b)}});
      else if (rnd(2)) script.push_back({{"op", "contract"}, {"x", a}, {"y", b}}); else script.push_back({{"op", "contract"}, {"x", b}, {"y", a}});
    }
    for (int stp = 0; stp < steps && fresh.size() > 4; ++stp) {
      bj::object act;
      int c = rnd(100);
      if (scripted && stp < static_cast<int>(script.size())) act = script[stp];
      else if (scripted) {
        std::vector<int> s{take(), take()};
        std::sort(s.begin(), s.end());
        act = {{"op", "insert"}, {"s", jarr(s)}};
      } else if (used.size() < 2 || c < 55) {
        // an edge or triangle on fresh vertices, sometimes attached to a used one
        std::vector<int> s{take(), take()};
        if (rnd(4) == 0 && fresh.size() > 4) s.push_back(take());
        if (!used.empty() && rnd(3) == 0) s[0] = used[rnd(static_cast<int>(used.size()))];
        std::sort(s.begin(), s.end());
        s.erase(std::unique(s.begin(), s.end()), s.end());
        act = {{"op", "insert"}, {"s", jarr(s)}};
      } else if (c < 70) {
        // a star: several edges at one used vertex
        int a = used[rnd(static_cast<int>(used.size()))];
        std::vector<int> s{a, take()};
        std::sort(s.begin(), s.end());
        act = {{"op", "insert"}, {"s", jarr(s)}};
      } else if (c < 85) {
        int x = used[rnd(static_cast<int>(used.size()))], y = used[rnd(static_cast<int>(used.size()))];
        if (x == y) continue;
        act = {{"op", "contract"}, {"x", x}, {"y", y}};
      } else {
        std::vector<int> s{used[rnd(static_cast<int>(used.size()))]};
        if (rnd(2) && used.size() > 1) { s.push_back(used[rnd(static_cast<int>(used.size()))]); std::sort(s.begin(), s.end()); s.erase(std::unique(s.begin(), s.end()), s.end()); }
        act = {{"op", "remove"}, {"s", jarr(s)}};
      }
      crash_ctx().where = nm + " wide " + bj::serialize(act);
      bj::object got;
      try { got = m.apply(act); } catch (const std::exception& e) { got["exception"] = e.what(); }
      bj::object ev = act;
      for (auto& p : got) ev[p.key()] = p.value();
      if (got.contains("exception")) { tr.emit(ev); break; }
      try {
        // reads evaluate the ALPHA test and clean as they go (raising the threshold of the size-based cleaning): the
        // scripted executions read nothing until their burst of insertions is over
        const bool quiet = scripted && stp < static_cast<int>(script.size()) + 18;
        if (coface && stp + 1 == static_cast<int>(script.size())) {
          bj::array qs;
          for (auto& sq : directed) {
            bj::object q{{"s", jarr(sq)}, {"mem", m.tm.membership(L::lab(sq))}};
            if (sq.size() >= 2) q["afi"] = m.tm.all_facets_inside(L::lab(sq));
            qs.push_back(q);
          }
          ev["q"] = qs;
        } else if (!quiet && rnd(3) == 0) {
          bj::array qs;
          for (int qi = 0; qi < 3; ++qi) {
            std::vector<int> s{used[rnd(static_cast<int>(used.size()))]};
            if (rnd(2)) s.push_back(used[rnd(static_cast<int>(used.size()))]);
            std::sort(s.begin(), s.end());
            s.erase(std::unique(s.begin(), s.end()), s.end());
            bj::object q{{"s", jarr(s)}, {"mem", m.tm.membership(L::lab(s))}};
            if (s.size() >= 2) q["afi"] = m.tm.all_facets_inside(L::lab(s));
            qs.push_back(q);
          }
          ev["q"] = qs;
        }
        tr.emit(ev);
      } catch (const std::exception& e) {
        tr.emit(ev);
        tr.emit(bj::object{{"op", "read"}, {"exception", e.what()}});
        break;
      }
    }
  }
}

// A dense complex on 10 vertices: every 5-subset is a maximal simplex (252 of them, each vertex in 126 > n^2), inserted
// in random order without a read; then faces are re-inserted, maximal simplices removed and random subsets queried.
// The recorded executions of `record` stay on 7 labels and those of `record_wide` are sparse: counts of maximal
// simplices around a vertex beyond a few dozen only occur here.
template <class Model>
void record_dense(const std::string& outdir, std::uint64_t seed) {
  std::string nm = Model::name();
  std::replace(nm.begin(), nm.end(), '/', '_');
  Trace tr(outdir + "/toplex_dense_" + nm + ".ndjson");
  std::mt19937_64 rng(seed * 9176 + 5 + std::hash<std::string>()(nm));
  auto rnd = [&](int n) { return static_cast<int>(rng() % static_cast<std::uint64_t>(n)); };
  using L = typename Model::L;
  const int n = 10, k = 5;
  Model m;
  tr.emit(bj::object{{"op", "reset"}});
  std::vector<std::vector<int>> subs;
  for (unsigned mask = 0; mask < (1u << n); ++mask) {
    if (__builtin_popcount(mask) != k) continue;
    std::vector<int> sq;
    for (int v = 0; v < n; ++v) if (mask & (1u << v)) sq.push_back(v);
    subs.push_back(sq);
  }
  std::shuffle(subs.begin(), subs.end(), rng);
  auto random_subset = [&](int lo, int hi) {
    std::vector<int> sq;
    int sz = lo + rnd(hi - lo + 1);
    while (static_cast<int>(sq.size()) < sz) { int v = rnd(n); if (std::find(sq.begin(), sq.end(), v) == sq.end()) sq.push_back(v); }
    std::sort(sq.begin(), sq.end());
    return sq;
  };
  auto step = [&](bj::object act, bool read) {
    crash_ctx().where = nm + " dense " + bj::serialize(act);
    bj::object got;
    try { got = m.apply(act); } catch (const std::exception& e) { got["exception"] = e.what(); }
    bj::object ev = act;
    for (auto& p : got) ev[p.key()] = p.value();
    if (read && !got.contains("exception")) {
      try {
        bj::array qs;
        for (int qi = 0; qi < 6; ++qi) {
          std::vector<int> sq = random_subset(1, 6);
          bj::object q{{"s", jarr(sq)}, {"mem", m.tm.membership(L::lab(sq))}};
          if constexpr (Model::lazy) { if (sq.size() >= 2) q["afi"] = m.tm.all_facets_inside(L::lab(sq)); }
          else q["maxq"] = m.tm.maximality(L::lab(sq));
          qs.push_back(q);
        }
        ev["q"] = qs;
      } catch (const std::exception& e) { ev["exception"] = e.what(); }
    }
    tr.emit(ev);
    return !ev.contains("exception");
  };
  for (auto& sq : subs) if (!step({{"op", "insert"}, {"s", jarr(sq)}}, false)) return;
  for (int i = 0; i < 14; ++i) {
    bool ok;
    if (i % 3 == 2) ok = step({{"op", "remove"}, {"s", jarr(subs[static_cast<std::size_t>(rnd(static_cast<int>(subs.size())))])}}, true);
    else ok = step({{"op", "insert"}, {"s", jarr(random_subset(2, 4))}}, true);
    if (!ok) return;
  }
}

int main(int argc, char** argv) {
  if (argc < 5) { std::cerr << "usage: toplex_record outdir seed executions steps" << std::endl; return 2; }
  std::string outdir = argv[1];
  std::uint64_t seed = std::strtoull(argv[2], nullptr, 10);
  int executions = std::atoi(argv[3]), steps = std::atoi(argv[4]);
  g_tnv = NV;
  install_crash_handlers();
  record<EagerModel<TLabelId>>(outdir, seed, executions, steps, true);
  record<LazyModel<TLabelId>>(outdir, seed, executions, steps, true);
  record<EagerModel<TLabelBig>>(outdir, seed, std::max(2, executions / 4), steps, true);
  record<LazyModel<TLabelGap>>(outdir, seed, executions, steps, true);
  record_wide<LazyModel<TLabelId>>(outdir, seed, 2 * executions, 60);
  record_wide<LazyModel<TLabelGap>>(outdir, seed, 2 * executions, 60);
  record_dense<EagerModel<TLabelId>>(outdir, seed);
  if (std::getenv("VF_DENSE_LAZY")) record_dense<LazyModel<TLabelId>>(outdir, seed);   // (a minute of TLC: thorough tier)
  return 0;
}
