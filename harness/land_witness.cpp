// Standalone witnesses of the C18 findings (only GUDHI headers).  Prints one line per finding: "<id> observed|absent".
//   g++ -std=c++17 -I<repo>/src/Persistence_representations/include -I<repo>/src/common/include land_witness.cpp
#include <gudhi/Persistence_landscape.h>
#include <gudhi/Persistence_landscape_on_grid.h>

#include <csignal>
#include <iostream>
#include <sys/wait.h>
#include <unistd.h>

using namespace Gudhi::Persistence_representations;
using Diagram = std::vector<std::pair<double, double>>;
static const double INF = std::numeric_limits<double>::max();  // "for max norm distance"

static void report(const char* id, bool observed, const std::string& detail) {
  std::cout << id << (observed ? " observed: " : " absent: ") << detail << std::endl;
}

int main() {
  {  // C18-grid-value-at-grid-point: lambda_1 of {(0,2)} on the grid 0, 1/2, .., 2 is 0, 1/2, 1, 1/2, 0
    Persistence_landscape_on_grid g(Diagram{{0, 2}}, 0, 2, 4);
    double at = g.compute_value_at_a_given_point(0, 1.0), near = g.compute_value_at_a_given_point(0, 1.001);
    report("C18-grid-value-at-grid-point", at != 1.0,
           "lambda_1(1) = " + std::to_string(at) + " (expected 1), lambda_1(1.001) = " + std::to_string(near));
    // level 1 (there is none) at the grid point 0 where no tent is positive: reads element [1] of an empty vector
    pid_t pid = fork();
    if (pid == 0) { volatile double v = g.compute_value_at_a_given_point(1, 0.0); (void)v; _exit(0); }
    int st = 0;
    waitpid(pid, &st, 0);
    report("C18-grid-value-at-grid-point (level 2, x = 0)", WIFSIGNALED(st), WIFSIGNALED(st) ? "killed by signal " + std::to_string(WTERMSIG(st)) : "returned");
  }
  {  // C18-grid-levels-heap: three nested intervals, two levels kept; at x = 3 the tents are 3, 1, 2
    Persistence_landscape_on_grid g(Diagram{{0, 6}, {2, 4}, {1, 5}}, 0, 6, 12, 2);
    double v = g.vectorize(1)[6];
    report("C18-grid-levels-heap", v != 2.0, "lambda_2(3) = " + std::to_string(v) + " (expected 2)");
  }
  {  // C18-grid-integral-p-flat: |lambda(0,4) - lambda(1,5)| equals 1 on [1,2] and on [3,4]; squared L2 distance 3
    Persistence_landscape_on_grid a(Diagram{{0, 4}}, 0, 5, 10), b(Diagram{{1, 5}}, 0, 5, 10);
    double d = a.distance(b, 2);
    report("C18-grid-integral-p-flat", std::fabs(d * d - 3.0) > 1e-9, "distance(.,2)^2 = " + std::to_string(d * d) + " (expected 3)");
  }
  {  // C18-sup-distance-extra-levels: sup |0 - lambda(0,4)| = 2
    Persistence_landscape zero, a(Diagram{{0, 4}});
    Persistence_landscape n = zero - a;
    double d = n.distance(zero, INF);
    Persistence_landscape_on_grid gz(Diagram{}, 0, 4, 8), ga(Diagram{{0, 4}}, 0, 4, 8);
    Persistence_landscape_on_grid gn = gz - ga;
    double e = gn.distance(gz, INF);
    report("C18-sup-distance-extra-levels", d != 2.0 || e != 2.0,
           "exact: " + std::to_string(d) + ", on grid: " + std::to_string(e) + " (expected 2)");
  }
  {  // C18-grid-sup-distance-integer-abs: sup |lambda/2 - lambda| = 1/2 for lambda = lambda(0,2)
    Persistence_landscape_on_grid a(Diagram{{0, 2}}, 0, 2, 4);
    Persistence_landscape_on_grid h = 0.5 * a;
    double d = h.distance(a, INF);
    report("C18-grid-sup-distance-integer-abs", d != 0.5, "sup distance = " + std::to_string(d) + " (expected 0.5)");
  }
  return 0;
}
