// Code -> spec for C14: drives the real line / rectangle routines with random inputs with many ties and records
// input + everything the callbacks received as NDJSON events for Trace_LowerStar.tla.
//   usage: lstar_record out.ndjson seed nevents [main|thin]
// main: sequences of length 0..40, rectangles with 3..7 rows and columns (at most 42 squares);
// thin: rectangles with exactly 2 rows or 2 columns (legal input; kept apart because of a known finding).
#include "lstar_common.hpp"

using namespace lstar;
typedef std::mt19937_64 Rng;
static int rnd(Rng& g, int lo, int hi) { return lo + static_cast<int>(g() % static_cast<std::uint64_t>(hi - lo + 1)); }

static std::vector<int> random_values(Rng& g, int n) {
  static const int spans[] = {2, 2, 3, 3, 4, 6, 9, 17, 60};
  const int k = spans[rnd(g, 0, 8)];
  const int lo = rnd(g, -8, 2);
  std::vector<int> v(n);
  const int style = rnd(g, 0, 3);
  if (style == 0 && n > 0) {  // random walk with plateaus
    int x = rnd(g, 0, k - 1);
    for (int i = 0; i < n; ++i) { x = std::max(0, std::min(k - 1, x + rnd(g, -1, 1))); v[i] = lo + x; }
  } else {
    for (int i = 0; i < n; ++i) v[i] = lo + rnd(g, 0, k - 1);
  }
  return v;
}

static void ev_line(Rng& g, vf::Trace& tr) {
  const int n = rnd(g, 0, 9) == 0 ? rnd(g, 0, 3) : rnd(g, 0, 40);
  std::vector<int> vals = random_values(g, n);
  const int which = rnd(g, 0, 5);
  bj::object e{{"vals", vf::jarr(vals)}};
  Run r;
  if (which == 0) {  // std::greater on the values themselves: persistence of the superlevel sets
    namespace pc = Gudhi::persistent_cohomology;
    std::vector<double> in(vals.begin(), vals.end());
    try {
      pc::compute_persistence_of_function_on_line(
          in, [&](double b, double d) { r.out0.emplace_back(back(b, 1, 0, r, "birth"), back(d, 1, 0, r, "death")); }, std::greater<>());
    } catch (const std::exception& ex) { r.exception = ex.what(); }
    e["op"] = "line"; e["cmp"] = "greater"; e["variant"] = "greater";
  } else if (which == 1) {
    r = run_line("tagged", vals);
    e["op"] = "line_tagged"; e["variant"] = "tagged"; e["idx"] = jpairs(r.out1);
  } else {
    static const char* vs[] = {"vec_double", "vec_float_affine", "fwdlist_longdouble", "transform_range"};
    const std::string variant = vs[which - 2];
    r = run_line(variant, vals);
    e["op"] = "line"; e["cmp"] = "less"; e["variant"] = variant;
  }
  e["out"] = jpairs(r.out0);
  if (!r.exception.empty()) e["exception"] = r.exception;
  if (!r.problems.empty()) e["problems"] = vf::jarr(r.problems);
  tr.emit(e);
}

static void ev_rect(Rng& g, vf::Trace& tr, bool thin) {
  int rows, cols;
  if (thin) {
    rows = 2; cols = rnd(g, 2, 9);
    if (rnd(g, 0, 1)) std::swap(rows, cols);
  } else {
    do { rows = rnd(g, 3, 7); cols = rnd(g, 3, 7); } while (rows * cols > 42);
  }
  std::vector<int> vals = random_values(g, rows * cols);
  const auto& vs = rect_variants();
  const std::string variant = vs[rnd(g, 0, static_cast<int>(vs.size()) - 1)];
  Run r = run_rect(variant, rows, cols, vals);
  bj::object e{{"op", is_index_variant(variant) ? "rect_idx" : "rect"}, {"variant", variant}, {"rows", rows}, {"cols", cols},
               {"vals", vf::jarr(vals)}, {"out0", jpairs(r.out0)}, {"out1", jpairs(r.out1)}, {"ret", r.ret}};
  if (!r.exception.empty()) e["exception"] = r.exception;
  if (!r.problems.empty()) e["problems"] = vf::jarr(r.problems);
  tr.emit(e);
}

int main(int argc, char** argv) {
  if (argc < 4) { std::cerr << "usage: lstar_record out.ndjson seed nevents [main|thin]" << std::endl; return 2; }
  const bool thin = argc >= 5 && std::string(argv[4]) == "thin";
  Rng g(std::strtoull(argv[2], nullptr, 10));
  const long n = std::atol(argv[3]);
  vf::Trace tr(argv[1]);
  vf::crash_ctx().out = tr.f;
  vf::install_crash_handlers();
  for (long k = 0; k < n; ++k) {
    vf::crash_ctx().where = "lstar_record event " + std::to_string(k);
    if (thin || rnd(g, 0, 2) > 0) ev_rect(g, tr, thin); else ev_line(g, tr);
  }
  std::printf("{\"events\":%ld}\n", tr.n);
  return 0;
}
