// C03 traces: (1) filtration order of larger complexes with many ties, sorted by the library under several TBB thread
// counts (compiled with and without GUDHI_USE_TBB), one "load" event per sort; (2) extend_filtration / decode on
// random complexes with vertex values on a lattice where everything is exact.  usage: st_order outdir seed n_order n_ext
#include "st_model.hpp"
#ifdef GUDHI_USE_TBB
#include <tbb/global_control.h>
#endif

using namespace vf;

template <class O>
void order_runs(Trace& tr, std::mt19937_64& rng, int runs, const char* oname) {
  using ST = Gudhi::Simplex_tree<O>;
  for (int r = 0; r < runs; ++r) {
    ST st;
    int nv = 9 + static_cast<int>(rng() % 4);
    int nvals = 2 + static_cast<int>(rng() % 2);
    // random maximal simplices, then monotone values with many ties (values 0..nvals-1, sometimes +inf on top cells)
    for (int k = 0; k < 14; ++k) {
      std::vector<int> s;
      int sz = 2 + static_cast<int>(rng() % 4);
      while (static_cast<int>(s.size()) < sz) { int v = static_cast<int>(rng() % nv); if (std::find(s.begin(), s.end(), v) == s.end()) s.push_back(v); }
      st.insert_simplex_and_subfaces(s, 0.);
    }
    for (auto sh : st.complex_simplex_range()) st.assign_filtration(sh, static_cast<double>(rng() % nvals));
    st.make_filtration_non_decreasing();
    bj::array k;
    for (auto sh : st.complex_simplex_range()) {
      std::vector<int> s;
      for (auto v : st.simplex_vertex_range(sh)) s.push_back(v);
      std::sort(s.begin(), s.end());
      k.push_back(bj::object{{"s", jarr(s)}, {"f", fv(static_cast<double>(st.filtration(sh)))}});
    }
    std::vector<int> threads = {1};
#ifdef GUDHI_USE_TBB
    threads = {1, 2, 4, 16};
#endif
    for (int t : threads) {
#ifdef GUDHI_USE_TBB
      tbb::global_control gc(tbb::global_control::max_allowed_parallelism, t);
#endif
      for (int rep = 0; rep < 2; ++rep) {
        st.initialize_filtration();
        bj::array fl;
        for (auto sh : st.filtration_simplex_range()) {
          std::vector<int> s;
          for (auto v : st.simplex_vertex_range(sh)) s.push_back(v);
          std::sort(s.begin(), s.end());
          fl.push_back(jarr(s));
        }
        tr.emit(bj::object{{"op", "load"}, {"k", k}, {"filt", fl}, {"threads", t}, {"opt", oname}});
      }
    }
  }
}

template <class O>
void extend_runs(Trace& tr, std::mt19937_64& rng, int runs) {
  using ST = Gudhi::Simplex_tree<O>;
  const int spans[] = {0, 1, 2, 4};
  for (int r = 0; r < runs; ++r) {
    ST st;
    int nv = 3 + static_cast<int>(rng() % 4);
    int span = spans[rng() % 4];
    int base = static_cast<int>(rng() % 5) - 2;
    // the vertex function is handed over multiplied by a power of two in some runs (2^-60, 2^40: exact); the extended
    // filtration, its order and the decoded values (divided back) do not depend on the unit
    const double sc = r % 4 == 2 ? std::ldexp(1.0, -60) : (r % 8 == 5 ? std::ldexp(1.0, 40) : 1.0);
    for (int k = 0; k < 5; ++k) {
      std::vector<int> s;
      int sz = r % 6 == 3 ? 1 : 1 + static_cast<int>(rng() % 3);   // (every 6th run: vertices only)
      while (static_cast<int>(s.size()) < sz) { int v = static_cast<int>(rng() % nv); if (std::find(s.begin(), s.end(), v) == s.end()) s.push_back(v); }
      st.insert_simplex_and_subfaces(s, 0.);
    }
    // vertex values in base..base+span, both extremes attained so that max - min is the span
    std::vector<int> vs;
    for (auto v : st.complex_vertex_range()) vs.push_back(v);
    for (std::size_t i = 0; i < vs.size(); ++i) {
      int val = base + (span == 0 ? 0 : (i == 0 ? 0 : (i == 1 ? span : static_cast<int>(rng() % (span + 1)))));
      st.assign_filtration(st.find({vs[i]}), val * sc);
    }
    if (vs.size() < 2 && span != 0) continue;
    for (auto sh : st.complex_simplex_range()) if (st.dimension(sh) > 0) st.assign_filtration(sh, sc * static_cast<double>(static_cast<int>(rng() % 7) - 3));  // ignored by extend_filtration
    bj::array k0;
    for (auto sh : st.complex_simplex_range()) {
      std::vector<int> s;
      for (auto v : st.simplex_vertex_range(sh)) s.push_back(v);
      std::sort(s.begin(), s.end());
      k0.push_back(bj::object{{"s", jarr(s)}, {"f", fv(static_cast<double>(st.filtration(sh)) / sc)}});
    }
    tr.emit(bj::object{{"op", "load"}, {"k", k0}});
    // every second run the filtration cache is alive when the complex is extended (the range is only walked: the values
    // of the higher simplices are arbitrary here); the order read after the extension must be that of the extended complex
    std::size_t walked = 0;
    if (r % 2 == 1) for (auto sh : st.filtration_simplex_range()) { (void)sh; ++walked; }
    auto efd = st.extend_filtration();
    bj::array k, dec;
    bool exact = true;
    for (auto sh : st.complex_simplex_range()) {
      std::vector<int> s;
      for (auto v : st.simplex_vertex_range(sh)) s.push_back(v);
      std::sort(s.begin(), s.end());
      double f4 = 4.0 * static_cast<double>(st.filtration(sh));
      if (std::floor(f4) != f4) exact = false;
      k.push_back(bj::object{{"s", jarr(s)}, {"f", static_cast<std::int64_t>(f4)}});
      auto d = st.decode_extended_filtration(st.filtration(sh), efd);
      const char* t = d.second == Gudhi::Extended_simplex_type::UP ? "UP" : (d.second == Gudhi::Extended_simplex_type::DOWN ? "DOWN" : "EXTRA");
      double v4 = 4.0 * static_cast<double>(d.first) / sc;
      if (std::string(t) != "EXTRA" && std::floor(v4) != v4) exact = false;
      dec.push_back(bj::object{{"f4", static_cast<std::int64_t>(f4)}, {"v4", std::string(t) == "EXTRA" ? bj::value(0) : bj::value(static_cast<std::int64_t>(v4))}, {"t", t}});
    }
    bj::array fl;
    for (auto sh : st.filtration_simplex_range()) {
      std::vector<int> s;
      for (auto v : st.simplex_vertex_range(sh)) s.push_back(v);
      std::sort(s.begin(), s.end());
      fl.push_back(jarr(s));
    }
    bj::object ev{{"op", "extend"}, {"k", k}, {"min", fv(static_cast<double>(efd.minval) / sc)}, {"max", fv(static_cast<double>(efd.maxval) / sc)}, {"dec", dec},
                  {"filt", fl}, {"ns", static_cast<std::int64_t>(st.num_simplices())}, {"cache_alive", walked > 0}, {"unit_log2", sc == 1.0 ? 0 : (sc < 1 ? -60 : 40)}};
    if (!exact) ev["off_lattice"] = true;   // rejected by the trace specification (no such field is accepted)
    tr.emit(ev);
    tr.emit(bj::object{{"op", "reset"}, {"k", bj::array{}}});
  }
}

int main(int argc, char** argv) {
  if (argc < 5) { std::cerr << "usage: st_order outdir seed n_order n_ext" << std::endl; return 2; }
  std::string outdir = argv[1];
  std::mt19937_64 rng(std::strtoull(argv[2], nullptr, 10) * 1000003ULL + 17);
  int n_order = std::atoi(argv[3]), n_ext = std::atoi(argv[4]);
#ifdef GUDHI_USE_TBB
  const char* tag = "tbb";
#else
  const char* tag = "seq";
#endif
  {
    Trace tr(outdir + "/order_" + tag + "_default.ndjson");
    order_runs<Gudhi::Simplex_tree_options_default>(tr, rng, n_order, "default");
  }
  {
    Trace tr(outdir + "/order_" + tag + "_full.ndjson");
    order_runs<Gudhi::Simplex_tree_options_full_featured>(tr, rng, n_order, "full_featured");
  }
  {
    Trace tr(outdir + "/extend_" + tag + ".ndjson");
    extend_runs<Gudhi::Simplex_tree_options_default>(tr, rng, n_ext);
    extend_runs<StOpt<true, true, false>>(tr, rng, n_ext);
  }
  return 0;
}
