// Binding of specs/Permutahedral.tla to Gudhi::coxeter_triangulation (public API only).
#pragma once
#include "common.hpp"

#include <gudhi/Coxeter_triangulation.h>
#include <gudhi/Freudenthal_triangulation.h>
#include <gudhi/Permutahedral_representation.h>

namespace perm {

using Vertex = std::vector<int>;
using Part = std::vector<std::size_t>;
using Partition = std::vector<Part>;
using Simplex = Gudhi::coxeter_triangulation::Permutahedral_representation<Vertex, Partition>;
using FK = Gudhi::coxeter_triangulation::Freudenthal_triangulation<Simplex>;
using Cox = Gudhi::coxeter_triangulation::Coxeter_triangulation<Simplex>;

// representation with the parts as sorted sets: the order inside a part is not specified
using Rep = std::pair<Vertex, std::vector<std::vector<int>>>;
using VSet = std::set<Vertex>;

inline Simplex make(const bj::value& j) {
  const bj::object& o = j.as_object();
  Vertex v = vf::ints(o.at("v"));
  Partition p;
  for (auto& part : o.at("p").as_array()) {
    Part q;
    for (auto& e : part.as_array()) q.push_back(static_cast<std::size_t>(e.to_number<std::int64_t>()));
    p.push_back(q);
  }
  return Simplex(v, p);
}
inline Rep rep_of_json(const bj::value& j) {
  const bj::object& o = j.as_object();
  Rep r;
  r.first = vf::ints(o.at("v"));
  for (auto& part : o.at("p").as_array()) {
    std::vector<int> q = vf::ints(part);
    std::sort(q.begin(), q.end());
    r.second.push_back(q);
  }
  return r;
}
inline Rep rep_of(const Simplex& s) {
  Rep r;
  r.first = s.vertex();
  for (auto& part : s.partition()) {
    std::vector<int> q(part.begin(), part.end());
    std::sort(q.begin(), q.end());
    r.second.push_back(q);
  }
  return r;
}
inline bj::value jrep(const Rep& r) {
  bj::array p;
  for (auto& q : r.second) p.push_back(vf::jarr(q));
  return bj::object{{"v", vf::jarr(r.first)}, {"p", p}};
}
inline bj::value jsimplex(const Simplex& s) { return jrep(rep_of(s)); }

inline std::vector<Vertex> vertex_list(const Simplex& s) {
  std::vector<Vertex> r;
  for (auto& v : s.vertex_range()) r.push_back(v);
  return r;
}
inline VSet vset_of(const Simplex& s) {
  VSet r;
  for (auto& v : s.vertex_range()) r.insert(v);
  return r;
}
inline VSet vset_of_json(const bj::value& a) {
  VSet r;
  for (auto& v : a.as_array()) r.insert(vf::ints(v));
  return r;
}
inline bj::value jvset(const VSet& s) {
  bj::array a;
  for (auto& v : s) a.push_back(vf::jarr(v));
  return a;
}
inline bj::value jvlist(const std::vector<Vertex>& s) {
  bj::array a;
  for (auto& v : s) a.push_back(vf::jarr(v));
  return a;
}
inline bool subset(const VSet& a, const VSet& b) { return std::includes(b.begin(), b.end(), a.begin(), a.end()); }

// x * 2^q as an exact integer, or abort the run (exit 2): a value that is about to be compared or logged
// on a lattice must be exactly on it
inline std::int64_t scaled_exact(double x, int q, const char* what) {
  double y = std::ldexp(x, q);
  if (!(std::floor(y) == y) || std::fabs(y) > 1e9) {
    std::cerr << "perm harness: value " << x << " (" << what << ") is not on the lattice 2^-" << q << std::endl;
    std::exit(2);
  }
  return static_cast<std::int64_t>(y);
}

// a value computed by the library from dyadic inputs by operations that are exact on them: the nearest lattice
// point when it is within 1e-9 (rounding noise is ~1e-14 here), otherwise `ok` is cleared and the event is logged
// with an "off_lattice" field, which the trace specification rejects (the true value is on the lattice)
inline std::int64_t scaled_near(double x, int q, bool& ok) {
  double y = std::ldexp(x, q);
  double r = std::nearbyint(y);
  if (!(std::fabs(y - r) <= std::ldexp(1e-9, q)) || std::fabs(y) > 1e9) { ok = false; return 0; }
  return static_cast<std::int64_t>(r);
}

}  // namespace perm
