// C12 harness, shared part: presentations of one abstract input of flag_complex_collapse_edges, the NDJSON recorder and
// the seeded input generators.  Nothing here judges the output: that is done by TLC (Trace_EdgeCollapse.tla).
#pragma once
#include <map>
#include "common.hpp"

#include <gudhi/Flag_complex_edge_collapser.h>

#include <boost/range/adaptor/transformed.hpp>

#include <list>
#include <tuple>

namespace collapse_h {

struct E { long u, v, f; };
using Graph = std::vector<E>;

// portable seeded generator (no std:: distributions: their results differ between library versions)
struct Rng {
  std::mt19937_64 g;
  explicit Rng(std::uint64_t s) : g(s) {}
  std::uint64_t below(std::uint64_t n) { return n == 0 ? 0 : g() % n; }
  bool chance(unsigned num, unsigned den) { return below(den) < num; }
  template <class T> void shuffle(std::vector<T>& v) {
    for (std::size_t i = v.size(); i > 1; --i) std::swap(v[i - 1], v[below(i)]);
  }
};

inline long as_long(double x) {
  if (std::isfinite(x) && std::floor(x) == x && std::fabs(x) < 1e5) return static_cast<long>(x);
  return 99999999;  // outside the exactly represented range: the trace specification rejects the line
}

// number of cliques (simplices of the flag complex) of a graph on the vertices 0..n-1, n <= 20
inline long count_cliques(int n, const Graph& g) {
  std::vector<unsigned> adj(n, 0);
  for (auto& e : g) { adj[e.u] |= 1u << e.v; adj[e.v] |= 1u << e.u; }
  long c = 0;
  for (unsigned s = 1; s < (1u << n); ++s) {
    bool ok = true;
    for (int a = 0; a < n && ok; ++a)
      if (s >> a & 1) ok = ((s & ~(1u << a)) & ~adj[a]) == 0;
    c += ok;
  }
  return c;
}

template <class V, class F, class Range>
Graph call(const Range& r) {
  auto res = Gudhi::collapse::flag_complex_collapse_edges(r);
  Graph o;
  for (auto& t : res) o.push_back({static_cast<long>(std::get<0>(t)), static_cast<long>(std::get<1>(t)), as_long(static_cast<double>(std::get<2>(t)))});
  return o;
}

inline bj::array to_json(const Graph& g) {
  bj::array a;
  for (auto& e : g) a.push_back(bj::array{e.u, e.v, e.f});
  return a;
}

struct Recorder {
  std::FILE* out;
  std::string build;
  Rng& rng;
  long calls = 0;

  void emit(const std::string& id, const char* variant, const Graph& in, const Graph& res) {
    bj::object o{{"op", "collapse"}, {"id", id + "/" + variant}, {"build", build}, {"in", to_json(in)}, {"out", to_json(res)}};
    std::fprintf(out, "%s\n", bj::serialize(o).c_str());
    ++calls;
  }
  Graph shuffled(const Graph& g) {
    Graph h = g;
    rng.shuffle(h);
    for (auto& e : h) if (rng.chance(1, 2)) std::swap(e.u, e.v);
    return h;
  }

  void run_all(const std::string& id, const Graph& g, bool all_variants) {
    vf::crash_ctx().where = id;
    {  // as given: vector<tuple<int,int,double>>
      std::vector<std::tuple<int, int, double>> r;
      for (auto& e : g) r.emplace_back(static_cast<int>(e.u), static_cast<int>(e.v), static_cast<double>(e.f));
      emit(id, "plain", g, call<int, double>(r));
    }
    {  // shuffled order and orientation
      Graph h = shuffled(g);
      std::vector<std::tuple<int, int, double>> r;
      for (auto& e : h) r.emplace_back(static_cast<int>(e.u), static_cast<int>(e.v), static_cast<double>(e.f));
      emit(id, "shuffled", h, call<int, double>(r));
    }
    {  // boost transformed range (the form used by the examples and utilities), long + double
      Graph h = shuffled(g);
      auto r = h | boost::adaptors::transformed([](const E& e) { return std::make_tuple(e.u, e.v, static_cast<double>(e.f)); });
      emit(id, "transformed", h, call<long, double>(r));
    }
    {  // unsigned vertex type ("Vertex type must be an integer type")
      Graph h = shuffled(g);
      std::vector<std::tuple<unsigned, unsigned, double>> r;
      for (auto& e : h) r.emplace_back(static_cast<unsigned>(e.u), static_cast<unsigned>(e.v), static_cast<double>(e.f));
      emit(id, "uint", h, call<unsigned, double>(r));
    }
    // unsigned vertex types narrower than int.  Only on inputs whose weights are all equal: there the sweep never looks
    // at a later time, which keeps the known defect C12-unsigned-narrow-vertex (no dominator found is not recognised)
    // inside defined behaviour, so that the rest of the run is still recorded.
    bool one_weight = true;
    long maxlab = 0;
    for (auto& e : g) { one_weight = one_weight && e.f == g[0].f; maxlab = std::max(maxlab, std::max(e.u, e.v)); }
    if (one_weight && maxlab < 250) {
      {
        std::vector<std::tuple<unsigned short, unsigned short, double>> r;
        for (auto& e : g) r.emplace_back(static_cast<unsigned short>(e.u), static_cast<unsigned short>(e.v), static_cast<double>(e.f));
        emit(id, "ushort", g, call<unsigned short, double>(r));
      }
      {
        Graph h = shuffled(g);
        std::vector<std::tuple<unsigned char, unsigned char, float>> r;
        for (auto& e : h) r.emplace_back(static_cast<unsigned char>(e.u), static_cast<unsigned char>(e.v), static_cast<float>(e.f));
        emit(id, "uchar", h, call<unsigned char, float>(r));
      }
    }
    if (all_variants) {  // non-contiguous, non-monotone vertex numbers; values 2f-5 (negative, zero); short + float in a list
      long n = 0;
      for (auto& e : g) n = std::max(n, std::max(e.u, e.v) + 1);
      std::vector<long> lab(3 * n + 3);
      for (std::size_t i = 0; i < lab.size(); ++i) lab[i] = static_cast<long>(i);
      rng.shuffle(lab);
      Graph h = shuffled(g);
      for (auto& e : h) { e.u = lab[e.u]; e.v = lab[e.v]; e.f = 2 * e.f - 5; }
      std::list<std::tuple<short, short, float>> r;
      for (auto& e : h) r.emplace_back(static_cast<short>(e.u), static_cast<short>(e.v), static_cast<float>(e.f));
      emit(id, "relabel", h, call<short, float>(r));
    }
  }
};

// ------------------------------------------------------------------------------------------------------------------
// seeded inputs on 7-9 vertices with many equal weights; the flag complex is kept below `max_cells` simplices (TLC
// computes its persistence) by deleting random edges
inline void trim(Rng& rng, int n, Graph& g, long max_cells) {
  while (count_cliques(n, g) > max_cells) g.erase(g.begin() + rng.below(g.size()));
}

inline Graph random_graph(Rng& rng, long i, std::string& fam, bool big) {
  const long max_cells = big ? 400 : 150;     // big: 9-11 vertices, up to 400 simplices
  Graph g;
  int n = (big ? 9 : 7) + static_cast<int>(rng.below(3));
  int nw = std::vector<int>{1, 2, 3, 5}[rng.below(4)];
  auto w = [&]() { return 1 + static_cast<long>(rng.below(nw)); };
  switch (i % 6) {
    case 0: {  // Erdos-Renyi, density 3/10 .. 9/10
      fam = "er";
      unsigned d = 3 + 2 * static_cast<unsigned>(rng.below(4));
      for (int a = 0; a < n; ++a) for (int b = a + 1; b < n; ++b) if (rng.chance(d, 10)) g.push_back({a, b, w()});
      break;
    }
    case 1: {  // Rips graph of points of a small integer grid: squared distances, many ties
      fam = "rips";
      std::vector<std::pair<long, long>> pts;
      long side = 3 + static_cast<long>(rng.below(2));
      for (int a = 0; a < n; ++a) pts.emplace_back(rng.below(side), rng.below(side));
      long thr = 2 + static_cast<long>(rng.below(9));
      for (int a = 0; a < n; ++a) for (int b = a + 1; b < n; ++b) {
        long dx = pts[a].first - pts[b].first, dy = pts[a].second - pts[b].second, d2 = dx * dx + dy * dy;
        if (d2 <= thr) g.push_back({a, b, d2});
      }
      break;
    }
    case 2: {  // cross-polytope (sphere of dimension k-1) on 2k vertices, then some of the antipodal pairs at later times
      fam = "cross";
      int k = 3 + static_cast<int>(rng.below(big ? 3 : 2));
      n = 2 * k;
      for (int a = 0; a < n; ++a) for (int b = a + 1; b < n; ++b) if (b != a + k) g.push_back({a, b, w()});
      for (int a = 0; a < k; ++a) if (rng.chance(1, 2)) g.push_back({a, a + k, nw + 1 + static_cast<long>(rng.below(2))});
      if (rng.chance(1, 2)) {  // a cone point appearing late
        for (int a = 0; a < n; ++a) if (rng.chance(3, 4)) g.push_back({a, n, nw + 1 + static_cast<long>(rng.below(3))});
        ++n;
      }
      break;
    }
    case 3: {  // cycle with chords appearing later, optionally a hub (wheel)
      fam = "cycle";
      for (int a = 0; a < n - 1; ++a) g.push_back({a, (a + 1) % (n - 1), w()});
      for (int a = 0; a < n - 1; ++a) for (int b = a + 2; b < n - 1; ++b)
        if (!(a == 0 && b == n - 2) && rng.chance(1, 3)) g.push_back({a, b, w() + static_cast<long>(rng.below(3))});
      for (int a = 0; a < n - 1; ++a) if (rng.chance(2, 3)) g.push_back({a, n - 1, w() + static_cast<long>(rng.below(2))});
      break;
    }
    case 4: {  // complete graph on 7 vertices (127 simplices), 1-3 distinct weights
      fam = "complete";
      n = big ? 8 : 7;
      nw = 1 + static_cast<int>(rng.below(3));
      for (int a = 0; a < n; ++a) for (int b = a + 1; b < n; ++b) g.push_back({a, b, w()});
      break;
    }
    default: {  // dense graph minus a random matching / a few edges
      fam = "dense";
      for (int a = 0; a < n; ++a) for (int b = a + 1; b < n; ++b) if (!rng.chance(1, 6)) g.push_back({a, b, w()});
      break;
    }
  }
  trim(rng, n, g, max_cells);
  if (g.empty()) g.push_back({0, 1, 1});
  return g;
}

// large sparse input: disjoint blobs (random graphs on 4-5 vertices, few weights) joined in a ring by bridges; more than
// 500 edges in total so that tbb::parallel_sort leaves its serial cut-off, yet about 1200 simplices
inline Graph sparse_graph(Rng& rng, long) {
  Graph g;
  long base = 0;
  std::vector<long> firsts;
  while (g.size() < 520) {
    int n = 4 + static_cast<int>(rng.below(2));
    firsts.push_back(base);
    for (int a = 0; a < n; ++a) for (int b = a + 1; b < n; ++b)
      if (rng.chance(4, 5)) g.push_back({base + a, base + b, 1 + static_cast<long>(rng.below(3))});
    base += n;
  }
  for (std::size_t i = 0; i + 1 < firsts.size(); ++i) g.push_back({firsts[i], firsts[i + 1] + 1, 1 + static_cast<long>(rng.below(4))});
  return g;
}

// A hub: one vertex adjacent to 32 or more of the 36-47 others, in an otherwise sparse graph of squares with a later
// diagonal whose corners are partly neighbours of the hub.  Closed neighbourhoods of very different sizes meet in the
// domination tests (the hub as candidate dominator of an edge between two low-degree vertices); the other families
// have at most a dozen vertices or degree at most 6.
inline Graph hub_graph(Rng& rng, long) {
  std::map<std::pair<long, long>, long> E;
  const long N = 36 + static_cast<long>(rng.below(12));
  const long hub = static_cast<long>(rng.below(static_cast<unsigned>(N)));
  auto add = [&](long a, long b, long w) { if (a != b) E.emplace(std::make_pair(std::min(a, b), std::max(a, b)), w); };
  for (long u = 0; u < N; ++u) if (u != hub && !rng.chance(1, 12)) add(hub, u, 1 + static_cast<long>(rng.below(3)));
  auto other = [&]() { long v; do { v = static_cast<long>(rng.below(static_cast<unsigned>(N))); } while (v == hub); return v; };
  for (int k = 0; k < 10; ++k) {
    long a = other(), b = other(), c = other(), d = other();
    if (a == b || a == c || a == d || b == c || b == d || c == d) continue;
    long w = 1 + static_cast<long>(rng.below(2));
    add(a, b, w); add(b, c, w); add(c, d, w + static_cast<long>(rng.below(2))); add(d, a, w);
    add(a, c, w + 1 + static_cast<long>(rng.below(2)));
  }
  Graph g;
  for (auto& e : E) g.push_back({e.first.first, e.first.second, e.second});
  return g;
}

}  // namespace collapse_h
