// Binding of PersistenceMatrix.tla to Gudhi::persistence_matrix::Matrix (boundary / RU / chain flavours).
// The model keeps its own record of the inserted boundaries (the input, not an oracle) and checks the
// defining identities of the exposed matrices against it; the barcode is compared with the specification.
#pragma once
#include "common.hpp"

#include <gudhi/Matrix.h>
#include <gudhi/persistence_matrix_options.h>

namespace vf {

using Gudhi::persistence_matrix::Column_indexation_types;
using Gudhi::persistence_matrix::Column_types;

enum { FL_BOUNDARY = 0, FL_RU = 1, FL_CHAIN = 2 };

template <int FL, bool Z2, Column_types CT, Column_indexation_types IDX, bool Vine, bool Rep, bool Barcode, int RowAccess,
          bool RemRows, bool MapCols>
struct PmOpt {
  using Field_coeff_operators = Gudhi::persistence_fields::Zp_field_operators<>;
  using Dimension = int;
  using Index = unsigned int;
  static const bool is_z2 = Z2;
  static const Column_types column_type = CT;
  static const Column_indexation_types column_indexation_type = IDX;
  static const bool has_column_compression = false;
  static const bool has_column_and_row_swaps = false;
  static const bool has_map_column_container = MapCols;
  static const bool has_removable_columns = (FL == FL_CHAIN) ? MapCols : true;
  static const bool has_row_access = RowAccess > 0;
  static const bool has_intrusive_rows = RowAccess == 1;
  static const bool has_removable_rows = RemRows;
  static const bool is_of_boundary_type = FL != FL_CHAIN;
  static const bool has_matrix_maximal_dimension_access = true;
  static const bool has_column_pairings = Barcode;
  static const bool has_vine_update = Vine;
  static const bool can_retrieve_representative_cycles = Rep;
  static const int flavour = FL;
};

inline int g_p = 2;          // characteristic of the model
inline bool g_log_matrices = false;
inline bool g_log_reps = false;      // VF_LOGREPS: also log the representative cycles (free-running histories of C08)

struct IdSeq {  // ids = 0,1,2,... (as if inserted without explicit ids)
  static unsigned id(unsigned k) { return k; }
  static const char* name() { return "seq"; }
};
struct IdPos {  // id = position at insertion time (identifiers reused after removals); boundary-type matrices only
  static unsigned id(unsigned) { return 0; }
  static const char* name() { return "pos"; }
};
struct IdMix {  // increasing along the filtration, irregular gaps, and identifiers of removed cells come back at other positions
  static unsigned id(unsigned) { return 0; }
  static const char* name() { return "mix"; }
};
struct IdGap {  // strictly increasing ids with gaps, not starting at 0
  static unsigned id(unsigned k) { return 3 * k + 2; }
  static const char* name() { return "gap"; }
};

// sparse vector over Z_p keyed by position
using SparseVec = std::map<int, int>;
inline void sv_add(SparseVec& a, const SparseVec& b, int k, int p) {
  for (auto& e : b) {
    int v = ((a.count(e.first) ? a[e.first] : 0) + k * e.second) % p;
    if (v == 0) a.erase(e.first); else a[e.first] = v;
  }
}

template <class Opt, class Ids>
struct PmModel {
  using M = Gudhi::persistence_matrix::Matrix<Opt>;
  static constexpr bool is_chain = Opt::flavour == FL_CHAIN;
  static constexpr bool is_ru = Opt::flavour == FL_RU;
  static constexpr bool is_boundary = Opt::flavour == FL_BOUNDARY;
  static constexpr bool pos_indexed = !is_chain ? Opt::column_indexation_type != Column_indexation_types::IDENTIFIER
                                                : Opt::column_indexation_type == Column_indexation_types::POSITION;
  static constexpr bool id_indexed = Opt::column_indexation_type == Column_indexation_types::IDENTIFIER;
  // Matrix.h: remove_maximal_cell needs vine updates and removable columns; chain matrices also a map container and,
  // for the one-argument form (the only one the position overlay offers), the stored barcode
  static constexpr bool can_remove_maximal =
      Opt::has_vine_update && Opt::has_removable_columns &&
      (!is_chain || (Opt::has_map_column_container && (Opt::has_column_pairings || !pos_indexed)));
  struct Cell { unsigned uid; unsigned id; int dim; std::vector<std::pair<unsigned, int>> bd; };  // bd in uids (harness-internal, never reused)
  unsigned next_uid = 0;
  int pos_of_uid(unsigned uid) const {
    for (std::size_t i = 0; i < cells.size(); ++i) if (cells[i].uid == uid) return static_cast<int>(i);
    return -1;
  }
  std::unique_ptr<M> m;
  std::vector<Cell> cells;   // in current filtration order
  // Row labels.  Chain matrices label rows by the cell's IDIdx, which follows the cell.  Boundary-type matrices
  // with vine updates exchange the two rows together with the two columns, so a row label stays attached to its
  // POSITION ("updated IDIdx indices which got potentially swapped by a vine swap", Matrix.h): the label of the
  // row of the cell now at position p is the identifier given to the p-th inserted cell still present.
  std::vector<unsigned> rowids;
  unsigned row_label(int pos) const { return is_chain ? cells[pos].id : rowids[pos]; }
  int pos_of_row(unsigned r) const {
    if (is_chain) return pos_of_id(r);
    for (std::size_t i = 0; i < rowids.size(); ++i) if (rowids[i] == r) return static_cast<int>(i);
    return -1;
  }
  unsigned next = 0;         // fresh id counter (never reused)
  bool final_ = true;
  bool barcode_read = false;
  long nobs_ = 0;
  bool moved_from = false;   // lcm_replay: the real matrix was the source of a move
  static std::string& cfgname() { static std::string n; return n; }
  static const char* name() { return cfgname().c_str(); }

  PmModel() {
    if constexpr (is_chain && Opt::has_vine_update && !Opt::has_column_pairings) {
      // barcode-less chain matrix with vine swaps: comparators as the zigzag module supplies them are not available
      // here; positions are compared directly (birth/death comparators on positions)
      m.reset(new M([](unsigned a, unsigned b) { return a < b; }, [](unsigned a, unsigned b) { return a < b; }));
    } else {
      m.reset(new M());
    }
    if constexpr (!Opt::is_z2) m->set_characteristic(g_p);
  }
  void set_final(bool f) { final_ = f; }
  const bj::object* expected_ = nullptr;
  void set_expected(const bj::object& o) { expected_ = &o; }
  bool applicable(const bj::object& act) const {
    std::string op(act.at("op").as_string());
    if (op == "vine_swap") return Opt::has_vine_update;
    if (op == "remove_maximal") return can_remove_maximal;
    if (op == "remove_last") return Opt::has_removable_columns && (!is_chain || Opt::has_map_column_container || !Opt::has_vine_update);
    return true;
  }
  bool state_ok(const bj::object&) const { return true; }
  void mask(bj::object& o) const {
    o.erase("reps_set");  // constrained by membership (observe), not by equality
    if (is_boundary && !final_) { o.erase("bars_set"); o.erase("dims"); }
    if (!Opt::has_column_pairings) o.erase("bars_set");
  }

  int pos_of_id(unsigned id) const {
    for (std::size_t i = 0; i < cells.size(); ++i) if (cells[i].id == id) return static_cast<int>(i);
    return -1;
  }
  // index under which the public API addresses the column of the cell at position pos
  unsigned col_index(int pos) {
    if constexpr (id_indexed) return cells[pos].id;
    else if constexpr (pos_indexed) return static_cast<unsigned>(pos);
    else return m->get_column_with_pivot(cells[pos].id);  // chain, container indexing
  }

  bj::object apply(const bj::object& act) {
    std::string op(act.at("op").as_string());
    bj::object out;
    if (op == "insert") {
      if constexpr (is_ru && Opt::has_vine_update && id_indexed) {
        // identifier-indexed RU matrix with vine updates: identifiers follow the cells while row labels stay with
        // the positions, and a new identifier must be both fresh and equal to its position; once a cell in the
        // middle was removed no such identifier exists any more
        for (std::size_t i = 0; i < cells.size(); ++i) if (cells[i].id >= cells.size()) { out["inapplicable"] = true; return out; }
      }
      if constexpr (is_chain && Opt::has_vine_update) {
        // documented precondition of insert_boundary: "all IDs have to be strictly increasing in the order of filtration".
        // Identifiers of a chain matrix follow their cells, so after a vine swap the cells present are no longer in
        // increasing identifier order and no further insertion is legal until they are again.
        for (std::size_t i = 1; i < cells.size(); ++i) if (cells[i - 1].id >= cells[i].id) { out["inapplicable"] = true; return out; }
      }
      Cell c;
      c.uid = next_uid++;
      if constexpr (std::is_same_v<Ids, IdPos>) { c.id = static_cast<unsigned>(cells.size()); ++next; }
      else if constexpr (std::is_same_v<Ids, IdMix>) {
        unsigned maxlive = 0;
        for (auto& x : cells) maxlive = std::max(maxlive, x.id);
        c.id = cells.empty() ? (next % 3) : maxlive + 1 + ((next * 7 + 3) % 4);   // only larger than the live identifiers
        ++next;
      }
      else c.id = Ids::id(next++);
      c.dim = static_cast<int>(act.at("d").to_number<std::int64_t>());
      std::vector<std::pair<unsigned, int>> arg;  // (row label, coefficient), increasing labels
      for (auto& e : act.at("bd_set").as_array()) {
        int fp = static_cast<int>(e.as_object().at("x").to_number<std::int64_t>());
        int co = static_cast<int>(e.as_object().at("c").to_number<std::int64_t>());
        c.bd.emplace_back(cells[fp].uid, co);
        arg.emplace_back(row_label(fp), co);
      }
      std::sort(c.bd.begin(), c.bd.end());
      std::sort(arg.begin(), arg.end());
      if constexpr (Opt::is_z2) {
        std::vector<unsigned> b;
        for (auto& e : arg) b.push_back(e.first);
        m->insert_boundary(c.id, b, c.dim);
      } else {
        std::vector<std::pair<unsigned, unsigned>> b;
        for (auto& e : arg) b.emplace_back(e.first, static_cast<unsigned>(e.second));
        m->insert_boundary(c.id, b, c.dim);
      }
      rowids.push_back(c.id);
      cells.push_back(c);
    } else if (op == "remove_last") {
      if constexpr (Opt::has_removable_columns && (!is_chain || Opt::has_map_column_container || !Opt::has_vine_update)) {
        m->remove_last();
        cells.pop_back();
        rowids.pop_back();
      }
    } else if (op == "vine_swap") {
      if constexpr (Opt::has_vine_update) {
        int i = static_cast<int>(act.at("i").to_number<std::int64_t>());
        bool okret = false;
        const bj::array& rs = act.at("ret_set").as_array();
        if constexpr (!is_chain ? !id_indexed : pos_indexed) {
          bool r = m->vine_swap(static_cast<unsigned>(i));
          for (auto& v : rs) if (v.as_bool() == r) okret = true;
          out["ret"] = r;
        } else {
          unsigned c1 = col_index(i), c2 = col_index(i + 1);
          unsigned r = m->vine_swap(c1, c2);
          // the returned MatIdx must be one of the two columns; which one depends on kept/exchanged
          // the returned index designates the column now at the later position: it must be one of the two columns
          // and, read back through get_pivot, the cell the specification puts at position i+1 (the former cell i)
          okret = (r == c1 || r == c2);
          if constexpr (!id_indexed) { if (okret && m->get_pivot(r) != cells[i].id) okret = false; }
          out["retcol"] = static_cast<std::int64_t>(r == c1 ? 1 : (r == c2 ? 2 : 0));
        }
        out["ret_ok"] = okret;
        std::swap(cells[i], cells[i + 1]);
      }
    } else if (op == "remove_maximal") {
      int i = static_cast<int>(act.at("i").to_number<std::int64_t>());
      if constexpr (can_remove_maximal) {
        if constexpr (!is_chain) {
          m->remove_maximal_cell(col_index(i));                      // boundary type: MatIdx
        } else if constexpr (pos_indexed) {
          m->remove_maximal_cell(static_cast<unsigned>(i));          // position overlay: PosIdx
        } else {
          // chain, container or identifier indexing: the documented argument is the IDIdx of the cell;
          // both documented entry points are exercised
          std::vector<unsigned> after;
          for (std::size_t k = i + 1; k < cells.size(); ++k) after.push_back(cells[k].id);
          if constexpr (Opt::has_column_pairings) {
            if (i % 2 == 0) m->remove_maximal_cell(cells[i].id, after); else m->remove_maximal_cell(cells[i].id);
          } else {
            m->remove_maximal_cell(cells[i].id, after);
          }
        }
        cells.erase(cells.begin() + i);
        rowids.pop_back();
      }
    } else {
      out["exception"] = "unknown op " + op;
    }
    return out;
  }

  // column of the real matrix as a sparse vector keyed by POSITION of the row's cell
  template <class Col>
  SparseVec read_col(const Col& col, std::vector<std::string>& failed, bool rows_are_ids = true) {
    // through get_content (the normalized view, also for lazy heap / vector columns) ...
    SparseVec v;
    auto content = col.get_content();
    for (std::size_t r0 = 0; r0 < content.size(); ++r0) {
      int val = static_cast<int>(content[r0]);
      if (val == 0) continue;
      int r = rows_are_ids ? pos_of_row(static_cast<unsigned>(r0)) : static_cast<int>(r0);
      if (r < 0) { failed.push_back("column has an entry in a row that is no live cell"); continue; }
      if (val % g_p == 0 || val < 0 || val >= g_p) { failed.push_back("column stores a non-reduced coefficient"); continue; }
      v[r] = val;
    }
    // ... and through iteration over the entries, which must agree except for the lazily cleaned heap columns
    if constexpr (Opt::column_type != Column_types::HEAP && Opt::column_type != Column_types::VECTOR) {  // both clean lazily
      SparseVec w;
      for (auto& e : col) {
        int r = rows_are_ids ? pos_of_row(e.get_row_index()) : static_cast<int>(e.get_row_index());
        int val = 1;
        if constexpr (!Opt::is_z2) val = static_cast<int>(e.get_element());
        if (w.count(r)) failed.push_back("column lists a row twice");
        w[r] = val;
      }
      if (w != v) failed.push_back("iteration over a column disagrees with get_content");
    }
    if (const_cast<Col&>(col).is_empty() != v.empty()) failed.push_back("is_empty disagrees with the column content");
    return v;
  }
  // Vine-enabled boundary-type matrices apply row swaps lazily: the raw row indices stored in a column may be
  // stale, the public is_zero_entry translates them.  (Z2 only, so a non-zero entry is 1.)
  SparseVec read_R_by_entries(unsigned ci) {
    SparseVec v;
    for (int r = 0; r < static_cast<int>(rowids.size()); ++r) if (!m->is_zero_entry(ci, rowids[r])) v[r] = 1;
    return v;
  }
  SparseVec read_U_by_entries(unsigned ci) {
    SparseVec v;
    if constexpr (is_ru && pos_indexed)
      for (int r = 0; r < static_cast<int>(cells.size()); ++r) if (!m->is_zero_entry(ci, static_cast<unsigned>(r), false)) v[r] = 1;
    return v;
  }
  SparseVec boundary_of(int pos) const {
    SparseVec v;
    for (auto& e : cells[pos].bd) v[pos_of_uid(e.first)] = e.second;
    return v;
  }
  SparseVec boundary_of_chain(const SparseVec& c) const {
    SparseVec r;
    for (auto& e : c) sv_add(r, boundary_of(e.first), e.second, g_p);
    return r;
  }
  // Column `col` of the factor U (B = R.U) of the standard left-to-right reduction of the current filtration over Z2:
  // the cell itself and the columns used to reduce it.  Only used to recognise the exact wrong value of the known
  // finding C08-ru-z2-column-of-u (RU_representative_cycles returns this instead of the column of U^-1).
  std::vector<int> column_of_U(int col) const {
    int n = static_cast<int>(cells.size());
    std::vector<SparseVec> R(n);
    std::map<int, int> piv;
    std::vector<int> used;
    for (int j = 0; j < n; ++j) {
      SparseVec c = boundary_of(j);
      std::vector<int> src;
      while (!c.empty() && piv.count(c.rbegin()->first)) { int s = piv[c.rbegin()->first]; sv_add(c, R[s], 1, 2); src.push_back(s); }
      R[j] = c;
      if (!c.empty()) piv[c.rbegin()->first] = j;
      if (j == col) used = src;
    }
    used.push_back(col);
    std::sort(used.begin(), used.end());
    return used;
  }
  static bj::array sv_json(const SparseVec& v) {
    bj::array a;
    for (auto& e : v) a.push_back(bj::object{{"x", e.first}, {"c", e.second}});
    return a;
  }

  bj::object observe() {
    bj::object o;
    std::vector<std::string> failed;
    int n = static_cast<int>(cells.size());
    o["n"] = static_cast<std::int64_t>(m->get_number_of_columns());
    if (is_boundary && !final_) { o["checks_failed"] = bj::array{}; return o; }
    // barcode
    std::map<int, int> death_of, birth_of;  // positions
    std::set<int> essential;
    if constexpr (Opt::has_column_pairings) {
      bj::array bars;
      for (auto& b : m->get_current_barcode()) {
        int birth = static_cast<int>(b.birth);
        int death = (b.death == static_cast<decltype(b.death)>(-1)) ? -1 : static_cast<int>(b.death);
        bars.push_back(bj::object{{"dim", b.dim}, {"birth", birth}, {"death", death}});
        if (death >= 0) { death_of[birth] = death; birth_of[death] = birth; } else essential.insert(birth);
      }
      o["bars_set"] = bars;
      barcode_read = true;
    }
    bj::array dims;
    for (int i = 0; i < n; ++i) dims.push_back(m->get_column_dimension(col_index(i)));
    o["dims"] = dims;
    bj::array Rj, Uj;
    if constexpr (!is_chain) {
      // R reduced, pivots, pivot -> column
      std::map<int, int> piv_to_col;
      for (int i = 0; i < n; ++i) {
        unsigned ci = col_index(i);
        SparseVec R;
        if constexpr (Opt::has_vine_update) R = read_R_by_entries(ci); else R = read_col(m->get_column(ci), failed);
        if (g_log_matrices) Rj.push_back(sv_json(R));
        int low = R.empty() ? -1 : R.rbegin()->first;
        if (low >= 0) {
          if (piv_to_col.count(low)) failed.push_back("R is not reduced: two columns share their lowest row");
          piv_to_col[low] = i;
        }
        if (m->is_zero_column(ci) != R.empty()) failed.push_back("is_zero_column disagrees with the column content");
        auto pv = m->get_pivot(ci);
        int pvpos = (pv == static_cast<decltype(pv)>(-1)) ? -1 : pos_of_row(pv);
        if (pvpos != low) failed.push_back("get_pivot is not the lowest row of the column");
        if constexpr (is_ru) {
          if (low >= 0) {
            try {
              unsigned back = m->get_column_with_pivot(pv);
              if (back != ci) failed.push_back("get_column_with_pivot(get_pivot(c)) != c");
            } catch (const std::exception& e) { failed.push_back(std::string("get_column_with_pivot throws: ") + e.what()); }
          }
        }
        if constexpr (Opt::has_column_pairings) {
          if (low >= 0 && (!birth_of.count(i) || birth_of[i] != low)) failed.push_back("barcode does not pair a column with its pivot");
          if (low < 0 && birth_of.count(i)) failed.push_back("barcode pairs a zero column as a death");
        }
      }
      if constexpr (is_ru && pos_indexed) {
        // exposed factor M: Z2: B = R . M^T ; Zp: R = B . M   (RU_matrix.h, _reduce_column_by)
        std::vector<SparseVec> Rs, Ms;
        for (int i = 0; i < n; ++i) {
          if constexpr (Opt::has_vine_update) {
            Rs.push_back(read_R_by_entries(col_index(i)));
            Ms.push_back(read_U_by_entries(col_index(i)));
            // the rows are permuted lazily, so the entries are probed row by row; an entry left behind in a row that is
            // no live cell any more (a removed cell) shows as a column that stores more entries than the probes found
            if constexpr (Opt::column_type != Column_types::HEAP && Opt::column_type != Column_types::VECTOR) {
              std::size_t nr = 0, nu = 0;
              for (auto& e : m->get_column(col_index(i), true)) { (void)e; ++nr; }
              for (auto& e : m->get_column(col_index(i), false)) { (void)e; ++nu; }
              if (nr != Rs.back().size()) failed.push_back("a column of R stores an entry outside the live rows");
              if (nu != Ms.back().size()) failed.push_back("a column of U stores an entry outside the live rows");
            }
          }
          else { Rs.push_back(read_col(m->get_column(col_index(i), true), failed)); Ms.push_back(read_col(m->get_column(col_index(i), false), failed, false)); }
        }
        for (int i = 0; i < n; ++i) {
          if (g_log_matrices) Uj.push_back(sv_json(Ms[i]));
          if (!Ms[i].count(i)) failed.push_back("U has a zero diagonal entry");
          for (auto& e : Ms[i]) if (Opt::is_z2 ? e.first < i : e.first > i) failed.push_back("U is not triangular");
        }
        for (int j = 0; j < n; ++j) {
          SparseVec lhs, rhs;
          if constexpr (Opt::is_z2) {
            for (int i = 0; i < n; ++i) if (Ms[i].count(j)) sv_add(lhs, Rs[i], 1, g_p);
            rhs = boundary_of(j);
          } else {
            for (auto& e : Ms[j]) sv_add(lhs, boundary_of(e.first), e.second, g_p);
            rhs = Rs[j];
          }
          if (lhs != rhs) { failed.push_back("R and U do not factor the boundary matrix"); break; }
        }
      }
    } else {
      // chain columns
      std::set<int> leaders;
      std::vector<SparseVec> cols(n);
      for (int i = 0; i < n; ++i) {
        unsigned ci = col_index(i);
        cols[i] = read_col(m->get_column(ci), failed);
        if (g_log_matrices) Rj.push_back(sv_json(cols[i]));
        auto pv = m->get_pivot(ci);
        int pvpos = pos_of_id(pv);
        if (pvpos != i) failed.push_back("get_pivot of the column of a cell is not that cell");
        if (!cols[i].count(i)) failed.push_back("chain column does not contain its leading cell");
        leaders.insert(pvpos);
        for (auto& e : cols[i]) if (cells[e.first].dim != cells[i].dim) failed.push_back("chain column mixes dimensions");
      }
      if (static_cast<int>(leaders.size()) != n) failed.push_back("leading cells of the chain columns are not pairwise distinct");
      if constexpr (Opt::has_column_pairings) {
        for (int i = 0; i < n; ++i) {
          SparseVec bd = boundary_of_chain(cols[i]);
          if (birth_of.count(i)) {  // i is a death: boundary is (a multiple of) the partner's column
            const SparseVec& g = cols[birth_of[i]];
            bool okm = false;
            for (int k = 1; k < g_p && !okm; ++k) { SparseVec t; sv_add(t, g, k, g_p); if (t == bd) okm = true; }
            if (!okm) failed.push_back("boundary of a paired chain column is not its partner");
          } else if (!bd.empty()) failed.push_back("unpaired / birth chain column is not a cycle");
        }
      }
    }
    // representative cycles (C08): each returned cycle must be one of the representatives the specification allows
    if constexpr (Opt::can_retrieve_representative_cycles && Opt::has_column_pairings) {
      // Representative cycles are a cache the user refreshes with update_representative_cycles(): with VF_MID_UPDATE=1
      // the driver refreshes (and judges) it only at every second observation and at the last one of a behaviour, so that
      // two updates are separated by batches of two operations - also a removal followed by an insertion, which leaves
      // the number of columns unchanged.
      static const bool mid = [] { const char* e = std::getenv("VF_MID_UPDATE"); return e && std::string(e) == "1"; }();
      ++nobs_;
      if (expected_ && expected_->contains("reps_set") && (!mid || final_ || nobs_ % 2 == 0)) {
        m->update_representative_cycles();
        const auto& all = m->get_representative_cycles();
        std::multiset<std::vector<int>> allset;
        // RU cycles list column indices (= positions), chain cycles list row indices (= cell identifiers)
        auto topos = [&](unsigned r) { return is_chain ? pos_of_row(r) : static_cast<int>(r); };
        for (auto& cyc : all) { std::vector<int> v; for (auto r : cyc) v.push_back(topos(r)); std::sort(v.begin(), v.end()); allset.insert(v); }
        std::size_t nbars = 0;
        for (auto& b : m->get_current_barcode()) {
          ++nbars;
          std::vector<int> cyc;
          for (auto r : m->get_representative_cycle(b)) cyc.push_back(topos(r));
          std::sort(cyc.begin(), cyc.end());
          if (!allset.count(cyc)) failed.push_back("get_representative_cycle(bar) is not among get_representative_cycles()");
          int birth = static_cast<int>(b.birth);
          bool found_bar = false, ok = false;
          for (auto& ev : expected_->at("reps_set").as_array()) {
            const bj::object& e = ev.as_object();
            if (e.at("birth").to_number<std::int64_t>() != birth) continue;
            found_bar = true;
            for (auto& cv : e.at(is_chain ? "ch_set" : "ru_set").as_array()) {
              std::vector<int> supp;
              for (auto& x : cv.as_array()) supp.push_back(static_cast<int>(x.as_object().at("x").to_number<std::int64_t>()));
              std::sort(supp.begin(), supp.end());
              if (supp == cyc) { ok = true; break; }
            }
          }
          if (found_bar && !ok) {
            if (!is_chain && Opt::is_z2 && cyc == column_of_U(birth))
              failed.push_back("RU representative cycle over Z2 is the column of U instead of the column of its inverse");
            else
              failed.push_back(std::string("representative cycle of a bar is not a representative (") + (is_chain ? "chain" : "RU") + ")");
            bj::array ca; for (int x : cyc) ca.push_back(x);
            o["bad_cycle"] = bj::object{{"birth", birth}, {"cycle", ca}};
          }
        }
        if (all.size() != nbars) failed.push_back("number of representative cycles differs from the number of bars");
      }
    }
    if constexpr (Opt::can_retrieve_representative_cycles && Opt::has_column_pairings) {
      // free-running histories: the returned supports are logged for Trace_PersistenceMatrix.tla (RepsOK), except where a
      // listed finding already says they are wrong (RU over Z2: column of U; heap columns: raw entries)
      if (g_log_matrices && g_log_reps && !(is_ru && Opt::is_z2) && Opt::column_type != Column_types::HEAP) {
        m->update_representative_cycles();
        auto topos = [&](unsigned r) { return is_chain ? pos_of_row(r) : static_cast<int>(r); };
        bj::array reps;
        for (auto& b : m->get_current_barcode()) {
          bj::array cyc;
          for (auto r : m->get_representative_cycle(b)) cyc.push_back(topos(r));
          reps.push_back(bj::object{{"dim", b.dim}, {"birth", static_cast<std::int64_t>(b.birth)}, {"cyc", cyc}});
        }
        o["reps"] = reps;
      }
    }
    if (g_log_matrices) {
      o["fl"] = is_chain ? "chain" : (is_ru ? "ru" : "boundary");
      o["z2"] = Opt::is_z2;
      o["R"] = Rj;
      if (!Uj.empty()) o["U"] = Uj;
      bj::array B;
      for (int i = 0; i < n; ++i) B.push_back(sv_json(boundary_of(i)));
      o["B"] = B;
    }
    std::sort(failed.begin(), failed.end());
    failed.erase(std::unique(failed.begin(), failed.end()), failed.end());
    bj::array fa;
    for (auto& s : failed) fa.emplace_back(s);
    o["checks_failed"] = fa;
    return o;
  }
};

}  // namespace vf
