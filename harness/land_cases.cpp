// Spec -> code for C18: runs every CASE emitted by MC_Landscape (TLC) on the real Persistence_landscape and
// Persistence_landscape_on_grid and writes one NDJSON deviation line per mismatch.
//   usage: land_cases cases.ndjson out.ndjson [shard nshards [seed]]
// A case is a list of landscape expressions (with the values of every level on the quarter lattice, the integrals)
// and a list of pairs of expressions (with their distances and inner product), all as integers over fixed
// denominators (see specs/Landscape.tla).  "universe" records give the lattice and the grids of the cases that follow.
#include "land_common.hpp"

using namespace land;
using vf::crash_ctx;

static std::FILE* out;
static long n_cases = 0, n_eval = 0, n_dev = 0, n_crash = 0, n_children = 0;
static std::map<std::string, long> per_op;
static bool in_guard = false;
static long crash_count = 0;

// Deviations are counted per signature (operation + the input predicates the specification attached to the case);
// the first 25 records of each signature are written in full, the counts go into the summary.
static std::map<std::string, long> dev_keys;
static const char* const KEY_FIELDS[] = {"form", "p", "flat", "negzero", "nonint", "overfull", "q"};
struct Dev {
  std::string op;
  bj::object act;
  bj::array diffs;
  long more = 0;
  Dev(std::string o, bj::object a) : op(std::move(o)), act(std::move(a)) {}
  void add(const std::string& path, bj::value exp, bj::value got) {
    if (diffs.size() < 6) diffs.push_back(bj::object{{"path", path}, {"exp", exp}, {"got", got}});
    else ++more;
  }
  ~Dev() {
    if (diffs.empty()) return;
    bj::object k{{"op", op}};
    if (in_guard) {
      k["form"] = "grid";
      if (progress()->devs++ >= 3) return;  // per child; the parent adds the count to the signature
    } else {
      ++n_dev;
      for (const char* f : KEY_FIELDS) {
        auto it = act.find(f);
        if (it != act.end()) k[f] = it->value();
      }
      if (++dev_keys[bj::serialize(k)] > 25) return;
    }
    bj::object o{{"kind", "deviation"}, {"cfg", "land"}, {"op", op}, {"key", k}, {"act", act}, {"diffs", diffs}, {"more", more}};
    std::fprintf(out, "%s\n", bj::serialize(o).c_str());
    std::fflush(out);
  }
};
static void count(const std::string& op, long n = 1) {
  per_op[op] += n;
  if (in_guard) progress()->evals += n; else n_eval += n;
}

struct Universe {
  long tlo = 0, thi = 0, step = 2;
  std::vector<Grid> grids;
  long npts() const { return (thi - tlo) / step + 1; }
  long T(long j) const { return tlo + step * j; }
  long j(long T) const { return (T - tlo) / step; }
};
static std::map<long, Universe> universes;

using Rows = std::vector<std::vector<long>>;
static std::vector<long> longs(const bj::value& v) {
  std::vector<long> r;
  for (auto& e : v.as_array()) r.push_back(e.to_number<long>());
  return r;
}
static Rows rows_of(const bj::value& v) {
  Rows r;
  for (auto& row : v.as_array()) r.push_back(longs(row));
  return r;
}
static long sum(const std::vector<long>& v) { long s = 0; for (long x : v) s += x; return s; }
static std::string at(long k, long T) { return "k=" + std::to_string(k) + ",T=" + std::to_string(T); }
static bool has(const bj::value& set, long x) {
  for (auto& e : set.as_array()) if (e.to_number<long>() == x) return true;
  return false;
}

// tasks evaluated in a child process (values of the grid form exactly at grid points)
struct GridTask {
  std::shared_ptr<PG> L;
  bj::object act;
  Grid g;
  Rows rows;
  double scale;
  bool exact;
  long tlo;
};

// ------------------------------------------------------------------------------------------------ exact form
static void check_exact(const Universe& U, const Spec& s, const bj::object& e, std::mt19937& rng) {
  ExactForm f{&rng};
  const Rows rows = rows_of(e.at("rows"));
  const std::vector<long> ints = longs(e.at("ints")), int2 = longs(e.at("int2"));
  const bool ex = pow2(s.den);
  const double den = static_cast<double>(s.den);
  const long K = static_cast<long>(rows.size());
  crash_ctx().where = "exact build " + bj::serialize(s.json);
  auto vs = build(f, s, true);
  for (auto& nv : vs) {
    PL& L = nv.second;
    bj::object act{{"expr", s.json}, {"variant", nv.first}, {"form", "exact"}};
    crash_ctx().where = "exact " + bj::serialize(bj::value(act));
    {
      Dev dv("exact.value", act);
      for (long k = 0; k <= K; ++k)
        for (long j = 0; j < U.npts(); ++j) {
          const long exp = k < K ? rows[k][j] : 0;
          const double got = L.compute_value_at_a_given_point(static_cast<unsigned>(k), U.T(j) / 8.0);
          if (!same(got, exp, 8 * den, ex)) dv.add(at(k, U.T(j)), exp, jnum(got * 8 * den));
        }
      count("exact.value", (K + 1) * U.npts());
    }
    {
      Dev dv("exact.integral", act);
      const double got = L.compute_integral_of_landscape();
      if (!same(got, sum(ints), 64 * den, ex)) dv.add("all", sum(ints), jnum(got * 64 * den));
      count("exact.integral");
    }
    {
      Dev dv("exact.integral_level", act);
      for (long k = 0; k <= K; ++k) {
        const long exp = k < K ? ints[k] : 0;
        const double got = L.compute_integral_of_a_level_of_a_landscape(static_cast<std::size_t>(k));
        if (!same(got, exp, 64 * den, ex)) dv.add("k=" + std::to_string(k), exp, jnum(got * 64 * den));
      }
      count("exact.integral_level", K + 1);
    }
    {
      bj::object a2 = act;
      a2["p"] = 1;
      Dev dv("exact.integral_p", a2);
      const double got = L.compute_integral_of_landscape(1.0);
      if (!near(got, sum(ints), 64 * den)) dv.add("p=1", sum(ints), jnum(got * 64 * den));
      count("exact.integral_p");
    }
    {
      bj::object a2 = act;
      a2["p"] = 2;
      Dev dv("exact.integral_p", a2);
      const double got = L.compute_integral_of_landscape(2.0);
      if (!near(got, sum(int2), 1536 * den * den)) dv.add("p=2", sum(int2), jnum(got * 1536 * den * den));
      count("exact.integral_p");
    }
  }
  // norms (compute_norm_of_landscape): L^1 = sum of the integrals of |f_k| (judged when |f| is piecewise linear on the
  // quarter lattice), L^2 = sqrt of the sum of the integrals of f_k^2, sup = max of sup |f_k|; the stored function may
  // be negative (differences, negative multiples)
  {
    const std::vector<long> int1 = longs(e.at("int1")), sup = longs(e.at("sup"));
    const bool q = e.at("q").as_bool();
    for (auto& nv : vs) {
      PL& L = nv.second;
      bj::object act{{"expr", s.json}, {"variant", nv.first}, {"form", "exact"}};
      crash_ctx().where = "exact norm " + bj::serialize(bj::value(act));
      Dev dv("exact.norm", act);
      if (q) {
        const double got = L.compute_norm_of_landscape(1.0);
        if (!near(got, sum(int1), 64 * den)) dv.add("p=1", sum(int1), jnum(got * 64 * den));
        count("exact.norm");
      }
      {
        const double got = L.compute_norm_of_landscape(2.0);
        if (!near(got * got, sum(int2), 1536 * den * den)) dv.add("p=2 (squared)", sum(int2), jnum(got * got * 1536 * den * den));
        count("exact.norm");
      }
      {
        long m = 0;
        for (long x : sup) m = std::max(m, x);
        const double got = L.compute_norm_of_landscape(SUP);
        if (!same(got, m, 8 * den, ex)) dv.add("p=inf", m, jnum(got * 8 * den));
        count("exact.norm");
      }
    }
  }
  if (s.op != "land") return;
  PL& L = vs[0].second;
  const long nlev = e.at("nlev").to_number<long>();
  bj::object act{{"expr", s.json}, {"form", "exact"}};
  {
    Dev dv("exact.size", act);
    if (static_cast<long>(L.size()) != nlev) dv.add("size", nlev, static_cast<std::int64_t>(L.size()));
    count("exact.size");
  }
  {
    // find_max(k): "maximal value of lambda-level landscape"; get_y_range(): the range of level 0, which contains the others
    Dev dv("exact.find_max", act);
    const std::vector<long> supk = longs(e.at("sup"));
    for (long k = 0; k < nlev && k < static_cast<long>(supk.size()); ++k) {
      const double got = L.find_max(static_cast<unsigned>(k));
      if (!same(got, supk[k], 8, true)) dv.add("k=" + std::to_string(k), supk[k], jnum(got * 8));
    }
    if (nlev > 0 && !supk.empty()) {
      const auto yr = L.get_y_range();
      if (!same(yr.first, 0, 8, true) || !same(yr.second, supk[0], 8, true)) dv.add("y_range", supk[0], jnum(yr.second * 8));
    }
    count("exact.find_max", nlev);
  }
  {
    // vectorize(k): "a vector of doubles based on a landscape": the values of the level at an increasing sequence of
    // abscissae that contains its breakpoints.  Checked: the specified breakpoint values are a subsequence of it and
    // it is a subsequence of the values on the quarter lattice (which starts and ends with zeros).
    Dev dv("exact.vectorize", act);
    for (long k = 0; k < nlev; ++k) {
      std::vector<double> v = L.vectorize(static_cast<int>(k));
      std::vector<long> bp;
      for (auto& p : e.at("bp").as_array()[k].as_array()) bp.push_back(p.as_array()[1].to_number<long>());
      auto subseq = [](const std::vector<double>& a, const std::vector<double>& b) {
        std::size_t i = 0;
        for (std::size_t j = 0; j < b.size() && i < a.size(); ++j) if (a[i] == b[j]) ++i;
        return i == a.size();
      };
      std::vector<double> g8, e8(bp.begin(), bp.end()), f8(rows[k].begin(), rows[k].end());
      for (double x : v) g8.push_back(x * 8);
      if (!subseq(e8, g8)) dv.add("k=" + std::to_string(k) + " breakpoints within vectorize", vf::jarr(bp), vf::jarr(g8));
      if (!subseq(g8, f8)) dv.add("k=" + std::to_string(k) + " vectorize within lattice values", vf::jarr(rows[k]), vf::jarr(g8));
    }
    count("exact.vectorize", nlev);
  }
  for (long lv = 1; lv <= nlev; ++lv) {  // the constructor that keeps the first lv levels
    bj::object a2 = act;
    a2["levels"] = lv;
    Dev dv("exact.levels", a2);
    crash_ctx().where = "exact.levels " + bj::serialize(bj::value(a2));
    PL M(shuffled(s.args[0], rng), static_cast<std::size_t>(lv));
    if (static_cast<long>(M.size()) != lv) dv.add("size", lv, static_cast<std::int64_t>(M.size()));
    for (long k = 0; k <= nlev; ++k)
      for (long j = 0; j < U.npts(); ++j) {
        const long exp = k < lv ? rows[k][j] : 0;
        const double got = M.compute_value_at_a_given_point(static_cast<unsigned>(k), U.T(j) / 8.0);
        if (!same(got, exp, 8, true)) dv.add(at(k, U.T(j)), exp, jnum(got * 8));
      }
    count("exact.levels", (nlev + 1) * U.npts());
  }
}

// ------------------------------------------------------------------------------------------------ grid form
static void check_grid(const Universe& U, const Spec& s, const bj::object& e, long gi, std::mt19937& rng,
                       std::vector<GridTask>& tasks) {
  const Grid g = U.grids[gi - 1];
  GridForm f{&rng, g};
  const Rows rows = rows_of(e.at("rows"));
  const std::vector<long> ints = longs(e.at("ints")), int2 = longs(e.at("int2"));
  const bool ex = pow2(s.den);
  const double den = static_cast<double>(s.den);
  const long K = static_cast<long>(rows.size());
  const bool flat = has(e.at("flat"), gi);
  crash_ctx().where = "grid build " + bj::serialize(s.json);
  auto vs = build(f, s, true);
  for (auto& nv : vs) {
    PG& L = nv.second;
    bj::object act{{"expr", s.json}, {"variant", nv.first}, {"form", "grid"}, {"grid", g.json()}, {"flat", flat}};
    crash_ctx().where = "grid " + bj::serialize(bj::value(act));
    {
      Dev dv("grid.vectorize", act);  // the values at the grid points
      for (long k = 0; k < K; ++k) {
        std::vector<double> v = L.vectorize(static_cast<int>(k));
        if (static_cast<long>(v.size()) != g.n + 1) { dv.add("k=" + std::to_string(k) + " length", g.n + 1, static_cast<std::int64_t>(v.size())); continue; }
        for (long i = 0; i <= g.n; ++i) {
          const long T = g.min8 + i * g.dx8();
          if (!same(v[i], rows[k][U.j(T)], 8 * den, ex)) dv.add(at(k, T), rows[k][U.j(T)], jnum(v[i] * 8 * den));
        }
      }
      count("grid.vectorize", K * (g.n + 1));
    }
    {
      Dev dv("grid.value_off", act);  // between grid points (linear interpolation, exact here) and outside the grid
      long n = 0;
      for (long k = 0; k <= K; ++k)
        for (long j = 0; j < U.npts(); ++j) {
          if (g.on_grid(U.T(j))) continue;
          const long exp = k < K ? rows[k][j] : 0;
          const double got = L.compute_value_at_a_given_point(static_cast<unsigned>(k), U.T(j) / 8.0);
          ++n;
          if (!same(got, exp, 8 * den, ex)) dv.add(at(k, U.T(j)), exp, jnum(got * 8 * den));
        }
      count("grid.value_off", n);
    }
    {
      Dev dv("grid.integral", act);
      const double got = L.compute_integral_of_landscape();
      if (!same(got, sum(ints), 64 * den, ex)) dv.add("all", sum(ints), jnum(got * 64 * den));
      count("grid.integral");
    }
    {
      Dev dv("grid.integral_level", act);
      for (long k = 0; k <= K; ++k) {
        const long exp = k < K ? ints[k] : 0;
        const double got = L.compute_integral_of_landscape(static_cast<std::size_t>(k));
        if (!same(got, exp, 64 * den, ex)) dv.add("k=" + std::to_string(k), exp, jnum(got * 64 * den));
      }
      count("grid.integral_level", K + 1);
    }
    for (int p = 1; p <= 2; ++p) {
      bj::object a2 = act;
      a2["p"] = p;
      const long all = p == 1 ? sum(ints) : sum(int2);
      const double scale = p == 1 ? 64 * den : 1536 * den * den;
      {
        Dev dv("grid.integral_p", a2);
        const double got = L.compute_integral_of_landscape(static_cast<double>(p));
        if (!near(got, all, scale)) dv.add("p=" + std::to_string(p), all, jnum(got * scale));
        count("grid.integral_p");
      }
      {
        Dev dv("grid.integral_p_level", a2);
        for (long k = 0; k <= K; ++k) {
          const long exp = k < K ? (p == 1 ? ints[k] : int2[k]) : 0;
          const double got = L.compute_integral_of_landscape(static_cast<double>(p), static_cast<std::size_t>(k));
          if (!near(got, exp, scale)) dv.add("k=" + std::to_string(k), exp, jnum(got * scale));
        }
        count("grid.integral_p_level", K + 1);
      }
    }
    tasks.push_back(GridTask{std::make_shared<PG>(L), act, g, rows, 8 * den, ex, U.tlo});
  }
  if (s.op != "land") return;
  PG& L = vs[0].second;
  const long nlev = e.at("nlev").to_number<long>();
  const long depth = e.at("depth").as_array()[gi - 1].to_number<long>();
  bj::object act{{"expr", s.json}, {"form", "grid"}, {"grid", g.json()}};
  {
    Dev dv("grid.size", act);
    if (static_cast<long>(L.size()) != nlev) dv.add("size", nlev, static_cast<std::int64_t>(L.size()));
    count("grid.size");
  }
  for (long lv = 1; lv <= nlev; ++lv) {  // the constructor that keeps the first lv levels
    bj::object a2 = act;
    a2["levels"] = lv;
    a2["depth"] = depth;
    a2["overfull"] = lv >= 2 && depth > lv;  // some grid point lies under more than lv >= 2 tents
    Dev dv("grid.levels", a2);
    crash_ctx().where = "grid.levels " + bj::serialize(bj::value(a2));
    PG M(shuffled(s.args[0], rng), g.gmin(), g.gmax(), static_cast<std::size_t>(g.n), static_cast<unsigned>(lv));
    for (long k = 0; k <= nlev; ++k) {
      std::vector<double> v = M.vectorize(static_cast<int>(k));
      if (static_cast<long>(v.size()) != g.n + 1) { dv.add("k=" + std::to_string(k) + " length", g.n + 1, static_cast<std::int64_t>(v.size())); continue; }
      for (long i = 0; i <= g.n; ++i) {
        const long T = g.min8 + i * g.dx8();
        const long exp = k < lv ? rows[k][U.j(T)] : 0;
        if (!same(v[i], exp, 8, true)) dv.add(at(k, T), exp, jnum(v[i] * 8));
      }
    }
    count("grid.levels", (nlev + 1) * (g.n + 1));
  }
}

// values exactly at the grid points through compute_value_at_a_given_point, in a child process
static void run_grid_tasks(std::vector<GridTask>& tasks) {
  if (tasks.empty()) return;
  ++n_children;
  in_guard = true;
  int sig = in_child(out, [&] {
    Progress* p = progress();
    for (std::size_t t = 0; t < tasks.size(); ++t) {
      GridTask& tk = tasks[t];
      p->expr = static_cast<long>(t);
      const long K = static_cast<long>(tk.rows.size());
      for (long k = 0; k <= K; ++k) {
        Dev dv("grid.value_at", tk.act);  // one record per level: written before a crash at the next level
        for (long i = 0; i <= tk.g.n; ++i) {
          const long T = tk.g.min8 + i * tk.g.dx8();
          p->level = k;
          p->T = T;
          const long exp = k < K ? tk.rows[k][(T - tk.tlo) / 2] : 0;
          const double got = tk.L->compute_value_at_a_given_point(static_cast<unsigned>(k), T / 8.0);
          p->evals++;
          if (!same(got, exp, tk.scale, tk.exact)) dv.add(at(k, T), exp, jnum(got * tk.scale));
        }
      }
    }
  });
  in_guard = false;
  Progress* p = progress();
  n_eval += p->evals;
  n_dev += p->devs;
  per_op["grid.value_at"] += p->evals;
  if (p->devs) dev_keys[bj::serialize(bj::object{{"op", "grid.value_at"}, {"form", "grid"}})] += p->devs;
  if (sig != 0) {
    ++n_crash;
    bj::object act = p->expr >= 0 && p->expr < static_cast<long>(tasks.size()) ? tasks[p->expr].act : bj::object{};
    act["level"] = p->level;
    act["T"] = p->T;
    if (++crash_count > 25) { tasks.clear(); return; }
    bj::object o{{"kind", "crash"}, {"cfg", "land"}, {"op", "grid.value_at"}, {"signal", sig}, {"act", act},
                 {"where", "Persistence_landscape_on_grid::compute_value_at_a_given_point at a grid point"}};
    std::fprintf(out, "%s\n", bj::serialize(o).c_str());
    std::fflush(out);
  }
  tasks.clear();
}

// ------------------------------------------------------------------------------------------------ distances
template <class F>
static void check_dist(const F& f, const bj::object& d, const Spec& X, const Spec& Y, bj::object act) {
  using L = typename F::L;
  const long den = d.at("den").to_number<long>();
  const bool ex = pow2(den);
  const double dn = static_cast<double>(den);
  const bool q = d.at("q").as_bool();
  const long d1 = d.at("d1").to_number<long>(), d2 = d.at("d2").to_number<long>(), dsup = d.at("dsup").to_number<long>(),
             ip = d.at("ip").to_number<long>();
  const std::string pre = std::string(F::name) + ".";
  crash_ctx().where = pre + "distance " + bj::serialize(bj::value(act));
  L x = build(f, X, false)[0].second;
  L y = build(f, Y, false)[0].second;
  for (int order = 0; order < 2; ++order) {
    L& a = order == 0 ? x : y;
    L& b = order == 0 ? y : x;
    act["order"] = order == 0 ? "x.distance(y)" : "y.distance(x)";
    if (q) {
      bj::object a2 = act;
      a2["p"] = 1;
      Dev dv(pre + "distance", a2);
      const double got = a.distance(b, 1.0);
      if (!same(got, d1, 64 * dn, ex)) dv.add("d1", d1, jnum(got * 64 * dn));
      count(pre + "distance");
    }
    {
      bj::object a2 = act;
      a2["p"] = 2;
      Dev dv(pre + "distance", a2);
      const double got = a.distance(b, 2.0);
      if (!(got >= 0) || !near(got * got, d2, 1536 * dn * dn)) dv.add("d2^2", d2, jnum(got * got * 1536 * dn * dn));
      count(pre + "distance");
    }
    {
      bj::object a2 = act;
      a2["p"] = "inf";
      a2["nonint"] = (dsup % (8 * den)) != 0;  // the sup distance is not an integer
      Dev dv(pre + "distance", a2);
      const double got = a.distance(b, SUP);
      if (!same(got, dsup, 8 * dn, ex)) dv.add("dsup", dsup, jnum(got * 8 * dn));
      count(pre + "distance");
    }
    // the same three distances through the free functions (compute_distance_of_landscapes(a, b, max) is what the
    // compute_distance_of_landscapes utility calls for the sup distance)
    if (q) {
      bj::object a2 = act;
      a2["p"] = 1;
      Dev dv(pre + "free_distance", a2);
      const double got = F::free_distance(a, b, 1.0);
      if (!same(got, d1, 64 * dn, ex)) dv.add("d1", d1, jnum(got * 64 * dn));
      count(pre + "free_distance");
    }
    {
      bj::object a2 = act;
      a2["p"] = 2;
      Dev dv(pre + "free_distance", a2);
      const double got = F::free_distance(a, b, 2.0);
      if (!(got >= 0) || !near(got * got, d2, 1536 * dn * dn)) dv.add("d2^2", d2, jnum(got * got * 1536 * dn * dn));
      count(pre + "free_distance");
    }
    {
      bj::object a2 = act;
      a2["p"] = "inf";
      a2["nonint"] = (dsup % (8 * den)) != 0;
      Dev dv(pre + "free_distance", a2);
      const double got = F::free_distance(a, b, SUP);
      if (!same(got, dsup, 8 * dn, ex)) dv.add("dsup", dsup, jnum(got * 8 * dn));
      const double got2 = F::free_max_distance(a, b);
      if (!same(got2, dsup, 8 * dn, ex)) dv.add("dsup (compute_max_norm_distance_of_landscapes)", dsup, jnum(got2 * 8 * dn));
      count(pre + "free_distance");
    }
    {
      Dev dv(pre + "inner", act);
      const double got = a.compute_scalar_product(b);
      if (!near(got, ip, 1536 * dn)) dv.add("ip", ip, jnum(got * 1536 * dn));
      count(pre + "inner");
    }
  }
}

static void check_case(const bj::object& c, long idx, unsigned seed) {
  const Universe& U = universes.at(c.at("u").to_number<long>());
  std::mt19937 rng(seed * 7919u + static_cast<unsigned>(idx));
  std::vector<GridTask> tasks;
  for (auto& ev : c.at("exprs").as_array()) {
    const bj::object& e = ev.as_object();
    Spec s = spec_of(e);
    check_exact(U, s, e, rng);
    for (auto& gv : e.at("grids").as_array()) check_grid(U, s, e, gv.to_number<long>(), rng, tasks);
  }
  run_grid_tasks(tasks);
  for (auto& dv : c.at("dists").as_array()) {
    const bj::object& d = dv.as_object();
    Spec X = spec_of(d.at("x").as_object()), Y = spec_of(d.at("y").as_object());
    bj::object act{{"x", X.json}, {"y", Y.json}, {"negzero", d.at("negzero")}, {"q", d.at("q")}};
    {
      bj::object a = act;
      a["form"] = "exact";
      check_dist(ExactForm{&rng}, d, X, Y, a);
    }
    for (auto& gv : d.at("grids").as_array()) {
      const long gi = gv.to_number<long>();
      bj::object a = act;
      a["form"] = "grid";
      a["grid"] = U.grids[gi - 1].json();
      a["flat"] = has(d.at("flat"), gi);
      check_dist(GridForm{&rng, U.grids[gi - 1]}, d, X, Y, a);
    }
  }
}

int main(int argc, char** argv) {
  if (argc < 3) { std::cerr << "usage: land_cases cases.ndjson out.ndjson [shard nshards [seed]]" << std::endl; return 2; }
  const int shard = argc > 4 ? std::atoi(argv[3]) : 0, nshards = argc > 4 ? std::atoi(argv[4]) : 1;
  const unsigned seed = argc > 5 ? static_cast<unsigned>(std::atol(argv[5])) : 1u;
  out = std::fopen(argv[2], "w");
  if (!out) { std::cerr << "cannot write " << argv[2] << std::endl; return 2; }
  no_core_dumps();
  crash_ctx().out = out;
  vf::install_crash_handlers();
  std::ifstream in(argv[1]);
  if (!in) { std::cerr << "cannot open " << argv[1] << std::endl; return 2; }
  std::string line;
  long idx = -1;
  while (std::getline(in, line)) {
    if (line.empty()) continue;
    bj::value v = bj::parse(line);
    const bj::object& c = v.as_object();
    if (c.at("kind").as_string() == "universe") {
      Universe U;
      U.tlo = c.at("tlo").to_number<long>();
      U.thi = c.at("thi").to_number<long>();
      U.step = c.at("step").to_number<long>();
      for (auto& g : c.at("grids").as_array()) U.grids.push_back(grid_of(g));
      universes[c.at("u").to_number<long>()] = U;
      continue;
    }
    ++idx;
    if (idx % nshards != shard) continue;
    ++n_cases;
    check_case(c, idx, seed);
  }
  bj::object ops, keys;
  for (auto& p : per_op) ops[p.first] = p.second;
  for (auto& p : dev_keys) keys[p.first] = p.second;
  bj::object o{{"kind", "summary"}, {"cfg", "land"}, {"cases", n_cases}, {"evaluations", n_eval}, {"deviations", n_dev},
               {"crashes", n_crash}, {"children", n_children}, {"ops", ops}, {"dev_keys", keys}};
  std::fprintf(out, "%s\n", bj::serialize(o).c_str());
  std::fclose(out);
  return 0;
}
