// Code -> spec for C19: random integer metrics on 5-8 points (10 and 12 points with dim_max = 1) (beyond the exhaustive scope of MC_SparseRips), the real
// Sparse_rips_complex and Rips_complex are run and both complexes are logged as NDJSON events for Trace_SparseRips.tla,
// which recomputes validity, the subcomplex relation, the persistence diagrams and their interleaving, and membership in
// the specified construction.  The starting point of the farthest-point ordering is random inside the library: every
// (input, parameters) is run `runs` times per constructor form; one event is written per DISTINCT output (field "runs"
// counts the executions that produced it).
//   usage: sprips_record outdir seed ninputs [nfiles]
// Metric families (all integer, triangle inequality by construction, distinct points):
//   l1     : clustered points of Z^2 / Z^3 with the L1 distance (also run through the "coords" form: points + functor)
//   graph  : shortest-path metric of a random connected graph with integer weights
//   twolvl : two-level ultrametric-like spaces (clusters of diameter 1-2 at mutual distance 5-12)
//   wide   : the same with the clusters at mutual distance about 2^27 (eps = 1/2, default mini / maxi)
// Every 5th input is given to the library multiplied by 2^40 or 2^-40 and the values read back are divided by it.
// For eps = 3/4 all distances are multiplied by 3 (then every value of the construction is an integer).
#include "sprips_common.hpp"

using namespace sprips;

static std::mt19937_64 rng;
static int rnd(int a, int b) { return static_cast<int>(std::uniform_int_distribution<int>(a, b)(rng)); }

static bool is_metric(const Input& in) {
  for (int a = 0; a < in.n; ++a)
    for (int b = 0; b < in.n; ++b) {
      if (a != b && !(in.D[a][b] >= 1)) return false;
      if (in.D[a][b] != in.D[b][a]) return false;
      for (int c = 0; c < in.n; ++c)
        if (in.D[a][b] > in.D[a][c] + in.D[c][b]) return false;
    }
  return true;
}

static Input gen_l1(int n) {
  for (;;) {
    Input in;
    in.n = n;
    int dim = rnd(2, 3), k = rnd(2, 3), spread = rnd(4, 9);
    std::vector<std::vector<FV>> centers(k, std::vector<FV>(dim));
    for (auto& c : centers) for (auto& x : c) x = rnd(0, spread);
    std::set<std::vector<FV>> seen;
    for (int tries = 0; tries < 400 && static_cast<int>(in.coords.size()) < n; ++tries) {
      std::vector<FV> p = centers[rnd(0, k - 1)];
      for (auto& x : p) x += rnd(0, 1) * rnd(0, 2);
      if (seen.insert(p).second) in.coords.push_back(p);
    }
    if (static_cast<int>(in.coords.size()) < n) continue;   // not enough distinct points around these centers: draw again
    in.D.assign(n, std::vector<FV>(n, 0));
    for (int i = 0; i < n; ++i) for (int j = 0; j < n; ++j) in.D[i][j] = L1()(in.coords[i], in.coords[j]);
    if (is_metric(in)) return in;
  }
}

static Input gen_graph(int n) {
  for (;;) {
    Input in;
    in.n = n;
    const FV far = 1e6;
    in.D.assign(n, std::vector<FV>(n, far));
    for (int i = 0; i < n; ++i) in.D[i][i] = 0;
    int wmax = rnd(2, 6);
    for (int i = 1; i < n; ++i) {  // random spanning tree, then a few chords
      int j = rnd(0, i - 1);
      in.D[i][j] = in.D[j][i] = rnd(1, wmax);
    }
    for (int c = rnd(0, n); c > 0; --c) {
      int i = rnd(0, n - 1), j = rnd(0, n - 1);
      if (i != j) { FV w = rnd(1, wmax); in.D[i][j] = in.D[j][i] = std::min(in.D[i][j], w); }
    }
    for (int k = 0; k < n; ++k) for (int i = 0; i < n; ++i) for (int j = 0; j < n; ++j)
      in.D[i][j] = std::min(in.D[i][j], in.D[i][k] + in.D[k][j]);
    if (is_metric(in)) return in;
  }
}

static Input gen_twolvl(int n) {
  for (;;) {
    Input in;
    in.n = n;
    int k = rnd(2, 3);
    std::vector<int> cl(n);
    for (auto& c : cl) c = rnd(0, k - 1);
    std::vector<std::vector<int>> cd(k, std::vector<int>(k, 0));
    int lo = rnd(4, 8);
    for (int a = 0; a < k; ++a) for (int b = a + 1; b < k; ++b) cd[a][b] = cd[b][a] = rnd(lo, lo + 4);
    in.D.assign(n, std::vector<FV>(n, 0));
    for (int i = 0; i < n; ++i) for (int j = i + 1; j < n; ++j)
      in.D[i][j] = in.D[j][i] = cl[i] == cl[j] ? rnd(1, 2) : cd[cl[i]][cl[j]] + rnd(0, 1);
    if (is_metric(in)) return in;
  }
}

// two or three tight clusters (intra-cluster distances 1-2) at mutual distance about 2^27: the spread of the metric is
// far beyond anything the other families reach (a relative tolerance, a float narrowed on the way or an early stop of
// the farthest-point ordering "at numerically zero radius" shows here); eps = 1/2 keeps every product of
// SparseRips.tla below 2^31
static Input gen_wide(int n) {
  for (;;) {
    Input in;
    in.n = n;
    int k = rnd(2, 3);
    std::vector<int> cl(n);
    for (auto& c : cl) c = rnd(0, k - 1);
    const int W = (1 << 27) - 8;
    std::vector<std::vector<int>> cd(k, std::vector<int>(k, 0));
    for (int a = 0; a < k; ++a) for (int b = a + 1; b < k; ++b) cd[a][b] = cd[b][a] = W + rnd(0, 6);
    in.D.assign(n, std::vector<FV>(n, 0));
    for (int i = 0; i < n; ++i) for (int j = i + 1; j < n; ++j)
      in.D[i][j] = in.D[j][i] = cl[i] == cl[j] ? rnd(1, 2) : cd[cl[i]][cl[j]] + rnd(0, 1);
    if (is_metric(in)) return in;
  }
}

int main(int argc, char** argv) {
  if (argc < 4) { std::cerr << "usage: sprips_record outdir seed ninputs [nfiles]" << std::endl; return 2; }
  const std::string dir = argv[1];
  rng.seed(static_cast<std::uint64_t>(std::atoll(argv[2])) * 7919u + 17u);
  const int ninputs = std::atoi(argv[3]);
  const int nfiles = argc >= 5 ? std::atoi(argv[4]) : 4;
  const int runs = 4;
  std::vector<std::FILE*> files;
  for (int i = 0; i < nfiles; ++i) {
    files.push_back(std::fopen((dir + "/sprips_" + std::to_string(i) + ".ndjson").c_str(), "w"));
    if (!files.back()) return 2;
  }
  std::FILE* sum = std::fopen((dir + "/summary.json").c_str(), "w");
  if (!sum) return 2;
  vf::crash_ctx().out = sum;
  vf::install_crash_handlers();
  long n_runs = 0, n_events = 0, n_nontrivial = 0, n_problem = 0, n_multi = 0;
  std::map<std::string, long> per_family, per_eps;
  const std::vector<std::array<std::int64_t, 2>> eps_g = {{1, 2}, {1, 4}, {3, 4}};
  for (int it = 0; it < ninputs; ++it) {
    const bool large = it % 48 == 47;   // graph only (dim_max = 1): exercises the farthest-point ordering on more points
    const int n = large ? (it % 96 == 47 ? 10 : 12) : std::vector<int>{5, 5, 6, 6, 7, 8}[static_cast<std::size_t>(it) % 6];
    int fam = large ? rnd(0, 1) : rnd(0, 2);   // (two-level metrics on 12 points have too many tied orderings for TLC)
    const bool wide = !large && it % 8 == 5;
    Input in = wide ? gen_wide(std::min(n, 7)) : fam == 0 ? gen_l1(n) : fam == 1 ? gen_graph(n) : gen_twolvl(n);
    const std::string family = wide ? "wide" : fam == 0 ? "l1" : fam == 1 ? "graph" : "twolvl";
    // every 5th input is handed to the library multiplied by 2^-40 or 2^40 (exact; an absolute tolerance shows here)
    const int scale_log2 = it % 5 == 3 ? (it % 10 == 3 ? -40 : 40) : 0;
    in.scale = std::ldexp(1.0, scale_log2);
    Params pr;
    int kind = wide ? -1 : rnd(0, 9);
    if (wide) { pr.p = 1; pr.q = 2; }
    else if (kind <= 6) { auto e = eps_g[rnd(0, 2)]; pr.p = e[0]; pr.q = e[1]; }
    else if (kind == 7) { pr.p = rnd(1, 2); pr.q = 1; }
    else { pr.p = 1; pr.q = 2; if (rnd(0, 1)) pr.mini = rnd(2, 3); if (pr.mini == 0 || rnd(0, 1)) pr.maxi = rnd(4, 12); }
    if (pr.p == 3) {  // exactness: distances multiples of 3
      for (auto& r : in.D) for (auto& x : r) x *= 3;
      for (auto& r : in.coords) for (auto& x : r) x *= 3;
    }
    pr.dmax = large ? 1 : (n >= 7 || wide) ? rnd(1, 2) : rnd(1, 3);   // at most 92 cells for the reduction in TLC
    std::vector<std::string> forms = {"matrix", "points"};
    if (!in.coords.empty()) forms.push_back("coords");
    Cx rips = run_rips(in, pr.dmax, forms[static_cast<std::size_t>(it) % forms.size()]);
    std::map<std::string, std::pair<Cx, long>> outs;
    std::map<std::string, std::string> first_form;
    for (auto& form : forms)
      for (int r = 0; r < runs; ++r) {
        vf::crash_ctx().where = "sparse " + form + " " + bj::serialize(in.d_set());
        Cx c = run_sparse(in, pr, form, r % 2 == 1);
        ++n_runs;
        std::string key = c.key() + "|" + c.exception + "|" + std::to_string(c.problems.size());
        auto ins = outs.emplace(key, std::make_pair(c, 0L));
        ins.first->second.second++;
        if (ins.second) first_form[key] = form;
      }
    if (outs.size() > 1) ++n_multi;
    per_family[family]++;
    per_eps[std::to_string(pr.p) + "/" + std::to_string(pr.q)]++;
    for (auto& kv : outs) {
      const Cx& c = kv.second.first;
      bj::object o{{"op", "sparse"}, {"n", in.n}, {"d_set", in.d_set()}, {"p", pr.p}, {"q", pr.q}, {"mini", pr.mini}, {"maxi", pr.maxi},
                   {"dmax", pr.dmax}, {"family", family}, {"scale_log2", scale_log2}, {"form", first_form[kv.first]}, {"runs", kv.second.second},
                   {"k_set", c.k_set()}, {"rips_set", rips.k_set()}};
      bj::array problems;
      for (auto& p : c.problems) problems.emplace_back(p);
      for (auto& p : rips.problems) problems.emplace_back("rips: " + p);
      if (!c.exception.empty()) problems.emplace_back("exception: " + c.exception);
      if (!rips.exception.empty()) problems.emplace_back("rips exception: " + rips.exception);
      if (!problems.empty()) { o["problems"] = problems; ++n_problem; }
      if (c.key() != rips.key()) ++n_nontrivial;
      std::fprintf(files[static_cast<std::size_t>(n_events) % files.size()], "%s\n", bj::serialize(o).c_str());
      ++n_events;
    }
  }
  for (auto f : files) std::fclose(f);
  bj::object fam, eps;
  for (auto& p : per_family) fam[p.first] = p.second;
  for (auto& p : per_eps) eps[p.first] = p.second;
  bj::object o{{"kind", "summary"}, {"inputs", ninputs}, {"runs", n_runs}, {"events", n_events}, {"outputs_differing_from_rips", n_nontrivial},
               {"inputs_with_several_outputs", n_multi}, {"events_with_problems", n_problem}, {"families", fam}, {"eps", eps}};
  std::fprintf(sum, "%s\n", bj::serialize(o).c_str());
  std::fclose(sum);
  return 0;
}
