// Records random, precondition-respecting zigzag sequences driven on the real classes as NDJSON traces for
// Trace_Zigzag.tla.  Oscillating-Rips-like: growth and shrink phases over the simplices (dimension <= 3) of a
// small vertex set, at most `cap` live cells per dimension; every fifth execution uses general Z_2 cells
// (random cycles of live cells as boundaries) instead.  The same calls are made in lock-step on
// Zigzag_persistence, Filtered_zigzag_persistence and Filtered_zigzag_persistence_with_storage.
#pragma once
#include "zz_model.hpp"

namespace vf {

struct RecCell {
  int dim;
  std::vector<int> bd;   // keys (arrow numbers), increasing
  int mask;              // vertex set of a simplex, 0 for a general cell
  int user;              // key used with the filtered classes
};

template <CT ct>
void record_ct(const std::string& outdir, std::uint64_t seed, int executions, int steps) {
  using Opt = ZzOpt<ct>;
  using ZP = Gudhi::zigzag_persistence::Zigzag_persistence<Opt>;
  using FZ = Gudhi::zigzag_persistence::Filtered_zigzag_persistence<Opt>;
  using SZ = Gudhi::zigzag_persistence::Filtered_zigzag_persistence_with_storage<Opt>;
  std::string c = ct_name(ct);
  Trace tr(outdir + "/zz_" + c + ".ndjson");
  std::mt19937_64 rng(seed * 7919 + std::hash<std::string>()(c));
  auto rnd = [&](int n) { return static_cast<int>(rng() % static_cast<std::uint64_t>(n)); };
  const int cap = 10, maxdim = 3;
  for (int ex = 0; ex < executions; ++ex) {
    const bool cellular = (ex % 5 == 4);
    // forest regime (every second execution): graphs with at most two edges on 8 vertices, edges flipped often - many
    // open classes of dimension 0 born by removals, so that boundaries are sums of >= 4 open classes
    const bool forest = !cellular && (ex % 2 == 1);
    const bool inc = rnd(2) == 0;
    const int D = std::vector<int>{-1, -1, 1, 2, 3}[rnd(5)];
    const int shortest = rnd(3) == 0 ? 1 : 0;
    const int nv = forest ? 8 : 5 + rnd(3);
    const bool simp_keys = !cellular && rnd(3) != 0;
    crash_ctx().where = "record " + c + " execution " + std::to_string(ex);
    tr.emit(bj::object{{"op", "reset"}, {"dir", inc ? "inc" : "dec"}, {"D", D}, {"shortest", shortest}, {"ct", c},
                       {"cellular", cellular}, {"forest", forest}});
    std::vector<Bar> last, flast;
    ZP zp([&](int dim, int b, int d) { last.emplace_back(dim, b, d); });
    FZ fz([&](int dim, double b, double d) { flast.emplace_back(dim, val_code(b), val_code(d)); });
    SZ sz(0, D);
    std::map<int, RecCell> live;  // key -> cell
    std::int64_t value = inc ? 0 : 900;
    bool grow = true;
    int phase_left = 15 + rnd(25);
    for (int stp = 0; stp < steps; ++stp) {
      if (--phase_left <= 0) { grow = !grow; phase_left = 10 + rnd(30); }
      std::vector<int> cnt(maxdim + 2, 0);
      for (auto& p : live) cnt[p.second.dim]++;
      auto key_of_mask = [&](int m) { for (auto& p : live) if (p.second.mask == m) return p.first; return -1; };
      // candidate insertions
      std::vector<RecCell> ins;
      if (!cellular) {
        for (int m = 1; m < (1 << nv); ++m) {
          int d = __builtin_popcount(m) - 1;
          if (d > (forest ? 1 : maxdim) || cnt[d] >= cap || key_of_mask(m) >= 0) continue;
          RecCell cnew{d, {}, m, 0};
          bool ok = true;
          if (d > 0)
            for (int v = 0; v < nv && ok; ++v)
              if (m & (1 << v)) { int k = key_of_mask(m & ~(1 << v)); if (k < 0) ok = false; else cnew.bd.push_back(k); }
          if (!ok) continue;
          std::sort(cnew.bd.begin(), cnew.bd.end());
          ins.push_back(cnew);
        }
      } else {
        // general cells: a vertex, or a d-cell whose boundary is a random non-empty cycle of live (d-1)-cells
        if (cnt[0] < 6) ins.push_back(RecCell{0, {}, 0, 0});
        for (int tries = 0; tries < 60; ++tries) {
          int d = 1 + rnd(2);
          if (cnt[d] >= cap - 2) continue;
          std::vector<int> pool;
          for (auto& p : live) if (p.second.dim == d - 1) pool.push_back(p.first);
          if (pool.empty()) continue;
          std::vector<int> bd;
          int want = 2 + rnd(3);
          for (int k : pool) if (rnd(static_cast<int>(pool.size())) < want) bd.push_back(k);
          if (bd.empty()) continue;
          std::map<int, int> par;  // boundary of the chain bd
          for (int k : bd) for (int y : live[k].bd) par[y] ^= 1;
          bool cycle = true;
          for (auto& p : par) if (p.second) cycle = false;
          if (!cycle) continue;
          ins.push_back(RecCell{d, bd, 0, 0});
        }
      }
      // candidate removals: cells nothing contains
      std::vector<int> rem;
      for (auto& p : live) {
        bool used = false;
        for (auto& q : live) if (std::find(q.second.bd.begin(), q.second.bd.end(), p.first) != q.second.bd.end()) { used = true; break; }
        if (!used) rem.push_back(p.first);
      }
      int r = rnd(100);
      std::string op;
      if (r < 3) op = "identity";
      else {
        bool want_ins = grow ? (r < 78) : (r < 28);
        if (want_ins && ins.empty()) want_ins = false;
        if (!want_ins && rem.empty()) want_ins = true;
        if (want_ins && ins.empty()) op = "identity"; else op = want_ins ? "insert" : "remove";
      }
      int forced_ins = -1, forced_rem = -1;
      if (forest) {
        std::vector<int> vins, eins, vrem, erem;
        for (std::size_t i = 0; i < ins.size(); ++i) (ins[i].dim == 0 ? vins : eins).push_back(static_cast<int>(i));
        for (int k : rem) (live[k].dim == 0 ? vrem : erem).push_back(k);
        auto pick = [&](const std::vector<int>& v) { return v[rnd(static_cast<int>(v.size()))]; };
        if (r >= 3) {
          if (!vins.empty() && (r < 28 || (eins.empty() && erem.empty()))) { op = "insert"; forced_ins = pick(vins); }
          else if (!vrem.empty() && r < 35) { op = "remove"; forced_rem = pick(vrem); }
          else if (cnt[1] >= 2 && !erem.empty()) { op = "remove"; forced_rem = pick(erem); }
          else if (!eins.empty() && (erem.empty() || rnd(100) < 60)) { op = "insert"; forced_ins = pick(eins); }
          else if (!erem.empty()) { op = "remove"; forced_rem = pick(erem); }
          else if (!vins.empty()) { op = "insert"; forced_ins = pick(vins); }
          else if (!vrem.empty()) { op = "remove"; forced_rem = pick(vrem); }
          else op = "identity";
        }
      }
      bj::object e{{"op", op}};
      last.clear();
      flast.clear();
      std::int64_t ret = -1, fret = -1, sret = -1;
      if (op != "identity") {
        int stepv = std::vector<int>{0, 0, 1, 2}[rnd(4)];
        value += inc ? stepv : -stepv;
        e["f"] = value;
      }
      if (op == "insert") {
        // prefer higher-dimensional candidates now and then so that the complex does not stay a graph
        RecCell cnew = ins[rnd(static_cast<int>(ins.size()))];
        for (int t = 0; t < 2 && cnew.dim == 0 && cnt[0] >= 3; ++t) cnew = ins[rnd(static_cast<int>(ins.size()))];
        if (forced_ins >= 0) cnew = ins[forced_ins];
        std::vector<int> ubd;
        for (int k : cnew.bd) ubd.push_back(live[k].user);
        if (rnd(2)) std::reverse(ubd.begin(), ubd.end());
        ret = zp.insert_cell(cnew.bd, cnew.dim);
        cnew.user = (simp_keys && cnew.mask) ? cnew.mask : 5000 - 7 * static_cast<int>(ret);
        fret = fz.insert_cell(cnew.user, ubd, cnew.dim, static_cast<double>(value));
        sret = sz.insert_cell(cnew.user, ubd, cnew.dim, static_cast<double>(value));
        live[static_cast<int>(ret)] = cnew;
        e["dim"] = cnew.dim;
        e["bd"] = jarr(cnew.bd);
      } else if (op == "remove") {
        int k = rem[rnd(static_cast<int>(rem.size()))];
        if (forced_rem >= 0) k = forced_rem;
        ret = zp.remove_cell(k);
        fret = fz.remove_cell(live[k].user, static_cast<double>(value));
        sret = sz.remove_cell(live[k].user, static_cast<double>(value));
        live.erase(k);
        e["k"] = k;
      } else {
        ret = zp.apply_identity();
        fret = fz.apply_identity();
        sret = sz.apply_identity();
      }
      e["ret"] = ret;
      e["fret"] = fret;
      e["sret"] = sret;
      e["closed"] = bars_arr(last);
      bj::array open;
      zp.get_current_infinite_intervals([&](int dim, int b) { open.push_back(bj::object{{"dim", dim}, {"b", b}}); });
      e["open"] = open;
      e["fclosed"] = bars_arr(flast);
      if (stp % 4 == 3 || stp == steps - 1) {
        bj::array fopen;
        fz.get_current_infinite_intervals([&](int dim, double b) { fopen.push_back(bj::object{{"dim", dim}, {"b", val_code(b)}}); });
        e["fopen"] = fopen;
      }
      if (stp % 25 == 24 || stp == steps - 1) {
        std::vector<Bar> v;
        for (auto& b : sz.get_index_persistence_diagram()) v.emplace_back(b.dim, b.birth, b.death);
        e["sidx"] = bars_arr(v);
        v.clear();
        for (auto& b : sz.get_persistence_diagram(static_cast<double>(shortest), true)) v.emplace_back(b.dim, val_code(b.birth), val_code(b.death));
        e["sdiag"] = bars_arr(v);
      }
      tr.emit(e);
    }
  }
}

}  // namespace vf
