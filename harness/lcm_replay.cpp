// C15: replays the MC_MatrixLifecycle state graph (construct / copy / move / assign / swap / destroy interleaved
// with insert_boundary, remove_last and vine_swap) on real Gudhi::persistence_matrix::Matrix instantiations.
// Built with ASan+UBSan by the check.  Every slot is a PmModel (pm_model.hpp): the harness' own record of the
// inserted boundaries is copied / moved / swapped alongside the real matrix, so that after EVERY step every live
// slot is re-projected and the defining identities of its exposed matrices (R reduced, pivots, barcode pairs
// columns with pivots, B = R.U, chain columns) are re-checked.  A copy that still leans on its source - a shared
// Column_settings / Field_operators / entry pool - shows as a sanitizer report or as a wrong matrix in the copy
// once the source was mutated, reassigned or destroyed.
#include "pm_model.hpp"
#include <map>

using namespace vf;
using CT = Column_types;
using IX = Column_indexation_types;

template <class Opt, class Ids>
struct LcmModel {
  using PM = PmModel<Opt, Ids>;
  using M = typename PM::M;
  static constexpr int NS = 3;
  std::unique_ptr<PM> obj[NS + 1];
  static int& slots() { static int n = 2; return n; }
  static std::string& cfgname() { static std::string n; return n; }
  static const char* name() { return cfgname().c_str(); }
  bool final_ = true;

  static void copy_book(PM& d, const PM& s) {
    d.cells = s.cells; d.rowids = s.rowids; d.next = s.next; d.next_uid = s.next_uid; d.barcode_read = s.barcode_read;
  }
  static void clear_book(PM& d) {   // "After the move, the given matrix will be empty" (Matrix.h)
    d.cells.clear(); d.rowids.clear(); d.next = 0; d.barcode_read = false;
  }
  void set_final(bool f) { final_ = f; }

  bool applicable(const bj::object& act) const {
    if (act.at("op").as_string() != "mutate") return true;
    static std::unique_ptr<PM> probe(new PM());
    return probe->applicable(act.at("m").as_object());
  }
  bool state_ok(const bj::object&) const { return true; }
  void mask(bj::object& o) const {
    bj::array& a = o.at("objs").as_array();
    for (std::size_t k = 0; k < a.size(); ++k) {
      bj::object& so = a[k].as_object();
      if (!so.at("live").as_bool() || !obj[k + 1]) continue;
      obj[k + 1]->mask(so);
    }
  }

  // A moved-from matrix must be "empty and usable again".  Whether the real one is, is found out in a forked child
  // (the known finding C15-matrix-moved-from-unusable is a null pointer dereference): when the child does not survive,
  // a note is left in the output, the hollow matrix is replaced by a fresh one and the behaviour goes on, so that
  // everything after the first use of a moved-from matrix is still checked.
  // an insertion without entries does not need the column settings, a copy over Z2 neither: the child goes on with
  // an edge between two new vertices
  static void exercise(PM& o) {
    std::int64_t n = static_cast<std::int64_t>(o.cells.size());
    bj::object v{{"op", "insert"}, {"d", 0}, {"bd_set", bj::array{}}};
    o.apply(v);
    o.apply(v);
    bj::object e{{"op", "insert"}, {"d", 1},
                 {"bd_set", bj::array{bj::object{{"x", n}, {"c", g_p - 1}}, bj::object{{"x", n + 1}, {"c", 1}}}}};
    o.apply(e);
    o.observe();
  }
  template <class F>
  void use_moved_from(int k, const char* what, F f) {
    if (!obj[k]->moved_from) return;
    obj[k]->moved_from = false;
    // forking a sanitized process is slow: the outcome of each kind of use is established once per configuration
    // (and process); afterwards a kind of use found fatal is noted and repaired without a new experiment, a kind of use
    // found harmless is executed directly (if it then crashes after all, that is an ordinary crash record)
    static std::map<std::string, bool> fatal;
    auto known = fatal.find(what);
    if (known != fatal.end()) {
      if (!known->second) return;
      note_unusable(what);
      PM fresh;
      obj[k]->m = std::move(fresh.m);
      return;
    }
    std::fflush(nullptr);
    pid_t pid = fork();
    if (pid == 0) {
      crash_ctx().out = nullptr;   // a crash here is this experiment's outcome, reported by the parent
      child_watchdog();
      int code = 0;
      try { f(); } catch (...) { code = 1; }
      if (!san_report().empty()) code = 1;
      _exit(code);
    }
    int status = 0;
    waitpid(pid, &status, 0);
    fatal[what] = !(WIFEXITED(status) && WEXITSTATUS(status) == 0);
    if (!fatal[what]) return;   // usable: the parent goes on with the real object
    note_unusable(what);
    PM fresh;
    obj[k]->m = std::move(fresh.m);
  }
  static void note_unusable(const char* what) {
    if (crash_ctx().out) {
      std::fprintf(crash_ctx().out, "{\"kind\":\"note\",\"tag\":\"moved_from_unusable\",\"cfg\":%s,\"use\":\"%s\"}\n",
                   bj::serialize(bj::value(std::string(name()))).c_str(), what);
      std::fflush(crash_ctx().out);
    }
  }

  bj::object apply(const bj::object& act) {
    std::string op(act.at("op").as_string());
    bj::object out;
    int i = static_cast<int>(act.at("i").to_number<std::int64_t>());
    int j = act.contains("j") ? static_cast<int>(act.at("j").to_number<std::int64_t>()) : 0;
    if (op == "construct") obj[i].reset(new PM());
    else if (op == "destroy") obj[i].reset();
    else if (op == "mutate") {
      use_moved_from(i, "insert_boundary", [&]() {
        // nothing says a moved-from matrix keeps its characteristic: the driver may set it again
        if constexpr (!Opt::is_z2) obj[i]->m->set_characteristic(g_p);
        obj[i]->apply(act.at("m").as_object());
        obj[i]->observe();
        exercise(*obj[i]);
      });
      bj::object r = obj[i]->apply(act.at("m").as_object());
      if (r.contains("inapplicable")) { out["inapplicable"] = true; return out; }
      if (r.contains("exception")) out["exception"] = r.at("exception");
      out["ret_ok"] = r.contains("ret_ok") ? r.at("ret_ok").as_bool() : true;
    } else if (op == "copy_construct") {
      use_moved_from(j, "copy", [&]() { M tmp(*obj[j]->m); tmp.get_number_of_columns(); exercise(*obj[j]); });
      std::unique_ptr<PM> n(new PM());
      n->m.reset(new M(*obj[j]->m));
      copy_book(*n, *obj[j]);
      obj[i] = std::move(n);
    } else if (op == "copy_assign") {
      use_moved_from(j, "copy", [&]() { M tmp(*obj[j]->m); tmp.get_number_of_columns(); exercise(*obj[j]); });   // also self-assignment copies
      obj[i]->moved_from = false;
      M& a = *obj[i]->m;
      const M& b = *obj[j]->m;
      a = b;
      if (i != j) copy_book(*obj[i], *obj[j]);
    } else if (op == "move_construct") {
      std::unique_ptr<PM> n(new PM());
      n->m.reset(new M(std::move(*obj[j]->m)));
      copy_book(*n, *obj[j]);
      n->moved_from = obj[j]->moved_from;   // moving a hollow matrix gives a hollow matrix
      clear_book(*obj[j]);
      obj[j]->moved_from = true;
      obj[i] = std::move(n);
    } else if (op == "move_assign") {
      *obj[i]->m = std::move(*obj[j]->m);
      copy_book(*obj[i], *obj[j]);
      obj[i]->moved_from = obj[j]->moved_from;
      clear_book(*obj[j]);
      obj[j]->moved_from = true;
    } else if (op == "swap") {
      swap(*obj[i]->m, *obj[j]->m);
      std::swap(obj[i]->cells, obj[j]->cells);
      std::swap(obj[i]->rowids, obj[j]->rowids);
      std::swap(obj[i]->next, obj[j]->next);
      std::swap(obj[i]->next_uid, obj[j]->next_uid);
      std::swap(obj[i]->barcode_read, obj[j]->barcode_read);
      std::swap(obj[i]->moved_from, obj[j]->moved_from);
    } else out["exception"] = "unknown op " + op;
    return out;
  }

  bj::object observe() {
    bj::object o;
    bj::array objs;
    for (int i = 1; i <= slots(); ++i) {
      if (!obj[i]) { objs.push_back(bj::object{{"live", false}}); continue; }
      obj[i]->set_final(final_);
      bj::object so = obj[i]->observe();
      so["live"] = true;
      objs.push_back(so);
    }
    o["objs"] = objs;
    return o;
  }
};

template <class O, class I>
void run(ReplayCtx& ctx, const std::string& oname) {
  using Mo = LcmModel<O, I>;
  Mo::cfgname() = oname + "/" + I::name();
  if (const char* e = std::getenv("VF_SLOTS")) Mo::slots() = std::atoi(e);
  replay_config<Mo>(ctx);
}

// FL, Z2, CT, IDX, Vine, Rep, Barcode, RowAccess, RemRows, MapCols
template <CT ct, bool Z2>
void per_column_type(ReplayCtx& ctx, const std::string& cn) {
  std::string z = Z2 ? "z2" : "zp";
  constexpr int RA = (ct == CT::HEAP) ? 0 : 1;
  run<PmOpt<FL_BOUNDARY, Z2, ct, IX::CONTAINER, false, false, true, 0, false, false>, IdSeq>(ctx, "B/" + cn + "/" + z + "/cont");
  run<PmOpt<FL_BOUNDARY, Z2, ct, IX::IDENTIFIER, false, false, true, RA, RA != 0, true>, IdGap>(ctx, "B/" + cn + "/" + z + "/id/row/map");
  run<PmOpt<FL_RU, Z2, ct, IX::CONTAINER, false, true, true, 0, false, false>, IdPos>(ctx, "RU/" + cn + "/" + z + "/cont/rep");
  run<PmOpt<FL_RU, Z2, ct, IX::POSITION, false, true, true, RA, false, true>, IdPos>(ctx, "RU/" + cn + "/" + z + "/pos/rep/row/map");
  run<PmOpt<FL_RU, Z2, ct, IX::IDENTIFIER, false, true, true, 0, false, true>, IdPos>(ctx, "RU/" + cn + "/" + z + "/id/rep/map");
  run<PmOpt<FL_CHAIN, Z2, ct, IX::CONTAINER, false, true, true, 0, false, true>, IdSeq>(ctx, "CH/" + cn + "/" + z + "/cont/rep/map");
  run<PmOpt<FL_CHAIN, Z2, ct, IX::POSITION, false, true, true, RA, RA != 0, true>, IdGap>(ctx, "CH/" + cn + "/" + z + "/pos/rep/row/map");
  run<PmOpt<FL_CHAIN, Z2, ct, IX::IDENTIFIER, false, false, true, 0, false, false>, IdSeq>(ctx, "CH/" + cn + "/" + z + "/id");
  if constexpr (Z2) {
    run<PmOpt<FL_RU, true, ct, IX::CONTAINER, true, false, true, 0, false, false>, IdPos>(ctx, "RUv/" + cn + "/cont");
    run<PmOpt<FL_RU, true, ct, IX::POSITION, true, true, true, RA, false, true>, IdPos>(ctx, "RUv/" + cn + "/pos/rep/row/map");
    run<PmOpt<FL_CHAIN, true, ct, IX::CONTAINER, true, false, true, 0, false, true>, IdSeq>(ctx, "CHv/" + cn + "/cont/map");
    run<PmOpt<FL_CHAIN, true, ct, IX::POSITION, true, true, true, RA, RA != 0, true>, IdSeq>(ctx, "CHv/" + cn + "/pos/rep/row/map");
  }
}

int main(int argc, char** argv) {
  ReplayCtx ctx = replay_setup(argc, argv);
  if (const char* e = std::getenv("VF_P")) g_p = std::atoi(e);
#ifndef VF_Z2
#define VF_Z2 1
#endif
  constexpr bool Z2 = VF_Z2;
  if (Z2 && g_p != 2) { std::fclose(ctx.out); return 0; }
#if VF_COL == 0
  per_column_type<CT::INTRUSIVE_SET, Z2>(ctx, "INTRUSIVE_SET");
#elif VF_COL == 1
  per_column_type<CT::INTRUSIVE_LIST, Z2>(ctx, "INTRUSIVE_LIST");
#elif VF_COL == 2
  per_column_type<CT::SET, Z2>(ctx, "SET");
#elif VF_COL == 3
  per_column_type<CT::LIST, Z2>(ctx, "LIST");
#elif VF_COL == 4
  per_column_type<CT::VECTOR, Z2>(ctx, "VECTOR");
#elif VF_COL == 5
  per_column_type<CT::NAIVE_VECTOR, Z2>(ctx, "NAIVE_VECTOR");
#elif VF_COL == 6
  per_column_type<CT::SMALL_VECTOR, Z2>(ctx, "SMALL_VECTOR");
#elif VF_COL == 7
  per_column_type<CT::UNORDERED_SET, Z2>(ctx, "UNORDERED_SET");
#elif VF_COL == 8
  per_column_type<CT::HEAP, Z2>(ctx, "HEAP");
#endif
  std::fclose(ctx.out);
  return 0;
}
