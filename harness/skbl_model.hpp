// Binding of SkeletonBlocker.tla to Gudhi::skeleton_blocker::Skeleton_blocker_complex (and the geometric
// variant): executes the actions of the specification on a real complex and projects the complex to the
// abstract state through the PUBLIC read API only.  Every read path (contains, ranges, counters, links,
// restricted sub-complexes, copies, the constructors from simplex lists) is itself under test: the paths
// that have an expected value in the specification are reported under their own key, the others are
// cross-checked against contains() and reported in "checks_failed".
#pragma once
#include "common.hpp"

#include <gudhi/Skeleton_blocker.h>

namespace vf {

inline int g_nv = 4;        // size of the handle universe of the model
inline bool g_heavy = true; // links of every simplex + every restricted complex

struct SkblGT {
  typedef std::vector<double> Point;
};
using SkblAbstract = Gudhi::skeleton_blocker::Skeleton_blocker_complex<Gudhi::skeleton_blocker::Skeleton_blocker_simple_traits>;
using SkblGeometric = Gudhi::skeleton_blocker::Skeleton_blocker_geometric_complex<
    Gudhi::skeleton_blocker::Skeleton_blocker_simple_geometric_traits<SkblGT>>;

using VSet = std::vector<int>;            // sorted vertex list
using VSetSet = std::set<VSet>;

inline bj::array jss(const VSetSet& S) {
  bj::array a;
  for (auto& s : S) a.push_back(jarr(s));
  return a;
}
inline std::string vstr(const VSet& s) {
  std::string r = "{";
  for (std::size_t i = 0; i < s.size(); ++i) r += (i ? "," : "") + std::to_string(s[i]);
  return r + "}";
}

template <class Complex, bool Geometric>
struct SkblModel {
  using VH = typename Complex::Vertex_handle;
  using RVH = typename Complex::Root_vertex_handle;
  using Simplex = typename Complex::Simplex;
  using EH = typename Complex::Edge_handle;
  using Sub = Gudhi::skeleton_blocker::Skeleton_blocker_sub_complex<Complex>;

  Complex c;
  std::map<int, double> pts;  // geometric: point given to a vertex at add_vertex(point)
  double next_pt = 1000.0;

  static std::string& cfgname() { static std::string n; return n; }
  static const char* name() { return cfgname().c_str(); }
  bool applicable(const bj::object&) const { return true; }
  bool state_ok(const bj::object&) const { return true; }
  void mask(bj::object& o) const {
    if (!g_heavy) o.erase("restr_set");
  }

  static Simplex simplex(const VSet& s) {
    Simplex r;
    for (int v : s) r.add_vertex(VH(v));
    return r;
  }
  static VSet vset(const Simplex& s) {
    VSet r;
    for (auto v : s) r.push_back(v.vertex);
    std::sort(r.begin(), r.end());
    return r;
  }
  static std::int64_t I(const bj::value& v) { return v.to_number<std::int64_t>(); }

  // Edge_handle with first_vertex == a when the API offers one
  boost::optional<EH> handle(int a, int b) const {
    auto e = c[std::make_pair(VH(a), VH(b))];
    if (e && c.first_vertex(*e).vertex == a) return e;
    auto f = c[std::make_pair(VH(b), VH(a))];
    if (f && c.first_vertex(*f).vertex == a) return f;
    return boost::optional<EH>();
  }

  bj::object apply(const bj::object& act) {
    std::string op(act.at("op").as_string());
    bj::object out;
    auto via = [&]() { auto it = act.find("via"); return it == act.end() ? std::string() : std::string(it->value().as_string()); };
    if (op == "add_vertex") {
      VH h;
      if constexpr (Geometric) {
        h = c.add_vertex(typename Complex::Point{next_pt});
        pts[h.vertex] = next_pt;
        next_pt += 1;
      } else {
        h = c.add_vertex();
      }
      out["ret"] = h.vertex;
    } else if (op == "load") {
      // a complex given by its skeleton and blockers, through the public construction calls
      int nv = static_cast<int>(I(act.at("nv")));
      for (int v = 0; v < nv; ++v) {
        if constexpr (Geometric) { VH h = c.add_vertex(typename Complex::Point{next_pt}); pts[h.vertex] = next_pt; next_pt += 1; }
        else c.add_vertex();
      }
      for (auto& e : act.at("e_set").as_array()) { VSet ab = ints(e); c.add_edge_without_blockers(VH(ab[0]), VH(ab[1])); }
      for (auto& b : act.at("b_set").as_array()) c.add_blocker(simplex(ints(b)));
    } else if (op == "add_edge" || op == "add_edge_wb") {
      int a = static_cast<int>(I(act.at("a"))), b = static_cast<int>(I(act.at("b")));
      EH e = op == "add_edge" ? c.add_edge(VH(a), VH(b)) : c.add_edge_without_blockers(VH(a), VH(b));
      VSet got{c.first_vertex(e).vertex, c.second_vertex(e).vertex};
      std::sort(got.begin(), got.end());
      VSet want{std::min(a, b), std::max(a, b)};
      if (got != want) out["exception"] = "returned Edge_handle joins " + vstr(got);
    } else if (op == "add_edges") {
      c.add_edge(simplex(ints(act.at("s"))));
    } else if (op == "add_simplex") {
      c.add_simplex(simplex(ints(act.at("s"))));
    } else if (op == "remove_star") {
      VSet s = ints(act.at("s"));
      std::string v = via();
      if (v == "vertex") c.remove_star(VH(s[0]));
      else if (v == "pair") c.remove_star(VH(s[0]), VH(s[1]));
      else if (v == "edge") c.remove_star(*c[std::make_pair(VH(s[0]), VH(s[1]))]);
      else c.remove_star(simplex(s));
    } else if (op == "remove_edge") {
      int a = static_cast<int>(I(act.at("a"))), b = static_cast<int>(I(act.at("b")));
      if (via() == "edge") c.remove_edge(*c[std::make_pair(VH(a), VH(b))]);
      else c.remove_edge(VH(a), VH(b));
    } else if (op == "remove_vertex") {
      c.remove_vertex(VH(static_cast<int>(I(act.at("v")))));
    } else if (op == "contract") {
      int a = static_cast<int>(I(act.at("a"))), b = static_cast<int>(I(act.at("b")));
      out["lc"] = c.link_condition(VH(a), VH(b));
      auto e = handle(a, b);
      if (via() == "edge" && e) c.contract_edge(*e);
      else c.contract_edge(VH(a), VH(b));
    } else if (op == "keep_only_vertices") {
      c.keep_only_vertices();
    } else if (op == "remove_blockers") {
      c.remove_blockers();
    } else if (op == "clear") {
      c.clear();
      pts.clear();
    } else {
      out["exception"] = "unknown op " + op;
    }
    return out;
  }

  // simplices / blockers of any (sub)complex, in root ids
  template <class Cx>
  static VSetSet simplices_of(const Cx& x, std::vector<std::string>& failed, const std::string& what) {
    VSetSet r;
    std::size_t cnt = 0;
    for (const auto& t : x.complex_simplex_range()) {
      VSet ids;
      for (auto v : x.get_id(t)) ids.push_back(v.vertex);
      std::sort(ids.begin(), ids.end());
      r.insert(ids);
      ++cnt;
    }
    if (cnt != r.size()) failed.push_back("complex_simplex_range of " + what + " lists a simplex twice");
    return r;
  }
  template <class Cx>
  static VSetSet blockers_of(const Cx& x, std::vector<std::string>& failed, const std::string& what) {
    VSetSet r;
    std::size_t cnt = 0;
    for (auto b : x.const_blocker_range()) {
      VSet ids;
      for (auto v : x.get_id(*b)) ids.push_back(v.vertex);
      std::sort(ids.begin(), ids.end());
      r.insert(ids);
      ++cnt;
    }
    if (cnt != r.size()) failed.push_back("const_blocker_range of " + what + " lists a blocker twice");
    if (x.num_blockers() != cnt) failed.push_back("num_blockers of " + what + " differs from the blocker range");
    return r;
  }

  bj::object observe() {
    const Complex& k = c;
    bj::object o;
    std::vector<std::string> failed;
    const int NVu = g_nv;
    // ---- (1) contains() on every non-empty subset of the universe: THE projection
    VSetSet K;
    std::vector<VSet> subsets;
    for (unsigned m = 1; m < (1u << NVu); ++m) {
      VSet s;
      for (int i = 0; i < NVu; ++i) if (m & (1u << i)) s.push_back(i);
      subsets.push_back(s);
      if (k.contains(simplex(s))) K.insert(s);
    }
    o["k_set"] = jss(K);
    // ---- (2) vertices
    VSet verts;
    for (auto v : k.vertex_range()) verts.push_back(v.vertex);
    {
      VSet sorted(verts);
      std::sort(sorted.begin(), sorted.end());
      if (std::adjacent_find(sorted.begin(), sorted.end()) != sorted.end()) failed.push_back("vertex_range lists a vertex twice");
      o["vertices_set"] = jarr(sorted);
      for (int i = 0; i < NVu; ++i) {
        bool in = std::binary_search(sorted.begin(), sorted.end(), i);
        if (k.contains_vertex(VH(i)) != in) failed.push_back("contains_vertex(Vertex_handle) disagrees with vertex_range");
        if (in && !k.contains_vertex(RVH(i))) failed.push_back("contains_vertex(Root_vertex_handle) false for a vertex of vertex_range");
        if (in && k.get_id(VH(i)).vertex != i) failed.push_back("get_id(v) != v in a root complex");
      }
      verts = sorted;
    }
    o["nv"] = k.num_vertices();
    o["empty"] = k.empty();
    // ---- (3) edges
    {
      VSetSet E;
      std::size_t cnt = 0;
      for (auto e : k.edge_range()) {
        VSet p{k.first_vertex(e).vertex, k.second_vertex(e).vertex};
        std::sort(p.begin(), p.end());
        E.insert(p);
        ++cnt;
        if (vset(k.get_vertices(e)) != p) failed.push_back("get_vertices(edge) differs from first/second_vertex");
      }
      if (cnt != E.size()) failed.push_back("edge_range lists an edge twice");
      o["edges_set"] = jss(E);
      o["ne"] = k.num_edges();
      for (std::size_t i = 0; i < verts.size(); ++i)
        for (std::size_t j = 0; j < verts.size(); ++j) {
          if (i == j) continue;
          VSet p{std::min(verts[i], verts[j]), std::max(verts[i], verts[j])};
          if (k.contains_edge(VH(verts[i]), VH(verts[j])) != (E.count(p) > 0)) failed.push_back("contains_edge disagrees with edge_range on " + vstr(p));
          bool has = static_cast<bool>(k[std::make_pair(VH(verts[i]), VH(verts[j]))]);
          if (has != (E.count(p) > 0)) failed.push_back("operator[](pair) disagrees with edge_range on " + vstr(p));
        }
      // neighbours / edges around a vertex / degree
      bj::array deg;
      for (int v : verts) {
        VSet nb, nb2;
        for (auto w : k.vertex_range(VH(v))) nb.push_back(w.vertex);
        for (auto e : k.edge_range(VH(v))) {
          int a = k.first_vertex(e).vertex, b = k.second_vertex(e).vertex;
          nb2.push_back(a == v ? b : a);
        }
        std::sort(nb.begin(), nb.end());
        std::sort(nb2.begin(), nb2.end());
        VSet want;
        for (auto& e : E) if (e[0] == v) want.push_back(e[1]); else if (e[1] == v) want.push_back(e[0]);
        std::sort(want.begin(), want.end());
        if (nb != want) failed.push_back("vertex_range(v) is not the neighbourhood of " + std::to_string(v));
        if (nb2 != want) failed.push_back("edge_range(v) is not the set of edges through " + std::to_string(v));
        deg.push_back(bj::object{{"v", v}, {"d", k.degree(VH(v))}});
      }
      o["deg_set"] = deg;
    }
    o["complete"] = k.complete();
    o["ncc"] = k.num_connected_components();
    o["is_cone"] = k.is_cone();
    // ---- (4) complex_simplex_range and the counters
    {
      VSetSet R = simplices_of(k, failed, "the complex");
      if (R != K) {
        std::string msg = "complex_simplex_range differs from contains():";
        for (auto& s : R) if (!K.count(s)) msg += " +" + vstr(s);
        for (auto& s : K) if (!R.count(s)) msg += " -" + vstr(s);
        failed.push_back(msg);
      }
      o["ns"] = static_cast<std::int64_t>(k.num_simplices());
      bj::array nsd;
      for (int d = 0; d < NVu; ++d) nsd.push_back(static_cast<std::int64_t>(k.num_simplices(d)));
      o["nsd"] = nsd;
    }
    // ---- (5) triangles
    {
      VSetSet T;
      std::size_t cnt = 0;
      for (const auto& t : k.triangle_range()) { T.insert(vset(t)); ++cnt; }
      if (cnt != T.size()) failed.push_back("triangle_range lists a triangle twice");
      o["tri_set"] = jss(T);
      o["ntri"] = k.num_triangles();
      for (int v : verts) {
        VSetSet Tv, want;
        for (const auto& t : k.triangle_range(VH(v))) Tv.insert(vset(t));
        for (auto& s : K) if (s.size() == 3 && std::binary_search(s.begin(), s.end(), v)) want.insert(s);
        if (Tv != want) failed.push_back("triangle_range(v) differs from contains() around " + std::to_string(v));
      }
    }
    // ---- (6) blockers
    {
      VSetSet B = blockers_of(k, failed, "the complex");
      o["blockers_set"] = jss(B);
      o["nb"] = static_cast<std::int64_t>(k.num_blockers());
      VSetSet B2, B3;
      for (auto b : c.blocker_range()) B2.insert(vset(*b));
      if (B2 != B) failed.push_back("blocker_range() differs from const_blocker_range()");
      for (auto& s : subsets) if (k.contains_blocker(simplex(s))) B3.insert(s);
      if (B3 != B) failed.push_back("contains_blocker() differs from the blocker range");
      bj::array bv;
      for (int v : verts) {
        VSetSet Bv, Bv2;
        for (auto b : k.const_blocker_range(VH(v))) Bv.insert(vset(*b));
        for (auto b : c.blocker_range(VH(v))) Bv2.insert(vset(*b));
        if (Bv != Bv2) failed.push_back("blocker_range(v) differs from const_blocker_range(v)");
        bv.push_back(bj::object{{"s", v}, {"t_set", jss(Bv)}});
      }
      o["bv_set"] = bv;
    }
    // ---- (7) link condition on every edge, both argument orders and both overloads
    {
      bj::array lc;
      for (auto& s : K) {
        if (s.size() != 2) continue;
        for (int r = 0; r < 2; ++r) {
          int a = s[r], b = s[1 - r];
          bool v = k.link_condition(VH(a), VH(b));
          lc.push_back(bj::object{{"a", a}, {"b", b}, {"lc", v}});
          auto e = k[std::make_pair(VH(a), VH(b))];
          if (e && k.link_condition(*e) != v) failed.push_back("link_condition(Edge_handle) differs from link_condition(a,b)");
        }
      }
      o["lc_set"] = lc;
    }
    // ---- (8) star of every vertex, coboundary of every simplex
    {
      bj::array st;
      for (int v : verts) {
        VSetSet S;
        std::size_t cnt = 0;
        for (const auto& t : k.star_simplex_range(VH(v))) { S.insert(vset(t)); ++cnt; }
        if (cnt != S.size()) failed.push_back("star_simplex_range lists a simplex twice");
        st.push_back(bj::object{{"s", v}, {"t_set", jss(S)}});
      }
      o["star_set"] = st;
      bj::array cob;
      for (auto& s : K) {
        VSetSet S;
        Simplex sg = simplex(s);
        for (const auto& t : k.coboundary_range(sg)) S.insert(vset(t));
        cob.push_back(bj::object{{"s", jarr(s)}, {"t_set", jss(S)}});
      }
      o["cob_set"] = cob;
    }
    // ---- (9) links (Skeleton_blocker_link_complex) and restricted complexes (Skeleton_blocker_sub_complex)
    {
      bj::array lk;
      for (auto& s : K) {
        if (!g_heavy && s.size() > 2) continue;
        auto L = k.link(simplex(s));
        VSetSet S = simplices_of(L, failed, "link" + vstr(s));
        VSetSet B = blockers_of(L, failed, "link" + vstr(s));
        lk.push_back(bj::object{{"s", jarr(s)}, {"t_set", jss(S)}, {"b_set", jss(B)}});
        if (s.size() == 1) {
          auto L1 = k.link(VH(s[0]));
          if (simplices_of(L1, failed, "link(v)") != S) failed.push_back("link(Vertex_handle) differs from link(Simplex) at " + vstr(s));
        }
        if (s.size() == 2) {
          auto e = k[std::make_pair(VH(s[0]), VH(s[1]))];
          if (e) {
            auto L2 = k.link(*e);
            if (simplices_of(L2, failed, "link(e)") != S) failed.push_back("link(Edge_handle) differs from link(Simplex) at " + vstr(s));
          }
        }
        if constexpr (Geometric) {
          for (auto v : L.vertex_range()) {
            int id = L.get_id(v).vertex;
            auto it = pts.find(id);
            if (it != pts.end() && (L.point(v).size() != 1 || L.point(v)[0] != it->second)) failed.push_back("point of a link vertex differs from the point in the complex");
          }
        }
      }
      o["link_set"] = lk;
      if (g_heavy) {
        bj::array rs;
        unsigned nvs = static_cast<unsigned>(verts.size());
        for (unsigned m = 1; m < (1u << nvs); ++m) {
          VSet s;
          for (unsigned i = 0; i < nvs; ++i) if (m & (1u << i)) s.push_back(verts[i]);
          Sub sub;
          sub.make_restricted_complex(k, simplex(s));
          VSetSet S = simplices_of(sub, failed, "restricted" + vstr(s));
          VSetSet B = blockers_of(sub, failed, "restricted" + vstr(s));
          rs.push_back(bj::object{{"s", jarr(s)}, {"t_set", jss(S)}, {"b_set", jss(B)}});
        }
        o["restr_set"] = rs;
      }
    }
    // ---- (10) geometric variant: the point given at add_vertex stays attached to the handle
    if constexpr (Geometric) {
      for (int v : verts) {
        auto it = pts.find(v);
        if (it == pts.end()) continue;
        const auto& p = k.point(VH(v));
        if (p.size() != 1 || p[0] != it->second) failed.push_back("point(v) changed for vertex " + std::to_string(v));
      }
    }
    // ---- (11) copies and re-construction from simplex lists
    {
      Complex cp(k);
      if (!(cp == k) || (cp != k)) failed.push_back("operator== false against a copy");
      std::vector<std::string> f2;
      if (simplices_of(cp, f2, "copy") != K || blockers_of(cp, f2, "copy") != blockers_of(k, f2, "complex")) failed.push_back("copy constructor: copy has other simplices/blockers");
      Complex as;
      as.add_vertex();
      as = k;
      if (!(as == k)) failed.push_back("operator== false against an assigned copy");
      if (simplices_of(as, f2, "assigned") != K) failed.push_back("operator=: copy has other simplices");
      bool contiguous = true;
      for (std::size_t i = 0; i < verts.size(); ++i) if (verts[i] != static_cast<int>(i)) contiguous = false;
      if (contiguous) {
        std::vector<Simplex> all, tops;
        for (auto& s : K) all.push_back(simplex(s));
        for (auto& s : K) {
          bool top = true;
          for (auto& t : K) if (t.size() > s.size() && std::includes(t.begin(), t.end(), s.begin(), s.end())) { top = false; break; }
          if (top) tops.push_back(simplex(s));
        }
        Complex r1(all.begin(), all.end());
        if (simplices_of(r1, f2, "rebuilt") != K) failed.push_back("constructor from the list of simplices gives other simplices");
        if (blockers_of(r1, f2, "rebuilt") != blockers_of(k, f2, "complex")) failed.push_back("constructor from the list of simplices gives other blockers");
        if (!(r1 == k) || !(k == r1)) failed.push_back("operator== false against the complex rebuilt from its simplices");
        Complex r2 = Gudhi::skeleton_blocker::make_complex_from_top_faces<Complex>(tops.begin(), tops.end());
        if (simplices_of(r2, f2, "rebuilt from top faces") != K) failed.push_back("make_complex_from_top_faces gives other simplices");
        if (blockers_of(r2, f2, "rebuilt from top faces") != blockers_of(k, f2, "complex")) failed.push_back("make_complex_from_top_faces gives other blockers");
        // a different complex must compare different
        if (!K.empty()) {
          Complex other(k);
          other.add_vertex();
          if (other == k) failed.push_back("operator== true against a complex with one more vertex");
        }
      }
    }
    bj::array fa;
    for (auto& s : failed) fa.emplace_back(s);
    o["checks_failed"] = fa;
    return o;
  }
};

}  // namespace vf
