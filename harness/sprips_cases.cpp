// Spec -> code for C19: every CASE emitted by MC_SparseRips (TLC) is an integer metric together with, for every parameter
// set (eps = p/q, mini, maxi) and dim_max, the SET of filtered complexes the documented construction may return (one per
// greedy farthest-point ordering; TLC has checked the documented guarantee on every member).  The starting point of the
// ordering is drawn from std::random_device inside the library, so every input is run `reps` times through each
// constructor form and every returned complex must be a member of the set.  The exact Rips complex of the same metric
// is compared with the specification as well (it is the reference of the guarantee).
//   usage: sprips_cases cases.ndjson out.ndjson [shard nshards [reps]]
#include "sprips_common.hpp"

using namespace sprips;

static std::FILE* out;
static long n_cases = 0, n_eval = 0, n_dev = 0, n_nontrivial = 0, n_allowed = 0, n_hit = 0, n_multi = 0, n_multi_hit2 = 0, n_psets = 0, n_psets_nontrivial = 0;

static void emit_dev(const std::string& op, const bj::object& act, const bj::array& diffs) {
  ++n_dev;
  if (n_dev > 2000) return;
  bj::object o{{"kind", "deviation"}, {"cfg", "sprips"}, {"op", op}, {"act", act}, {"diffs", diffs}};
  std::fprintf(out, "%s\n", bj::serialize(o).c_str());
  std::fflush(out);
}

// the member of `allowed` closest to `got` (number of differing simplices), to make the report readable
static bj::array explain(const std::vector<Cx>& allowed, const Cx& got) {
  std::size_t best = 0, bestd = static_cast<std::size_t>(-1);
  for (std::size_t i = 0; i < allowed.size(); ++i) {
    std::size_t d = 0;
    for (auto& kv : allowed[i].K) { auto it = got.K.find(kv.first); if (it == got.K.end() || it->second != kv.second) ++d; }
    for (auto& kv : got.K) if (!allowed[i].K.count(kv.first)) ++d;
    if (d < bestd) { bestd = d; best = i; }
  }
  bj::array diffs;
  if (allowed.empty()) return diffs;
  const Cx& a = allowed[best];
  for (auto& kv : a.K) {
    if (diffs.size() >= 6) break;
    auto it = got.K.find(kv.first);
    if (it == got.K.end()) diffs.push_back(bj::object{{"path", "complex[s=" + bj::serialize(vf::jarr(kv.first)) + "]"}, {"exp", kv.second}, {"got", nullptr}});
    else if (it->second != kv.second) diffs.push_back(bj::object{{"path", "complex[s=" + bj::serialize(vf::jarr(kv.first)) + "].f"}, {"exp", kv.second}, {"got", it->second}});
  }
  for (auto& kv : got.K) {
    if (diffs.size() >= 6) break;
    if (!a.K.count(kv.first)) diffs.push_back(bj::object{{"path", "complex[s=" + bj::serialize(vf::jarr(kv.first)) + "]"}, {"exp", nullptr}, {"got", kv.second}});
  }
  return diffs;
}

int main(int argc, char** argv) {
  if (argc < 3) { std::cerr << "usage: sprips_cases cases.ndjson out.ndjson [shard nshards [reps]]" << std::endl; return 2; }
  int shard = 0, nshards = 1, reps = 6;
  if (argc >= 5) { shard = std::atoi(argv[3]); nshards = std::atoi(argv[4]); }
  if (argc >= 6) reps = std::atoi(argv[5]);
  out = std::fopen(argv[2], "w");
  if (!out) return 2;
  vf::crash_ctx().out = out;
  vf::install_crash_handlers();
  std::ifstream in(argv[1]);
  if (!in) { std::cerr << "cannot open " << argv[1] << std::endl; return 2; }
  const std::vector<std::string> forms = {"matrix", "points"};
  std::string line;
  long idx = -1;
  while (std::getline(in, line)) {
    if (line.empty()) continue;
    ++idx;
    if (idx % nshards != shard) continue;
    bj::value v = bj::parse(line);
    const bj::object& c = v.as_object();
    ++n_cases;
    Input inp = input_of_json(c.at("n").to_number<std::int64_t>(), c.at("d_set"));
    std::map<int, Cx> rips;
    // the reference: exact Rips filtration
    for (auto& rv : c.at("rips_set").as_array()) {
      const bj::object& r = rv.as_object();
      int dmax = static_cast<int>(r.at("dmax").to_number<std::int64_t>());
      Cx exp = cx_of_json(r.at("k_set"));
      rips[dmax] = exp;
      for (auto& form : forms) {
        ++n_eval;
        vf::crash_ctx().where = "rips " + form + " " + bj::serialize(c.at("d_set"));
        Cx got = run_rips(inp, dmax, form);
        bj::object act{{"n", inp.n}, {"d_set", c.at("d_set")}, {"dmax", dmax}, {"form", form}};
        bj::array diffs;
        if (!got.exception.empty()) diffs.push_back(bj::object{{"path", "exception"}, {"exp", nullptr}, {"got", got.exception}});
        for (auto& p : got.problems) diffs.push_back(bj::object{{"path", "output"}, {"exp", nullptr}, {"got", p}});
        if (diffs.empty() && got.key() != exp.key()) diffs = explain({exp}, got);
        if (!diffs.empty()) emit_dev("rips", act, diffs);
      }
    }
    for (auto& ev : c.at("expect_set").as_array()) {
      const bj::object& e = ev.as_object();
      Params pr;
      pr.p = e.at("p").to_number<std::int64_t>();
      pr.q = e.at("q").to_number<std::int64_t>();
      pr.mini = e.at("mini").to_number<std::int64_t>();
      pr.maxi = e.at("maxi").to_number<std::int64_t>();
      pr.dmax = static_cast<int>(e.at("dmax").to_number<std::int64_t>());
      std::vector<Cx> allowed;
      std::map<std::string, long> hits;
      for (auto& cx : e.at("cx_set").as_array()) { allowed.push_back(cx_of_json(cx)); hits[allowed.back().key()] = 0; }
      n_allowed += static_cast<long>(hits.size());
      const std::string rkey = rips.count(pr.dmax) ? rips[pr.dmax].key() : std::string();
      bool nontrivial = false;
      ++n_psets;
      for (auto& form : forms) {
        for (int rep = 0; rep < reps; ++rep) {
          ++n_eval;
          bj::object act{{"n", inp.n}, {"d_set", c.at("d_set")}, {"p", pr.p}, {"q", pr.q}, {"mini", pr.mini}, {"maxi", pr.maxi},
                         {"dmax", pr.dmax}, {"form", form}, {"reuse", rep % 2 == 1}, {"guaranteed", e.at("guaranteed")}};
          vf::crash_ctx().where = "sparse " + bj::serialize(act);
          Cx got = run_sparse(inp, pr, form, rep % 2 == 1);   // every second repetition reuses the object (first a call with dim_max 1)
          bj::array diffs;
          if (!got.exception.empty()) diffs.push_back(bj::object{{"path", "exception"}, {"exp", nullptr}, {"got", got.exception}});
          for (auto& p : got.problems) diffs.push_back(bj::object{{"path", "output"}, {"exp", nullptr}, {"got", p}});
          if (diffs.empty()) {
            auto it = hits.find(got.key());
            if (it == hits.end()) {
              diffs = explain(allowed, got);
              diffs.push_back(bj::object{{"path", "member_of_allowed_set"}, {"exp", static_cast<std::int64_t>(allowed.size())}, {"got", got.k_set()}});
            } else {
              it->second++;
              if (!rkey.empty() && got.key() != rkey) { ++n_nontrivial; nontrivial = true; }
            }
          }
          if (!diffs.empty()) emit_dev("sparse", act, diffs);
        }
      }
      if (nontrivial) ++n_psets_nontrivial;
      long h = 0;
      for (auto& kv : hits) if (kv.second > 0) ++h;
      n_hit += h;
      if (hits.size() > 1) { ++n_multi; if (h > 1) ++n_multi_hit2; }
    }
  }
  bj::object o{{"kind", "summary"}, {"cfg", "sprips"}, {"cases", n_cases}, {"steps", n_eval}, {"deviations", n_dev},
               {"outputs_differing_from_rips", n_nontrivial},
               {"parameter_sets", n_psets}, {"parameter_sets_with_output_differing_from_rips", n_psets_nontrivial}, {"allowed_complexes", n_allowed}, {"allowed_complexes_returned", n_hit},
               {"parameter_sets_with_several_allowed", n_multi}, {"of_which_several_returned", n_multi_hit2}};
  std::fprintf(out, "%s\n", bj::serialize(o).c_str());
  std::fclose(out);
  return 0;
}
