// Spec -> code for C13: runs every CASE emitted by MC_Cubical (TLC) on the real Bitmap_cubical_complex (plain and
// periodic base) + Persistent_cohomology<Field_Zp> and writes one NDJSON deviation line per mismatch.
//   usage: cub_cases cases.ndjson out.ndjson [shard nshards]
// "shape" cases (structure of every cell of a shape x class) come first in the file; every "vals" case (constructor
// arguments, values, filtration order, persistence) is checked against its shape too.
#include "cub_common.hpp"
#include <set>

using vf::crash_ctx;

static std::FILE* out;
static long n_cases = 0, n_eval = 0, n_dev = 0, n_cells = 0, n_bd_exact = 0, n_bd_lists = 0, n_cbd_exact = 0, n_pers = 0;

struct Dev {
  std::string op;
  bj::object act;
  bj::array diffs;
  void add(const std::string& path, bj::value exp, bj::value got) {
    if (diffs.size() < 6) diffs.push_back(bj::object{{"path", path}, {"exp", exp}, {"got", got}});
  }
  ~Dev() {
    if (diffs.empty()) return;
    ++n_dev;
    static std::map<std::string, long> per_op;   // at most 60 lines per kind of deviation
    if (++per_op[op] > 60) return;
    bj::object o{{"kind", "deviation"}, {"cfg", "cub"}, {"op", op}, {"act", act}, {"diffs", diffs}};
    std::fprintf(out, "%s\n", bj::serialize(o).c_str());
    std::fflush(out);
  }
};

static std::map<std::string, bj::object> shapes;
static std::string shape_key(const bj::object& c) {
  return bj::serialize(c.at("n")) + bj::serialize(c.at("per")) + std::string(c.at("var").as_string());
}
static std::vector<std::int64_t> i64s(const bj::value& v) {
  std::vector<std::int64_t> r;
  for (auto& e : v.as_array()) r.push_back(e.to_number<std::int64_t>());
  return r;
}
static std::vector<std::array<std::int64_t, 4>> bars_of(const bj::value& v, std::int64_t below_dim) {
  std::vector<std::array<std::int64_t, 4>> r;
  for (auto& e : v.as_array()) {
    const bj::object& b = e.as_object();
    std::int64_t d = b.at("dim").to_number<std::int64_t>();
    if (d >= below_dim) continue;
    r.push_back({d, b.at("b").to_number<std::int64_t>(), b.at("d").to_number<std::int64_t>(), b.at("n").to_number<std::int64_t>()});
  }
  std::sort(r.begin(), r.end());
  return r;
}
static bj::value jbars(const std::vector<std::array<std::int64_t, 4>>& v) {
  bj::array a;
  for (auto& x : v) a.push_back(bj::array{x[0], x[1], x[2], x[3]});
  return a;
}

static void check_vals(const bj::object& c) {
  auto it = shapes.find(shape_key(c));
  if (it == shapes.end()) { std::cerr << "no shape case for " << shape_key(c) << std::endl; std::exit(2); }
  const bj::object& S = it->second;
  cub::Input in = cub::input_of(c);
  std::vector<int> primes;
  for (auto& e : c.at("pers").as_array()) primes.push_back(static_cast<int>(e.as_object().at("p").to_number<std::int64_t>()));
  std::sort(primes.begin(), primes.end());
  bj::object act{{"n", c.at("n")}, {"per", c.at("per")}, {"var", c.at("var")}, {"conv", c.at("conv")},
                 {"dims", c.at("dims")}, {"vals", c.at("vals")}};
  crash_ctx().where = "observe " + bj::serialize(bj::value(act));
  bj::object got;
  try {
    got = cub::observe(in, primes);
  } catch (const std::exception& e) {
    Dev dv{"construct", act};
    dv.add("exception", nullptr, e.what());
    return;
  }
  const std::int64_t N = S.at("N").to_number<std::int64_t>();
  const std::int64_t D = S.at("D").to_number<std::int64_t>();
  {
    Dev dv{"shape", act};
    ++n_eval;
    if (got.at("N").as_int64() != N) dv.add("num_simplices", N, got.at("N"));
    if (got.at("size").as_int64() != N) dv.add("size", N, got.at("size"));
    if (got.at("D").as_int64() != D) dv.add("dimension", D, got.at("D"));
    if (!got.at("api_equal").as_bool()) dv.add("aliases of the same query agree", true, false);
    if (!got.at("simplex_of_key").as_bool()) dv.add("simplex(k) = k-th cell of filtration_simplex_range", true, false);
    if (got.contains("refresh_ok") && !got.at("refresh_ok").as_bool()) dv.add("values and order after lowering a top cell, impose_lower_star_filtration and initialize_filtration equal those of a complex built from the modified input", true, false);
    if (got.contains("inc_exception")) dv.add("compute_incidence_between_cells on a boundary element", nullptr, got.at("inc_exception"));
    if (!dv.diffs.empty()) return;
  }
  const bj::array& cells = S.at("cells").as_array();
  const bj::array& xval = c.at("val").as_array();
  bool faces_ok = true;
  for (std::int64_t x = 0; x < N; ++x) {
    ++n_cells;
    const bj::object& sc = cells[x].as_object();
    bj::object cact = act;
    cact["cell"] = x;
    cact["co"] = sc.at("co");
    {
      Dev dv{"dimension", cact};
      ++n_eval;
      if (got.at("dim").as_array()[x] != sc.at("dim")) dv.add("dimension", sc.at("dim"), got.at("dim").as_array()[x]);
    }
    {
      Dev dv{"filtration", cact};
      ++n_eval;
      if (got.at("val").as_array()[x] != xval[x]) dv.add("filtration", xval[x], got.at("val").as_array()[x]);
    }
    {  // boundary: the geometric faces, each once; compute_incidence_between_cells = the documented formula; the
       // documented incidences alternate along the enumeration
      Dev dv{"boundary", cact};
      ++n_eval; ++n_bd_lists;
      std::vector<std::int64_t> g = i64s(got.at("bd").as_array()[x]), e = i64s(sc.at("bd")), ei = i64s(sc.at("inc")),
                                gi = i64s(got.at("inc").as_array()[x]);
      if (g == e) ++n_bd_exact;
      std::vector<std::int64_t> gs = g, es = e;
      std::sort(gs.begin(), gs.end());
      std::sort(es.begin(), es.end());
      if (gs != es) {
        dv.add("boundary as a multiset", sc.at("bd"), got.at("bd").as_array()[x]);
        faces_ok = false;
      } else {
        std::map<std::int64_t, std::int64_t> spec_inc;
        for (std::size_t k = 0; k < e.size(); ++k) spec_inc[e[k]] = ei[k];
        int eps = 0;
        for (std::size_t k = 0; k < g.size(); ++k) {
          if (gi[k] != spec_inc[g[k]])
            dv.add("compute_incidence_between_cells(cell," + std::to_string(g[k]) + ")", spec_inc[g[k]], gi[k]);
          int s = (k % 2 == 0 ? 1 : -1) * static_cast<int>(spec_inc[g[k]]);
          if (eps == 0) eps = s;
          else if (eps != s) { dv.add("incidences alternate along the enumeration", bj::array{sc.at("bd"), sc.at("inc")}, got.at("bd").as_array()[x]); break; }
        }
      }
    }
    if (got.contains("lookup") && (c.at("conv").as_string() != "top" || S.at("has_top").as_bool())) {
      // the looked-up top cell [vertex] must be one (per the shape derived by TLC), be incident to x (transitive
      // closure of the specification's boundary lists) and carry the value of x; infinite values are not judged
      Dev dv{"lookup", cact};
      ++n_eval;
      const bool top = c.at("conv").as_string() == "top";
      const std::int64_t r = got.at("lookup").as_array()[x].to_number<std::int64_t>();
      const std::vector<std::int64_t> pool = i64s(top ? S.at("tops") : S.at("verts"));
      auto faces_of = [&](std::int64_t t) {   // all faces of t, t included
        std::set<std::int64_t> seen{t};
        std::vector<std::int64_t> todo{t};
        while (!todo.empty()) {
          std::int64_t y = todo.back(); todo.pop_back();
          for (std::int64_t f : i64s(cells[y].as_object().at("bd"))) if (seen.insert(f).second) todo.push_back(f);
        }
        return seen;
      };
      bool ok = std::find(pool.begin(), pool.end(), r) != pool.end();
      if (ok) ok = top ? faces_of(r).count(x) > 0 : faces_of(x).count(r) > 0;
      if (ok) ok = (xval[r] == xval[x]);
      if (!ok) dv.add(top ? "get_top_dimensional_coface_of_a_cell" : "get_vertex_of_a_cell", "an incident top cell / vertex with the value of the cell", r);
    }
    {  // coboundary: the geometric cofaces, each once; no order is documented
      Dev dv{"coboundary", cact};
      ++n_eval;
      std::vector<std::int64_t> g = i64s(got.at("cbd").as_array()[x]), e = i64s(sc.at("cbd"));
      if (g == e) ++n_cbd_exact;
      std::sort(g.begin(), g.end());
      std::sort(e.begin(), e.end());
      if (g != e) dv.add("coboundary as a multiset", sc.at("cbd"), got.at("cbd").as_array()[x]);
    }
  }
  if (faces_ok) {  // the enumerated boundaries, with signs alternating along the enumeration, compose to zero
    Dev dv{"boundary_of_boundary", act};
    ++n_eval;
    const bj::array& gbd = got.at("bd").as_array();
    for (std::int64_t x = 0; x < N && dv.diffs.size() < 3; ++x) {
      std::map<std::int64_t, int> acc;
      std::vector<std::int64_t> b = i64s(gbd[x]);
      for (std::size_t k = 0; k < b.size(); ++k) {
        std::vector<std::int64_t> bb = i64s(gbd[b[k]]);
        for (std::size_t l = 0; l < bb.size(); ++l) acc[bb[l]] += (k % 2 == 0 ? 1 : -1) * (l % 2 == 0 ? 1 : -1);
      }
      for (auto& pr : acc)
        if (pr.second != 0) { dv.add("coefficient of cell " + std::to_string(pr.first) + " in dd(" + std::to_string(x) + ")", 0, pr.second); break; }
    }
  }
  {
    Dev dv{"ranges", act};
    ++n_eval;
    if (S.at("has_top").as_bool() && got.at("tops") != S.at("tops")) dv.add("top_dimensional_cells_range", S.at("tops"), got.at("tops"));
    if (got.at("verts") != S.at("verts")) dv.add("vertices_range", S.at("verts"), got.at("verts"));
  }
  {
    Dev dv{"filtration_simplex_range", act};
    ++n_eval;
    if (got.at("order") != c.at("order")) dv.add("order", c.at("order"), got.at("order"));
  }
  for (auto& pe : c.at("pers").as_array()) {
    const bj::object& sp = pe.as_object();
    for (int nomax = 0; nomax < 2; ++nomax) {
      const bj::array& ga = got.at(nomax ? "pers_nomax" : "pers").as_array();
      const bj::object* gp = nullptr;
      for (auto& x : ga) if (x.as_object().at("p") == sp.at("p")) gp = &x.as_object();
      bj::object pact = act;
      pact["p"] = sp.at("p");
      pact["persistence_dim_max"] = !nomax;
      Dev dv{"persistence", pact};
      ++n_eval; ++n_pers;
      auto eb = bars_of(sp.at("diag"), nomax ? D : D + 1), gb = bars_of(gp->at("diag"), D + 2);
      if (eb != gb) dv.add("diagram [dim,birth,death,multiplicity]", jbars(eb), jbars(gb));
      std::vector<std::int64_t> ebt = i64s(sp.at("betti")), gbt = i64s(gp->at("betti"));
      if (nomax) ebt.resize(D);
      if (ebt != gbt) dv.add("betti_numbers", vf::jarr(ebt), vf::jarr(gbt));
    }
  }
}

int main(int argc, char** argv) {
  if (argc < 3) { std::cerr << "usage: cub_cases cases.ndjson out.ndjson [shard nshards]" << std::endl; return 2; }
  int shard = 0, nshards = 1;
  if (argc >= 5) { shard = std::atoi(argv[3]); nshards = std::atoi(argv[4]); }
  out = std::fopen(argv[2], "w");
  if (!out) return 2;
  vf::crash_ctx().out = out;
  vf::install_crash_handlers();
  std::ifstream in(argv[1]);
  if (!in) { std::cerr << "cannot open " << argv[1] << std::endl; return 2; }
  std::string line;
  long idx = -1;
  while (std::getline(in, line)) {
    if (line.empty()) continue;
    bj::value v = bj::parse(line);
    const bj::object& c = v.as_object();
    std::string kind(c.at("kind").as_string());
    if (kind == "shape") { shapes[shape_key(c)] = c; continue; }
    if (kind != "vals") { std::cerr << "unknown case kind " << kind << std::endl; return 2; }
    ++idx;
    if (idx % nshards != shard) continue;
    ++n_cases;
    check_vals(c);
  }
  bj::object o{{"kind", "summary"}, {"cfg", "cub"}, {"cases", n_cases}, {"evaluations", n_eval}, {"deviations", n_dev},
               {"cells", n_cells}, {"boundary_lists", n_bd_lists}, {"boundary_lists_in_spec_order", n_bd_exact},
               {"coboundary_lists_in_spec_order", n_cbd_exact}, {"persistence_runs", n_pers}};
  std::fprintf(out, "%s\n", bj::serialize(o).c_str());
  std::fclose(out);
  return 0;
}
