// Replays every transition of the MC_SkeletonBlocker state graph on real Skeleton_blocker_complex objects
// (abstract and geometric instantiation).  Compiled twice by the check: with assertions (the library's own
// precondition checks active) and with -DNDEBUG (the configuration a release build of a user has).
// Every group of behaviours runs in a forked child: an abort()/crash inside the library is recorded as a
// "crash" record naming the behaviour, and the remaining behaviours are still executed.
#include "skbl_model.hpp"

#include <sys/resource.h>
#include <sys/wait.h>

using namespace vf;

static std::string g_where;  // JSON object describing the step being executed
static std::FILE* g_out = nullptr;
static int g_phase_path = 0;

static void on_crash(int sig) {
  if (g_out) {
    std::fprintf(g_out, "{\"kind\":\"crash\",\"signal\":%d,\"where\":%s}\n", sig, g_where.c_str());
    std::fflush(g_out);
  }
  _exit(g_phase_path ? 4 : 3);
}
static void set_where(const std::string& cfg, std::int64_t u, std::int64_t k, int step, const char* phase, const bj::object& act) {
  bj::object o{{"cfg", cfg}, {"u", u}, {"k", k}, {"step", step}, {"phase", phase}, {"act", act}};
  g_where = bj::serialize(o);
  g_phase_path = std::string(phase) == "path";
}

// check_step of common.hpp with a larger diff limit; a deviation record also carries the complete observed
// simplex set and blocker set, so that the check can compare them with what a known finding predicts
template <class Model>
bool skbl_check(Model& m, const bj::object& act, const bj::object& got_act, const bj::value& expected_obs, ReplayCtx& ctx,
                ReplayStats& st, std::int64_t u, std::int64_t k, int step, const char* phase) {
  std::vector<Diff> d;
  bj::value ca = canon(bj::value(act));
  bj::value cg = canon(bj::value(got_act));
  for (auto& p : cg.as_object()) {
    auto it = ca.as_object().find(p.key());
    if (it == ca.as_object().end()) { d.push_back({std::string("act.") + std::string(p.key()), nullptr, p.value()}); continue; }
    diff(it->value(), p.value(), std::string("act.") + std::string(p.key()), d, 40);
  }
  bj::object obs = m.observe();
  bj::object eo = expected_obs.as_object();
  m.mask(eo);
  m.mask(obs);
  bj::value cobs = canon(bj::value(obs));
  diff(bj::value(eo), cobs, "obs", d, 40);
  if (d.empty()) return true;
  st.deviations++;
  if (static_cast<std::size_t>(st.deviations) <= ctx.max_dev_report) {
    bj::object o;
    o["kind"] = "deviation";
    o["cfg"] = st.cfg;
    o["u"] = u;
    o["k"] = k;
    o["step"] = step;
    o["phase"] = phase;
    o["act"] = act;
    o["got_k"] = cobs.as_object().at("k_set");
    o["got_b"] = cobs.as_object().at("blockers_set");
    bj::array da;
    for (auto& x : d) da.push_back(bj::object{{"path", x.path}, {"exp", x.exp}, {"got", x.got}});
    o["diffs"] = da;
    std::fprintf(ctx.out, "%s\n", bj::serialize(o).c_str());
  }
  return false;
}

// one group = all behaviours  init ~> u -> v  for the outgoing edges of u; only_k >= 0 restricts to one edge
template <class Model>
void run_group(ReplayCtx& ctx, const bj::object& g, ReplayStats& st, std::int64_t only_k, bool check_path) {
  std::int64_t u = g.at("u").as_int64();
  const bj::array& path = g.at("path").as_array();
  const bj::array& edges = g.at("edges").as_array();
  if (check_path) {
    Model m;
    int step = 0;
    for (auto& sv : path) {
      const bj::object& s = sv.as_object();
      set_where(st.cfg, u, -1, step, "path", s.at("act").as_object());
      bj::object got;
      try { got = m.apply(s.at("act").as_object()); } catch (const std::exception& e) { got["exception"] = e.what(); }
      st.steps++;
      if (!skbl_check(m, s.at("act").as_object(), got, ctx.states[s.at("to").as_int64()], ctx, st, u, -1, step, "path")) {
        st.skipped += edges.size();
        return;
      }
      ++step;
    }
  }
  for (auto& ev : edges) {
    const bj::object& e = ev.as_object();
    const bj::object& act = e.at("act").as_object();
    std::int64_t k = e.at("k").as_int64();
    if (only_k >= 0 && k != only_k) continue;
    Model m;
    int step = 0;
    for (auto& sv : path) {
      set_where(st.cfg, u, k, step++, "path", sv.as_object().at("act").as_object());
      m.apply(sv.as_object().at("act").as_object());
    }
    set_where(st.cfg, u, k, static_cast<int>(path.size()), "edge", act);
    bj::object got;
    try { got = m.apply(act); } catch (const std::exception& ex) { got["exception"] = ex.what(); }
    st.steps += path.size() + 1;
    st.behaviours++;
    skbl_check(m, act, got, ctx.states[e.at("to").as_int64()], ctx, st, u, k, static_cast<int>(path.size()), "edge");
  }
}

static void summary(ReplayCtx& ctx, const ReplayStats& st) {
  bj::object o{{"kind", "summary"}, {"cfg", st.cfg}, {"behaviours", st.behaviours}, {"steps", st.steps},
               {"skipped", st.skipped}, {"deviations", st.deviations}};
  std::fprintf(ctx.out, "%s\n", bj::serialize(o).c_str());
  std::fflush(ctx.out);
}

// returns the exit status class of the child: 0 ok, 3 crash in an edge step, 4 crash on the path, -1 other
template <class Model>
int forked(ReplayCtx& ctx, const bj::object& g, const std::string& cfg, std::int64_t only_k, bool check_path) {
  std::fflush(ctx.out);
  pid_t pid = fork();
  if (pid < 0) { std::perror("fork"); std::exit(2); }
  if (pid == 0) {
    // a call that does not return is cut after 5 s of CPU time of this child (independent of machine load)
    struct rlimit rl{5, 6};
    setrlimit(RLIMIT_CPU, &rl);
    ReplayStats st;
    st.cfg = cfg;
    run_group<Model>(ctx, g, st, only_k, check_path);
    summary(ctx, st);
    _exit(0);
  }
  int status = 0;
  waitpid(pid, &status, 0);
  if (WIFEXITED(status)) {
    int c = WEXITSTATUS(status);
    return c == 0 || c == 3 || c == 4 ? c : -1;
  }
  return -1;
}

template <class Model>
void replay_forked(ReplayCtx& ctx, const char* cfgname) {
  Model::cfgname() = cfgname;
  std::string cfg = cfgname;
  long gi = -1;
  for (auto& gv : ctx.groups) {
    ++gi;
    if (gi % ctx.nshards != ctx.shard) continue;
    const bj::object& g = gv.as_object();
    int rc = forked<Model>(ctx, g, cfg, -1, true);
    if (rc == 0) continue;
    ReplayStats st;
    st.cfg = cfg;
    if (rc == 4 || rc == -1) {  // the path itself crashes (recorded by the child) or the child died otherwise
      if (rc == -1) {
        bj::object o{{"kind", "crash"}, {"signal", -1}, {"where", bj::object{{"cfg", cfg}, {"u", g.at("u").as_int64()}, {"k", -1}, {"step", -1}, {"phase", "group"}, {"act", bj::object{}}}}};
        std::fprintf(ctx.out, "%s\n", bj::serialize(o).c_str());
      }
      st.skipped += g.at("edges").as_array().size();
      summary(ctx, st);
      continue;
    }
    // some edge step crashed: run every edge of the group in its own child
    for (auto& ev : g.at("edges").as_array()) {
      std::int64_t k = ev.as_object().at("k").as_int64();
      int r2 = forked<Model>(ctx, g, cfg, k, false);
      if (r2 != 0) { st.behaviours++; st.deviations++; }
    }
    summary(ctx, st);
  }
}

int main(int argc, char** argv) {
  ReplayCtx ctx = replay_setup(argc, argv);
  ctx.max_dev_report = 100000;
  if (const char* e = std::getenv("VF_NV")) g_nv = std::atoi(e);
  if (const char* e = std::getenv("VF_HEAVY")) g_heavy = std::atoi(e) != 0;
  g_out = ctx.out;
  for (int s : {SIGSEGV, SIGABRT, SIGFPE, SIGBUS, SIGILL, SIGXCPU}) std::signal(s, on_crash);
#ifdef NDEBUG
  const char* suffix = "/ndebug";
#else
  const char* suffix = "/assert";
#endif
  std::string a = std::string("abstract") + suffix, g = std::string("geometric") + suffix;
  replay_forked<SkblModel<SkblAbstract, false>>(ctx, a.c_str());
  replay_forked<SkblModel<SkblGeometric, true>>(ctx, g.c_str());
  std::fclose(ctx.out);
  return 0;
}
