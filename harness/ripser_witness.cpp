// Standalone witnesses of the two C11 findings (findings/C11.json) against the GUDHI headers:
//   g++ -std=c++17 -I<repo>/src/Ripser/include -I<repo>/src/common/include ripser_witness.cpp -o ripser_witness
//   ./ripser_witness upper     Compressed_distance_matrix<P, UPPER_TRIANGULAR>(const DistanceMatrix&)
//   ./ripser_witness dim       >= 128 vertices and dim_max >= 125 (dimension_t = int8_t)
//   ./ripser_witness mask      (compile with -DGUDHI_FORCE_FAKE_UINT128, the 128-bit integer class of platforms without
//                              unsigned __int128) odd prime and simplices whose encoded index needs more than 64 bits
// Each witness runs in a child process and prints what happened; exit status 1 when a defect shows.
#include <gudhi/ripser.h>

#include <climits>
#include <cstring>
#include <iostream>
#include <string>
#include <sys/wait.h>
#include <unistd.h>

using namespace Gudhi::ripser;
struct DP { typedef int vertex_t; typedef double value_t; };
typedef Compressed_distance_matrix<DP, LOWER_TRIANGULAR> Lower;
typedef Compressed_distance_matrix<DP, UPPER_TRIANGULAR> Upper;
typedef Sparse_distance_matrix<DP> Sparse;

template <class F> static int in_child(const char* what, F f) {
  std::cout << what << ": " << std::flush;
  pid_t pid = fork();
  if (pid == 0) { int rc = f(); std::cout << std::flush; _exit(rc); }
  int st = 0;
  waitpid(pid, &st, 0);
  if (WIFSIGNALED(st)) { std::cout << "killed by signal " << WTERMSIG(st) << " (" << strsignal(WTERMSIG(st)) << ")" << std::endl; return 1; }
  std::cout << std::endl;
  return WEXITSTATUS(st);
}

// 3 points, d(0,1) = 1, d(0,2) = 2, d(1,2) = 3: copy the lower triangular matrix into the upper triangular layout
static int upper() {
  return in_child("Upper(Lower{1,2,3}) then ripser_auto", [] {
    Lower low(std::vector<double>{1, 2, 3});
    Upper up(low);  // writes rows[i][j] for j < i: the rows of the upper layout start at column i + 1, the last one is null
    bool same = true;
    for (int i = 0; i < 3; ++i) for (int j = 0; j < 3; ++j) same = same && up(i, j) == low(i, j);
    std::cout << (same ? "entries copied correctly; " : "entries differ; ");
    int npairs = 0;
    ripser_auto(std::move(up), 1, std::numeric_limits<double>::infinity(), 2, [](int) {}, [&](double b, double d) { if (b < d) { std::cout << "[" << b << "," << d << ") "; ++npairs; } });
    return same && npairs == 3 ? 0 : 1;   // expected: [0,1) [0,2) [0,inf)
  });
}

// a path 0 - 1 - (n-1) on n vertices, as a sparse matrix: H0 = n - 2 components, nothing else, for every dim_max
static int dim_case(int n, int dim_max) {
  std::string what = "sparse path on " + std::to_string(n) + " vertices, dim_max = " + std::to_string(dim_max);
  return in_child(what.c_str(), [=] {
    std::vector<std::vector<Sparse::vertex_diameter_t>> nb(n);
    nb[0].emplace_back(1, 1.); nb[1].emplace_back(0, 1.);
    nb[1].emplace_back(n - 1, 2.); nb[n - 1].emplace_back(1, 2.);
    try {
      int essential = 0, finite = 0, dims = 0;
      ripser_auto(Sparse(std::move(nb)), dim_max, std::numeric_limits<double>::infinity(), 2, [&](int) { ++dims; },
                  [&](double b, double d) { if (d == std::numeric_limits<double>::infinity()) ++essential; else if (b < d) ++finite; });
      std::cout << dims << " dimensions, " << finite << " finite intervals, " << essential << " essential classes";
      return finite == 2 && essential == n - 2 ? 0 : 1;
    } catch (const std::exception& e) {
      std::cout << "exception " << typeid(e).name() << ": " << e.what();
      return 1;
    }
  });
}
static int dim() {
  int bad = 0;
  bad += dim_case(127, 125);       // fine: 126 dimensions
  bad += dim_case(128, 124);       // fine
  bad += dim_case(128, 125);       // SIGSEGV: Cns_encoding's loop counter (int8_t) wraps at 127
  bad += dim_case(128, 126);       // std::length_error: dim_max + 2 = 128 wraps to -128
  bad += dim_case(130, INT_MAX);   // the default of the Python binding: std::length_error (128 -> -128)
  return bad ? 1 : 0;
}

// set_coefficient keeps the index only below bit 64 + bits(p-1) when simplex_t is Fake_uint128: (simplex_t)(-1) is 2^64 - 1
static int mask() {
  int bad = in_child("Rips_filtration::set_coefficient on the index 2^100 (128-bit bit field, p = 3)", [] {
    typedef TParams<true, Gudhi::numbers::uint128_t, double> P;
    typedef Rips_filtration<Sparse, Bitfield_encoding<P>, P> Filt;
    std::vector<std::vector<Sparse::vertex_diameter_t>> nb(512);
    Filt filt(Sparse(std::move(nb)), 10, 1e9, 3);
    Gudhi::numbers::uint128_t idx = (Gudhi::numbers::uint128_t)1 << 100;
    auto e = filt.make_entry(idx, 1);
    filt.set_coefficient(e, 2);
    const bool kept = filt.get_index(e) == idx;
    std::cout << (kept ? "index kept" : "index lost");
    return kept ? 0 : 1;
  });
  // 10 of 262144 vertices (18 bits each: a tetrahedron needs 72 bits), 38 edges, dim_max 5, Z/3
  bad += in_child("ripser_auto, sparse, 262144 vertices, dim_max 5, p = 3", [] {
    static const int E[][3] = {{138972,146000,2},{138972,167988,2},{146000,167988,1},{146000,196159,2},{167988,196159,3},{138972,206542,2},{146000,206542,1},{167988,206542,2},{196159,206542,2},{138972,229162,1},{146000,229162,2},{167988,229162,1},{206542,229162,2},{138972,238259,2},{146000,238259,3},{167988,238259,2},{196159,238259,3},{206542,238259,3},{138972,247950,3},{146000,247950,1},{167988,247950,2},{206542,247950,3},{229162,247950,2},{238259,247950,3},{138972,252238,1},{146000,252238,3},{167988,252238,3},{196159,252238,3},{229162,252238,2},{238259,252238,1},{247950,252238,3},{138972,262143,1},{146000,262143,3},{196159,262143,1},{206542,262143,3},{229162,262143,1},{238259,262143,3},{252238,262143,2}};
    std::vector<std::vector<Sparse::vertex_diameter_t>> nb(262144);
    for (auto& e : E) { nb[e[0]].emplace_back(e[1], double(e[2])); nb[e[1]].emplace_back(e[0], double(e[2])); }
    for (auto& l : nb) std::sort(l.begin(), l.end());
    int cur = -1, shown = 0;
    ripser_auto(Sparse(std::move(nb)), 5, std::numeric_limits<double>::infinity(), 3, [&](int d) { cur = d; },
                [&](double b, double d) { if (b < d && !(cur == 0 && d == std::numeric_limits<double>::infinity())) { std::cout << cur << ":[" << b << "," << d << ") "; ++shown; } });
    return 0;
  });
  return bad ? 1 : 0;
}

int main(int argc, char** argv) {
  const std::string w = argc > 1 ? argv[1] : "all";
  int bad = 0;
  if (w == "upper" || w == "all") bad += upper();
  if (w == "dim" || w == "all") bad += dim();
  if (w == "mask") bad += mask();
  return bad ? 1 : 0;
}
