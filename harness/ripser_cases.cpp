// Spec -> code for C11: runs every CASE emitted by MC_Ripser (TLC) through the real Ripser engine in every form of
// ripser_common.hpp and writes one NDJSON deviation line per mismatch.
//   usage: ripser_cases cases.ndjson out.ndjson [shard nshards]
// A case is a dissimilarity matrix {n, e_set:[{a,b,w}]} with its sub-cases {t, dmax, p, top, diag_set:[{dim,b,d,n}]}
// (t = -1: no threshold; d = 1000000: +infinity; n = multiplicity).
// What is compared (only what is promised):
//   - output_dim is called with 0, 1, .., top in that order (top = max(0, min(dim_max, n-2)): "dgm stops at n-2");
//   - every interval has birth <= death and carries weights of the input;
//   - the bag of the intervals with birth < death (callers drop the empty ones: _ripser.cc, ripser.cc --ratio), each
//     attributed to the dimension announced last, is the diagram of the specification.
// All forms being compared with the same diagram, they agree with each other.
#include "ripser_common.hpp"

#include <climits>

using namespace rips;

static std::FILE* out;
static long n_skipped = 0, n_cases = 0, n_sub = 0, n_eval = 0, n_dev = 0, n_dropped = 0, n_zero_len = 0, n_pairs = 0;
static const long max_dev_lines = 20000;
static std::map<std::string, long> per_form, per_enc;

struct Dev {
  std::string cfg;
  bj::object act;
  bj::array diffs;
  void add(const std::string& path, bj::value exp, bj::value got) {
    if (diffs.size() < 8) diffs.push_back(bj::object{{"path", path}, {"exp", exp}, {"got", got}});
  }
  ~Dev() {
    if (diffs.empty()) return;
    ++n_dev;
    if (n_dev > max_dev_lines) { ++n_dropped; return; }
    bj::object o{{"kind", "deviation"}, {"cfg", cfg}, {"op", "ripser"}, {"act", act}, {"diffs", diffs}};
    std::fprintf(out, "%s\n", bj::serialize(o).c_str());
    std::fflush(out);
  }
};

static void judge(const std::string& form, const Input& in, bool none_as_max, const std::vector<Bar>& expect, int top) {
  std::string cfg = std::string(build_name()) + ":" + form;
  bj::object act = jinput(in);
  act["form"] = form;
  act["none_as_max"] = none_as_max;
  Dev dv{cfg, act};
  ++n_eval; per_form[form]++; per_enc[encoding_of(form, in)]++;
  vf::crash_ctx().where = cfg + " " + bj::serialize(act);
  static std::map<std::string, int> crashes, survived;
  // a form known to crash runs in a child process until it has come back 50 times without crashing (a repaired engine:
  // forking for each of 10^5 sub-cases would take minutes); a later crash is still reported by the crash handler
  const bool iso = needs_isolation(form, in) && survived[form] < 50;
  if (iso && crashes[form] >= 3) { --n_eval; ++n_skipped; return; }   // routed around: the form keeps crashing (known finding)
  Run r = iso ? run_form_isolated(form, in, none_as_max) : run_form(form, in, none_as_max);
  if (iso && r.exception.rfind("crash", 0) == 0) ++crashes[form];
  else if (iso && in.n >= 2) ++survived[form];
  if (!r.exception.empty()) { dv.add("exception", nullptr, bj::value(r.exception)); return; }
  for (auto& pb : r.problems) dv.add("output", nullptr, bj::value(pb));
  std::vector<int> edims;
  for (int d = 0; d <= top; ++d) edims.push_back(d);
  if (r.dims != edims) dv.add("dims", vf::jarr(edims), vf::jarr(r.dims));
  std::vector<Bar> got;
  for (auto& b : r.out) {
    ++n_pairs;
    if (b.d < b.b) { dv.add("negative_interval", "birth <= death", bj::array{b.dim, b.b, b.d}); continue; }
    if (b.d == b.b) { ++n_zero_len; continue; }
    got.push_back(b);
  }
  std::sort(got.begin(), got.end());
  if (got != expect) dv.add("diagram", jbars(expect), jbars(got));
}

static void check_case(const bj::object& c, long idx) {
  Input base;
  base.n = static_cast<int>(c.at("n").as_int64());
  for (auto& e : c.at("e_set").as_array()) {
    auto& o = e.as_object();
    base.edges.push_back(Edge{static_cast<int>(o.at("a").as_int64()), static_cast<int>(o.at("b").as_int64()), o.at("w").as_int64()});
  }
  std::sort(base.edges.begin(), base.edges.end(), [](const Edge& x, const Edge& y) { return std::tie(x.b, x.a) < std::tie(y.b, y.a); });
  base.dense = true;
  realise_on_line(base, base.points);
  long k = 0;
  for (auto& sv : c.at("sub_set").as_array()) {
    auto& s = sv.as_object();
    Input in = base;
    in.t = s.at("t").as_int64();
    in.dmax = static_cast<int>(s.at("dmax").as_int64());
    in.p = static_cast<unsigned>(s.at("p").as_int64());
    const int top = static_cast<int>(s.at("top").as_int64());
    std::vector<Bar> expect;
    for (auto& bv : s.at("diag_set").as_array()) {
      auto& b = bv.as_object();
      for (std::int64_t m = 0; m < b.at("n").as_int64(); ++m)
        expect.push_back(Bar{static_cast<int>(b.at("dim").as_int64()), b.at("b").as_int64(), b.at("d").as_int64()});
    }
    std::sort(expect.begin(), expect.end());
    ++n_sub;
    long f = 0;
    for (auto& form : dense_forms()) {
      ++f;
      if (!applicable(form, in)) continue;
      judge(form, in, ((idx + k + f) & 1) != 0, expect, top);
    }
    if (in.dmax >= in.n - 1) {  // the Python binding's default max_dimension, and the largest dimension_t
      for (int big : {INT_MAX, 127}) {
        Input in2 = in;
        in2.dmax = big;
        judge("auto_userfull", in2, (k & 1) != 0, expect, top);
        judge("auto_sparse", in2, (k & 1) != 0, expect, top);
      }
    }
    ++k;
  }
}

#ifndef RIPS_NO_MAIN
int main(int argc, char** argv) {
#else
int cases_main(int argc, char** argv) {
#endif
  if (argc < 3) { std::cerr << "usage: ripser_cases cases.ndjson out.ndjson [shard nshards]" << std::endl; return 2; }
  int shard = 0, nshards = 1;
  if (argc >= 5) { shard = std::atoi(argv[3]); nshards = std::atoi(argv[4]); }
  out = std::fopen(argv[2], "w");
  if (!out) return 2;
  vf::crash_ctx().out = out;
  vf::install_crash_handlers();
  protect_process();
  std::ifstream in(argv[1]);
  if (!in) { std::cerr << "cannot open " << argv[1] << std::endl; return 2; }
  std::string line;
  long idx = -1;
  while (std::getline(in, line)) {
    if (line.empty()) continue;
    ++idx;
    if (idx % nshards != shard) continue;
    bj::value v = bj::parse(line);
    ++n_cases;
    check_case(v.as_object(), idx);
  }
  bj::object forms, encs;
  for (auto& p : per_form) forms[p.first] = p.second;
  for (auto& p : per_enc) encs[p.first] = p.second;
  bj::object o{{"kind", "summary"}, {"cfg", build_name()}, {"cases", n_cases}, {"subcases", n_sub}, {"evaluations", n_eval}, {"deviations", n_dev},
               {"deviations_dropped", n_dropped}, {"skipped_after_repeated_crash", n_skipped}, {"pairs_reported", n_pairs}, {"zero_length_pairs_reported", n_zero_len},
               {"forms", forms}, {"encodings", encs}};
  std::fprintf(out, "%s\n", bj::serialize(o).c_str());
  std::fclose(out);
  return 0;
}
