// C15: replays the MC_Lifecycle state graph (copy / move / assign / swap / destroy / serialise / text round trip,
// interleaved with mutations) on real Simplex_trees.  Built with ASan+UBSan by the check.  After EVERY step all
// live slots are re-projected, so aliasing between copies shows as a change of a slot the action did not name.
#include "common.hpp"

#include <gudhi/Simplex_tree.h>
#include <sstream>
#include <cstring>
#include <cmath>

using namespace vf;

// A user-defined filtration value (the FiltrationValue concept): a number whose serialised image has a length that
// depends on the value (1 to 3 words after a length prefix), as vector-valued filtrations have.  get_serialization_size()
// must add up the sizes of the values actually stored.
struct VarFV {
  double x = 0;
  VarFV() = default;
  VarFV(double v) : x(v) {}
  explicit operator double() const { return x; }
  std::size_t words() const { return std::isfinite(x) ? 1 + static_cast<std::size_t>(std::llabs(static_cast<long long>(x)) % 3) : 1; }
  friend bool operator<(const VarFV& a, const VarFV& b) { return a.x < b.x; }
  friend bool operator>(const VarFV& a, const VarFV& b) { return a.x > b.x; }
  friend bool operator<=(const VarFV& a, const VarFV& b) { return a.x <= b.x; }
  friend bool operator>=(const VarFV& a, const VarFV& b) { return a.x >= b.x; }
  friend bool operator==(const VarFV& a, const VarFV& b) { return a.x == b.x; }
  friend bool operator!=(const VarFV& a, const VarFV& b) { return a.x != b.x; }
  friend std::ostream& operator<<(std::ostream& os, const VarFV& a) { return os << a.x; }
  friend std::istream& operator>>(std::istream& is, VarFV& a) { return is >> a.x; }
  friend std::size_t get_serialization_size_of(const VarFV& a) { return sizeof(std::size_t) + a.words() * sizeof(double); }
  friend char* serialize_value_to_char_buffer(const VarFV& a, char* start) {
    const std::size_t n = a.words();
    std::memcpy(start, &n, sizeof n);
    start += sizeof n;
    for (std::size_t i = 0; i < n; ++i, start += sizeof(double)) std::memcpy(start, &a.x, sizeof(double));
    return start;
  }
  friend const char* deserialize_value_from_char_buffer(VarFV& a, const char* start) {
    std::size_t n;
    std::memcpy(&n, start, sizeof n);
    start += sizeof n;
    if (n > 0) std::memcpy(&a.x, start, sizeof(double));
    return start + n * sizeof(double);
  }
};
namespace std {
template <> struct numeric_limits<VarFV> {
  static constexpr bool is_specialized = true, has_infinity = true, has_quiet_NaN = false;
  static VarFV infinity() { return VarFV(numeric_limits<double>::infinity()); }
  static VarFV max() { return VarFV(numeric_limits<double>::max()); }
  static VarFV lowest() { return VarFV(numeric_limits<double>::lowest()); }
  static VarFV quiet_NaN() { return VarFV(numeric_limits<double>::quiet_NaN()); }
};
}  // namespace std

template <bool Stable, bool Link, bool Contig, class Filt = double, bool StoreFilt = true>
struct LcOpt {
  typedef Gudhi::linear_indexing_tag Indexing_tag;
  typedef int Vertex_handle;
  typedef Filt Filtration_value;
  typedef std::uint32_t Simplex_key;
  static const bool store_key = true;
  static const bool store_filtration = StoreFilt;
  static const bool contiguous_vertices = Contig;
  static const bool link_nodes_by_label = Link;
  static const bool stable_simplex_handles = Stable;
};

template <class Options>
struct LcModel {
  using ST = Gudhi::Simplex_tree<Options>;
  static constexpr int NS = 3;
  std::unique_ptr<ST> obj[NS + 1];
  std::vector<char> buf;   // last serialised image
  static std::string& cfgname() { static std::string n; return n; }
  static const char* name() { return cfgname().c_str(); }

  bool applicable(const bj::object& act) const {
    if (!Options::store_filtration) {
      auto it = act.find("f");
      if (it != act.end() && it->value().to_number<std::int64_t>() != 0) return false;
    }
    return true;
  }
  bool state_ok(const bj::object& obs) const {
    for (auto& ov : obs.at("objs").as_array()) {
      const bj::object& o = ov.as_object();
      std::set<int> vs;
      for (auto& e : o.at("k_set").as_array()) {
        if (!Options::store_filtration && e.as_object().at("f").to_number<std::int64_t>() != 0) return false;
        for (int v : ints(e.as_object().at("s"))) vs.insert(v);
      }
      if (Options::contiguous_vertices && !vs.empty() && *vs.rbegin() != static_cast<int>(vs.size()) - 1) return false;
    }
    return true;
  }
  void mask(bj::object& o) const {
    if (!Options::store_filtration) for (auto& so : o.at("objs").as_array()) so.as_object().erase("filt");
  }

  bj::object apply(const bj::object& act) {
    std::string op(act.at("op").as_string());
    bj::object out;
    int i = static_cast<int>(act.at("i").to_number<std::int64_t>());
    int j = act.contains("j") ? static_cast<int>(act.at("j").to_number<std::int64_t>()) : 0;
    // The filtration cache is the user's to refresh after insertions / removals (documented); the observation reads
    // filtration_simplex_range() and leaves the cache ALIVE, so that copies, assignments, moves and swaps meet targets and
    // sources with a live cache.
    if (op == "construct") obj[i].reset(new ST());
    else if (op == "insert") { obj[i]->insert_simplex(ints(act.at("s")), static_cast<typename ST::Filtration_value>(act.at("f").to_number<double>())); obj[i]->clear_filtration(); }
    else if (op == "remove") { obj[i]->remove_maximal_simplex(obj[i]->find(ints(act.at("s")))); obj[i]->clear_filtration(); }
    else if (op == "copy_construct") obj[i].reset(new ST(*obj[j]));
    else if (op == "copy_assign") { ST& a = *obj[i]; const ST& b = *obj[j]; a = b; }
    else if (op == "move_construct") obj[i].reset(new ST(std::move(*obj[j])));
    else if (op == "move_assign") *obj[i] = std::move(*obj[j]);
    else if (op == "swap") { using std::swap; swap(*obj[i], *obj[j]); }
    else if (op == "destroy") obj[i].reset();
    else if (op == "serialize") {
      std::size_t sz = obj[i]->get_serialization_size();
      std::unique_ptr<char[]> block(new char[sz]);   // exactly the announced size: ASan guards both ends
      obj[i]->serialize(block.get(), sz);
      buf.assign(block.get(), block.get() + sz);
      out["filled_exactly"] = true;
    } else if (op == "deserialize") {
      long delta = static_cast<long>(act.at("delta").to_number<std::int64_t>());
      long sz = static_cast<long>(buf.size()) + delta;
      if (sz < 0) sz = 0;
      std::unique_ptr<char[]> block(new char[sz > 0 ? sz : 1]);   // exactly the perturbed length
      for (long k = 0; k < sz; ++k) block[k] = k < static_cast<long>(buf.size()) ? buf[k] : 0;
      bool refused = false;
      if (delta == 0) {
        try { obj[i]->deserialize(block.get(), static_cast<std::size_t>(sz)); } catch (const std::exception&) { refused = true; }
        obj[i]->clear_filtration();   // deserialisation inserts simplices
      } else {
        // a wrong length must be refused with an exception without reading outside the block.  The attempt runs in a
        // forked child: if the library reads garbage past the end, whatever it builds from it stays there.
        std::fflush(nullptr);
        pid_t pid = fork();
        if (pid == 0) {
          crash_ctx().out = nullptr;   // a crash here is this experiment's outcome, reported by the parent
      child_watchdog();
          int code = 2;  // accepted
          try { obj[i]->deserialize(block.get(), static_cast<std::size_t>(sz)); } catch (const std::exception&) { code = 0; }
          if (!san_report().empty()) code = 1;  // the sanitizer saw an access outside the block
          _exit(code);
        }
        int status = 0;
        waitpid(pid, &status, 0);
        if (WIFEXITED(status) && WEXITSTATUS(status) == 0) refused = true;
        else if (WIFEXITED(status) && WEXITSTATUS(status) == 1) { refused = true; out["overread"] = "sanitizer: access outside the buffer of the announced length"; }
        else if (WIFEXITED(status) && WEXITSTATUS(status) == 2) refused = false;
        else { refused = true; out["overread"] = "crash while deserialising a buffer of the wrong length"; }
      }
      out["refused"] = refused;
      if (delta != 0) obj[i].reset();   // the target of a refused call is only destroyed
    } else if (op == "text_round_trip") {
      std::stringstream ss;
      obj[i]->clear_filtration();   // documented: the filtration cache has to be refreshed by the user after modifications
      ss << *obj[i];
      ss >> *obj[j];
      obj[j]->clear_filtration();   // operator>> inserts simplices
    } else out["exception"] = "unknown op " + op;
    return out;
  }

  bj::object observe() {
    bj::object o;
    bj::array objs, eqs, failed;
    int ns = 0;
    for (int i = 1; i <= NS; ++i) if (i <= g_slots) ++ns;
    // the comparisons between slots come before the per-slot queries every second observation: dimension() recomputes a
    // stale dimension bound, operator== must not depend on whether that has happened yet on either side
    auto compare_slots = [&]() {
      for (int i = 1; i <= g_slots; ++i) for (int j = i + 1; j <= g_slots; ++j)
        if (obj[i] && obj[j]) {
          bool e1 = (*obj[i] == *obj[j]), e2 = (*obj[j] == *obj[i]), ne = (*obj[i] != *obj[j]);
          if (e1 != e2 || e1 == ne) failed.emplace_back("operator== / != inconsistent");
          eqs.push_back(bj::object{{"i", i}, {"j", j}, {"eq", e1}});
        }
    };
    const bool eq_first = (nobs_++ % 2 == 1);
    if (eq_first) compare_slots();
    for (int i = 1; i <= g_slots; ++i) {
      bj::array k;
      if (obj[i]) {
        const ST& c = *obj[i];
        std::size_t n = 0;
        for (auto sh : c.complex_simplex_range()) {
          std::vector<int> s;
          for (auto v : c.simplex_vertex_range(sh)) s.push_back(v);
          std::sort(s.begin(), s.end());
          k.push_back(bj::object{{"s", jarr(s)}, {"f", fv(static_cast<double>(c.filtration(sh)))}});
          ++n;
        }
        if (n != c.num_simplices()) failed.emplace_back("num_simplices disagrees with the enumeration");
        int D = -1;
        for (auto& e : k) D = std::max<int>(D, static_cast<int>(e.as_object().at("s").as_array().size()) - 1);
        if (obj[i]->dimension() != D) failed.emplace_back("dimension() of slot " + std::to_string(i) + " is " + std::to_string(obj[i]->dimension()) + ", complex has " + std::to_string(D));
      }
      bj::array fl;
      if (obj[i]) {
        if constexpr (Options::store_filtration) {
          for (auto sh : obj[i]->filtration_simplex_range()) {
            std::vector<int> sv;
            for (auto v : obj[i]->simplex_vertex_range(sh)) sv.push_back(v);
            std::sort(sv.begin(), sv.end());
            fl.push_back(jarr(sv));
          }
        }
      }
      bj::object so{{"live", static_cast<bool>(obj[i])}, {"k_set", k}};
      if (Options::store_filtration) so["filt"] = fl;
      objs.push_back(so);
    }
    if (!eq_first) compare_slots();
    o["objs"] = objs;
    o["eq_set"] = eqs;
    o["checks_failed"] = failed;
    return o;
  }
  static inline unsigned nobs_ = 0;   // process-wide: a fresh model object is built for every behaviour
  static int g_slots;
};
template <class O> int LcModel<O>::g_slots = 2;

template <class O>
void run(ReplayCtx& ctx, const char* oname) {
  LcModel<O>::cfgname() = oname;
  if (const char* e = std::getenv("VF_SLOTS")) LcModel<O>::g_slots = std::atoi(e);
  replay_config<LcModel<O>>(ctx);
}

int main(int argc, char** argv) {
  ReplayCtx ctx = replay_setup(argc, argv);
#if VF_GROUP == 0
  run<Gudhi::Simplex_tree_options_default>(ctx, "default");
  run<Gudhi::Simplex_tree_options_full_featured>(ctx, "full_featured");
  run<Gudhi::Simplex_tree_options_fast_persistence>(ctx, "fast_persistence");
  run<Gudhi::Simplex_tree_options_minimal>(ctx, "minimal");
#elif VF_GROUP == 1
  run<LcOpt<false, true, false>>(ctx, "S0L1C0");
  run<LcOpt<true, false, false>>(ctx, "S1L0C0");
  run<LcOpt<false, false, true>>(ctx, "S0L0C1");
  run<LcOpt<true, true, true>>(ctx, "S1L1C1");
  run<LcOpt<false, false, false, VarFV>>(ctx, "S0L0C0_varfil");
#endif
  std::fclose(ctx.out);
  return 0;
}
