// usage: zz_harness states.ndjson groups.ndjson out.ndjson [shard nshards]     (replay)
//        zz_harness record <outdir> <seed> <executions> <steps>                (recording, see zz_record.hpp)
// Replays every transition of the MC_Zigzag state graph (tree of all bounded zigzag sequences) on the real
// Zigzag_persistence / Filtered_zigzag_persistence / Filtered_zigzag_persistence_with_storage, for the column
// types of this binary (VF_GROUP) and every configuration (value schedule x key map x ignoreCyclesAboveDim).
#include "zz_model.hpp"
#include "zz_record.hpp"

using namespace vf;

template <CT ct>
void run_ct(ReplayCtx& ctx) {
  std::string c = ct_name(ct);
  ZzPlain<ct>::cfgname() = "plain/" + c;
  replay_config<ZzPlain<ct>>(ctx);
  int n = 0;
  for (const char* sched : {"inc", "dec", "mix", "dinf"})
    for (const char* km : {"fresh", "simp"}) {
      if (std::string(sched) == "dinf" && std::string(km) == "simp") continue;
      ZzCfg& g = zz_cfg();
      g = ZzCfg();
      g.sched = sched;
      g.keymap = km;
      g.reverse_bd = (n++ % 2) == 1;
      g.name = "filtered/" + c + "/" + sched + "/" + km;
      replay_config<ZzFiltered<ct>>(ctx);
    }
  struct S { const char* sched; int D; double shortest; const char* km; };
  for (S s : {S{"inc", -1, 0, "fresh"}, S{"dec", -1, 0, "simp"}, S{"mix", -1, 0, "simp"}, S{"inc", 1, 0, "simp"},
              S{"dec", 2, 0, "fresh"}, S{"mix", 1, 1, "fresh"}, S{"dinf", -1, 0, "fresh"}}) {
    ZzCfg& g = zz_cfg();
    g = ZzCfg();
    g.sched = s.sched;
    g.D = s.D;
    g.shortest = s.shortest;
    g.keymap = s.km;
    g.reverse_bd = (n++ % 2) == 1;
    g.name = "storage/" + c + "/" + s.sched + "/D" + dname(s.D) + "/" + s.km;
    replay_config<ZzStorage<ct>>(ctx);
  }
}

template <CT a, CT b>
int run_group(int argc, char** argv) {
  if (argc >= 6 && std::string(argv[1]) == "record") {
    std::string outdir = argv[2];
    std::uint64_t seed = std::strtoull(argv[3], nullptr, 10);
    int executions = std::atoi(argv[4]), steps = std::atoi(argv[5]);
    std::FILE* cf = std::fopen((outdir + "/crash_" + ct_name(a) + ".ndjson").c_str(), "w");
    crash_ctx().out = cf;
    install_crash_handlers();
    record_ct<a>(outdir, seed, executions, steps);
    record_ct<b>(outdir, seed, executions, steps);
    std::fclose(cf);
    return 0;
  }
  ReplayCtx ctx = replay_setup(argc, argv);
  run_ct<a>(ctx);
  run_ct<b>(ctx);
  std::fclose(ctx.out);
  return 0;
}

int main(int argc, char** argv) {
#if VF_GROUP == 0
  return run_group<CT::NAIVE_VECTOR, CT::LIST>(argc, argv);
#elif VF_GROUP == 1
  return run_group<CT::SET, CT::VECTOR>(argc, argv);
#elif VF_GROUP == 2
  return run_group<CT::INTRUSIVE_LIST, CT::SMALL_VECTOR>(argc, argv);
#else
  return run_group<CT::INTRUSIVE_SET, CT::UNORDERED_SET>(argc, argv);
#endif
}
