// Code -> spec for C20: drives the real Freudenthal / Coxeter triangulations and permutahedral representations
// with random inputs larger than the TLC bound (ambient dimension up to 7) and logs one NDJSON event per call,
// integers only (dyadic values scaled by a logged power of two).  Trace_Permutahedral.tla must accept every line.
//   usage: perm_record out.ndjson seed nevents
#include "perm_common.hpp"

using namespace perm;
using Rng = std::mt19937_64;

static int rnd(Rng& g, int lo, int hi) { return lo + static_cast<int>(g() % static_cast<unsigned long>(hi - lo + 1)); }

static Simplex random_simplex(Rng& g, int d, int max_parts = 100) {
  Vertex v(d);
  for (auto& x : v) x = rnd(g, -3, 3);
  int m = rnd(g, 1, std::min(d + 1, max_parts));
  std::vector<int> blk(d + 1);
  for (auto& b : blk) b = rnd(g, 0, m - 1);
  Partition p(m);
  for (int i = 0; i <= d; ++i) p[blk[i]].push_back(i);
  p.erase(std::remove_if(p.begin(), p.end(), [](const Part& q) { return q.empty(); }), p.end());
  for (auto& q : p)
    if (std::find(q.begin(), q.end(), static_cast<std::size_t>(d)) != q.end()) { std::swap(q, p.back()); break; }
  for (auto& q : p) std::shuffle(q.begin(), q.end(), g);  // the order inside a part is free
  return Simplex(v, p);
}

static bj::value jlist(const std::vector<Simplex>& v) {
  bj::array a;
  for (auto& s : v) a.push_back(jsimplex(s));
  return a;
}

static long skipped_inexact = 0;

static void ev_locate_exact(Rng& g, vf::Trace& tr) {
  const int d = rnd(g, 1, 6);
  const int Sexp = rnd(g, 2, 4), S = 1 << Sexp;
  // reference point with ties between fractional parts
  std::vector<int> pool(rnd(g, 1, d));
  for (auto& x : pool) x = rnd(g, 0, 3) == 0 ? 0 : rnd(g, 0, S - 1);
  std::vector<int> y(d);
  for (auto& x : y) x = S * rnd(g, -3, 3) + pool[rnd(g, 0, static_cast<int>(pool.size()) - 1)];
  // triangulation
  const int kind = rnd(g, 0, 3);  // 0: Freudenthal_triangulation(d); 1: (d, matrix); 2: (d, matrix, offset); 3: change_*
  const int mden = 4, Q = 256, qexp = 8;
  std::vector<int> col(d), mnum(d), b(d, 0);
  for (int i = 0; i < d; ++i) { col[i] = i; mnum[i] = mden; }
  Eigen::MatrixXd M = Eigen::MatrixXd::Identity(d, d);
  Eigen::VectorXd off = Eigen::VectorXd::Zero(d);
  if (kind != 0) {
    std::shuffle(col.begin(), col.end(), g);
    M.setZero();
    for (int i = 0; i < d; ++i) {
      int e = rnd(g, -2, 3);
      int sgn = rnd(g, 0, 1) ? 1 : -1;
      mnum[i] = sgn * (1 << (e + 2));
      M(i, col[i]) = static_cast<double>(mnum[i]) / mden;
    }
    if (kind != 1)
      for (int i = 0; i < d; ++i) { b[i] = rnd(g, -128, 128) * 8; off(i) = static_cast<double>(b[i]) / Q; }
  }
  static const int sns[] = {1, 1, 2, 4}, sds[] = {2, 1, 1, 1};
  const int si = rnd(g, 0, 3);
  const double scale = static_cast<double>(sns[si]) / sds[si];
  FK t = kind == 0 ? FK(d) : kind == 1 ? FK(d, M) : kind == 2 ? FK(d, M, off) : FK(d);
  if (kind == 3) { t.change_matrix(M); t.change_offset(off); }
  Eigen::VectorXd yref(d);
  for (int i = 0; i < d; ++i) yref(i) = static_cast<double>(y[i]) / S;
  Eigen::VectorXd pv = t.matrix() * (yref / scale) + t.offset();
  bool ok = true;
  if (kind == 0) {
    for (int i = 0; i < d; ++i) ok = ok && (scale * pv(i) == yref(i));
  } else {
    Eigen::MatrixXd m = t.matrix();
    Eigen::VectorXd x = m.colPivHouseholderQr().solve(pv - t.offset());
    for (int i = 0; i < d; ++i) ok = ok && (scale * x(i) == yref(i));
  }
  if (!ok) { ++skipped_inexact; return; }  // the library's reference coordinates are not exactly y: not judged
  std::vector<double> pt(pv.data(), pv.data() + d);
  Simplex s = t.locate_point(pt, scale);
  bj::object e{{"op", "locate"}, {"kind", kind}, {"d", d}, {"S", S}, {"y", vf::jarr(y)}, {"sn", sns[si]}, {"sd", sds[si]},
               {"mden", mden}, {"Q", Q}, {"mnum", vf::jarr(mnum)}, {"b", vf::jarr(b)}};
  bj::array c1;
  for (int i = 0; i < d; ++i) c1.push_back(col[i] + 1);
  e["col"] = c1;
  bj::array jp;
  for (int i = 0; i < d; ++i) jp.push_back(scaled_exact(pt[i], qexp, "point"));
  e["pt"] = jp;
  e["ret"] = jsimplex(s);
  std::vector<Vertex> vl = vertex_list(s);
  e["verts"] = jvlist(vl);
  bj::array carts;
  bool on_lattice = true;
  for (auto& v : vl) {
    Eigen::VectorXd c = t.cartesian_coordinates(v, scale);
    bj::array a;
    for (int i = 0; i < d; ++i) a.push_back(scaled_near(c(i), qexp, on_lattice));
    carts.push_back(a);
  }
  e["cart"] = carts;
  const std::size_t nv = s.dimension() + 1;
  if (nv == 1 || nv == 2 || nv == 4 || nv == 8) {  // 1/(dim+1) is exact only for powers of two
    Eigen::VectorXd bc = t.barycenter(s, scale);
    bj::array a;
    for (int i = 0; i < d; ++i) a.push_back(scaled_near(bc(i), qexp + 3, on_lattice));
    e["bary8"] = a;  // barycenter scaled by 8 * Q
  }
  if (!on_lattice) e["off_lattice"] = true;
  tr.emit(e);
}

static void ev_locate_margin(Rng& g, vf::Trace& tr) {
  const int d = rnd(g, 1, 6);
  const int S = 16;
  // distinct non-zero fractional parts: at distance >= 1/16 from every wall of the triangulation
  std::vector<int> fr(S - 1);
  std::iota(fr.begin(), fr.end(), 1);
  std::shuffle(fr.begin(), fr.end(), g);
  std::vector<int> y(d);
  for (int i = 0; i < d; ++i) y[i] = S * rnd(g, -3, 3) + fr[i];
  const int kind = rnd(g, 0, 2);
  static const int sns[] = {1, 2}, sds[] = {1, 1};
  const int si = rnd(g, 0, 1);
  const double scale = static_cast<double>(sns[si]) / sds[si];
  Eigen::VectorXd off(d);
  for (int i = 0; i < d; ++i) off(i) = rnd(g, -32, 32) / 8.0;
  Eigen::MatrixXd M = Eigen::MatrixXd::Identity(d, d);
  if (kind == 2) {  // product of a few integer shears (unimodular)
    for (int r = 0; r < d; ++r) {
      int i = rnd(g, 0, d - 1), j = rnd(g, 0, d - 1);
      if (i == j) continue;
      Eigen::MatrixXd E = Eigen::MatrixXd::Identity(d, d);
      E(i, j) = rnd(g, 0, 1) ? 1 : -1;
      M = E * M;
    }
  }
  FK t = kind == 0 ? FK(Cox(d)) : kind == 1 ? FK(Cox(d)) : FK(d, M, off);
  if (kind == 1) t.change_offset(off);
  Eigen::VectorXd yref(d);
  for (int i = 0; i < d; ++i) yref(i) = static_cast<double>(y[i]) / S;
  Eigen::VectorXd pv = t.matrix() * (yref / scale) + t.offset();
  std::vector<double> pt(pv.data(), pv.data() + d);
  Simplex s = t.locate_point(pt, scale);
  bj::object e{{"op", "locate_margin"}, {"kind", kind}, {"d", d}, {"S", S}, {"y", vf::jarr(y)}};
  e["ret"] = jsimplex(s);
  e["verts"] = jvlist(vertex_list(s));
  tr.emit(e);
}

static void ev_faces(Rng& g, vf::Trace& tr) {
  const int d = rnd(g, 3, 7);
  Simplex s = random_simplex(g, d);
  const int k = rnd(g, 0, static_cast<int>(s.dimension()));
  std::vector<Simplex> fs;
  const bool facets = (k + 1 == static_cast<int>(s.dimension())) && rnd(g, 0, 1);
  if (facets) for (auto& f : s.facet_range()) fs.push_back(f);
  else for (auto& f : s.face_range(k)) fs.push_back(f);
  bj::object e{{"op", "faces"}, {"d", d}, {"s", jsimplex(s)}, {"k", k}, {"via", facets ? "facet_range" : "face_range"}};
  e["faces"] = jlist(fs);
  e["verts"] = jvlist(vertex_list(s));
  tr.emit(e);
}

static void ev_cofaces(Rng& g, vf::Trace& tr) {
  const int d = rnd(g, 3, 7);
  for (int attempt = 0; attempt < 20; ++attempt) {
    Simplex s = random_simplex(g, d);
    const int k = static_cast<int>(s.dimension());
    const int l = std::min(d, k + rnd(g, 0, 2));
    std::vector<Simplex> cs;
    const bool cofacets = (l == k + 1) && rnd(g, 0, 1);
    std::size_t n = 0;
    bool too_many = false;
    if (cofacets) { for (auto& t : s.cofacet_range()) { cs.push_back(t); if (++n > 700) { too_many = true; break; } } }
    else { for (auto& t : s.coface_range(l)) { cs.push_back(t); if (++n > 700) { too_many = true; break; } } }
    if (too_many) continue;  // too large to log; another simplex is drawn (counted nowhere: not judged)
    bj::object e{{"op", "cofaces"}, {"d", d}, {"s", jsimplex(s)}, {"l", l}, {"via", cofacets ? "cofacet_range" : "coface_range"}};
    e["cofaces"] = jlist(cs);
    tr.emit(e);
    return;
  }
}

static void ev_is_face_of(Rng& g, vf::Trace& tr) {
  const int d = rnd(g, 2, 7);
  Simplex s = random_simplex(g, d);
  Simplex t = s;
  const int how = rnd(g, 0, 5);
  auto pick = [&](std::vector<Simplex>& v) { if (!v.empty()) t = v[g() % v.size()]; };
  if (how == 0) {  // a coface
    int l = std::min(d, static_cast<int>(s.dimension()) + rnd(g, 1, 2));
    std::vector<Simplex> v;
    std::size_t n = 0;
    for (auto& c : s.coface_range(l)) { v.push_back(c); if (++n > 300) break; }
    pick(v);
  } else if (how == 1) {  // a face
    std::vector<Simplex> v;
    for (auto& f : s.face_range(rnd(g, 0, static_cast<int>(s.dimension())))) v.push_back(f);
    pick(v);
  } else if (how == 2) {  // a coface moved by one unit
    int l = std::min(d, static_cast<int>(s.dimension()) + 1);
    std::vector<Simplex> v;
    std::size_t n = 0;
    for (auto& c : s.coface_range(l)) { v.push_back(c); if (++n > 300) break; }
    pick(v);
    t.vertex()[rnd(g, 0, d - 1)] += rnd(g, 0, 1) ? 1 : -1;
  } else if (how == 3) {  // same cube, another partition
    t = random_simplex(g, d);
    t.vertex() = s.vertex();
  } else if (how == 4) {  // neighbouring cube
    t = random_simplex(g, d);
    t.vertex() = s.vertex();
    for (auto& x : t.vertex()) x += rnd(g, -1, 0);
  }  // how == 5: the simplex itself
  bj::object e{{"op", "is_face_of"}, {"d", d}, {"s", jsimplex(s)}, {"t", jsimplex(t)}};
  e["st"] = s.is_face_of(t);
  e["ts"] = t.is_face_of(s);
  e["eq"] = (s == t);
  tr.emit(e);
}

int main(int argc, char** argv) {
  if (argc < 4) { std::cerr << "usage: perm_record out.ndjson seed nevents" << std::endl; return 2; }
  vf::Trace tr(argv[1]);
  Rng g(std::strtoull(argv[2], nullptr, 10) * 7919u + 13u);
  const long n = std::atol(argv[3]);
  vf::install_crash_handlers();
  while (tr.n < n) {
    switch (rnd(g, 0, 9)) {
      case 0: case 1: case 2: case 3: ev_locate_exact(g, tr); break;
      case 4: case 5: ev_locate_margin(g, tr); break;
      case 6: ev_faces(g, tr); break;
      case 7: ev_cofaces(g, tr); break;
      default: ev_is_face_of(g, tr); break;
    }
  }
  std::cerr << "perm_record: " << tr.n << " events, skipped_inexact=" << skipped_inexact << std::endl;
  std::printf("{\"events\":%ld,\"skipped_inexact\":%ld}\n", tr.n, skipped_inexact);
  return 0;
}
