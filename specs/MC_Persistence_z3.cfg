SPECIFICATION Spec
CONSTANTS
  P = 3
  MaxCells = 5
  MaxD = 2
  AllowEmptyBd = TRUE
INVARIANT InvWellFormed
INVARIANT InvDefEqAlg
INVARIANT InvBetti
INVARIANT InvPartition
CHECK_DEADLOCK FALSE
