---------------------------- MODULE CompressedMatrix ----------------------------
(* Column-compressed "basic" matrix (has_column_compression,                   *)
(* Base_matrix_with_column_compression.h): a DenseMatrix without holes in      *)
(* which identical columns are compressed together.  "Any addition made onto a *)
(* column will be performed at the same time on all other identical columns":  *)
(* `cls` maps every column to (the smallest index of) its class; an addition   *)
(* onto a column acts on its whole class, and a class whose content becomes    *)
(* equal to the content of another class is merged with it.  Only insertion at *)
(* the end and the additions are available (Matrix.h).  Zero columns: each     *)
(* inserted zero column is a class of its own, a class that becomes zero stays *)
(* one class (the union-find of the implementation); an addition onto a zero   *)
(* column is only generated when all zero columns form one class, where this   *)
(* reading and "all identical columns are compressed" agree.                   *)
EXTENDS DenseMatrix

VARIABLE cls      \* [Live -> Live], class representative = smallest member

ClassOf(t) == {j \in Live : cls[j] = cls[t]}
MinOf(S) == CHOOSE m \in S : \A x \in S : m <= x

CTypeOK == /\ TypeOK
           /\ Live = 0..(next - 1)
           /\ cls \in [Live -> Live]

CInit == Init /\ cls = <<>>

CInsertColumn(v) ==
  /\ next < NC
  /\ cols' = (next :> v) @@ cols
  /\ cls' = IF v # ZeroV /\ \E j \in Live : cols[j] = v
              THEN (next :> cls[CHOOSE j \in Live : cols[j] = v]) @@ cls
              ELSE (next :> next) @@ cls
  /\ next' = next + 1
  /\ UNCHANGED pend
  /\ act' = [op |-> "insert", v |-> VT(v)]

(* the class of t takes the content w; merge with the class that already has it *)
ZeroTargetOK(t) == cols[t] = ZeroV => \A j \in Live : cols[j] = ZeroV => cls[j] = cls[t]
CSet(t, w) ==
  LET T == ClassOf(t)
      others == {j \in Live \ T : cols[j] = w}
      U == IF w # ZeroV /\ others # {} THEN T \cup ClassOf(CHOOSE j \in others : TRUE) ELSE T
  IN /\ ZeroTargetOK(t)
     /\ cols' = [j \in Live |-> IF j \in T THEN w ELSE cols[j]]
     /\ cls' = [j \in Live |-> IF j \in U THEN MinOf(U) ELSE cls[j]]
     /\ UNCHANGED <<next, pend>>

CAddTo(s, t) ==
   /\ s \in Live /\ t \in Live     \* s = t allowed: a column may be added to itself
  /\ CSet(t, AddV(cols[t], cols[s]))
  /\ act' = [op |-> "add", s |-> s, t |-> t]
CAddRangeTo(v, t, o) ==
  /\ t \in Live
  /\ CSet(t, AddV(cols[t], v))
  /\ act' = [op |-> "add_r", v |-> VT(v), t |-> t, o |-> o]
CMulTargetAndAdd(s, c, t) ==
   /\ s \in Live /\ t \in Live     \* s = t allowed: a column may be added to itself
  /\ CSet(t, AddV(ScaleV(c, cols[t]), cols[s]))
  /\ act' = [op |-> "mta", s |-> s, c |-> c, t |-> t]
CMulTargetAndAddRange(v, c, t, o) ==
  /\ t \in Live
  /\ CSet(t, AddV(ScaleV(c, cols[t]), v))
  /\ act' = [op |-> "mta_r", v |-> VT(v), c |-> c, t |-> t, o |-> o]
CMulSourceAndAdd(c, s, t) ==
   /\ s \in Live /\ t \in Live     \* s = t allowed: a column may be added to itself
  /\ CSet(t, AddV(cols[t], ScaleV(c, cols[s])))
  /\ act' = [op |-> "msa", s |-> s, c |-> c, t |-> t]
CMulSourceAndAddRange(c, v, t, o) ==
  /\ t \in Live
  /\ CSet(t, AddV(cols[t], ScaleV(c, v)))
  /\ act' = [op |-> "msa_r", v |-> VT(v), c |-> c, t |-> t, o |-> o]

CEraseEmptyRow(r) ==
  /\ EraseEmptyRow(r)
  /\ UNCHANGED cls

(* get_row of the compressed matrix: one entry per class ("the row will be from *)
(* the compressed matrix, that is, the one with only unique columns")           *)
CRowEntries(r) == {<<cls[i], cols[i][r]>> : i \in {j \in Live : cols[j][r] # 0}}

-----------------------------------------------------------------------------
(* in-model theorems: cls really is the compression of cols *)
InvClassContent == \A i, j \in Live : cls[i] = cls[j] => cols[i] = cols[j]
InvCompressed   == \A i, j \in Live : (cols[i] = cols[j] /\ cols[i] # ZeroV) => cls[i] = cls[j]
InvClsIsMin     == \A i \in Live : cls[i] = MinOf(ClassOf(i))
=============================================================================
