SPECIFICATION SpecContract
CONSTANTS
  NV = 5
  MaxLoadBlockers = 2
  Heavy = FALSE
VIEW ViewContract
INVARIANT TypeOK
INVARIANT EmitState
ACTION_CONSTRAINT EmitEdge
CHECK_DEADLOCK FALSE
