------------------------- MODULE Trace_SkeletonBlocker -------------------------
(* Validates executions recorded from real Skeleton_blocker_complex objects     *)
(* (harness/skbl_record) against the actions of SkeletonBlocker.tla: every      *)
(* logged call must be an enabled action (documented precondition) and every    *)
(* logged observation must be the derived value in the successor state.  For a  *)
(* contraction that satisfied the link condition the Betti numbers over Z_2 and  *)
(* the Euler characteristic of the LOGGED simplex sets before and after are     *)
(* compared (polynomial operator, validated against the definition in the       *)
(* bounded model).                                                              *)
(* A file holds many executions separated by "reset" events.  A line that is    *)
(* not accepted ends its execution: validation resumes at the next reset, and   *)
(* the accepted lines are printed as <<"OK", line>>, so one run reports every   *)
(* rejected execution.  TRACE=<file.ndjson> in the environment.                 *)
EXTENDS SkeletonBlocker, Json, IOUtils

VARIABLE l
Tr == ndJsonDeserialize(IOEnv.TRACE)

SetOf(q) == {q[i] : i \in DOMAIN q}
SoS(q)   == {SetOf(q[i]) : i \in DOMAIN q}
NoDup(q, S) == Len(q) = Cardinality(S)
Has(e, k) == k \in DOMAIN e
D == NV - 1

EdgePairs(C) == {p \in Verts(C) \X Verts(C) : p[1] # p[2] /\ {p[1], p[2]} \in C}

ObsOK(o, C) ==
  /\ SoS(o.k_set) = C /\ NoDup(o.k_set, C)
  /\ SoS(o.blockers_set) = Blockers(C) /\ NoDup(o.blockers_set, Blockers(C))
  /\ o.nv = Cardinality(Verts(C)) /\ o.ne = Cardinality(EdgesOf(C)) /\ o.nb = Cardinality(Blockers(C))
  /\ o.ns = Cardinality(C) /\ o.ntri = Cardinality(CellsK(C, 2)) /\ o.ncc = NumCC(C)
  /\ o.nsd = [d \in 1..NV |-> Cardinality(CellsK(C, d - 1))]
  /\ o.complete = Complete(C) /\ o.empty = (Verts(C) = {}) /\ o.is_cone = IsCone(C)
  /\ SetOf(o.vertices_set) = Verts(C)
  /\ SoS(o.edges_set) = EdgesOf(C) /\ NoDup(o.edges_set, EdgesOf(C))
  /\ SoS(o.tri_set) = CellsK(C, 2) /\ NoDup(o.tri_set, CellsK(C, 2))
  /\ {o.deg_set[i].v : i \in DOMAIN o.deg_set} = Verts(C)
  /\ \A i \in DOMAIN o.deg_set : o.deg_set[i].d = Degree(C, o.deg_set[i].v)
  /\ {<<o.lc_set[i].a, o.lc_set[i].b>> : i \in DOMAIN o.lc_set} = EdgePairs(C)
  /\ \A i \in DOMAIN o.lc_set : o.lc_set[i].lc = LinkCond(C, o.lc_set[i].a, o.lc_set[i].b)
  /\ {o.star_set[i].s : i \in DOMAIN o.star_set} = Verts(C)
  /\ \A i \in DOMAIN o.star_set : SoS(o.star_set[i].t_set) = StarC(C, {o.star_set[i].s})
  /\ {o.bv_set[i].s : i \in DOMAIN o.bv_set} = Verts(C)
  /\ \A i \in DOMAIN o.bv_set : SoS(o.bv_set[i].t_set) = {B \in Blockers(C) : o.bv_set[i].s \in B}
  /\ {SetOf(o.cob_set[i].s) : i \in DOMAIN o.cob_set} = C
  /\ \A i \in DOMAIN o.cob_set : SoS(o.cob_set[i].t_set) = CoboundaryC(C, SetOf(o.cob_set[i].s))
  /\ {SetOf(o.link_set[i].s) : i \in DOMAIN o.link_set} = {s \in C : Dim(s) <= 1}
  /\ \A i \in DOMAIN o.link_set :
        LET L == LinkC(C, SetOf(o.link_set[i].s))
        IN  SoS(o.link_set[i].t_set) = L /\ SoS(o.link_set[i].b_set) = Blockers(L)
  /\ o.checks_failed = <<>>

(* homotopy type across a contraction, on the logged complexes                  *)
HomotopyOK(e, Cbefore) ==
  (e.op = "contract" /\ e.lc) =>
     LET Cafter == SoS(e.obs.k_set)
     IN  BettiAlgSeq(Cafter, D) = BettiAlgSeq(Cbefore, D) /\ Euler(Cafter) = Euler(Cbefore)

Step(e) ==
  /\ ~Has(e, "crash")
  /\ \/ /\ e.op = "reset" /\ n' = 0 /\ K' = {} /\ act' = [op |-> "reset"]
     \/ /\ e.op = "add_vertex" /\ AddVertex /\ act'.ret = e.ret
     \/ /\ e.op = "add_edge" /\ AddEdge(e.a, e.b)
     \/ /\ e.op = "add_edge_wb" /\ AddEdgeWB(e.a, e.b)
     \/ /\ e.op = "add_edges" /\ AddEdges(SetOf(e.s))
     \/ /\ e.op = "add_simplex" /\ AddSimplex(SetOf(e.s))
     \/ /\ e.op = "remove_star" /\ RemoveStar(SetOf(e.s), e.via)
     \/ /\ e.op = "remove_edge" /\ RemoveEdge(e.a, e.b, e.via)
     \/ /\ e.op = "remove_vertex" /\ RemoveVertex(e.v)
     \/ /\ e.op = "contract" /\ ContractEdge(e.a, e.b, e.via) /\ act'.lc = e.lc
     \/ /\ e.op = "keep_only_vertices" /\ KeepOnlyVertices
     \/ /\ e.op = "remove_blockers" /\ RemoveBlockers
     \/ /\ e.op = "clear" /\ Clear

RECURSIVE NextReset(_)
NextReset(i) == IF i > Len(Tr) THEN i ELSE IF Tr[i].op = "reset" THEN i ELSE NextReset(i + 1)

Match == /\ Step(Tr[l])
         /\ ObsOK(Tr[l].obs, K')
         /\ HomotopyOK(Tr[l], K)
         /\ l' = l + 1
         /\ PrintT(<<"OK", ToJson([l |-> l])>>)
Skip  == /\ Tr[l].op # "reset"
         /\ l' = NextReset(l + 1)
         /\ UNCHANGED <<n, K>>
         /\ act' = [op |-> "skip"]

TraceInit == n = 0 /\ K = {} /\ act = [op |-> "init"] /\ l = 1
TraceNext == l <= Len(Tr) /\ (Match \/ Skip)
TraceSpec == TraceInit /\ [][TraceNext]_<<n, K, act, l>>
TraceView == <<n, K, l>>

Verdict == PrintT(<<"TRACE", ToJson([len |-> Len(Tr), generated |-> TLCGet("stats").generated])>>)
=============================================================================
