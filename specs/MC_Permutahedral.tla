--------------------------- MODULE MC_Permutahedral ---------------------------
(* Bounded model of Permutahedral.tla in "cases" style.  One state per case:   *)
(*   Mode = "faces"  : every ordered partition of 0..D at every base vertex in  *)
(*                     Bases (canonical ones: faces, cofaces, face relation in a *)
(*                     neighbourhood; non canonical ones: vertices and faces)    *)
(*   Mode = "locate" : every point of (1/S)Z^D in [-LoNeg, Hi]^D                     *)
(* INVARIANT EmitCase prints the case with everything the specification says    *)
(* about it; the other invariants are the in-model theorems.                     *)
EXTENDS Permutahedral, Json, TLC

CONSTANTS D,        \* ambient dimension
          Mode,     \* "faces" | "locate"
          NBases,   \* number of base vertices used (1: the origin, 2: also (3,-2,1,-4,..))
          NonCanon, \* also emit the non canonical representations (vertices and faces only)
          S, LoNeg, Hi,\* lattice (1/S)Z in [-LoNeg, Hi]
          Wide      \* check the wide coface theorem (expensive)

VARIABLE c
AllBases == <<(<<0, 0, 0, 0, 0, 0>>), (<<3, -2, 1, -4, 2, -1>>)>>
Bases == {AllBases[i] : i \in 1..NBases}
Base(b) == [i \in 1..D |-> b[i]]
AllParts == IF NonCanon THEN OrdPartitions(0..D) ELSE CanonPartitions(D)
FaceCases == {[v |-> Base(b), p |-> p] : b \in Bases, p \in AllParts}
LocCases  == [1..D -> (-(LoNeg * S))..(Hi * S)]

Init == c \in (IF Mode = "faces" THEN FaceCases ELSE LocCases)
Next == UNCHANGED c
Spec == Init /\ [][Next]_c

(* ------------------------------------------------------------------ emission *)
SJ(s) == [v |-> s.v, p |-> s.p, vs |-> VertexSet(D, s)]

FaceCase(s) ==
  LET canon == IsCanonical(D, s.p) IN
  [kind |-> "simplex", d |-> D, s |-> [v |-> s.v, p |-> s.p], canon |-> canon, dim |-> Dim(s),
   vertices |-> VertexSet(D, s),
   faces |-> [j \in 1..(Dim(s) + 1) |-> [k |-> j - 1, f |-> {SJ(f) : f \in FacesOfDim(D, s, j - 1)}]],
   cofaces |-> IF canon THEN [j \in 1..(D - Dim(s) + 1) |->
                                 [l |-> Dim(s) + j - 1, f |-> {SJ(f) : f \in Cofaces(D, s, Dim(s) + j - 1)}]]
               ELSE <<>>]

LocCase(y) == [kind |-> "locate", d |-> D, S |-> S, y |-> y, expect |-> Locate(D, S, y)]

EmitCase == PrintT(<<"CASE", ToJson(IF Mode = "faces" THEN FaceCase(c) ELSE LocCase(c))>>)

(* the neighbourhood in which is_face_of is compared, relative to the base vertex *)
ASSUME Mode = "faces" => PrintT(<<"CASE", ToJson([kind |-> "universe", d |-> D, lo |-> -1, hi |-> 1,
                                                   parts |-> CanonPartitions(D)])>>)

(* ------------------------------------------------------------------ in-model theorems *)
RECURSIVE Fact(_)
Fact(n) == IF n = 0 THEN 1 ELSE n * Fact(n - 1)
Binom(n, k) == Fact(n) \div (Fact(k) * Fact(n - k))

ThVertices ==   \* dimension + 1 distinct vertices, a chain in one unit cube, v minimal iff canonical
  Mode = "faces" =>
    /\ Cardinality(VertexSet(D, c)) = Dim(c) + 1
    /\ IsChain(D, VertexSet(D, c))
    /\ IsCanonical(D, c.p) => \A u \in VertexSet(D, c) : Leq(D, c.v, u)
    /\ LET r == FromVertices(D, VertexSet(D, c)) IN
         /\ IsOrdPartition(D, r.p) /\ IsCanonical(D, r.p) /\ VertexSet(D, r) = VertexSet(D, c)
         /\ IsCanonical(D, c.p) => r = c

ThFaces ==      \* faces = vertex subsets = cyclic merges of parts; C(dim+1, k+1) of them; canonical
  Mode = "faces" =>
    \A k \in 0..Dim(c) :
      LET F == FacesOfDim(D, c, k) IN
      /\ Cardinality(F) = Binom(Dim(c) + 1, k + 1)
      /\ \A f \in F : IsOrdPartition(D, f.p) /\ IsCanonical(D, f.p) /\ Dim(f) = k /\ IsFaceOf(D, f, c)
      /\ {VertexSet(D, f) : f \in FacesByMerge(D, c, k)} = {VertexSet(D, f) : f \in F}
      /\ IsCanonical(D, c.p) => FacesByMerge(D, c, k) = F

ThCofaces ==    \* duality face/coface, counting formula
  (Mode = "faces" /\ IsCanonical(D, c.p)) =>
    \A l \in Dim(c)..D :
      LET C == Cofaces(D, c, l) IN
      /\ \A t \in C : c \in FacesOfDim(D, t, Dim(c))
      /\ \A t \in Around(D, c.v, l, -1, 0) : (c \in FacesOfDim(D, t, Dim(c))) = (t \in C)
      /\ Cardinality(C) = CofaceCount(c, l)
      /\ l = Dim(c) => C = {c}

ThWide ==       \* no coface outside  v - {0,1}^D
  (Mode = "faces" /\ Wide /\ IsCanonical(D, c.p)) =>
    \A l \in Dim(c)..D : CofacesWide(D, c, l) = Cofaces(D, c, l)

ThLocate ==     \* the located simplex is canonical and contains the point in its relative interior
                \* (closed formula for the barycentric weights)
  Mode = "locate" =>
    LET s == Locate(D, S, c) IN
    /\ IsOrdPartition(D, s.p) /\ IsCanonical(D, s.p)
    /\ InRelInt(D, S, c, s)

ThUnique ==     \* ... also by the definition (positive weights exist), and it is the only simplex of the
                \* triangulation that does, for both formulations (Wide only)
  (Mode = "locate" /\ Wide) =>
    LET s == Locate(D, S, c) IN
    /\ InRelIntDef(D, S, c, s)
    /\ \A l \in 0..D : \A t \in Around(D, s.v, l, -1, 1) :
       /\ InRelInt(D, S, c, t) = (t = s)
       /\ InRelIntDef(D, S, c, t) = (t = s)
=============================================================================
