------------------------ MODULE MC_PersistentCohomology ------------------------
(* C02, "cases" style: one TLC state per filtered simplicial complex (monotone  *)
(* values, ties allowed).  For each prime, minimal interval length and value   *)
(* of the persistence_dim_max flag the expected output of Persistent_cohomology*)
(* is derived from Persistence.tla (column reduction, proved equal to the      *)
(* definitional pairing in MC_Persistence) and the front-end rules of          *)
(* Persistent_cohomology.h, and printed as a CASE line.                        *)
EXTENDS SimplexTree, Persistence, Json

CONSTANTS Primes, MinLensPlus1   \* cfg files accept no negative numbers: minimal lengths + 1
MinLens == {x - 1 : x \in MinLensPlus1}

(* the filtered cell complex the simplex tree exposes: filtration_simplex_range order, boundary with *)
(* alternating signs along the sorted vertices                                                       *)
CellsOf(F, p) ==
  LET q == FiltSeq(F)
      pos(s) == CHOOSE i \in DOMAIN q : q[i] = s
      bdOf(s) == IF Cardinality(s) = 1 THEN <<>>
                 ELSE LET sq == SortedSeq(s) IN
                      [x \in {pos(s \ {sq[j]}) : j \in DOMAIN sq} |->
                          LET j == CHOOSE jj \in DOMAIN sq : pos(s \ {sq[jj]}) = x IN IF j % 2 = 1 THEN 1 ELSE p - 1]
  IN  [i \in DOMAIN q |-> [dim |-> Dim(q[i]), bd |-> bdOf(q[i])]]
ValsOf(F) == LET q == FiltSeq(F) IN [i \in DOMAIN q |-> F[q[i]]]

(* front end of Persistent_cohomology.h: dim_max_ = dimension (+1 with the flag); nothing at all when   *)
(* dim_max_ <= 0; classes only in dimensions < dim_max_; finite intervals kept when death - birth >     *)
(* min_interval_length                                                                                   *)
KeptBars(F, p, minlen, flag) ==
  LET dmax == DimC(DOMAIN F) + (IF flag THEN 1 ELSE 0)
      val  == ValsOf(F)
  IN  IF dmax <= 0 THEN {}
      ELSE {b \in Bars(CellsOf(F, p), p) : b.dim < dmax /\ (b.death = 0 \/ val[b.death] - val[b.birth] > minlen)}
DiagramPC(F, p, minlen, flag) ==
  LET val == ValsOf(F)
      kb  == KeptBars(F, p, minlen, flag)
      pt(b) == [dim |-> b.dim, b |-> val[b.birth], d |-> IF b.death = 0 THEN INF ELSE val[b.death]]
      keys == {pt(b) : b \in kb}
  IN  {[dim |-> k.dim, b |-> k.b, d |-> k.d, n |-> Cardinality({b \in kb : pt(b) = k})] : k \in keys}
BettiPC(F, p, minlen, flag) ==
  LET dmax == DimC(DOMAIN F) + (IF flag THEN 1 ELSE 0) IN
  [k \in 1..(IF dmax > 0 THEN dmax ELSE 0) |-> Cardinality({b \in KeptBars(F, p, minlen, flag) : b.dim = k - 1 /\ b.death = 0})]
PBettiPC(F, p, minlen, flag, from, to) ==
  LET dmax == DimC(DOMAIN F) + (IF flag THEN 1 ELSE 0)  val == ValsOf(F) IN
  [k \in 1..(IF dmax > 0 THEN dmax ELSE 0) |->
     Cardinality({b \in KeptBars(F, p, minlen, flag) : b.dim = k - 1 /\ val[b.birth] <= from /\ (b.death = 0 \/ val[b.death] > to)})]

KJ(F) == {[s |-> SortedSeq(s), f |-> F[s]] : s \in DOMAIN F}
Expect(F) ==
  {[p |-> p, minlen |-> ml, flag |-> fl,
    diag_set |-> DiagramPC(F, p, ml, fl), betti |-> BettiPC(F, p, ml, fl),
    pbetti_set |-> {[from |-> w[1], to |-> w[2], v |-> PBettiPC(F, p, ml, fl, w[1], w[2])] : w \in {x \in Vals \X Vals : x[2] >= x[1]}}]
   : p \in Primes, ml \in MinLens, fl \in BOOLEAN}

ClosedComplexes == {C \in SUBSET Universe : Closed(C) /\ C # {}}
AllFiltered == {F \in UNION {[C -> Vals] : C \in ClosedComplexes} : MonotoneF(F)}

InitPC == K \in AllFiltered /\ act = [op |-> "case"]
NextPC == UNCHANGED <<K, act>>
SpecPC == InitPC /\ [][NextPC]_<<K, act>>
EmitCase == PrintT(<<"CASE", ToJson([k_set |-> KJ(K), order |-> [i \in DOMAIN FiltSeq(K) |-> SortedSeq(FiltSeq(K)[i])],
                                      expect_set |-> Expect(K)])>>)
(* the exposed cell complex is a chain complex (boundary of boundary = 0) for every prime *)
InvChainComplex == \A p \in Primes : WellFormed(CellsOf(K, p), p)
(* the diagram does not depend on the prime for these small complexes (no torsion on <= 4 vertices) *)
InvNoTorsion == \A p, q \in Primes : DiagramPC(K, p, 0, TRUE) = DiagramPC(K, q, 0, TRUE)
=============================================================================
