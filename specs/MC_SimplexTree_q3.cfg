SPECIFICATION Spec
CONSTANTS
  V = {0, 1, 2}
  Vals = {0, 1, 2}
  INF = 1000000
  MaxDim = 2
  MaxBlocked = 0
  AssignInf = FALSE
  FlagDims = {2}
  Mode = "all"
VIEW View
INVARIANT TypeOK
INVARIANT InvClosed
INVARIANT InvFiltSeq
INVARIANT InvHull
INVARIANT EmitState
ACTION_CONSTRAINT EmitEdge
CHECK_DEADLOCK FALSE
