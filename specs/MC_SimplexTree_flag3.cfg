SPECIFICATION Spec
CONSTANTS
  V = {0, 1, 2}
  Vals = {1, 2}
  INF = 1000000
  MaxDim = 2
  MaxBlocked = 0
  AssignInf = FALSE
  FlagDims = {0, 1, 2}
  Mode = "flag"
VIEW View
INVARIANT TypeOK
INVARIANT InvClosed
INVARIANT InvFlagValues
INVARIANT EmitState
ACTION_CONSTRAINT EmitEdge
CHECK_DEADLOCK FALSE
