------------------------------ MODULE Landscape ------------------------------
(* Persistence landscapes on an exact lattice.                                   *)
(*                                                                                *)
(* A diagram is a finite sequence of intervals <<b, d>>, b < d integers (a        *)
(* multiset: nothing below depends on the order).  Abscissae are multiples of     *)
(* 1/8, written T = 8 t.  The k-th landscape function (k = 1, 2, ..) is            *)
(*     lambda_k(t) = k-th largest of max(0, min(t - b, d - t)) over the intervals  *)
(* (0 when there are fewer than k intervals);  Lam8 = 8 lambda_k(T / 8).           *)
(*                                                                                *)
(* A landscape expression E = [terms, den, abs] denotes, level by level, the PL    *)
(* function  f_k = (sum_i n_i lambda_k(D_i)) / den,  or its absolute value: sums,   *)
(* differences, dyadic multiples, averages and absolute values of landscapes are   *)
(* of this form.  Val(E, k, T) = 8 den f_k(T / 8) is an integer.                    *)
(*                                                                                *)
(* All functions used below are linear on every segment [T, T + 2] with T even     *)
(* (breakpoints on the quarter lattice: LinearQ, ThQuarter in the MC module), so   *)
(* their integrals are finite sums of closed forms over these segments; each       *)
(* integral is returned as an integer numerator together with a fixed denominator  *)
(* (Int1 only for functions that do not change sign inside a segment: SignQ):      *)
(*     IntS, Int1 : integral of f, of |f|          numerator / (64 den)            *)
(*     IP         : integral of f g                numerator / (1536 den_f den_g)  *)
(*     SupN       : sup |f|                        numerator / (8 den)             *)
EXTENDS Integers, Sequences, FiniteSets, TLC

U == 8
Abs(x) == IF x < 0 THEN -x ELSE x
Lo2(a, b) == IF a < b THEN a ELSE b
Hi2(a, b) == IF a < b THEN b ELSE a
SetMax(S) == CHOOSE x \in S : \A y \in S : y <= x

IsDiagram(D) == \A i \in 1..Len(D) : D[i][1] < D[i][2]

(* ------------------------------------------------------------ the definition *)
Tent8(I, T) == Hi2(0, Lo2(T - U * I[1], U * I[2] - T))

(* k-th largest element of the multiset of tent values: fewer than k are        *)
(* strictly larger, at least k are at least as large                            *)
Lam8(D, k, T) ==
  IF k > Len(D) THEN 0
  ELSE LET v == [i \in 1..Len(D) |-> Tent8(D[i], T)]
       IN CHOOSE x \in {v[i] : i \in 1..Len(D)} :
            /\ Cardinality({i \in 1..Len(D) : v[i] > x}) < k
            /\ Cardinality({i \in 1..Len(D) : v[i] >= x}) >= k

(* Bubenik's definition: lambda_k(t) = sup { h >= 0 : [t - h, t + h] lies in at  *)
(* least k intervals } (0 when there is no such h)                              *)
LamDef8(D, k, T) ==
  LET hmax == IF Len(D) = 0 THEN 0 ELSE 4 * SetMax({D[i][2] - D[i][1] : i \in 1..Len(D)})
      hs == {h \in 0..hmax : Cardinality({i \in 1..Len(D) : U * D[i][1] <= T - h /\ T + h <= U * D[i][2]}) >= k}
  IN IF hs = {} THEN 0 ELSE SetMax(hs)

(* a level as a function on a set of abscissae (evaluated once) *)
Row(D, k, dom) == TLCEval([T \in dom |-> Lam8(D, k, T)])

(* the same by sorting the tent values once per abscissa (all levels at once; ThSort in the MC module: LamS = Lam8); *)
(* used for the large diagrams of recorded executions                                                               *)
SortedTents(D, T) == SortSeq([i \in 1..Len(D) |-> Tent8(D[i], T)], LAMBDA a, b : a > b)
LamS(D, k, T) == IF k > Len(D) THEN 0 ELSE SortedTents(D, T)[k]
Levels(D, dom) == TLCEval([T \in dom |-> SortedTents(D, T)])
RowS(lv, k, dom) == TLCEval([T \in dom |-> IF k <= Len(lv[T]) THEN lv[T][k] ELSE 0])

(* ------------------------------------------------------------ expressions *)
NLevels(E) == IF Len(E.terms) = 0 THEN 0 ELSE SetMax({Len(E.terms[i].D) : i \in 1..Len(E.terms)})

RECURSIVE SumTo(_, _)
SumTo(f, n) == IF n = 0 THEN 0 ELSE f[n] + SumTo(f, n - 1)

(* sum_i ns[i] * rows[i], or its absolute value *)
LinComb(ns, rows, abs, dom) ==
  TLCEval([T \in dom |-> LET s == SumTo([i \in 1..Len(ns) |-> ns[i] * rows[i][T]], Len(ns))
                         IN IF abs THEN Abs(s) ELSE s])

Val(E, k, T) ==
  LET s == SumTo([i \in 1..Len(E.terms) |-> E.terms[i].n * Lam8(E.terms[i].D, k, T)], Len(E.terms))
  IN IF E.abs THEN Abs(s) ELSE s

ERow(E, k, dom) ==
  LinComb([i \in 1..Len(E.terms) |-> E.terms[i].n], [i \in 1..Len(E.terms) |-> Row(E.terms[i].D, k, dom)], E.abs, dom)
(* all levels 1..NLevels(E)+1 of E through the sorted tent values *)
RowsS(E, dom) ==
  LET lv == TLCEval([i \in 1..Len(E.terms) |-> Levels(E.terms[i].D, dom)])
  IN TLCEval([k \in 1..(NLevels(E) + 1) |->
               LinComb([i \in 1..Len(E.terms) |-> E.terms[i].n], [i \in 1..Len(E.terms) |-> RowS(lv[i], k, dom)], E.abs, dom)])

(* f - g for rows with denominators df, dg: numerator over df * dg *)
DiffRow(f, df, g, dg, dom) == TLCEval([T \in dom |-> dg * f[T] - df * g[T]])

(* ------------------------------------------------------------ integrals *)
(* lo, hi even; g defined on the even abscissae of lo..hi *)
RECURSIVE SumEven(_, _, _)
SumEven(g, T, hi) == IF T > hi THEN 0 ELSE g[T] + SumEven(g, T + 2, hi)

IntS(f, lo, hi) == SumEven([T \in lo..(hi - 2) |-> f[T] + f[T + 2]], lo, hi - 2)
Int1(f, lo, hi) == SumEven([T \in lo..(hi - 2) |-> Abs(f[T]) + Abs(f[T + 2])], lo, hi - 2)
IP(f, g, lo, hi) ==
  SumEven([T \in lo..(hi - 2) |-> 2 * f[T] * g[T] + f[T] * g[T + 2] + f[T + 2] * g[T] + 2 * f[T + 2] * g[T + 2]],
          lo, hi - 2)
SupN(f, lo, hi) == SetMax({Abs(f[T]) : T \in {x \in lo..hi : x % 2 = 0}})

(* f given on all of lo..hi, lo even.  LinearQ: linear on every segment [T - 1, T + 1], T odd (breakpoints on the   *)
(* quarter lattice: IntS, IP, SupN are exact).  SignQ: no sign change inside such a segment (zeros on the quarter    *)
(* lattice: |f| is linear there too and Int1 is exact).                                                             *)
LinearQ(f, lo, hi) == \A T \in (lo + 1)..(hi - 1) : T % 2 # 0 => 2 * f[T] = f[T - 1] + f[T + 1]
SignQ(f, lo, hi) == \A T \in (lo + 1)..(hi - 1) : T % 2 # 0 => f[T - 1] * f[T + 1] >= 0

(* values at the breakpoints of f on the half lattice (T multiple of 4), in       *)
(* increasing order of abscissa: <<T, f[T]>> where the slope changes               *)
BreakPts(f, lo, hi) ==
  LET n == (hi - lo) \div 4 - 1
      at(j) == lo + 4 * j
  IN SelectSeq([j \in 1..n |-> <<at(j), f[at(j)]>>],
               LAMBDA p : f[p[1] - 4] + f[p[1] + 4] # 2 * f[p[1]])

(* ------------------------------------------------------------ grids *)
(* g = [min8, max8, n]: n + 1 grid points min8 + j dx8 (Persistence_landscape_on_grid(p, min, max, n))  *)
Dx8(g) == (g.max8 - g.min8) \div g.n
GridWF(g) == g.n >= 1 /\ g.max8 > g.min8 /\ (g.max8 - g.min8) % g.n = 0 /\ Dx8(g) % 2 = 0
OnGrid(g, T) == T >= g.min8 /\ T <= g.max8 /\ (T - g.min8) % Dx8(g) = 0
(* the diagram lies inside the grid and its endpoints on the 2 dx lattice: tent tops and crossings  *)
(* of tents are grid points                                                                          *)
GridOK(D, g) ==
  \A i \in 1..Len(D) :
    /\ U * D[i][1] >= g.min8 /\ U * D[i][2] <= g.max8
    /\ (U * D[i][1] - g.min8) % (2 * Dx8(g)) = 0
    /\ (U * D[i][2] - g.min8) % (2 * Dx8(g)) = 0
(* f (on the even abscissae of lo..hi, which contain the grid) equals the linear interpolation of  *)
(* its grid values inside the grid and vanishes outside                                             *)
InterpExact(f, g, lo, hi) ==
  \A T \in lo..hi : T % 2 = 0 =>
    IF T < g.min8 \/ T > g.max8 THEN f[T] = 0
    ELSE IF T = g.max8 THEN TRUE
    ELSE LET T0 == g.min8 + ((T - g.min8) \div Dx8(g)) * Dx8(g)
         IN f[T] * Dx8(g) = f[T0] * (T0 + Dx8(g) - T) + f[T0 + Dx8(g)] * (T - T0)
(* two consecutive grid values equal and non zero *)
FlatNonzero(f, g) ==
  \E j \in 0..(g.n - 1) : f[g.min8 + j * Dx8(g)] # 0 /\ f[g.min8 + j * Dx8(g)] = f[g.min8 + (j + 1) * Dx8(g)]
(* number of intervals with a positive tent value at T *)
Depth(D, T) == Cardinality({i \in 1..Len(D) : Tent8(D[i], T) > 0})
=============================================================================
