---------------------------- MODULE MC_DenseMatrixC ----------------------------
(* Bounded model of CompressedMatrix.tla (column compression), emitting states *)
(* and transitions like MC_DenseMatrix.                                        *)
EXTENDS CompressedMatrix, Json

CONSTANTS Coefs, InsMax, RngMax, Orders

InsVecs == {v \in Vec : NnzV(v) <= InsMax}
RngVecs == {v \in Vec : NnzV(v) <= RngMax}
OrdersOf(v) == IF NnzV(v) >= 2 THEN Orders ELSE {"asc"}

ColsJ(f, k) == {[c |-> i, v |-> VT(f[i]), k |-> k[i]] : i \in DOMAIN f}
IdJ == [c_set |-> ColsJ(cols, cls), n |-> next]

ColObs(i) ==
  [c |-> i, v |-> VT(cols[i]), it |-> VT(cols[i]), zc |-> IsZeroColumn(i),
   ze |-> [k \in 1..NR |-> IsZeroEntry(i, k - 1)], k |-> cls[i]]
Obs ==
  [cols_set  |-> {ColObs(i) : i \in Live},
   rows      |-> [k \in 1..NR |-> [r |-> k - 1, e_set |-> {[c |-> e[1], x |-> e[2]] : e \in CRowEntries(k - 1)}]],
   ncols_map |-> NumColsMap,
   ncols_vec |-> NumColsVec,
   next      |-> next,
   holes_ok  |-> TRUE,
   errors    |-> <<>>]

Next ==
  \/ \E v \in InsVecs : CInsertColumn(v)
  \/ \E s, t \in Idx : CAddTo(s, t)
  \/ \E v \in RngVecs, t \in Idx : \E o \in OrdersOf(v) : CAddRangeTo(v, t, o)
  \/ \E s, t \in Idx, c \in Coefs : CMulTargetAndAdd(s, c, t)
  \/ \E v \in RngVecs, t \in Idx, c \in Coefs : \E o \in OrdersOf(v) : CMulTargetAndAddRange(v, c, t, o)
  \/ \E s, t \in Idx, c \in Coefs : CMulSourceAndAdd(c, s, t)
  \/ \E v \in RngVecs, t \in Idx, c \in Coefs : \E o \in OrdersOf(v) : CMulSourceAndAddRange(c, v, t, o)
  \/ \E r \in Rows : CEraseEmptyRow(r)

cvars == <<cols, next, pend, act, cls>>
Spec == CInit /\ [][Next]_cvars

View == <<cols, next, cls>>
EmitState == PrintT(<<"STATE", ToJson([id |-> IdJ, obs |-> Obs])>>)
EmitEdge  == PrintT(<<"EDGE", ToJson([from |-> IdJ, act |-> act',
                                      to |-> [c_set |-> ColsJ(cols', cls'), n |-> next']])>>)
=============================================================================
