------------------------------ MODULE ToplexMap ------------------------------
(* Abstract state machine of Gudhi::Toplex_map and Gudhi::Lazy_toplex_map:    *)
(* the state is the simplicial complex K (a closed set of simplices).  One     *)
(* action per public mutator; every read interface is a derived operator.      *)
(* The toplex maps store only the maximal simplices ("toplices"); that is a    *)
(* representation, not part of the abstract state.                             *)
EXTENDS Simplicial, TLC

CONSTANTS V        \* vertex universe (integers)

VARIABLES K, act

Universe == Simplices(V)
TypeOK   == K \subseteq Universe /\ Closed(K)

Init == K = {} /\ act = [op |-> "init"]

-----------------------------------------------------------------------------
(* state functions, shared by the actions below and by Trace_ToplexMap        *)

(* insert_simplex (Toplex_map.h:51-54): "Adds the given simplex to the complex.*)
(* Nothing happens if the simplex is already in the complex"                   *)
InsertK(C, s) == C \cup Faces(s)

(* remove_simplex (:56-59): "Removes the given simplex and its cofaces from    *)
(* the complex.  Its faces are kept inside."  Nothing else is removed.         *)
RemoveK(C, s) == C \ StarC(C, s)

(* remove_vertex (:87-88): "Remove the vertex and all its cofaces"             *)
RemoveVertexK(C, v) == C \ StarC(C, {v})

(* contraction (:82-85): the two vertices are identified; d is renamed k.      *)
Rename(s, d, k) == IF d \in s THEN (s \ {d}) \cup {k} ELSE s
ContractK(C, d, k) == {Rename(s, d, k) : s \in C}

IsMaxIn(C, s)  == s \in C /\ \A t \in C : s \subseteq t => s = t
MaxCofaces(C, s) == {t \in MaximalC(C) : s \subseteq t}   \* maximal_cofaces (:69-74), any s
Independent(C, s) == s \notin C /\ \A t \in MaximalC(C) : ~(t \subseteq s)

-----------------------------------------------------------------------------
SeqSet(S) == {SortedSeq(t) : t \in S}

InsertSimplex(s) ==
  /\ K' = InsertK(K, s)
  /\ act' = [op |-> "insert", s |-> SortedSeq(s), present |-> (s \in K)]

(* insert_independent_simplex (:98-101): "The simplex must not be in the       *)
(* complex already, and it must not contain one of the current toplices."      *)
InsertIndependentSimplex(s) ==
  /\ Independent(K, s)
  /\ K' = InsertK(K, s)
  /\ act' = [op |-> "insert_independent", s |-> SortedSeq(s)]

(* s may be maximal, non-maximal or absent; the ghost fields say which, and    *)
(* which toplices do not contain s (they are untouched by the removal).        *)
RemoveSimplex(s) ==
  /\ K' = RemoveK(K, s)
  /\ act' = [op |-> "remove", s |-> SortedSeq(s), present |-> (s \in K), max |-> IsMaxIn(K, s),
             kept_set |-> SeqSet({t \in MaximalC(K) : ~(s \subseteq t)})]

(* remove_simplex of the empty vertex range: "Removal of the empty simplex      *)
(* means cleaning everything" (Toplex_map.h:152-153, Lazy_toplex_map.h:133-139) *)
(* - every simplex is a coface of the empty one.                               *)
RemoveAll ==
  /\ K' = {}
  /\ act' = [op |-> "clear"]

(* remove_vertex reads t0.at(x): the vertex must be present.                   *)
RemoveVertex(v) ==
  /\ {v} \in K
  /\ K' = RemoveVertexK(K, v)
  /\ act' = [op |-> "remove_vertex", v |-> v]

(* contraction(x, y) "Returns the remaining vertex": which of the two remains  *)
(* is not documented, so both outcomes are behaviours of the specification and *)
(* the returned vertex k tells which one the implementation took.  "Contracts *)
(* one edge": two distinct vertices (an absent vertex is handled by the code:  *)
(* the other one is returned and nothing changes, which is ContractK too).     *)
Contraction(x, y, k) ==
  /\ x # y
  /\ k \in {x, y}
  /\ LET d == IF k = x THEN y ELSE x IN K' = ContractK(K, d, k)
  /\ act' = [op |-> "contract", x |-> x, y |-> y, ret |-> k,
             edge |-> ({x, y} \in K)]

=============================================================================
