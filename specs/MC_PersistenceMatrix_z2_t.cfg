SPECIFICATION Spec
CONSTANTS
  P = 2
  MaxCells = 6
  MaxD = 2
  AllowEmptyBd = FALSE
  WithReps = FALSE
  Mode = "insert"
  WithHist = FALSE
VIEW View
INVARIANT InvWellFormed
INVARIANT InvPartition
INVARIANT InvVineLemma
INVARIANT InvSwapWellFormed
INVARIANT EmitState
ACTION_CONSTRAINT EmitEdge
CHECK_DEADLOCK FALSE
