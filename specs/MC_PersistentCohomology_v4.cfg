SPECIFICATION SpecPC
CONSTANTS
  V = {0, 1, 2, 3}
  Vals = {0, 1}
  INF = 1000000
  MaxDim = 3
  Primes = {2, 3}
  MinLensPlus1 = {0, 1, 2}
INVARIANT InvChainComplex
INVARIANT InvNoTorsion
INVARIANT EmitCase
CHECK_DEADLOCK FALSE
