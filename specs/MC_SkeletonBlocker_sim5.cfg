SPECIFICATION Spec
CONSTANTS
  NV = 5
  Heavy = FALSE
INVARIANT TypeOK
INVARIANT EmitState
ACTION_CONSTRAINT EmitEdge
CHECK_DEADLOCK FALSE
