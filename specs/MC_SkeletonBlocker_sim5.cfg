SPECIFICATION Spec
CONSTANTS
  NV = 5
  MaxLoadBlockers = 0
  Heavy = FALSE
INVARIANT TypeOK
INVARIANT EmitState
ACTION_CONSTRAINT EmitEdge
CHECK_DEADLOCK FALSE
