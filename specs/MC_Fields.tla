------------------------------- MODULE MC_Fields -------------------------------
(* Bounded model of Fields.tla.  TLC explores the register machine over every  *)
(* canonical prime interval inside [2, MaxP]; INVARIANT EmitCase prints, for    *)
(* every distinct state (field, x, y, z), the result of every operation enabled *)
(* in it (every transition of the state is one of these results), as            *)
(*   <<"CASE", ToJson([lo, hi, mod, primes, x, y, z, add, sub, ...])>>           *)
(* The harness executes every such operation on every real class that offers it.*)
EXTENDS Fields, Json

CONSTANTS MaxP,     \* intervals are taken inside 0..MaxP+1
          T3,       \* moduli <= T3: all triples (x, y, z)
          T2,       \* moduli <= T2: all pairs (x, y), z = 0
          T1,       \* moduli <= T1: all x, y = z = 0
          FullSel   \* number of primes up to which every sub-product Q is enumerated

IsCanon(f) == IsPrime(f.lo) /\ IsPrime(f.hi)
(* intervals whose bounds are not prime: same fields, only set_characteristic / characteristic are exercised *)
AllIv   == [lo : 0..(MaxP + 1), hi : 0..(MaxP + 1)]
Level(f) == IF ~Valid(f) \/ ~IsCanon(f) THEN 0
            ELSE LET P == Mod(f) IN IF P <= T3 THEN 3 ELSE IF P <= T2 THEN 2 ELSE IF P <= T1 THEN 1 ELSE 0

(* machine integers used as operands of the mixed operations (element op integer) *)
MixedInts(P) == IF P <= 35 THEN (-(2 * P) - 1)..(2 * P + 1)
                ELSE {-(2 * P) - 1, -P - 1, -P, -P + 1, -2, -1, 0, 1, 2, P - 1, P, P + 1, 2 * P + 1}
(* operands n of x op n: the whole window for x in {0, 1, P-1}, its boundaries for the other x *)
MixedFor(P, x) == IF x \in {0, 1, P - 1} THEN MixedInts(P)
                  ELSE IF P <= 35 \/ x \in {2, P - 2}
                       THEN {-(2 * P) - 1, -P - 2, -P - 1, -P, -P + 1, -1, 0, 1, P - 1, P, P + 1, 2 * P + 1}
                       ELSE {}
(* machine integers at the boundaries of the 32 and 64 bit types, as Big records *)
BigMags == {<<3647, 4748, 21>>, <<3648, 4748, 21>>, <<7295, 9496, 42>>,            \* 2^31-1, 2^31, 2^32-1
            <<5807, 5477, 368, 3372, 922>>, <<5808, 5477, 368, 3372, 922>>,         \* 2^63-1, 2^63
            <<1615, 955, 737, 6744, 1844>>}                                         \* 2^64-1
BigInts == {[neg |-> b, d |-> d] : b \in BOOLEAN, d \in BigMags}
(* sub-products Q (as index sets) handed to partial inverse / identity *)
QSels(f) == LET D == DOMAIN Ps(f)
            IN IF Len(Ps(f)) <= FullSel THEN SUBSET D
               ELSE {D, {}} \cup {{i} : i \in D} \cup {D \ {i} : i \in D}

Init == /\ fld \in {Field(g.lo, g.hi) : g \in {g \in AllIv : HasPrime(g.lo, g.hi)}}
        /\ reg = <<0, 0, 0>>
        /\ act = [op |-> "init"]

Next ==
  \/ \E i \in 1..Level(fld) :
       \/ \E n \in MixedFor(Mod(fld), reg[i]) : Conv(i, n)
       \/ \E n \in {-1, 1, Mod(fld) + 1} : AddRI(i, n) \/ SubRI(i, n) \/ MulRI(i, n)
       \/ \E j \in 1..Level(fld) : AddRR(i, j) \/ SubRR(i, j) \/ MulRR(i, j)
       \/ Inverse(i)
  \/ Level(fld) >= 1 /\ \E sel \in QSels(fld) : PartialInverse(1, sel) \/ Identity(1, sel)
  \/ Level(fld) = 3 /\ (MulAddFront \/ MulAddBack \/ AddMulFront \/ AddMulBack)
  \/ Level(fld) = 2 /\ (MulAddFront \/ AddMulFront)
  \/ reg = <<0, 0, 0>> /\ \E f \in AllIv : SetCharacteristic(f.lo, f.hi)
Spec == Init /\ [][Next]_vars
View == <<fld, reg>>

(* ---------------------------------------------------------------- emission *)
SelBits(sel) == [i \in 1..6 |-> IF i \in sel THEN 1 ELSE 0]
Case ==
  LET f == fld  ps == Ps(f)  P == Mod(f)  x == reg[1]  y == reg[2]  z == reg[3]
      base == [lo |-> f.lo, hi |-> f.hi, mod |-> P, primes |-> ps, level |-> Level(f), x |-> x, y |-> y, z |-> z,
               add |-> AddP(x, y, P), sub |-> SubP(x, y, P), mul |-> MulP(x, y, P), eq |-> (x = y),
               muladd |-> MulAdd(x, y, z, P), addmul |-> AddMul(x, y, z, P),
               pte |-> ResI("pte", x, y, z, P), tminus |-> ResI("tminus", x, y, z, P)]
      unary == [inv |-> PInvV(x, DOMAIN ps, f),
                pinv |-> {[q |-> SubProd(sel, ps), t |-> PInvQ(x, sel, f), v |-> PInvV(x, sel, f)] : sel \in QSels(f)},
                mixed |-> {[n |-> n, val |-> Red(n, P), add |-> AddP(x, Red(n, P), P), sub |-> SubP(x, Red(n, P), P),
                            rsub |-> SubP(Red(n, P), x, P), mul |-> MulP(x, Red(n, P), P), eq |-> (x = Red(n, P))]
                           : n \in MixedFor(P, x)}]
      once  == [bigconv |-> {[n |-> s, val |-> SBigMod(s, P)] : s \in BigInts},
                pmi |-> {[q |-> SubProd(sel, ps), v |-> PMI(sel, f)] : sel \in QSels(f)},
                setchar |-> {[lo |-> g.lo, hi |-> g.hi,
                              refused |-> ~HasPrime(g.lo, g.hi),
                              mod |-> IF HasPrime(g.lo, g.hi) THEN Prod(PrimesIn(g.lo, g.hi)) ELSE 0]
                             : g \in {g \in AllIv : g.lo = f.lo \/ g.hi = f.hi \/ g.lo = g.hi}}]
  IN IF y = 0 /\ z = 0
     THEN IF x = 0 THEN [b |-> base, u |-> unary, o |-> once] ELSE [b |-> base, u |-> unary]
     ELSE [b |-> base]
(* nothing is observed in NoField (after a refused set_characteristic) *)
EmitCase == Valid(fld) => PrintT(<<"CASE", ToJson(Case)>>)
=============================================================================
