------------------------------- MODULE MC_Zigzag -------------------------------
(* Bounded model of ZigzagSpec.tla: ALL zigzag sequences of at most MaxArrows  *)
(* arrows, either over the simplices of the full complex on the vertex set V   *)
(* up to dimension MaxDim (Mode = "simplices"; a removed simplex may come back *)
(* under a fresh key) or over general Z_2 cell complexes with at most MaxLive  *)
(* live cells (Mode = "cells": any cycle of live (d-1)-cells is a boundary).   *)
(* The history is part of the state, so the state graph is the tree of all     *)
(* sequences; every state and every transition is printed for the replay on    *)
(* the real classes.                                                           *)
EXTENDS ZigzagSpec, Persistence, Json, SequencesExt

CONSTANTS Mode, V, MaxArrows, MaxIdentity, MaxLive, AllowEmptyBd, INF

VARIABLES hist,    \* sequence of operations (Zigzag.tla format)
          diag,    \* all intervals closed so far
          sname    \* key -> simplex (Mode = "simplices"), ghost

vars == <<live, arrow, flag, act, hist, diag, sname>>

-----------------------------------------------------------------------------
(* filtration-value schedules for the filtered front ends: value of arrow i *)
SchedVal(s, i) == CASE s = "inc" -> i \div 2
                    [] s = "dec" -> 50 - ((i + 1) \div 2)
                    [] s = "mix" -> 3 * ((i + 1) \div 3)
                    [] s = "dinf" -> IF i < 2 THEN INF ELSE 40 - i    \* decreasing from +infinity
ValSeq(s) == [i \in 0..(arrow - 1) |-> SchedVal(s, i)]
FV(i) == [inc |-> SchedVal("inc", i), dec |-> SchedVal("dec", i), mix |-> SchedVal("mix", i), dinf |-> SchedVal("dinf", i)]

Obs ==
  LET vi == ValSeq("inc")  vd == ValSeq("dec")  vm == ValSeq("mix")  vf == ValSeq("dinf") IN
  [arrow |-> arrow,
   open_set |-> Open,
   diag_set |-> diag,
   f_inc_set |-> FClosed(diag, vi), o_inc_set |-> FOpen(Open, vi),
   f_dec_set |-> FClosed(diag, vd), o_dec_set |-> FOpen(Open, vd),
   f_mix_set |-> FClosed(diag, vm), o_mix_set |-> FOpen(Open, vm),
   f_dinf_set |-> FClosed(diag, vf), o_dinf_set |-> FOpen(Open, vf),
   sd_dinf_m1_set |-> SDiagram(diag, Open, vf, -1, 0, INF),
   si_m1_set |-> SIndex(diag, -1), si_1_set |-> SIndex(diag, 1), si_2_set |-> SIndex(diag, 2),
   sd_inc_m1_set |-> SDiagram(diag, Open, vi, -1, 0, INF),
   sd_dec_m1_set |-> SDiagram(diag, Open, vd, -1, 0, INF),
   sd_mix_m1_set |-> SDiagram(diag, Open, vm, -1, 0, INF),
   sd_inc_1_set |-> SDiagram(diag, Open, vi, 1, 0, INF),
   sd_dec_2_set |-> SDiagram(diag, Open, vd, 2, 0, INF),
   sd_mix_1_set |-> SDiagram(diag, Open, vm, 1, 1, INF)]

-----------------------------------------------------------------------------
Simplices == {s \in SUBSET V : s # {} /\ Cardinality(s) <= MaxDim + 1}
FacetsOf(s) == IF Cardinality(s) = 1 THEN {} ELSE {s \ {v} : v \in s}
KeyOf(s) == CHOOSE k \in DOMAIN live : sname[k] = s
LiveNames == {sname[k] : k \in DOMAIN live}
NIdent == Cardinality({i \in DOMAIN hist : hist[i].op = "identity"})
SortedSeq(S) == SetToSortSeq(S, <)

MCInit == Init /\ hist = <<>> /\ diag = {} /\ sname = <<>>

Track == /\ hist' = Append(hist, OpOf(act'))
         /\ diag' = diag \cup act'.closed_set

(* vertex names are interchangeable: a new vertex takes the smallest free name *)
InsertSimplex(s) ==
  /\ s \notin LiveNames
  /\ Cardinality(s) = 1 => \A v \in V : {v} \notin LiveNames => \A w \in s : w <= v
  /\ FacetsOf(s) \subseteq LiveNames
  /\ InsertCell({KeyOf(t) : t \in FacetsOf(s)}, Cardinality(s) - 1)
  /\ sname' = (arrow :> s) @@ sname
  /\ Track

InsertAnyCell(bd, d) ==
  /\ Cardinality(DOMAIN live) < MaxLive
  /\ (d > 0 /\ ~AllowEmptyBd) => bd # {}
  /\ InsertCell(bd, d)
  /\ sname' = sname
  /\ Track

NextS ==
  /\ arrow < MaxArrows
  /\ \/ \E s \in Simplices : InsertSimplex(s)
     \/ \E k \in DOMAIN live : RemoveCell(k) /\ sname' = sname /\ Track
     \/ NIdent < MaxIdentity /\ Identity /\ sname' = sname /\ Track

NextC ==
  /\ arrow < MaxArrows
  /\ \/ \E d \in 0..MaxDim : \E bd \in SUBSET CellsAt(live, d - 1) : InsertAnyCell(bd, d)
     \/ \E k \in DOMAIN live : RemoveCell(k) /\ sname' = sname /\ Track
     \/ NIdent < MaxIdentity /\ Identity /\ sname' = sname /\ Track

MCNext == IF Mode = "simplices" THEN NextS ELSE NextC
MCSpec == MCInit /\ [][MCNext]_vars

View == hist
(* state identity = the history, compactly: insert -> <<dim, boundary keys...>>, remove -> <<-1, key>>, identity -> <<-2>> *)
OpCode(o) == IF o.op = "insert" THEN <<o.dim>> \o SortedSeq(o.bd)
             ELSE IF o.op = "remove" THEN <<-1, o.k>> ELSE <<-2>>
HistId(h) == [h |-> [i \in DOMAIN h |-> OpCode(h[i])]]
ActJ(a, k) == IF a.op = "insert"
              THEN [op |-> a.op, dim |-> a.dim, bd |-> SortedSeq(a.bd), key |-> a.key, ret |-> a.ret,
                    closed_set |-> a.closed_set, fv |-> FV(k),
                    s |-> IF Mode = "simplices" THEN SortedSeq(sname'[a.key]) ELSE <<>>]
              ELSE IF a.op = "remove"
              THEN [op |-> a.op, k |-> a.k, ret |-> a.ret, closed_set |-> a.closed_set, fv |-> FV(k)]
              ELSE [op |-> a.op, ret |-> a.ret, closed_set |-> a.closed_set]
EmitState == PrintT(<<"STATE", ToJson([id |-> HistId(hist), obs |-> Obs])>>)
EmitEdge  == PrintT(<<"EDGE", ToJson([from |-> HistId(hist), act |-> ActJ(act', arrow), to |-> HistId(hist')])>>)

-----------------------------------------------------------------------------
(* in-model theorems *)
Dims == 0..MaxDim
InvFlags == IsComplex(live) /\ \A k \in Dims : FlagOK(live, k, flag[k])
InvBd == \A k \in Dims : \A c \in SUBSET CellsAt(live, k) : BdSet(live, c) = BdSetDef(live, c)
(* every insertion or removal is the birth or the death of exactly one class;  *)
(* the open intervals of dimension k are as many as the Betti number           *)
InvCount ==
  /\ Cardinality({i \in DOMAIN hist : hist[i].op # "identity"}) = 2 * Cardinality(diag) + Cardinality(Open)
  /\ \A k \in Dims : Cardinality({x \in Open : x.dim = k}) = BettiZ(live, k)
  /\ \A x \in diag : x.b < x.d /\ x.dim \in Dims
  /\ \A x, y \in diag \cup Open : x # y => x.b # y.b
(* an insertion-only sequence reproduces ordinary persistence (Persistence.tla) *)
InsOnly == \A i \in DOMAIN hist : hist[i].op = "insert"
FiltOf(h) == [i \in DOMAIN h |-> [dim |-> h[i].dim, bd |-> [x \in {k + 1 : k \in h[i].bd} |-> 1]]]
InvInsertOnly ==
  InsOnly =>
    LET F == FiltOf(hist)  red == AlgReduced(F, 2) IN
    /\ diag = {[dim |-> F[pr[1]].dim, b |-> pr[1] - 1, d |-> pr[2] - 1] : pr \in AlgPairsOf(red)}
    /\ Open = {[dim |-> F[i].dim, b |-> i - 1] : i \in AlgEssentialOf(F, red)}
(* mirror symmetry of the interval decomposition (Zigzag.tla) *)
InvMirror ==
  LET full == hist \o CloseOps(St)
      n == Len(full)
      fwd == diag \cup ZRun(St, CloseOps(St), 1).closed
      bwd == ZRun(ZInit(MaxDim), Mirror(full), 1)
  IN  /\ bwd.st.live = <<>>
      /\ OpenOf(bwd.st) = {}
      /\ bwd.closed = MirrorBars(fwd, n)
(* the two ways of summing subspaces agree on all pairs of subspaces of Z_2^4 *)
Subspaces(X) == {S \in SUBSET (SUBSET X) : IsSubspace(S)}
ASSUME \A S, T \in Subspaces({1, 2, 3}) : SumSp(S, T) = SumSpDef(S, T)
=============================================================================
