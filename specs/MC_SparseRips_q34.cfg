SPECIFICATION Spec
CONSTANTS
  N = 4
  DVals = {1, 2, 3, 4}
  Mult = 3
  Canon = TRUE
  EpsG <- E34
  EpsB <- NoEps
  Bounds <- Bounds34
  DimMaxs = {1, 2, 3}
INVARIANT InvInput
INVARIANT InvGuarantee
INVARIANT InvValidAlways
INVARIANT InvSkeleton
INVARIANT InvGreedy
INVARIANT EmitCase
CHECK_DEADLOCK FALSE
