SPECIFICATION Spec
CONSTANTS
  N = 6
  W = {1, 2, 3}
  Primes = {2, 3}
INVARIANT ThCliques
INVARIANT ThWellFormed
INVARIANT ThDelay
INVARIANT ThNoTorsion
INVARIANT EmitCase
CHECK_DEADLOCK FALSE
