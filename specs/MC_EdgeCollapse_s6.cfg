SPECIFICATION Spec
CONSTANTS
  N = 6
  W = {1, 2, 3}
  Primes = {2, 3}
INVARIANT ThWellFormed
INVARIANT ThStrict
INVARIANT ThDelay
INVARIANT ThNoTorsion
INVARIANT EmitCase
CHECK_DEADLOCK FALSE
