SPECIFICATION Spec
CONSTANTS
  Mode = "weak"
  R = 2
  C = 3
  NVals = 0
  MaxLen = 0
  ThEvery = 4
  ThMaxLen = 0
INVARIANT ThDual
INVARIANT ThShape
INVARIANT EmitCase
CHECK_DEADLOCK FALSE
