------------------------- MODULE MC_PersistenceMatrix -------------------------
EXTENDS PersistenceMatrix, Json
CONSTANTS Mode   \* "insert" (C05: insertions and remove_last) | "vine" (C06: + swaps and maximal-cell removals)

Boundaries(d) == IF d = 0 THEN {<<>>} ELSE AllChains(CellsOfDim(F, d - 1, Len(F)), P)
Next ==
  \/ \E d \in 0..MaxD : \E bd \in Boundaries(d) : InsertBoundary(d, bd)
  \/ RemoveLast
  \/ Mode = "vine" /\ \E i \in 1..(Len(F) - 1) : VineSwap(i)
  \/ Mode = "vine" /\ \E i \in DOMAIN F : RemoveMaximalCell(i)
Spec == Init /\ [][Next]_<<F, act>>
View == F
EmitState == PrintT(<<"STATE", ToJson([id |-> [f |-> FJ(F)], obs |-> Obs(F)])>>)
EmitEdge  == PrintT(<<"EDGE", ToJson([from |-> [f |-> FJ(F)], act |-> act', to |-> [f |-> FJ(F')]])>>)

InvWellFormed == WellFormed(F, P)
InvPartition == \A i \in DOMAIN F : Cardinality({b \in Bars(F, P) : b.birth = i \/ b.death = i}) = 1
(* vineyard lemma: after an admissible transposition the two cells kept or exchanged their bars *)
InvVineLemma == \A i \in 1..(Len(F) - 1) : i \notin DOMAIN F[i + 1].bd => (Kept(F, i) \/ Exchanged(F, i))
InvSwapWellFormed == \A i \in 1..(Len(F) - 1) : i \notin DOMAIN F[i + 1].bd => WellFormed(SwapF(F, i), P)
=============================================================================
