------------------------- MODULE MC_PersistenceMatrix -------------------------
EXTENDS PersistenceMatrix, Json
CONSTANTS Mode   \* "insert" (C05: insertions and remove_last) | "vine" (C06: + swaps and maximal-cell removals)

Boundaries(d) == IF d = 0 THEN {<<>>} ELSE AllChains(CellsOfDim(F, d - 1, Len(F)), P)
Next ==
  \/ \E d \in 0..MaxD : \E bd \in Boundaries(d) : InsertBoundary(d, bd)
  \/ RemoveLast
  \/ Mode = "vine" /\ \E i \in 1..(Len(F) - 1) : VineSwap(i)
  \/ Mode = "vine" /\ \E i \in DOMAIN F : RemoveMaximalCell(i)
(* History ghost.  What a matrix has to do on the next operation depends on how it got where it is, not only on the  *)
(* complex it represents: removals leave counters and maps behind, transpositions leave R and U (or the chains) in a   *)
(* form no fresh reduction produces.  hist records whether a cell was ever removed and whether a transposition was   *)
(* ever made, so that "the same complex, reached through a removal / a swap" is a state of its own and every         *)
(* transition out of it is replayed after such a history (WithHist = FALSE: the plain graph of complexes).           *)
CONSTANT WithHist
VARIABLE hist
NoHist == [rem |-> FALSE, swp |-> FALSE]
InitH == Init /\ hist = NoHist
NextH == /\ Next
         /\ hist' = IF WithHist THEN [rem |-> hist.rem \/ act'.op \in {"remove_last", "remove_maximal"},
                                      swp |-> hist.swp \/ act'.op = "vine_swap"]
                    ELSE hist
Spec == InitH /\ [][NextH]_<<F, act, hist>>
View == <<F, hist>>
CONSTANT WithReps
ObsR(G) == IF WithReps THEN [n |-> Len(G), dims |-> [i \in DOMAIN G |-> G[i].dim], bars_set |-> BarsJ(G),
                             checks_failed |-> <<>>, reps_set |-> RepsJ(G)]
           ELSE Obs(G)
EmitState == PrintT(<<"STATE", ToJson([id |-> [f |-> FJ(F), h |-> hist], obs |-> ObsR(F)])>>)
(* every bar has a representative, and the number of bars alive at j in dimension k is the Betti number *)
InvRepsExist == WithReps => \A b \in Bars(F, P) : RepsOf(F, b, FALSE) # {} /\ RepsOf(F, b, TRUE) # {}
InvAliveIsBetti == \A j \in DOMAIN F : \A k \in 0..MaxD :
                     Cardinality({b \in AliveAt(F, j) : b.dim = k}) = DefBetti(F, k, j, P)
EmitEdge  == PrintT(<<"EDGE", ToJson([from |-> [f |-> FJ(F), h |-> hist], act |-> act', to |-> [f |-> FJ(F'), h |-> hist']])>>)

InvWellFormed == WellFormed(F, P)
InvPartition == \A i \in DOMAIN F : Cardinality({b \in Bars(F, P) : b.birth = i \/ b.death = i}) = 1
(* vineyard lemma: after an admissible transposition the two cells kept or exchanged their bars *)
InvVineLemma == \A i \in 1..(Len(F) - 1) : i \notin DOMAIN F[i + 1].bd => (Kept(F, i) \/ Exchanged(F, i))
InvSwapWellFormed == \A i \in 1..(Len(F) - 1) : i \notin DOMAIN F[i + 1].bd => WellFormed(SwapF(F, i), P)
=============================================================================
