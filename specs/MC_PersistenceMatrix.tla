------------------------- MODULE MC_PersistenceMatrix -------------------------
EXTENDS PersistenceMatrix, Json
CONSTANTS Mode   \* "insert" (C05: insertions and remove_last) | "vine" (C06: + swaps and maximal-cell removals)

Boundaries(d) == IF d = 0 THEN {<<>>} ELSE AllChains(CellsOfDim(F, d - 1, Len(F)), P)
Next ==
  \/ \E d \in 0..MaxD : \E bd \in Boundaries(d) : InsertBoundary(d, bd)
  \/ RemoveLast
  \/ Mode = "vine" /\ \E i \in 1..(Len(F) - 1) : VineSwap(i)
  \/ Mode = "vine" /\ \E i \in DOMAIN F : RemoveMaximalCell(i)
Spec == Init /\ [][Next]_<<F, act>>
View == F
CONSTANT WithReps
ObsR(G) == IF WithReps THEN [n |-> Len(G), dims |-> [i \in DOMAIN G |-> G[i].dim], bars_set |-> BarsJ(G),
                             checks_failed |-> <<>>, reps_set |-> RepsJ(G)]
           ELSE Obs(G)
EmitState == PrintT(<<"STATE", ToJson([id |-> [f |-> FJ(F)], obs |-> ObsR(F)])>>)
(* every bar has a representative, and the number of bars alive at j in dimension k is the Betti number *)
InvRepsExist == WithReps => \A b \in Bars(F, P) : RepsOf(F, b, FALSE) # {} /\ RepsOf(F, b, TRUE) # {}
InvAliveIsBetti == \A j \in DOMAIN F : \A k \in 0..MaxD :
                     Cardinality({b \in AliveAt(F, j) : b.dim = k}) = DefBetti(F, k, j, P)
EmitEdge  == PrintT(<<"EDGE", ToJson([from |-> [f |-> FJ(F)], act |-> act', to |-> [f |-> FJ(F')]])>>)

InvWellFormed == WellFormed(F, P)
InvPartition == \A i \in DOMAIN F : Cardinality({b \in Bars(F, P) : b.birth = i \/ b.death = i}) = 1
(* vineyard lemma: after an admissible transposition the two cells kept or exchanged their bars *)
InvVineLemma == \A i \in 1..(Len(F) - 1) : i \notin DOMAIN F[i + 1].bd => (Kept(F, i) \/ Exchanged(F, i))
InvSwapWellFormed == \A i \in 1..(Len(F) - 1) : i \notin DOMAIN F[i + 1].bd => WellFormed(SwapF(F, i), P)
=============================================================================
