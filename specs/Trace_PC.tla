------------------------------- MODULE Trace_PC -------------------------------
(* C02, code -> spec: every recorded run of Persistent_cohomology logs the cell  *)
(* complex the engine was given (cells in the exposed filtration order with      *)
(* dimension, value and signed boundary) and the intervals it reported; the      *)
(* expected diagram is recomputed here with the column reduction of              *)
(* Persistence.tla over the same prime and the front-end rules.                  *)
EXTENDS Persistence, Json, IOUtils

VARIABLE l
Tr == ndJsonDeserialize(IOEnv.TRACE)
INF == 1000000

(* boundary coefficients are logged as 1 or "minus one"; for a multi-field event "minus one" is written 2 and *)
(* resolved here for the prime p the diagram is computed over                                               *)
CellsOfEvP(e, p) ==
  [i \in DOMAIN e.cells |->
     [dim |-> e.cells[i].dim,
      bd  |-> LET b == e.cells[i].bd IN
              [x \in {b[j].x + 1 : j \in DOMAIN b} |->
                 LET c == b[CHOOSE j \in DOMAIN b : b[j].x + 1 = x].c IN IF c = 1 THEN 1 ELSE p - 1]]]
CellsOfEv(e) == CellsOfEvP(e, e.p)

P3(x) == [dim |-> x.dim, b |-> x.b, d |-> x.d]
BagOfPairs(q) ==   \* q: sequence of records with fields dim, b, d (others ignored)
  LET keys == {P3(q[i]) : i \in DOMAIN q} IN
  {[dim |-> k.dim, b |-> k.b, d |-> k.d, n |-> Cardinality({i \in DOMAIN q : P3(q[i]) = k})] : k \in keys}

ExpectedBag(e, p) ==
  LET F == CellsOfEvP(e, p)
      val == [i \in DOMAIN e.cells |-> e.cells[i].val]
      dmax == e.dimK + (IF e.flag THEN 1 ELSE 0)
      kb == IF dmax <= 0 THEN {}
            ELSE {b \in Bars(F, p) : b.dim < dmax /\ (b.death = 0 \/ val[b.death] - val[b.birth] > e.minlen)}
      pt(b) == [dim |-> b.dim, b |-> val[b.birth], d |-> IF b.death = 0 THEN INF ELSE val[b.death]]
      keys == {pt(b) : b \in kb}
  IN  {[dim |-> k.dim, b |-> k.b, d |-> k.d, n |-> Cardinality({b \in kb : pt(b) = k})] : k \in keys}

CheckEv(e) ==
  IF e.op = "pc" THEN
    /\ WellFormed(CellsOfEv(e), e.p)
    /\ BagOfPairs(e.pairs) = ExpectedBag(e, e.p)
  ELSE IF e.op = "pcm" THEN   \* multi-field: pairs carry the primes of the range dividing their characteristic product
    \A qi \in DOMAIN e.primes : LET q == e.primes[qi] IN
       BagOfPairs(SelectSeq(e.pairs, LAMBDA x : \E j \in DOMAIN x.qs : x.qs[j] = q)) =
         ExpectedBag(e, q)
  ELSE FALSE

TraceInit == l = 1
TraceNext == l <= Len(Tr) /\ (CheckEv(Tr[l]) = TRUE) /\ l' = l + 1
TraceSpec == TraceInit /\ [][TraceNext]_l
Verdict ==
  LET m == TLCGet("stats").diameter - 1 IN
  PrintT(<<"TRACE", ToJson([accepted |-> (m = Len(Tr)), matched |-> m, len |-> Len(Tr)])>>)
=============================================================================
