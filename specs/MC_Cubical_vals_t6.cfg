SPECIFICATION Spec
CONSTANTS
  Mode = "vals"
  MaxD = 3
  NonPerSides = {0, 1, 2, 3}
  PerSides = {2, 3}
  MinInputs = 5
  MaxInputs = 6
  MaxCells = 400
  ValSet = {0, 1, 1000000}
  ExhMax = 6
  NSamples = 1
  Primes = {2, 3, 5}
INVARIANT InvCase
CHECK_DEADLOCK FALSE
