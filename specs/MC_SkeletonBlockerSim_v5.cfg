SPECIFICATION SimSpec
CONSTANTS
  NV = 5
  Heavy = FALSE
INVARIANT TypeOK
INVARIANT EmitStep
CHECK_DEADLOCK FALSE
