SPECIFICATION SpecContract
CONSTANTS
  NV = 5
  MaxLoadBlockers = 3
  Heavy = FALSE
VIEW ViewContract
INVARIANT TypeOK
INVARIANT EmitState
ACTION_CONSTRAINT EmitEdge
CHECK_DEADLOCK FALSE
