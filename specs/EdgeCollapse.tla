------------------------------ MODULE EdgeCollapse ------------------------------
(* C12: Gudhi::collapse::flag_complex_collapse_edges (Flag_complex_edge_collapser.h). *)
(* A weighted graph is a function G : edge -> value, an edge being a 2-element set of  *)
(* vertices; the vertex set VV is given separately (the header keeps every vertex from *)
(* -infinity on: "the filtration value of vertices is irrelevant to this function").   *)
(* The flag filtration gives a clique the largest value of its edges; its persistence  *)
(* diagram is computed with the operators of Persistence.tla on the filtered cell      *)
(* complex (cells sorted by value, then dimension; boundary with alternating signs).   *)
(*                                                                                      *)
(*   CollapseOK(VV, G, H, Primes): the promise of the function for input G, output H.  *)
(*   DelayOK / Delay: the elementary step the algorithm is made of (push an edge        *)
(*   forward as long as it is dominated; drop it when dominated for ever).              *)
EXTENDS Simplicial, Persistence

NEGINF == -1000000       \* value of the vertices
INF    == 1000000        \* death of essential classes / "removed"

Tab(f) == f @@ <<>>      \* force a lazily evaluated function into a table

-----------------------------------------------------------------------------
(* flag filtration of a weighted graph *)
EdgesIn(s)      == {e \in SUBSET s : Cardinality(e) = 2}
FlagVal(G, s)   == IF Cardinality(s) = 1 THEN NEGINF ELSE Max({G[e] : e \in EdgesIn(s)})
(* the cliques, grown one vertex at a time (larger than the vertices already in): the same set   *)
(* as Cliques(VV, EE, |VV|) of Simplicial.tla (ThCliques in MC_EdgeCollapse), without enumerating   *)
(* the subsets of VV                                                                              *)
NbrTable(VV, EE) == Tab([v \in VV |-> UNION {e \ {v} : e \in {f \in EE : v \in f}}])
RECURSIVE GrowCliques(_, _, _)
GrowCliques(level, acc, nb) ==
  IF level = {} THEN acc
  ELSE LET next == UNION {{s \cup {v} : v \in {x \in nb[Max(s)] : x > Max(s) /\ \A a \in s : x \in nb[a]}} : s \in level}
       IN  GrowCliques(next, acc \cup next, nb)
FlagCliques(VV, EE) == LET V1 == {{v} : v \in VV} IN GrowCliques(V1, V1, NbrTable(VV, EE))
FlagF(VV, G)    == Tab([s \in FlagCliques(VV, DOMAIN G) |-> FlagVal(G, s)])
FBefore(F, s, t) == \/ F[s] < F[t]
                    \/ F[s] = F[t] /\ (Dim(s) < Dim(t) \/ (Dim(s) = Dim(t) /\ RevLex(s, t)))
FSeq(F)         == SetToSortSeq(DOMAIN F, LAMBDA s, t : FBefore(F, s, t))

(* the filtered cell complex of Persistence.tla over Z_p *)
FlagCells(F, q, p) ==
  LET pos == Tab([s \in DOMAIN F |-> CHOOSE i \in DOMAIN q : q[i] = s])
      bdOf(s) == IF Cardinality(s) = 1 THEN <<>>
                 ELSE LET sq == SortedSeq(s) IN
                      [x \in {pos[s \ {sq[j]}] : j \in DOMAIN sq} |->
                          LET j == CHOOSE jj \in DOMAIN sq : pos[s \ {sq[jj]}] = x
                          IN  IF j % 2 = 1 THEN 1 ELSE p - 1]
  IN  Tab([i \in DOMAIN q |-> [dim |-> Dim(q[i]), bd |-> Tab(bdOf(q[i]))]])
FlagVals(F, q) == Tab([i \in DOMAIN q |-> F[q[i]]])

(* The column reduction of Persistence.tla (ReduceColumn; pairs read off the pivots by BarsOf)   *)
(* driven by a strict fold: the recursion of ReduceFrom builds a chain of suspended evaluations   *)
(* as deep as the complex.  Same steps, same result (ThStrict in MC_EdgeCollapse).                *)
StrictReduced(C, p) ==
  FoldLeft(LAMBDA st, i :
             LET col == ReduceColumn(C[i].bd, st.R, st.piv, p) IN
             [R |-> (i :> col) @@ st.R,
              piv |-> IF IsZero(col) THEN st.piv ELSE (Max(DOMAIN col) :> i) @@ st.piv],
           [R |-> <<>>, piv |-> <<>>], [i \in 1..Len(C) |-> i])

(* persistence diagram (every dimension up to the clique number) as a bag of [dim, b, d, n];      *)
(* intervals of length zero dropped, essential classes die at INF                                 *)
FlagDiagram(VV, G, p) ==
  LET F == FlagF(VV, G)
      q == FSeq(F)
      C == FlagCells(F, q, p)
  IN  DiagramOf(BarsOf(C, StrictReduced(C, p)), FlagVals(F, q), INF, 0)

-----------------------------------------------------------------------------
(* the promise *)
SubgraphOK(G, H)  == DOMAIN H \subseteq DOMAIN G
ValuesOK(G, H)    == \A e \in DOMAIN H \cap DOMAIN G : H[e] >= G[e]
DiagramsOK(VV, G, H, Primes) == \A p \in Primes : FlagDiagram(VV, G, p) = FlagDiagram(VV, H, p)
CollapseOK(VV, G, H, Primes) == SubgraphOK(G, H) /\ ValuesOK(G, H) /\ DiagramsOK(VV, G, H, Primes)

-----------------------------------------------------------------------------
(* domination in the sublevel graph at time s: the common neighbours of the edge are all in the   *)
(* closed neighbourhood of one of them (the link of the edge in the flag complex is a cone)       *)
Adj(G, a, b, s)        == a # b /\ {a, b} \in DOMAIN G /\ G[{a, b}] <= s
CommonN(VV, G, e, s)   == {x \in VV \ e : \A a \in e : Adj(G, a, x, s)}
DominatedBy(VV, G, e, w, s) ==
  /\ w \in CommonN(VV, G, e, s)
  /\ \A x \in CommonN(VV, G, e, s) \ {w} : Adj(G, w, x, s)
DominatedAt(VV, G, e, s) == \E w \in VV : DominatedBy(VV, G, e, w, s)
ValuesOfG(G)           == {G[e] : e \in DOMAIN G}
(* the step of the sweep: edge e moves from G[e] to t (t = INF: removed); allowed when e is       *)
(* dominated in every sublevel graph of [G[e], t)                                                 *)
DelayOK(VV, G, e, t) ==
  /\ e \in DOMAIN G
  /\ t > G[e]
  /\ \A s \in ValuesOfG(G) : (G[e] <= s /\ s < t) => DominatedAt(VV, G, e, s)
Delay(G, e, t) == IF t = INF THEN [f \in DOMAIN G \ {e} |-> G[f]] ELSE [G EXCEPT ![e] = t]

(* Betti numbers of the sublevel flag complex at s, by the definition (explicit sets of cycles    *)
(* and boundaries over Z_2)                                                                        *)
SublevelBettiTab(VV, G, S) ==      \* the table s -> (k -> Betti number k of the sublevel complex at s), s in S
  LET F == FlagF(VV, G)
      q == FSeq(F)
      C == FlagCells(F, q, 2)
  IN  Tab([s \in S |->
             LET j == Cardinality({i \in DOMAIN q : F[q[i]] <= s})
             IN  Tab([k \in 0..(Cardinality(VV) - 1) |-> DefBetti(C, k, j, 2)])])
(* the same numbers read off a diagram *)
DiagramBetti(D, k, s) ==
  FoldSet(LAMBDA x, acc : acc + x.n, 0, {x \in D : x.dim = k /\ x.b <= s /\ s < x.d})
=============================================================================
