SPECIFICATION Spec
CONSTANTS
  P = 2
  NR = 3
  NC = 3
  Coefs = {0, 1}
  InsMax = 3
  RngMax = 3
  Orders = {"asc", "desc", "rot"}
VIEW View
INVARIANT TypeOK
INVARIANT InvAlgebra
INVARIANT InvRowsCols
INVARIANT InvSwapInvolution
INVARIANT EmitState
ACTION_CONSTRAINT EmitEdge
CHECK_DEADLOCK FALSE
