-------------------------- MODULE Trace_EdgeCollapse --------------------------
(* C12, code -> spec: every line of the NDJSON file (env TRACE) is one call of            *)
(* flag_complex_collapse_edges on the real code:                                         *)
(*   {"op":"collapse","id":..,"primes":[2],"in":[[u,v,f],..],"out":[[u,v,f],..]}           *)
(* `in` is the range handed to the function, `out` the range it returned (values are      *)
(* small integers, exactly representable).  The promise CollapseOK of EdgeCollapse.tla is *)
(* evaluated on it; the output is legitimately non-unique, so this is a predicate, not a  *)
(* comparison with a computed output.  A line that breaks the promise is printed as a     *)
(* REJECT record (with the two diagrams) and counted; the remaining lines are still       *)
(* checked.                                                                               *)
EXTENDS EdgeCollapse, Json, IOUtils

VARIABLE l
Tr == ndJsonDeserialize(IOEnv.TRACE)

PairOf(x)  == {x[1], x[2]}
SeqLegal(q) ==      \* a simple graph: no loop, no pair twice; values in the exactly represented range
  /\ \A i \in DOMAIN q : q[i][1] # q[i][2] /\ q[i][1] >= 0 /\ q[i][2] >= 0 /\ q[i][3] > -100000 /\ q[i][3] < 100000
  /\ \A i, j \in DOMAIN q : i < j => PairOf(q[i]) # PairOf(q[j])
GraphOf(q) == Tab([e \in {PairOf(q[i]) : i \in DOMAIN q} |-> q[CHOOSE i \in DOMAIN q : PairOf(q[i]) = e][3]])
VerticesOfSeq(q) == UNION {PairOf(q[i]) : i \in DOMAIN q}
PrimesOf(e) == {e.primes[i] : i \in DOMAIN e.primes}

Verdict(e) ==
  IF e.op # "collapse" THEN [ok |-> FALSE, why |-> "unknown event"]
  ELSE IF ~SeqLegal(e.in) THEN [ok |-> FALSE, why |-> "illegal input (harness)"]
  ELSE IF ~SeqLegal(e.out) THEN [ok |-> FALSE, why |-> "output is not a simple graph (loop, repeated edge, value out of range)"]
  ELSE LET G == GraphOf(e.in)  H == GraphOf(e.out)  VS == VerticesOfSeq(e.in) IN
       IF ~SubgraphOK(G, H) THEN [ok |-> FALSE, why |-> "output edge that is not an input edge"]
       ELSE IF ~ValuesOK(G, H) THEN [ok |-> FALSE, why |-> "output value smaller than the input value"]
       ELSE IF ~DiagramsOK(VS, G, H, PrimesOf(e)) THEN
            [ok |-> FALSE, why |-> "persistence diagrams differ",
             p |-> CHOOSE p \in PrimesOf(e) : FlagDiagram(VS, G, p) # FlagDiagram(VS, H, p),
             din  |-> LET p == CHOOSE p \in PrimesOf(e) : FlagDiagram(VS, G, p) # FlagDiagram(VS, H, p) IN FlagDiagram(VS, G, p),
             dout |-> LET p == CHOOSE p \in PrimesOf(e) : FlagDiagram(VS, G, p) # FlagDiagram(VS, H, p) IN FlagDiagram(VS, H, p)]
       ELSE [ok |-> TRUE]

CheckLine(i) ==
  LET v == Verdict(Tr[i]) IN
  IF v.ok THEN TRUE
  ELSE /\ PrintT(<<"REJECT", ToJson([line |-> i, id |-> Tr[i].id, verdict |-> v])>>)
       /\ TLCSet(7, TLCGet(7) + 1)

TraceInit == l = 1 /\ TLCSet(7, 0)
TraceNext == l <= Len(Tr) /\ CheckLine(l) /\ l' = l + 1
TraceSpec == TraceInit /\ [][TraceNext]_l
TraceVerdict ==
  LET m == TLCGet("stats").diameter - 1 IN
  PrintT(<<"TRACE", ToJson([accepted |-> (m = Len(Tr) /\ TLCGet(7) = 0), matched |-> m, len |-> Len(Tr), rejected |-> TLCGet(7)])>>)
=============================================================================
