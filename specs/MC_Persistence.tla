----------------------------- MODULE MC_Persistence -----------------------------
(* In-model theorem: on every filtered cell complex of the bounded model the   *)
(* definitional pairing equals the pairing of the column reduction.            *)
EXTENDS Persistence
CONSTANTS P, MaxCells, MaxD, AllowEmptyBd
VARIABLE F

Init == F = <<>>
AddCell(d, bd) ==
  /\ Len(F) < MaxCells
  /\ IsZero(BdChain(F, bd, P))
  /\ (d > 0 /\ ~AllowEmptyBd) => ~IsZero(bd)
  /\ F' = Append(F, [dim |-> d, bd |-> bd])
Next == \E d \in 0..MaxD :
          \E bd \in (IF d = 0 THEN {<<>>} ELSE AllChains(CellsOfDim(F, d - 1, Len(F)), P)) : AddCell(d, bd)
Spec == Init /\ [][Next]_F

InvWellFormed == WellFormed(F, P)
InvDefEqAlg == /\ DefPairs(F, P) = AlgPairs(F, P)
               /\ DefEssential(F, P) = AlgEssential(F, P)
InvBetti == \A k \in 0..MaxD : DefBetti(F, k, Len(F), P) = Betti(F, k, P)
(* every cell is in exactly one bar *)
InvPartition == LET bs == Bars(F, P) IN
   /\ \A i \in DOMAIN F : Cardinality({b \in bs : b.birth = i \/ b.death = i}) = 1
=============================================================================
