---------------------------- MODULE MC_EdgeCollapse ----------------------------
(* C12, bounded model ("cases" style): one TLC state per weighted graph on the     *)
(* vertices 0..N-1 with weights in W (every subset of the edges, ties included),   *)
(* or - when the environment variable COLLAPSE_COUNT is not 0 - a sample of that   *)
(* many graphs drawn by a congruential generator seeded with COLLAPSE_SEED.        *)
(* Every graph is printed as a CASE line (input of the real function) and the      *)
(* theorems the oracle rests on are checked on it as invariants.                   *)
EXTENDS EdgeCollapse, Json, IOUtils

CONSTANTS N, W, Primes
VARIABLES G, ph, idx      \* ph = 0: seed states (spread over the workers), ph = 1: the graph G is a case

VV       == 0..(N - 1)
AllEdges == {e \in SUBSET VV : Cardinality(e) = 2}
GraphsOn(EE) == UNION {[E -> W] : E \in SUBSET EE}     \* (an operator: TLC evaluates constant definitions eagerly)

(* seeded sample: x -> 75 x + 74 mod 65537; one draw per possible edge; per graph a density class *)
Seed  == atoi(IOEnv.COLLAPSE_SEED)
Count == atoi(IOEnv.COLLAPSE_COUNT)
Lcg(x) == (x * 75 + 74) % 65537
EdgeSeq == SetToSortSeq(AllEdges, LAMBDA a, b : RevLex(a, b))
WSeq    == SetToSortSeq(W, LAMBDA a, b : a < b)
SampleGraph(kk) ==
  LET x0 == Lcg(Lcg((Seed * 7919 + kk * 10473) % 65537))
      dens == x0 % 3             \* an edge is absent with probability dens/4
      st == FoldLeft(LAMBDA acc, i :
                       LET x == Lcg(acc.x) IN
                       [x |-> x,
                        g |-> IF (x \div 16) % 4 < dens THEN acc.g
                              ELSE (EdgeSeq[i] :> WSeq[1 + ((x \div 64) % Len(WSeq))]) @@ acc.g],
                     [x |-> x0, g |-> <<>>], [i \in 1..Len(EdgeSeq) |-> i])
  IN  st.g

(* two levels so that the cases are generated and checked by the worker threads: a seed state is  *)
(* a set of edges with the weights of the first two fixed (the others minimal), or the index of a  *)
(* sample graph                                                                                    *)
vars == <<G, ph, idx>>
SeedEdges == {EdgeSeq[i] : i \in 1..2}
Init == /\ ph = 0
        /\ IF Count = 0 THEN idx = 0 /\ G \in {H \in GraphsOn(AllEdges) : \A e \in DOMAIN H \ SeedEdges : H[e] = Min(W)}
                        ELSE idx \in 1..Count /\ G = <<>>
Next == /\ ph = 0 /\ ph' = 1 /\ idx' = idx
        /\ IF Count = 0 THEN G' \in {H \in [DOMAIN G -> W] : \A e \in DOMAIN G \cap SeedEdges : H[e] = G[e]} ELSE G' = SampleGraph(idx)
Spec == Init /\ [][Next]_vars

Times == W \cup {INF}
LegalDelays == {x \in (DOMAIN G) \X Times : DelayOK(VV, G, x[1], x[2])}

EmitCase == ph = 1 =>
  PrintT(<<"CASE", ToJson([n |-> N,
                           edges |-> {<<Min(e), Max(e), G[e]>> : e \in DOMAIN G},
                           delays |-> Cardinality(LegalDelays),
                           cells |-> Cardinality(Cliques(VV, DOMAIN G, N))])>>)

-----------------------------------------------------------------------------
(* theorems *)
CellsG(p) == LET F == FlagF(VV, G) IN FlagCells(F, FSeq(F), p)
(* the cliques grown vertex by vertex are the cliques of Simplicial.tla *)
ThCliques == ph = 1 => FlagCliques(VV, DOMAIN G) = Cliques(VV, DOMAIN G, N)
(* the flag filtration is a filtered chain complex: faces first, boundary of boundary zero *)
ThWellFormed == ph = 1 => \A p \in Primes : WellFormed(CellsG(p), p)
(* the strict driver computes the reduction of Persistence.tla *)
ThStrict == ph = 1 => \A p \in Primes : StrictReduced(CellsG(p), p) = AlgReduced(CellsG(p), p)
(* the diagram counts, at every time, the Betti numbers of the sublevel flag complex computed by  *)
(* the definition (sets of cycles and boundaries)                                                  *)
ThDefBetti == ph = 1 =>
  LET S == W \cup {NEGINF}
      B == SublevelBettiTab(VV, G, S)
      D == FlagDiagram(VV, G, 2)
  IN  \A s \in S : \A k \in DOMAIN B[s] : B[s][k] = DiagramBetti(D, k, s)
(* THE STEP OF THE ALGORITHM IS SOUND: delaying an edge over a time span in which it is dominated  *)
(* (removing it when the span is unbounded) changes no sublevel homology and no diagram            *)
ThDelay == ph = 1 =>
  \A p \in Primes :
     LET D == FlagDiagram(VV, G, p) IN
     \A x \in LegalDelays :
        LET H == Delay(G, x[1], x[2]) IN SubgraphOK(G, H) /\ ValuesOK(G, H) /\ FlagDiagram(VV, H, p) = D
ThDelayDef == ph = 1 =>
  LET B == SublevelBettiTab(VV, G, W) IN
  \A x \in LegalDelays : SublevelBettiTab(VV, Delay(G, x[1], x[2]), W) = B
(* the diagram does not depend on the prime on these small flag complexes *)
ThNoTorsion == ph = 1 => \A p, r \in Primes : FlagDiagram(VV, G, p) = FlagDiagram(VV, G, r)
=============================================================================
