SPECIFICATION TraceSpec
CONSTANTS
  V = {0, 1, 2, 3, 4, 5, 6, 7}
  Vals = {0}
  INF = 1000000
  MaxDim = 7
VIEW TraceView
POSTCONDITION Verdict
CHECK_DEADLOCK FALSE
