SPECIFICATION Spec
CONSTANTS
  P = 2
  MaxCells = 5
  MaxD = 2
  AllowEmptyBd = FALSE
  WithReps = TRUE
  Mode = "insert"
  WithHist = TRUE
VIEW View
INVARIANT InvWellFormed
INVARIANT InvPartition
INVARIANT InvVineLemma
INVARIANT InvSwapWellFormed
INVARIANT InvRepsExist
INVARIANT InvAliveIsBetti
INVARIANT EmitState
ACTION_CONSTRAINT EmitEdge
CHECK_DEADLOCK FALSE
