SPECIFICATION Spec
CONSTANTS
  MaxP = 13
  T3 = 15
  T2 = 35
  T1 = 2310
  FullSel = 4
VIEW View
INVARIANT TypeOK
INVARIANT ThCRT
INVARIANT ThRing
INVARIANT ThIdem
INVARIANT ThInverse
INVARIANT EmitCase
CHECK_DEADLOCK FALSE
