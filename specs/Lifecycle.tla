------------------------------- MODULE Lifecycle -------------------------------
(* C15: object life cycle of value-semantic GUDHI objects (Simplex_tree, Matrix). *)
(* Slots hold independent objects; a payload state is an abstract filtered        *)
(* complex K : simplex -> value (as in SimplexTree.tla) or, for matrices, a       *)
(* sequence of inserted cells.  By construction an action on slot i changes slot  *)
(* i only (and the source of a move): the replay re-projects ALL live slots after *)
(* every step, so aliasing between copies shows as a change of a slot the action  *)
(* did not name.                                                                  *)
EXTENDS Simplicial, TLC

CONSTANTS Slots, V, Vals, MaxDim, Payload   \* Payload = "tree" | "matrix"
VARIABLES obj,    \* slot -> [live |-> BOOLEAN, k |-> payload state]
          buf,    \* last serialised image: [some |-> BOOLEAN, k |-> payload]
          act

Empty == <<>>
Universe == {s \in Simplices(V) : Dim(s) <= MaxDim}
Min2(a, b) == IF a < b THEN a ELSE b
Dead == [live |-> FALSE, k |-> Empty]
Live(k) == [live |-> TRUE, k |-> k]

Init == obj = [i \in Slots |-> Dead] /\ buf = [some |-> FALSE, k |-> Empty] /\ act = [op |-> "init"]

(* payload mutations: tree = insert_simplex / remove_maximal_simplex ; matrix = insert_boundary of a vertex or of an *)
(* edge between the two last vertices / remove_last.  Only enough to make states differ.                              *)
TreeInsert(k, s, f) == IF s \in DOMAIN k THEN [k EXCEPT ![s] = Min2(k[s], f)] ELSE (s :> f) @@ k
TreeInsertOK(k, s) == Facets(s) \subseteq DOMAIN k
TreeRemoveOK(k, s) == s \in DOMAIN k /\ \A t \in DOMAIN k : s \subseteq t => s = t
TreeRemove(k, s) == [t \in DOMAIN k \ {s} |-> k[t]]

Construct(i) ==
  /\ ~obj[i].live
  /\ obj' = [obj EXCEPT ![i] = Live(Empty)]
  /\ act' = [op |-> "construct", i |-> i] /\ UNCHANGED buf
MutInsert(i, s, f) ==
  /\ obj[i].live /\ TreeInsertOK(obj[i].k, s)
  /\ obj' = [obj EXCEPT ![i] = Live(TreeInsert(obj[i].k, s, f))]
  /\ act' = [op |-> "insert", i |-> i, s |-> SortedSeq(s), f |-> f] /\ UNCHANGED buf
MutRemove(i, s) ==
  /\ obj[i].live /\ TreeRemoveOK(obj[i].k, s)
  /\ obj' = [obj EXCEPT ![i] = Live(TreeRemove(obj[i].k, s))]
  /\ act' = [op |-> "remove", i |-> i, s |-> SortedSeq(s)] /\ UNCHANGED buf
CopyConstruct(i, j) ==
  /\ ~obj[i].live /\ obj[j].live
  /\ obj' = [obj EXCEPT ![i] = obj[j]]
  /\ act' = [op |-> "copy_construct", i |-> i, j |-> j] /\ UNCHANGED buf
CopyAssign(i, j) ==            \* i = j allowed: self-assignment
  /\ obj[i].live /\ obj[j].live
  /\ obj' = [obj EXCEPT ![i] = obj[j]]
  /\ act' = [op |-> "copy_assign", i |-> i, j |-> j] /\ UNCHANGED buf
MoveConstruct(i, j) ==         \* the moved-from object is empty and usable again
  /\ ~obj[i].live /\ obj[j].live
  /\ obj' = [obj EXCEPT ![i] = obj[j], ![j] = Live(Empty)]
  /\ act' = [op |-> "move_construct", i |-> i, j |-> j] /\ UNCHANGED buf
MoveAssign(i, j) ==
  /\ obj[i].live /\ obj[j].live /\ i # j
  /\ obj' = [obj EXCEPT ![i] = obj[j], ![j] = Live(Empty)]
  /\ act' = [op |-> "move_assign", i |-> i, j |-> j] /\ UNCHANGED buf
Swap(i, j) ==
  /\ obj[i].live /\ obj[j].live /\ i # j
  /\ obj' = [obj EXCEPT ![i] = obj[j], ![j] = obj[i]]
  /\ act' = [op |-> "swap", i |-> i, j |-> j] /\ UNCHANGED buf
Destroy(i) ==
  /\ obj[i].live
  /\ obj' = [obj EXCEPT ![i] = Dead]
  /\ act' = [op |-> "destroy", i |-> i] /\ UNCHANGED buf
(* serialisation (trees): get_serialization_size bytes are written, exactly; deserialising them into an empty tree *)
(* rebuilds an equal tree; a buffer whose announced length is off by delta is refused with an exception            *)
Serialize(i) ==
  /\ Payload = "tree" /\ obj[i].live
  /\ buf' = [some |-> TRUE, k |-> obj[i].k]
  /\ act' = [op |-> "serialize", i |-> i, filled_exactly |-> TRUE] /\ UNCHANGED obj
Deserialize(i, delta) ==
  /\ Payload = "tree" /\ buf.some /\ obj[i].live /\ obj[i].k = Empty
  /\ IF delta = 0 THEN obj' = [obj EXCEPT ![i] = Live(buf.k)]
     ELSE obj' = [obj EXCEPT ![i] = Dead]        \* refused: the target is discarded (destroyed) by the driver
  /\ act' = [op |-> "deserialize", i |-> i, delta |-> delta, refused |-> (delta # 0)] /\ UNCHANGED buf
(* text round trip (trees): operator<< then operator>> into an empty tree *)
MonotoneK(k) == \A s \in DOMAIN k : \A t \in Facets(s) : t \in DOMAIN k => k[t] <= k[s]
TextRoundTrip(i, j) ==     \* the text form lists the simplices in filtration order: needs a valid (monotone) filtration
  /\ Payload = "tree" /\ obj[i].live /\ obj[j].live /\ obj[j].k = Empty /\ i # j /\ MonotoneK(obj[i].k)
  /\ obj' = [obj EXCEPT ![j] = obj[i]]
  /\ act' = [op |-> "text_round_trip", i |-> i, j |-> j] /\ UNCHANGED buf

KJ(k) == {[s |-> SortedSeq(s), f |-> k[s]] : s \in DOMAIN k}
(* the filtration-ordered range (value, then reverse lexicographic order): part of "observationally equal" - a copy *)
(* or an assigned object lists ITS simplices, whatever cache the target held before                                *)
FiltOrder(k) == SetToSortSeq(DOMAIN k, LAMBDA s, t : k[s] < k[t] \/ (k[s] = k[t] /\ RevLex(s, t)))
ObjJ(o) == [i \in Slots |-> [live |-> o[i].live, k_set |-> KJ(o[i].k),
                             filt |-> [n \in DOMAIN FiltOrder(o[i].k) |-> SortedSeq(FiltOrder(o[i].k)[n])]]]
(* equality of two live objects is equality of their payloads *)
EqJ(o) == {[i |-> w[1], j |-> w[2], eq |-> (o[w[1]].k = o[w[2]].k)] : w \in {x \in Slots \X Slots : o[x[1]].live /\ o[x[2]].live /\ x[1] < x[2]}}
=============================================================================
