SPECIFICATION Spec
CONSTANTS
  Mode = "line"
  R = 1
  C = 1
  NVals = 4
  MaxLen = 7
  ThEvery = 1
  ThMaxLen = 6
INVARIANT ThDual
INVARIANT ThShape
INVARIANT EmitCase
CHECK_DEADLOCK FALSE
