------------------------------ MODULE Trace_Zigzag ------------------------------
(* Validates executions recorded from the real classes (harness/zz_record.cpp)  *)
(* against ZigzagSpec.tla.  One event per call of Zigzag_persistence, logged    *)
(* after it returned, with the same call made in lock-step on a                 *)
(* Filtered_zigzag_persistence and a Filtered_zigzag_persistence_with_storage:  *)
(*   op, arguments (bd / dim / k), f (filtration value fed to the front ends),  *)
(*   ret, closed (callback of this call), open (get_current_infinite_intervals),*)
(*   fclosed / fopen (the same of the streaming front end), and now and then    *)
(*   sidx / sdiag (index and value diagrams of the storage front end).          *)
(* Every logged call must be an enabled action of the specification whose       *)
(* emitted intervals, open births and translated diagrams are the logged ones.  *)
(* TRACE=<file.ndjson> in the environment; executions separated by reset events *)
(* carrying the monotonicity direction, ignoreCyclesAboveDim and the threshold. *)
EXTENDS ZigzagSpec, Json, IOUtils

CONSTANT INF
VARIABLES l, val, diag, par
Tr == ndJsonDeserialize(IOEnv.TRACE)

SetOf(q) == {q[i] : i \in DOMAIN q}
Has(e, k) == k \in DOMAIN e
ListBag(q) == {[k |-> q[i], n |-> Cardinality({j \in DOMAIN q : q[j] = q[i]})] : i \in DOMAIN q}
SameSet(q, S) == SetOf(q) = S /\ Len(q) = Cardinality(S)
(* documented precondition of the front ends: values monotone along the sequence *)
MonotoneNew(v, f, dir) == \A i \in DOMAIN v : IF dir = "inc" THEN v[i] <= f ELSE v[i] >= f

Call(e) ==
  \/ /\ e.op = "insert" /\ InsertCell(SetOf(e.bd), e.dim)
  \/ /\ e.op = "remove" /\ RemoveCell(e.k)
  \/ /\ e.op = "identity" /\ Identity

Step(e) ==
  \/ /\ e.op = "reset"
     /\ live' = <<>> /\ arrow' = 0 /\ flag' = [k \in 0..MaxDim |-> <<>>] /\ act' = [op |-> "reset"]
     /\ val' = <<>> /\ diag' = {}
     /\ par' = [dir |-> e.dir, D |-> e.D, shortest |-> e.shortest]
  \/ /\ e.op # "reset"
     /\ Call(e)
     /\ par' = par
     /\ val' = IF e.op = "identity" THEN val ELSE (arrow :> e.f) @@ val
     /\ (e.op # "identity" => MonotoneNew(val, e.f, par.dir)) = TRUE   \* "= TRUE": evaluated as a value, not as an action
     /\ diag' = diag \cup act'.closed_set
     /\ act'.ret = e.ret
     /\ Has(e, "fret") => e.fret = e.ret
     /\ Has(e, "sret") => e.sret = e.ret
     /\ SameSet(e.closed, act'.closed_set)
     /\ LET open == OpenOf([live |-> live', arrow |-> arrow', flag |-> flag']) IN
        /\ SameSet(e.open, open)
        /\ Has(e, "fclosed") => ListBag(e.fclosed) = FClosed(act'.closed_set, val')
        /\ Has(e, "fopen") => ListBag(e.fopen) = FOpen(open, val')
        /\ Has(e, "sidx") => SameSet(e.sidx, SIndex(diag', par.D))
        /\ Has(e, "sdiag") => ListBag(e.sdiag) = SDiagram(diag', open, val', par.D, par.shortest, INF)

TraceInit == /\ Init /\ l = 1 /\ val = <<>> /\ diag = {}
             /\ par = [dir |-> "inc", D |-> -1, shortest |-> 0]
TraceNext == /\ l <= Len(Tr)
             /\ l' = l + 1
             /\ Step(Tr[l])
TraceSpec == TraceInit /\ [][TraceNext]_<<live, arrow, flag, act, l, val, diag, par>>
TraceView == <<l>>

Verdict ==
  LET m == TLCGet("stats").diameter - 1 IN
  PrintT(<<"TRACE", ToJson([accepted |-> (m = Len(Tr)), matched |-> m, len |-> Len(Tr)])>>)
=============================================================================
