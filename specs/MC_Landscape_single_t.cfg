SPECIFICATION Spec
CONSTANTS
  Mode = "single"
  NMax = 4
  Hi = 5
  NSmall = 4
  Stride = 1
  CheckDef = FALSE
INVARIANT ThDef
INVARIANT ThSort
INVARIANT ThShape
INVARIANT ThArea
INVARIANT ThGrid
INVARIANT EmitCase
CHECK_DEADLOCK FALSE
