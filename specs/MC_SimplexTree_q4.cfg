SPECIFICATION Spec
CONSTANTS
  V = {0, 1, 2, 3}
  Vals = {0}
  INF = 1000000
  MaxDim = 3
  MaxBlocked = 0
  AssignInf = FALSE
  FlagDims = {3}
  Mode = "all"
VIEW View
INVARIANT TypeOK
INVARIANT InvClosed
INVARIANT InvFiltSeq
INVARIANT InvHull
INVARIANT EmitState
ACTION_CONSTRAINT EmitEdge
CHECK_DEADLOCK FALSE
