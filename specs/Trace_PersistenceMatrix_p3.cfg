SPECIFICATION TraceSpec
CONSTANTS
  P = 3
  MaxCells = 64
  MaxD = 3
  AllowEmptyBd = TRUE
VIEW TraceView
POSTCONDITION Verdict
CHECK_DEADLOCK FALSE
