SPECIFICATION Spec
CONSTANTS
  V = {0, 1, 2, 3, 4}
  Vals = {1}
  INF = 1000000
  MaxDim = 4
  MaxBlocked = 3
  AssignInf = FALSE
  FlagDims = {2, 3}
  Mode = "blk"
VIEW View
INVARIANT TypeOK
INVARIANT InvClosed
INVARIANT InvFlagValues
INVARIANT EmitState
ACTION_CONSTRAINT EmitEdge
CHECK_DEADLOCK FALSE
