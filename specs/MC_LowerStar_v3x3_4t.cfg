SPECIFICATION Spec
CONSTANTS
  Mode = "vals"
  R = 3
  C = 3
  NVals = 4
  MaxLen = 0
  ThEvery = 64
  ThMaxLen = 0
INVARIANT ThDual
INVARIANT ThShape
INVARIANT EmitCase
CHECK_DEADLOCK FALSE
