--------------------------- MODULE Trace_SparseRips ---------------------------
(* C19, code -> spec.  Every event is one run of the real Sparse_rips_complex   *)
(* (and of Rips_complex on the same input): the integer metric, eps = p/q,      *)
(* mini, maxi, dim_max and both filtered complexes as read through the public   *)
(* Simplex_tree interface.  The event is accepted when                          *)
(*   - the input is legal and exact (IsMetric, Exact) and the recorded Rips     *)
(*     complex is the Rips filtration of the specification;                     *)
(*   - the sparse complex is a valid filtered complex (closed, monotone);       *)
(*   - for 0 < eps < 1 without bounds: all points are vertices, it is a filtered*)
(*     subcomplex of the Rips complex with larger values, and the persistence   *)
(*     diagrams in dimensions < dim_max (recomputed here, Persistence.tla, Z2)  *)
(*     are matched as the documented (1, 1/(1-eps))-interleaving requires;      *)
(*     otherwise: inside the Rips complex, no value above maxi;                 *)
(*   - it EQUALS the construction of SparseRips.tla for at least one greedy     *)
(*     ordering of the points (the ordering itself is private to the class and  *)
(*     starts from a random point).                                             *)
(* A rejected event prints a REJECT line with the verdict of every clause.      *)
EXTENDS SparseRips, Json, IOUtils

VARIABLE l
Tr == ndJsonDeserialize(IOEnv.TRACE)

KOf(ks) == [s \in {{ks[i].s[j] : j \in DOMAIN ks[i].s} : i \in DOMAIN ks} |->
              ks[CHOOSE i \in DOMAIN ks : {ks[i].s[j] : j \in DOMAIN ks[i].s} = s].f]
DOf(ds) == [e \in {{ds[i].a, ds[i].b} : i \in DOMAIN ds} |-> ds[CHOOSE i \in DOMAIN ds : {ds[i].a, ds[i].b} = e].w]
NoDup(ks) == \A i, j \in DOMAIN ks : i # j => ks[i].s # ks[j].s
Skel1(F) == [s \in {t \in DOMAIN F : Dim(t) <= 1} |-> F[s]]

Judge(e) ==
  LET n   == e.n
      D   == DOf(e.d_set) @@ <<>>
      eps == <<e.p, e.q>>
      S   == KOf(e.k_set) @@ <<>>
      R   == RipsOf(n, D, e.dmax) @@ <<>>
      guar == e.p < e.q /\ e.mini = 0 /\ e.maxi = BIG
      legal == /\ e.p > 0 /\ e.q > 0 /\ e.dmax >= 1 /\ Len(e.d_set) = (n * (n - 1)) \div 2
               /\ IsMetric(n, D) /\ Exact(D, eps) /\ NoDup(e.k_set) /\ NoDup(e.rips_set)
  IN  IF ~legal THEN [legal |-> FALSE]
      ELSE
      LET dims == 0..(e.dmax - 1)
          valid == KValid(S) /\ DOMAIN S # {} /\ \A s \in DOMAIN S : S[s] <= e.maxi
          sub   == SubcomplexOK(S, R)
          dS == Diagram(S)
          dR == Diagram(R)
      IN  [legal |-> TRUE,
           rips  |-> KOf(e.rips_set) = R,
           valid |-> valid,
           subcomplex  |-> sub,
           vertices    |-> guar => AllVertices(n, S),
           interleaved |-> (guar /\ valid /\ sub) => Interleaved(dS, dR, eps, dims),
           bottleneck  |-> (guar /\ valid /\ sub) => BottleneckOK(dS, dR, eps, dims),
           member |-> \E lam \in GreedyLams(n, D) :
                         /\ SparseGraph(n, D, lam, eps, e.mini, e.maxi) = Skel1(S)
                         /\ SparseK(n, D, lam, eps, e.dmax, e.mini, e.maxi) = S]
AllTrue(j) == \A k \in DOMAIN j : j[k]
CheckEv(e) ==
  LET j == IF e.op = "sparse" THEN Judge(e) ELSE [known_op |-> FALSE] IN
  IF AllTrue(j) THEN TRUE ELSE PrintT(<<"REJECT", ToJson([line |-> l, verdict |-> j])>>) /\ TLCSet(7, TLCGet(7) + 1) /\ FALSE

TraceInit == l = 1 /\ TLCSet(7, 0)
(* a rejected event does not stop the validation: the following events are still judged; the verdict line counts *)
(* the events read and the rejected ones (TLC register 7, single worker), the REJECT lines name them             *)
TraceNext == l <= Len(Tr) /\ (CheckEv(Tr[l]) \in BOOLEAN) /\ l' = l + 1
TraceSpec == TraceInit /\ [][TraceNext]_l
Verdict ==
  LET m == TLCGet("stats").diameter - 1 IN
  PrintT(<<"TRACE", ToJson([accepted |-> (m = Len(Tr) /\ TLCGet(7) = 0), matched |-> m, len |-> Len(Tr), rejected |-> TLCGet(7)])>>)
=============================================================================
