SPECIFICATION TraceSpec
POSTCONDITION TraceVerdict
CHECK_DEADLOCK FALSE
