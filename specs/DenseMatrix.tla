------------------------------ MODULE DenseMatrix ------------------------------
(* Abstract state machine of a "basic" Gudhi::persistence_matrix::Matrix       *)
(* (has_column_pairings = has_vine_update = can_retrieve_representative_cycles *)
(* = false): a dense matrix over Z_P with NR rows.  The state is the map       *)
(* column index -> dense column; indices without a column are holes (left by   *)
(* remove_column / remove_last / insert_column(col, index)).  One action per   *)
(* public mutator of Matrix.h with its documented preconditions as guard.      *)
(* Row swaps are plain row exchanges: the lazy application of the permutation  *)
(* (base_swap.h) must be invisible.  The ghost flag `pend` only records that a *)
(* swap happened since the last call that orders the rows (get_column/get_row/ *)
(* insert_column), so that the bounded model reaches every operation both on a *)
(* flushed and on a pending object.                                            *)
EXTENDS Integers, Sequences, FiniteSets, TLC

CONSTANTS P,      \* characteristic of the field (prime)
          NR,     \* number of rows: row indices 0..NR-1
          NC      \* column indices 0..NC-1

VARIABLES cols,   \* [live column indices -> Vec]
          next,   \* next unused column index (nextInsertIndex_)
          pend,   \* ghost: a swap happened since the last ordering call
          act     \* ghost: last action (name, arguments)

Rows == 0..(NR - 1)
Idx  == 0..(NC - 1)
Vec  == [Rows -> 0..(P - 1)]
ZeroV == [r \in Rows |-> 0]
Live == DOMAIN cols

AddV(a, b)   == [r \in Rows |-> (a[r] + b[r]) % P]
ScaleV(c, a) == [r \in Rows |-> ((c % P) * a[r]) % P]
NnzV(a)      == Cardinality({r \in Rows : a[r] # 0})
Max2(a, b)   == IF a < b THEN b ELSE a
RestrictTo(f, S) == [x \in S |-> f[x]]
VT(v) == [k \in 1..NR |-> v[k - 1]]       \* a column as a tuple (JSON array)
TV(q) == [r \in Rows |-> q[r + 1]]

TypeOK == /\ Live \subseteq Idx
          /\ cols \in [Live -> Vec]
          /\ next \in 0..NC
          /\ \A i \in Live : i < next
          /\ pend \in BOOLEAN

Init == cols = <<>> /\ next = 0 /\ pend = FALSE /\ act = [op |-> "init"]

-----------------------------------------------------------------------------
(* insert_column(column): at the end of the matrix (Matrix.h, Base_matrix.h)  *)
InsertColumn(v) ==
  /\ next < NC
  /\ cols' = (next :> v) @@ cols
  /\ next' = next + 1
  /\ pend' = FALSE
  /\ act' = [op |-> "insert", v |-> VT(v)]

(* insert_column(column, index): "There should not be any other column        *)
(* inserted at that index which was not explicitly removed before."  Only     *)
(* without row access and without column compression.                         *)
InsertColumnAt(v, i) ==
  /\ i \in Idx \ Live
  /\ cols' = (i :> v) @@ cols
  /\ next' = Max2(next, i + 1)
  /\ pend' = FALSE
  /\ act' = [op |-> "insert_at", v |-> VT(v), i |-> i]

(* remove_column(index) (map container): "If the column didn't existed, it    *)
(* will simply be considered as an empty column"; the last index moves back   *)
(* by one when index was the last used one.                                   *)
RemoveColumn(i) ==
  /\ i \in 0..(next - 1)
  /\ cols' = RestrictTo(cols, Live \ {i})
  /\ next' = IF i = next - 1 THEN next - 1 ELSE next
  /\ UNCHANGED pend
  /\ act' = [op |-> "remove_col", i |-> i]

(* remove_last(): removes index next-1 (a hole counts as an empty column)     *)
RemoveLast ==
  /\ cols' = RestrictTo(cols, Live \ {next - 1})
  /\ next' = IF next = 0 THEN 0 ELSE next - 1
  /\ UNCHANGED pend
  /\ act' = [op |-> "remove_last"]

(* target <- f(target)                                                        *)
SetCol(t, w) == cols' = [cols EXCEPT ![t] = w] /\ UNCHANGED <<next, pend>>

(* add_to(sourceIndex, targetIndex)                                           *)
AddTo(s, t) ==
   /\ s \in Live /\ t \in Live     \* s = t allowed: a column may be added to itself
  /\ SetCol(t, AddV(cols[t], cols[s]))
  /\ act' = [op |-> "add", s |-> s, t |-> t]

(* add_to(entry range, targetIndex); `o` is the order in which the entries of *)
(* the range are presented (ascending unless the column type documents that   *)
(* the range need not be ordered: HEAP, UNORDERED_SET)                        *)
AddRangeTo(v, t, o) ==
  /\ t \in Live
  /\ SetCol(t, AddV(cols[t], v))
  /\ act' = [op |-> "add_r", v |-> VT(v), t |-> t, o |-> o]

(* multiply_target_and_add_to: target = coefficient * target + source         *)
MulTargetAndAdd(s, c, t) ==
   /\ s \in Live /\ t \in Live     \* s = t allowed: a column may be added to itself
  /\ SetCol(t, AddV(ScaleV(c, cols[t]), cols[s]))
  /\ act' = [op |-> "mta", s |-> s, c |-> c, t |-> t]
MulTargetAndAddRange(v, c, t, o) ==
  /\ t \in Live
  /\ SetCol(t, AddV(ScaleV(c, cols[t]), v))
  /\ act' = [op |-> "mta_r", v |-> VT(v), c |-> c, t |-> t, o |-> o]

(* multiply_source_and_add_to: target += coefficient * source                 *)
MulSourceAndAdd(c, s, t) ==
   /\ s \in Live /\ t \in Live     \* s = t allowed: a column may be added to itself
  /\ SetCol(t, AddV(cols[t], ScaleV(c, cols[s])))
  /\ act' = [op |-> "msa", s |-> s, c |-> c, t |-> t]
MulSourceAndAddRange(c, v, t, o) ==
  /\ t \in Live
  /\ SetCol(t, AddV(cols[t], ScaleV(c, v)))
  /\ act' = [op |-> "msa_r", v |-> VT(v), c |-> c, t |-> t, o |-> o]

(* zero_entry(column, row): also of an entry that is already zero             *)
ZeroEntry(c, r) ==
  /\ c \in Live /\ r \in Rows
  /\ SetCol(c, [cols[c] EXCEPT ![r] = 0])
  /\ act' = [op |-> "zero_entry", c |-> c, r |-> r]

ZeroColumn(c) ==
  /\ c \in Live
  /\ SetCol(c, ZeroV)
  /\ act' = [op |-> "zero_col", c |-> c]

(* swap_columns / swap_rows (has_column_and_row_swaps)                        *)
SwapColumns(a, b) ==
  /\ a \in Live /\ b \in Live
  /\ cols' = [cols EXCEPT ![a] = cols[b], ![b] = cols[a]]
  /\ pend' = TRUE
  /\ UNCHANGED next
  /\ act' = [op |-> "swap_cols", a |-> a, b |-> b]

SwapRowsV(v, a, b) == [v EXCEPT ![a] = v[b], ![b] = v[a]]
SwapRows(a, b) ==
  /\ a \in Rows /\ b \in Rows
  /\ cols' = [i \in Live |-> SwapRowsV(cols[i], a, b)]
  /\ pend' = TRUE
  /\ UNCHANGED next
  /\ act' = [op |-> "swap_rows", a |-> a, b |-> b]

(* erase_empty_row(row): "assumes that the row is empty"                      *)
RowIsZero(r) == \A i \in Live : cols[i][r] = 0
EraseEmptyRow(r) ==
  /\ r \in Rows /\ RowIsZero(r)
  /\ UNCHANGED <<cols, next, pend>>
  /\ act' = [op |-> "erase_row", r |-> r]

(* a call of get_column: orders the rows if swaps are pending                 *)
Flush ==
  /\ pend
  /\ pend' = FALSE
  /\ UNCHANGED <<cols, next>>
  /\ act' = [op |-> "flush"]

-----------------------------------------------------------------------------
(* Derived read interfaces                                                    *)
Content(i)      == cols[i]                          \* get_column(i).get_content(NR)
IsZeroEntry(i, r) == cols[i][r] = 0
IsZeroColumn(i) == cols[i] = ZeroV
RowEntries(r)   == {<<i, cols[i][r]>> : i \in {j \in Live : cols[j][r] # 0}}   \* get_row(r)
NumColsMap      == Cardinality(Live)                \* map column container
NumColsVec      == next                             \* vector column container
=============================================================================
