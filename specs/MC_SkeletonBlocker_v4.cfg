SPECIFICATION Spec
CONSTANTS
  NV = 4
  MaxLoadBlockers = 0
  Heavy = TRUE
VIEW View
INVARIANT TypeOK
INVARIANT InvRepr
INVARIANT InvLinkCond
INVARIANT InvContractHomotopy
INVARIANT InvUnblocked
INVARIANT InvBettiAlg
INVARIANT InvEulerPoincare
INVARIANT InvB0
INVARIANT EmitState
ACTION_CONSTRAINT EmitEdge
CHECK_DEADLOCK FALSE
