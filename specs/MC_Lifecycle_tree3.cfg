SPECIFICATION Spec
CONSTANTS
  Slots = {1, 2, 3}
  V = {0}
  Vals = {0, 1}
  MaxDim = 0
  Payload = "tree"
  Deltas = {8, 7, 12}
VIEW View
INVARIANT InvTyped
INVARIANT EmitState
ACTION_CONSTRAINT EmitEdge
CHECK_DEADLOCK FALSE
