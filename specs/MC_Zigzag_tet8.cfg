SPECIFICATION MCSpec
CONSTANTS
  Mode = "simplices"
  V = {0, 1, 2, 3}
  MaxDim = 2
  MaxArrows = 8
  MaxIdentity = 1
  MaxLive = 14
  AllowEmptyBd = FALSE
  INF = 1000000
VIEW View
INVARIANT InvFlags
INVARIANT InvBd
INVARIANT InvCount
INVARIANT InvInsertOnly
INVARIANT InvMirror
INVARIANT EmitState
ACTION_CONSTRAINT EmitEdge
CHECK_DEADLOCK FALSE
