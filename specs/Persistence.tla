------------------------------ MODULE Persistence ------------------------------
(* Persistent homology of a filtered cell complex over Z_p, twice:            *)
(*  - definitional: with explicit sets of chains (exponential, tiny inputs);  *)
(*  - algorithmic: left-to-right column reduction (polynomial).               *)
(* A filtered complex F is a sequence of cells [dim |-> d, bd |-> chain],     *)
(* bd a sparse chain on earlier positions of dimension d-1 with zero boundary.*)
EXTENDS Chains

BdChain(F, c, p) ==
  FoldSet(LAMBDA x, acc : AddScaled(acc, c[x], F[x].bd, p), <<>>, DOMAIN c)
CellsOfDim(F, k, j) == {x \in 1..j : F[x].dim = k}
WellFormed(F, p) ==
  \A i \in DOMAIN F :
     /\ DOMAIN F[i].bd \subseteq CellsOfDim(F, F[i].dim - 1, i - 1)
     /\ \A x \in DOMAIN F[i].bd : F[i].bd[x] \in 1..(p - 1)
     /\ IsZero(BdChain(F, F[i].bd, p))

-----------------------------------------------------------------------------
(* definitional layer *)
ZSet(F, k, j, p) == {c \in AllChains(CellsOfDim(F, k, j), p) : IsZero(BdChain(F, c, p))}
BSet(F, k, j, p) == {BdChain(F, c, p) : c \in AllChains(CellsOfDim(F, k + 1, j), p)}
DefBetti(F, k, j, p) == LogP(p, Cardinality(ZSet(F, k, j, p))) - LogP(p, Cardinality(BSet(F, k, j, p)))
DefNegative(F, j, p) == F[j].bd \notin BSet(F, F[j].dim - 1, j - 1, p)
(* the class killed at j was born at the first index where it has a representative *)
DefBirth(F, j, p) == Min({MaxSupp(SubChain(F[j].bd, b, p)) : b \in BSet(F, F[j].dim - 1, j - 1, p)})
DefPairs(F, p) == {<<DefBirth(F, j, p), j>> : j \in {i \in DOMAIN F : DefNegative(F, i, p)}}
DefEssential(F, p) == {i \in DOMAIN F : ~DefNegative(F, i, p)} \ {pr[1] : pr \in DefPairs(F, p)}

-----------------------------------------------------------------------------
(* algorithmic layer: R = B.V by left-to-right reduction *)
RECURSIVE ReduceColumn(_, _, _, _)
ReduceColumn(col, R, piv, p) ==
  IF IsZero(col) THEN col
  ELSE LET l == Max(DOMAIN col) IN
       IF l \notin DOMAIN piv THEN col
       ELSE LET j == piv[l]
                k == (NegP(col[l], p) * InvP(R[j][l], p)) % p
            IN  ReduceColumn(AddScaled(col, k, R[j], p), R, piv, p)

RECURSIVE ReduceFrom(_, _, _, _, _)
ReduceFrom(F, i, R, piv, p) ==
  IF i > Len(F) THEN [R |-> R, piv |-> piv]
  ELSE LET c == ReduceColumn(F[i].bd, R, piv, p)
       IN  ReduceFrom(F, i + 1, (i :> c) @@ R, IF IsZero(c) THEN piv ELSE (Max(DOMAIN c) :> i) @@ piv, p)
AlgReduced(F, p)   == ReduceFrom(F, 1, <<>>, <<>>, p)
AlgPairsOf(red)    == {<<b, red.piv[b]>> : b \in DOMAIN red.piv}
AlgPairs(F, p)     == AlgPairsOf(AlgReduced(F, p))
AlgEssentialOf(F, red) == {i \in DOMAIN F : IsZero(red.R[i]) /\ i \notin DOMAIN red.piv}
AlgEssential(F, p) == AlgEssentialOf(F, AlgReduced(F, p))

(* barcode in positions: set of [dim, birth, death] with death = 0 for essential classes *)
BarsOf(F, red) ==
  {[dim |-> F[pr[1]].dim, birth |-> pr[1], death |-> pr[2]] : pr \in AlgPairsOf(red)} \cup
  {[dim |-> F[i].dim, birth |-> i, death |-> 0] : i \in AlgEssentialOf(F, red)}
Bars(F, p) == BarsOf(F, AlgReduced(F, p))
Betti(F, k, p) == Cardinality({b \in Bars(F, p) : b.dim = k /\ b.death = 0})

(* diagram in values: bag of (dim, birth value, death value); INF for essential classes; *)
(* intervals of length <= minlen dropped (strictly positive length kept when minlen = 0)  *)
DiagramOf(bars, val, INF, minlen) ==
  LET pts == {[dim |-> b.dim, b |-> val[b.birth], d |-> IF b.death = 0 THEN INF ELSE val[b.death], id |-> b.birth] : b \in bars}
      keep == {x \in pts : x.d = INF \/ x.d - x.b > minlen}
      keys == {[dim |-> x.dim, b |-> x.b, d |-> x.d] : x \in keep}
  IN  {[dim |-> k.dim, b |-> k.b, d |-> k.d,
        n |-> Cardinality({x \in keep : x.dim = k.dim /\ x.b = k.b /\ x.d = k.d})] : k \in keys}
=============================================================================
