-------------------------- MODULE MC_SkeletonBlocker --------------------------
(* Bounded model of SkeletonBlocker.tla.  INVARIANT EmitState prints every      *)
(* distinct state with all derived observations, ACTION_CONSTRAINT EmitEdge     *)
(* every generated transition, as JSON for the replay on the real class.        *)
(* The in-model theorems are ordinary invariants.                               *)
EXTENDS SkeletonBlocker, Json

CONSTANT Heavy     \* TRUE: links of all simplices and all restricted complexes are observed

SS(T) == {SortedSeq(t) : t \in T}
Id(m, C) == ToString(<<m, C>>)

LinkArgs(C) == IF Heavy THEN C ELSE {s \in C : Dim(s) <= 1}
RestrArgs(C) == IF Heavy THEN SUBSET Verts(C) \ {{}} ELSE {}
EdgePairs(C) == {p \in Verts(C) \X Verts(C) : p[1] # p[2] /\ {p[1], p[2]} \in C}

Obs(C) ==
  [k_set        |-> SS(C),
   blockers_set |-> SS(Blockers(C)),
   nv |-> Cardinality(Verts(C)), ne |-> Cardinality(EdgesOf(C)), nb |-> Cardinality(Blockers(C)),
   ns |-> Cardinality(C), ntri |-> Cardinality(CellsK(C, 2)), ncc |-> NumCC(C),
   nsd |-> [d \in 1..NV |-> Cardinality(CellsK(C, d - 1))],
   complete |-> Complete(C), empty |-> (Verts(C) = {}), is_cone |-> IsCone(C),
   vertices_set |-> Verts(C),
   edges_set    |-> SS(EdgesOf(C)),
   tri_set      |-> SS(CellsK(C, 2)),
   deg_set      |-> {[v |-> v, d |-> Degree(C, v)] : v \in Verts(C)},
   lc_set       |-> {[a |-> p[1], b |-> p[2], lc |-> LinkCond(C, p[1], p[2])] : p \in EdgePairs(C)},
   star_set     |-> {[s |-> v, t_set |-> SS(StarC(C, {v}))] : v \in Verts(C)},
   bv_set       |-> {[s |-> v, t_set |-> SS({B \in Blockers(C) : v \in B})] : v \in Verts(C)},
   cob_set      |-> {[s |-> SortedSeq(s), t_set |-> SS(CoboundaryC(C, s))] : s \in C},
   link_set     |-> {[s |-> SortedSeq(s), t_set |-> SS(LinkC(C, s)), b_set |-> SS(Blockers(LinkC(C, s)))] : s \in LinkArgs(C)},
   restr_set    |-> {[s |-> SortedSeq(S), t_set |-> SS(Restricted(C, S)), b_set |-> SS(Blockers(Restricted(C, S)))] : S \in RestrArgs(C)},
   checks_failed |-> <<>>]

Next ==
  \/ AddVertex
  \/ \E a, b \in Verts(K) : AddEdge(a, b) \/ AddEdgeWB(a, b)
  \/ \E s \in Simplices(V) : Dim(s) >= 2 /\ (AddEdges(s) \/ AddSimplex(s))
  \/ \E s \in K : \/ RemoveStar(s, "simplex")
                  \/ Dim(s) = 0 /\ RemoveStar(s, "vertex")
                  \/ Dim(s) = 1 /\ (RemoveStar(s, "pair") \/ RemoveStar(s, "edge"))
  \/ \E a, b \in Verts(K) : \/ a < b /\ (RemoveEdge(a, b, "pair") \/ RemoveEdge(a, b, "edge"))
                            \/ ContractEdge(a, b, "pair") \/ ContractEdge(a, b, "edge")
  \/ \E v \in Verts(K) : RemoveVertex(v)
  \/ KeepOnlyVertices
  \/ RemoveBlockers
  \/ Clear

Spec == Init /\ [][Next]_<<n, K, act>>

(* a small generating set of actions that reaches the same states: used by the   *)
(* theorem-only configurations (no replay), where only the states matter         *)
NextThm ==
  \/ AddVertex
  \/ \E a, b \in Verts(K) : a < b /\ AddEdgeWB(a, b)
  \/ \E s \in K : RemoveStar(s, "simplex")
SpecThm == Init /\ [][NextThm]_<<n, K, act>>

(* Contractions on 5 handles, cases style (a blocker that is itself a candidate for the new blockers needs 5         *)
(* vertices).  Load builds a complex from its skeleton and blockers (add_vertex, add_edge_without_blockers,           *)
(* add_blocker): the graphs are K5 minus one of four representative edge sets (every graph with at most two missing   *)
(* edges is isomorphic to one of them), the blockers every valid set of at most MaxLoadBlockers simplices; then every  *)
(* contraction of every edge in both orientations and every remove_star of a simplex of dimension >= 2.  The resulting   *)
(* complexes are not expanded further.                                                                                   *)
CONSTANT MaxLoadBlockers
AllPairsV == {e \in SUBSET V : Cardinality(e) = 2}
LoadMissing == {{}, {{0, 1}}, {{0, 1}, {0, 2}}, {{0, 1}, {2, 3}}}
LoadBlockerSets(EE) ==
  LET cand == {t \in Simplices(V) : Dim(t) >= 2 /\ IsClique(t, V, EE)}
  IN  {BB \in SUBSET cand : Cardinality(BB) <= MaxLoadBlockers /\ Blockers(FromSB(V, EE, BB)) = BB}
Load(EE, BB) ==
  /\ n = 0 /\ K = {}
  /\ n' = NV
  /\ K' = FromSB(V, EE, BB)
  /\ act' = [op |-> "load", nv |-> NV, e_set |-> SS(EE), b_set |-> SS(BB)]
NextContract ==
  \/ \E R \in LoadMissing : \E BB \in LoadBlockerSets(AllPairsV \ R) : Load(AllPairsV \ R, BB)
  \/ act.op = "load" /\ \E a, b \in Verts(K) : ContractEdge(a, b, IF a < b THEN "pair" ELSE "edge")
  \/ act.op = "load" /\ \E s \in K : Dim(s) >= 2 /\ RemoveStar(s, "simplex")   \* a simplex lying in several blockers needs 5 vertices
SpecContract == Init /\ [][NextContract]_<<n, K, act>>
ViewContract == <<n, K, act.op = "load">>

View == <<n, K>>
EmitState == PrintT(<<"STATE", ToJson([id |-> Id(n, K), obs |-> Obs(K)])>>)
EmitEdge  == PrintT(<<"EDGE", ToJson([from |-> Id(n, K), act |-> act', to |-> Id(n', K')])>>)

-----------------------------------------------------------------------------
(* In-model theorems                                                            *)
D == NV - 1

(* the skeleton/blocker pair determines the complex                             *)
InvRepr == K = FromSB(Verts(K), EdgesOf(K), Blockers(K))

(* link condition <=> no blocker through the edge (what link_condition() tests) *)
InvLinkCond == \A e \in EdgesOf(K) :
                 LET a == Min(e)  b == Max(e)
                 IN  LinkCond(K, a, b) <=> (\A B \in Blockers(K) : ~(e \subseteq B))

(* contracting an edge that satisfies the link condition preserves the Betti    *)
(* numbers over Z_2 (definitional homology) and the Euler characteristic        *)
InvContractHomotopy ==
  \A a, b \in Verts(K) :
     (a # b /\ {a, b} \in K /\ LinkCond(K, a, b)) =>
        LET C2 == ContractK(K, a, b)
        IN  /\ BettiDefSeq(C2, D) = BettiDefSeq(K, D)
            /\ Euler(C2) = Euler(K)

(* without the link condition the documented pre-step makes it hold             *)
InvUnblocked ==
  \A a, b \in Verts(K) :
     (a # b /\ {a, b} \in K) =>
        LET C1 == TLCEval(Unblocked(K, a, b))
            C2 == TLCEval(ContractK(K, a, b))
        IN  K \subseteq C1 /\ LinkCond(C1, a, b) /\ Closed(C2) /\ C2 = {Img(s, a, b) : s \in C1}

(* the polynomial oracle used on recorded executions agrees with the definition *)
InvBettiAlg == BettiAlgSeq(K, D) = BettiDefSeq(K, D)
InvEulerPoincare == Euler(K) = AltSum(BettiDefSeq(K, D), 1)
InvB0 == BettiDef(K, 0) = NumCC(K)

(* same theorems with the polynomial operator only (larger bound)               *)
InvB0Alg == BettiAlg(K, 0) = NumCC(K) /\ Euler(K) = AltSum(BettiAlgSeq(K, D), 1)
InvContractHomotopyAlg ==
  \A a, b \in Verts(K) :
     (a # b /\ {a, b} \in K /\ LinkCond(K, a, b)) =>
        LET C2 == ContractK(K, a, b)
        IN  BettiAlgSeq(C2, D) = BettiAlgSeq(K, D) /\ Euler(C2) = Euler(K)
=============================================================================
