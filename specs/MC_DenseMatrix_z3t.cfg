SPECIFICATION Spec
CONSTANTS
  P = 3
  NR = 3
  NC = 2
  Coefs = {0, 1, 2}
  InsMax = 3
  RngMax = 2
  Orders = {"asc", "desc"}
VIEW View
INVARIANT TypeOK
INVARIANT InvAlgebra
INVARIANT InvRowsCols
INVARIANT InvSwapInvolution
INVARIANT EmitState
ACTION_CONSTRAINT EmitEdge
CHECK_DEADLOCK FALSE
