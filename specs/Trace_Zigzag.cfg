SPECIFICATION TraceSpec
CONSTANTS
  MaxDim = 3
  INF = 1000000
VIEW TraceView
POSTCONDITION Verdict
CHECK_DEADLOCK FALSE
