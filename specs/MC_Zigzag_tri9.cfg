SPECIFICATION MCSpec
CONSTANTS
  Mode = "simplices"
  V = {0, 1, 2}
  MaxDim = 2
  MaxArrows = 9
  MaxIdentity = 1
  MaxLive = 7
  AllowEmptyBd = FALSE
  INF = 1000000
VIEW View
INVARIANT InvFlags
INVARIANT InvBd
INVARIANT InvCount
INVARIANT InvInsertOnly
INVARIANT InvMirror
INVARIANT EmitState
ACTION_CONSTRAINT EmitEdge
CHECK_DEADLOCK FALSE
