--------------------------- MODULE Trace_Landscape ---------------------------
(* Validates calls recorded from the real Persistence_landscape and              *)
(* Persistence_landscape_on_grid (harness/land_record) against the operators of   *)
(* Landscape.tla.  Every event carries its input (landscape expressions over      *)
(* integer diagrams with endpoints in 0..20) and the observed output as integers  *)
(* over the fixed denominators of Landscape.tla; the operations are functions, so *)
(* every line is judged on its own: "ok", "bad" (printed as <<"BAD", ..>> with    *)
(* the input predicates that label known deviations) or "skip" (the input does    *)
(* not satisfy the exactness precondition of the gridded form / of the L1         *)
(* integral on the lattice).  TRACE=<file.ndjson> in the environment.             *)
EXTENDS Landscape, Json, IOUtils

VARIABLE l
Tr == ndJsonDeserialize(IOEnv.TRACE)

LoT == -2 * U
HiT == 22 * U
DomE == {T \in LoT..HiT : T % 2 = 0}     \* quarter lattice
DomF == LoT..HiT                          \* eighth lattice (to decide where a difference changes sign)

Has(e, k) == k \in DOMAIN e
Ex(j) == [terms |-> [i \in 1..Len(j.args) |-> [n |-> j.coef[i], D |-> j.args[i]]], den |-> j.den, abs |-> j.abs]
Raw(E) == [E EXCEPT !.abs = FALSE]
WFD(D) == IsDiagram(D) /\ \A i \in 1..Len(D) : D[i][1] >= 0 /\ D[i][2] <= 20
WF(j) == Len(j.args) = Len(j.coef) /\ j.den >= 1 /\ \A i \in 1..Len(j.args) : WFD(j.args[i])
G(e) == [min8 |-> e.grid[1], max8 |-> e.grid[2], n |-> e.grid[3]]
IsGrid(e) == e.form = "grid"
KE(E) == NLevels(E) + 1
Rows(E, dom) == RowsS(E, dom)
RowK(rs, k, dom) == IF k \in DOMAIN rs THEN rs[k] ELSE [T \in dom |-> 0]

(* the zeros of the argument of abs lie on the quarter lattice *)
AbsPre(E) == E.abs => LET rs == Rows(Raw(E), DomF) IN \A k \in 1..KE(E) : SignQ(rs[k], LoT, HiT)
(* the expression in gridded form is the interpolation of its values at the grid points *)
GridWFIn(g) == GridWF(g) /\ g.min8 >= LoT /\ g.max8 <= HiT
GridPre(E, g) ==
  /\ GridWFIn(g)
  /\ \A i \in 1..Len(E.terms) : GridOK(E.terms[i].D, g)
  /\ AbsPre(E)
  /\ E.abs => LET rs == Rows(E, DomE) IN \A k \in 1..KE(E) : InterpExact(rs[k], g, LoT, HiT)
Pre(e, E) == AbsPre(E) /\ (IsGrid(e) => GridPre(E, G(e)))

(* ---------------------------------------------------------------- values *)
(* pts: <<level (from 0), T, 8 den value, on the lattice>> *)
ValueOK(e) ==
  LET E == Ex(e.e) IN
  \A i \in DOMAIN e.pts : LET p == e.pts[i] IN p[2] % 2 = 0 /\ p[4] = 1 /\ p[3] = Val(E, p[1] + 1, p[2])

VectorizeOK(e) ==   \* gridded form: the values of level k at the grid points
  LET E == Ex(e.e)  g == G(e) IN
  /\ Len(e.v) = g.n + 1 /\ e.ok = 1
  /\ \A i \in 1..(g.n + 1) : e.v[i] = Val(E, e.k + 1, g.min8 + (i - 1) * Dx8(g))

SizeOK(e) ==        \* number of non zero levels of a landscape
  LET E == Ex(e.e) IN
  e.size = Cardinality({k \in 1..KE(E) : \E T \in DomE : Val(E, k, T) # 0})

(* the constructors that keep the first L levels: values of level k (from 0) at the given abscissae *)
LevelsOK(e) ==
  LET E == Ex(e.e) IN
  \A i \in DOMAIN e.pts : LET p == e.pts[i] IN
    p[4] = 1 /\ p[3] = (IF p[1] < e.L THEN Val(E, p[1] + 1, p[2]) ELSE 0)

(* ---------------------------------------------------------------- integrals *)
(* p = 0: compute_integral_of_landscape() / of a level (trapezoids);  p = 1, 2: integral of the p-th power  *)
IntegralOK(e) ==
  LET E == Ex(e.e)
      rs == Rows(E, DomE)
      ks == IF e.level < 0 THEN 1..KE(E) ELSE {e.level + 1}
      num == IF e.p = 2 THEN SumTo([k \in 1..KE(E) |-> IF k \in ks THEN IP(rs[k], rs[k], LoT, HiT) ELSE 0], KE(E))
             ELSE SumTo([k \in 1..KE(E) |-> IF k \in ks THEN IntS(rs[k], LoT, HiT) ELSE 0], KE(E))
  IN e.ok = 1 /\ e.num = (IF e.level >= KE(E) THEN 0 ELSE num)

(* ---------------------------------------------------------------- distances, inner product *)
KXY(X, Y) == Hi2(KE(X), KE(Y))
Diffs(X, Y, dom) ==
  LET xs == Rows(X, dom)  ys == Rows(Y, dom)
  IN TLCEval([k \in 1..KXY(X, Y) |-> DiffRow(RowK(xs, k, dom), X.den, RowK(ys, k, dom), Y.den, dom)])
SignPre(X, Y) == LET dr == Diffs(X, Y, DomF) IN \A k \in 1..KXY(X, Y) : SignQ(dr[k], LoT, HiT)
AbsRows(dr) == TLCEval([k \in DOMAIN dr |-> TLCEval([T \in DomE |-> Abs(dr[k][T])])])

DistPre(e) ==
  LET X == Ex(e.x)  Y == Ex(e.y) IN
  /\ AbsPre(X) /\ AbsPre(Y)
  /\ (e.op = "distance" /\ e.p = 1) => SignPre(X, Y)
  /\ IsGrid(e) =>
       /\ GridPre(X, G(e)) /\ GridPre(Y, G(e))
       /\ e.op = "distance" =>
            /\ SignPre(X, Y)
            /\ LET adr == AbsRows(Diffs(X, Y, DomE)) IN \A k \in DOMAIN adr : InterpExact(adr[k], G(e), LoT, HiT)

DistanceOK(e) ==    \* p = 1, 2 (the square is logged), 0 = sup
  LET X == Ex(e.x)  Y == Ex(e.y)
      dr == Diffs(X, Y, DomE)
      n == KXY(X, Y)
  IN /\ e.ok = 1
     /\ e.num = (CASE e.p = 1 -> SumTo([k \in 1..n |-> Int1(dr[k], LoT, HiT)], n)
                   [] e.p = 2 -> SumTo([k \in 1..n |-> IP(dr[k], dr[k], LoT, HiT)], n)
                   [] e.p = 0 -> SetMax({SupN(dr[k], LoT, HiT) : k \in 1..n}))

InnerOK(e) ==
  LET X == Ex(e.x)  Y == Ex(e.y)
      xs == Rows(X, DomE)  ys == Rows(Y, DomE)
      n == KXY(X, Y)
  IN e.ok = 1 /\ e.num = SumTo([k \in 1..n |-> IP(RowK(xs, k, DomE), RowK(ys, k, DomE), LoT, HiT)], n)

(* ---------------------------------------------------------------- verdict per line *)
Unary(e) == e.op \in {"value", "value_at", "vectorize", "size", "levels", "integral"}
Binary(e) == e.op \in {"distance", "inner"}

Judge(e) ==
  IF Unary(e) THEN
    IF ~WF(e.e) THEN "bad"
    ELSE IF ~Pre(e, Ex(e.e)) THEN "skip"
    ELSE IF (CASE e.op \in {"value", "value_at"} -> ValueOK(e)
               [] e.op = "vectorize" -> VectorizeOK(e)
               [] e.op = "size" -> SizeOK(e)
               [] e.op = "levels" -> LevelsOK(e)
               [] e.op = "integral" -> IntegralOK(e)) THEN "ok" ELSE "bad"
  ELSE IF Binary(e) THEN
    IF ~(WF(e.x) /\ WF(e.y)) THEN "bad"
    ELSE IF ~DistPre(e) THEN "skip"
    ELSE IF (IF e.op = "distance" THEN DistanceOK(e) ELSE InnerOK(e)) THEN "ok" ELSE "bad"
  ELSE "bad"     \* unknown operation, crash record

(* input predicates attached to a rejected line (they label the known deviations, see checks/c18.py) *)
NoFlags == [flat |-> FALSE, negzero |-> FALSE, nonint |-> FALSE, overfull |-> FALSE]
Flags(e) ==
  IF Unary(e) /\ WF(e.e) THEN
    LET E == Ex(e.e) IN
    CASE e.op = "integral" /\ IsGrid(e) ->
           [NoFlags EXCEPT !.flat = LET rs == Rows(E, DomE) IN \E k \in 1..KE(E) : FlatNonzero(rs[k], G(e))]
      [] e.op = "levels" /\ IsGrid(e) ->
           [NoFlags EXCEPT !.overfull = e.L >= 2 /\
              SetMax({Depth(E.terms[1].D, G(e).min8 + j * Dx8(G(e))) : j \in 0..G(e).n}) > e.L]
      [] OTHER -> NoFlags
  ELSE IF Binary(e) /\ WF(e.x) /\ WF(e.y) /\ e.op = "distance" THEN
    LET X == Ex(e.x)  Y == Ex(e.y)
        xs == Rows(X, DomE)  ys == Rows(Y, DomE)
        dr == Diffs(X, Y, DomE)
        n == KXY(X, Y)
    IN [flat |-> IsGrid(e) /\ \E k \in 1..n : FlatNonzero(AbsRows(dr)[k], G(e)),
        negzero |-> \E k \in 1..n : \E T \in DomE :
                      \/ RowK(xs, k, DomE)[T] < 0 /\ RowK(ys, k, DomE)[T] = 0
                      \/ RowK(ys, k, DomE)[T] < 0 /\ RowK(xs, k, DomE)[T] = 0,
        nonint |-> SetMax({SupN(dr[k], LoT, HiT) : k \in 1..n}) % (8 * X.den * Y.den) # 0,
        overfull |-> FALSE]
  ELSE NoFlags

Step(e) ==
  LET j == Judge(e) IN
  CASE j = "ok" -> TRUE
    [] j = "skip" -> PrintT(<<"SKIP", ToJson([l |-> l])>>)
    [] OTHER -> PrintT(<<"BAD", ToJson([l |-> l, flags |-> Flags(e)])>>)

(* one initial state per line (the lines are independent); the judgement is an invariant, evaluated once per state *)
TraceInit == l \in 1..Len(Tr)
TraceNext == UNCHANGED l
TraceSpec == TraceInit /\ [][TraceNext]_l
JudgeLine == Step(Tr[l]) = TRUE

Verdict ==
  LET m == TLCGet("distinct") IN
  PrintT(<<"TRACE", ToJson([accepted |-> (m = Len(Tr)), matched |-> m, len |-> Len(Tr)])>>)
=============================================================================
