------------------------ MODULE SkeletonBlockerHomology ------------------------
(* Simplicial homology over Z_2 of a finite abstract complex, written twice:   *)
(*  - definitionally: chains are sets of cells, cycles and boundaries are the  *)
(*    explicit subspaces (exponential on purpose, <= 5 vertices);              *)
(*  - algorithmically: ranks of the boundary maps by Gaussian elimination on   *)
(*    sets of chains (polynomial; used on recorded executions).                *)
(* MC_SkeletonBlocker checks that both agree on every complex of the bounded   *)
(* model, so the cheap operator is a validated oracle for the large traces.    *)
EXTENDS Simplicial, TLC

RECURSIVE Log2(_)
Log2(m) == IF m <= 1 THEN 0 ELSE 1 + Log2(m \div 2)

CellsK(C, k) == {s \in C : Dim(s) = k}

(* boundary of a chain c (set of k-cells) inside the set L of (k-1)-cells      *)
BdChain(c, L) == {y \in L : Cardinality({x \in c : y \in Facets(x)}) % 2 = 1}

ZDef(C, k) == {c \in SUBSET CellsK(C, k) : BdChain(c, CellsK(C, k - 1)) = {}}
BDef(C, k) == {BdChain(c, CellsK(C, k)) : c \in SUBSET CellsK(C, k + 1)}
BettiDef(C, k) == Log2(Cardinality(ZDef(C, k))) - Log2(Cardinality(BDef(C, k)))
BettiDefSeq(C, D) == [i \in 1..(D + 1) |-> BettiDef(C, i - 1)]

Euler(C) == Cardinality({s \in C : Dim(s) % 2 = 0}) - Cardinality({s \in C : Dim(s) % 2 = 1})

(* rank over Z_2 of a set of vectors, each vector a set (its support)          *)
XorSet(a, b) == (a \ b) \cup (b \ a)
RECURSIVE RankZ2(_)
RankZ2(S) ==
  LET T == S \ {{}} IN
  IF T = {} THEN 0
  ELSE LET c == CHOOSE x \in T : TRUE
           r == CHOOSE y \in c : TRUE
       IN 1 + RankZ2({IF r \in d THEN XorSet(d, c) ELSE d : d \in T \ {c}})

(* columns of the boundary map d_k; a k-cell (k >= 1) is the union of its facets, *)
(* so distinct cells give distinct columns                                        *)
BdCols(C, k) == {Facets(s) : s \in CellsK(C, k)}
BettiAlg(C, k) == Cardinality(CellsK(C, k)) - RankZ2(BdCols(C, k)) - RankZ2(BdCols(C, k + 1))
BettiAlgSeq(C, D) == [i \in 1..(D + 1) |-> BettiAlg(C, i - 1)]

RECURSIVE AltSum(_, _)
AltSum(q, i) == IF i > Len(q) THEN 0 ELSE (IF i % 2 = 1 THEN q[i] ELSE 0 - q[i]) + AltSum(q, i + 1)
=============================================================================
