------------------------------ MODULE MC_FieldsFp ------------------------------
(* Self-check of Fp.tla (the oracle of C10) where the bounded model MC_Fields     *)
(* cannot reach: primes near 2^16 (operand splitting of MulP), Big numbers.       *)
(* All theorems are ASSUMEs: TLC evaluates them before exploring the 1-state spec. *)
EXTENDS Fp, TLC

VARIABLE v
Init == v = 0
Next == UNCHANGED v

(* independent multiplication by repeated doubling: additions only *)
RECURSIVE MulRP(_, _, _)
MulRP(a, b, p) == IF b = 0 THEN 0
                  ELSE LET h == MulRP(AddP(a, a, p), b \div 2, p) IN IF b % 2 = 1 THEN AddP(h, a, p) ELSE h

LargePs == {46337, 46349, 65519, 65521, 65497, 50021, 60013, 46351}
SmallPs == {2, 3, 5, 7, 11, 13, 251, 257, 32749}
Ops(p) == {a % p : a \in {0, 1, 2, (p - 1) \div 2, (p + 1) \div 2, p - 2, p - 1, 255, 256, 257, p + 65280, p + 65279,
                          12345, 54321, 46340, 46341, 65535}}

ASSUME ThPrimes == /\ \A p \in LargePs \cup SmallPs : IsPrime(p)
                   /\ \A n \in 0..3000 : IsPrime(n) = (n > 1 /\ \A d \in 2..(n - 1) : n % d # 0)
                   /\ \A n \in {65536, 65537, 46341 * 2, 65521 * 3, 262143, 262144, 1048573, 46337 * 46337, 2147483647, 2147483646} :
                        IsPrime(n) = (n \in {65537, 1048573, 2147483647})
                   /\ \A n \in 65536..66100 : IsPrime(n) = (\A d \in 2..300 : n % d # 0)
                   /\ ~IsPrime(65535) /\ ~IsPrime(251 * 257)
                   /\ PrimesIn(0, 13) = <<2, 3, 5, 7, 11, 13>> /\ PrimesIn(24, 28) = <<>> /\ PrimesIn(65500, 65535) = <<65519, 65521>>
ASSUME ThMulLarge == \A p \in LargePs : \A a, b \in Ops(p) :
                        /\ MulSplit(a, b, p) = MulRP(a, b, p) /\ MulP(a, b, p) = MulRP(a, b, p)
                        /\ MulP(a, b, p) = MulP(b, a, p)
ASSUME ThMulSmall == \A p \in SmallPs \cup {46337} : \A a, b \in Ops(p) :
                        MulDirect(a, b, p) = MulSplit(a, b, p) /\ MulDirect(a, b, p) = MulRP(a, b, p)
ASSUME ThDistrib  == \A p \in LargePs : \A a, b, c \in {0, 1, (p - 1) \div 2, p - 2, p - 1, 54321 % p} :
                        MulP(AddP(a, b, p), c, p) = AddP(MulP(a, c, p), MulP(b, c, p), p)
ASSUME ThInverse  == /\ \A p \in LargePs \cup SmallPs : \A a \in Ops(p) \ {0} : IsInvOf(InvP(a, p), a, p)
                     /\ \A p \in {2, 3, 5, 7, 11, 13, 251} : \A a \in 1..(p - 1) : InvP(a, p) = InvDef(a, p)
ASSUME ThBig ==
  /\ \A n \in {0, 1, 9999, 10000, 10001, 99999999, 100000000, 2147483647} :
        /\ IsBig(BigOf(n))
        /\ \A p \in {2, 3, 251, 46337, 65521} : BigMod(BigOf(n), p) = n % p
  /\ BigProd(<<2, 3, 5, 7, 11, 13>>) = BigOf(30030)
  /\ BigProd(<<65519, 65521>>) = <<399, 9287, 42>>                        \* 65519 * 65521 = 65520^2 - 1 = 4292870399
  /\ BigProd(<<3, 5, 7, 11, 13, 17, 19, 23, 29>>) = <<6615, 3484, 32>>    \* 3234846615
  /\ BigLess(<<1>>, <<0, 1>>) /\ ~BigLess(<<0, 1>>, <<1>>) /\ BigLess(<<5, 1>>, <<4, 2>>) /\ ~BigLess(<<4, 2>>, <<4, 2>>)
  /\ BigLess(<<>>, <<1>>) /\ ~BigLess(<<>>, <<>>)
  /\ SBigMod([neg |-> TRUE, d |-> <<7>>], 5) = 3 /\ SBigMod([neg |-> TRUE, d |-> <<5>>], 5) = 0
  /\ SubProdBig({1, 3}, <<2, 3, 5>>) = <<10>>
(* 2^64 - 1 = (2^32 - 1)(2^32 + 1): recomputed through PowP *)
ASSUME ThPow == \A p \in {65521, 46337, 251} :
                   BigMod(<<1615, 955, 737, 6744, 1844>>, p) = SubP(PowP(2 % p, 64, p), 1, p)
=============================================================================
