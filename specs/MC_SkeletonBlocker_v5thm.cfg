SPECIFICATION SpecThm
CONSTANTS
  NV = 5
  Heavy = FALSE
VIEW View
INVARIANT TypeOK
INVARIANT InvRepr
INVARIANT InvLinkCond
INVARIANT InvContractHomotopy
INVARIANT InvContractHomotopyAlg
INVARIANT InvUnblocked
INVARIANT InvBettiAlg
INVARIANT InvEulerPoincare
INVARIANT InvB0
CHECK_DEADLOCK FALSE
