SPECIFICATION SpecThm
CONSTANTS
  NV = 5
  MaxLoadBlockers = 0
  Heavy = FALSE
VIEW View
INVARIANT TypeOK
INVARIANT InvRepr
INVARIANT InvLinkCond
INVARIANT InvContractHomotopyAlg
INVARIANT InvB0Alg
CHECK_DEADLOCK FALSE
