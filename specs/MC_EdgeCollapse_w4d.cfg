SPECIFICATION Spec
CONSTANTS
  N = 4
  W = {1, 2}
  Primes = {2, 3}
INVARIANT ThCliques
INVARIANT ThWellFormed
INVARIANT ThStrict
INVARIANT ThDefBetti
INVARIANT ThDelay
INVARIANT ThDelayDef
INVARIANT ThNoTorsion
INVARIANT EmitCase
CHECK_DEADLOCK FALSE
