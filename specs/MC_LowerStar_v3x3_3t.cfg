SPECIFICATION Spec
CONSTANTS
  Mode = "vals"
  R = 3
  C = 3
  NVals = 3
  MaxLen = 0
  ThEvery = 4
  ThMaxLen = 0
INVARIANT ThDual
INVARIANT ThShape
INVARIANT EmitCase
CHECK_DEADLOCK FALSE
