-------------------------------- MODULE Fields --------------------------------
(* Coefficient fields of GUDHI as a register machine.                          *)
(*                                                                             *)
(* A field descriptor is a closed interval [lo, hi]; its characteristics are   *)
(* the primes of the interval, its modulus P their product (lo = hi = p for    *)
(* the Z_p classes).  Three registers hold elements, i.e. integers of 0..P-1.  *)
(* One action per public operation of the classes: conversion of a machine     *)
(* integer, + - * between registers and with a machine integer, the fused      *)
(* multiply_and_add / add_and_multiply in both in-place orders, inverse,       *)
(* partial inverse w.r.t. a sub-product Q, partial multiplicative identity,    *)
(* set_characteristic (refused iff the interval contains no prime; for the Z_p *)
(* classes iff n is not a prime > 1).  Nothing is specified about a field      *)
(* after a refusal: the machine is then in NoField, where the only enabled     *)
(* action is another set_characteristic, and nothing is observed until one is  *)
(* accepted.                                                                   *)
(*                                                                             *)
(* Two levels of definition, proved equal on the bounded model (MC_Fields):    *)
(*   integer level  : arithmetic reduced modulo P      (registers, small P)    *)
(*   residue level  : tuples of residues modulo each prime (Fp!AddT ..), used  *)
(*                    by Trace_Fields for moduli that exceed 31 bits           *)
EXTENDS Fp, TLC

VARIABLES fld,   \* Field(lo, hi): [lo, hi, ps = the primes of [lo, hi], mod = their product, idem = CRT idempotents]
          reg,   \* <<x, y, z>>
          act    \* ghost: last operation, arguments, return value

vars == <<fld, reg, act>>

Ps(f)   == f.ps
Mod(f)  == f.mod
Sels(f) == SUBSET (DOMAIN Ps(f))          \* a sub-product Q of P is given by the set of indices of its primes

(* ----------------------------------------------------- integer level, P < 2^16 *)
SubProd(sel, ps) == LET RECURSIVE F(_)
                        F(i) == IF i = 0 THEN 1 ELSE IF i \in sel THEN F(i - 1) * ps[i] ELSE F(i - 1)
                    IN F(Len(ps))
(* CRT idempotent of the i-th prime: 1 modulo ps[i], 0 modulo the others *)
Idem(i, ps) == LET P == Prod(ps)  M == P \div ps[i]
               IN IF Len(ps) = 1 THEN 1 % P ELSE MulP(M, InvP(M % ps[i], ps[i]), P)
Field(lo, hi) == LET ps == PrimesIn(lo, hi)
                 IN [lo |-> lo, hi |-> hi, ps |-> ps, mod |-> Prod(ps), idem |-> [i \in DOMAIN ps |-> Idem(i, ps)]]
HasPrime(lo, hi) == lo <= hi /\ PrimesIn(lo, hi) # <<>>
(* the state after a refused set_characteristic: no characteristic, no operation enabled, nothing observable *)
NoField  == [lo |-> 0, hi |-> 0, ps |-> <<>>, mod |-> 0, idem |-> <<>>]
Valid(f) == f.ps # <<>>
SumIdem(c, f) == LET RECURSIVE F(_)                      \* sum of c[i] * idempotent i, c[i] < ps[i]
                     F(i) == IF i = 0 THEN 0 ELSE AddP(F(i - 1), MulP(c[i], f.idem[i], f.mod), f.mod)
                 IN F(Len(f.ps))
ToInt(t, f) == SumIdem(t, f)                             \* the element of 0..P-1 with residues t
PMI(sel, f) == SumIdem(PIdT(sel, f.ps), f)               \* partial multiplicative identity
PInvV(x, sel, f) == SumIdem(PInvT(Residues(x, f.ps), sel, f.ps), f)
PInvQ(x, sel, f) == SubProd(PInvSel(Residues(x, f.ps), sel, f.ps), f.ps)

MulAdd(x, y, z, P) == AddP(MulP(x, y, P), z, P)          \* x * y + z
AddMul(x, y, z, P) == MulP(AddP(x, y, P), z, P)          \* (x + y) * z

(* ------------------------------------------------------------------- actions *)
Upd(i, v) == reg' = [reg EXCEPT ![i] = v]
Same      == Valid(fld) /\ UNCHANGED fld     \* every operation needs a field whose characteristic was accepted

Conv(i, n) ==                 \* construction / assignment from a machine integer: its residue
  /\ Upd(i, Red(n, Mod(fld))) /\ Same
  /\ act' = [op |-> "conv", i |-> i, n |-> n, ret |-> Red(n, Mod(fld))]
AddRR(i, j) == /\ Upd(i, AddP(reg[i], reg[j], Mod(fld))) /\ Same /\ act' = [op |-> "add", i |-> i, j |-> j]
SubRR(i, j) == /\ Upd(i, SubP(reg[i], reg[j], Mod(fld))) /\ Same /\ act' = [op |-> "sub", i |-> i, j |-> j]
MulRR(i, j) == /\ Upd(i, MulP(reg[i], reg[j], Mod(fld))) /\ Same /\ act' = [op |-> "mul", i |-> i, j |-> j]
AddRI(i, n) == /\ Upd(i, AddP(reg[i], Red(n, Mod(fld)), Mod(fld))) /\ Same /\ act' = [op |-> "add_int", i |-> i, n |-> n]
SubRI(i, n) == /\ Upd(i, SubP(reg[i], Red(n, Mod(fld)), Mod(fld))) /\ Same /\ act' = [op |-> "sub_int", i |-> i, n |-> n]
MulRI(i, n) == /\ Upd(i, MulP(reg[i], Red(n, Mod(fld)), Mod(fld))) /\ Same /\ act' = [op |-> "mul_int", i |-> i, n |-> n]
MulAddFront == /\ Upd(1, MulAdd(reg[1], reg[2], reg[3], Mod(fld))) /\ Same /\ act' = [op |-> "multiply_and_add_inplace_front"]
MulAddBack  == /\ Upd(3, MulAdd(reg[1], reg[2], reg[3], Mod(fld))) /\ Same /\ act' = [op |-> "multiply_and_add_inplace_back"]
AddMulFront == /\ Upd(1, AddMul(reg[1], reg[2], reg[3], Mod(fld))) /\ Same /\ act' = [op |-> "add_and_multiply_inplace_front"]
AddMulBack  == /\ Upd(3, AddMul(reg[1], reg[2], reg[3], Mod(fld))) /\ Same /\ act' = [op |-> "add_and_multiply_inplace_back"]
PartialInverse(i, sel) ==     \* returns the sub-product T of Q where reg[i] is invertible
  /\ Upd(i, PInvV(reg[i], sel, fld)) /\ Same
  /\ act' = [op |-> "partial_inverse", i |-> i, q |-> SubProd(sel, Ps(fld)), ret |-> PInvQ(reg[i], sel, fld)]
Inverse(i) ==                 \* a field element must be non-zero; in a multi-field: partial inverse w.r.t. P
  /\ (Len(Ps(fld)) = 1 => reg[i] # 0)
  /\ Upd(i, PInvV(reg[i], DOMAIN Ps(fld), fld)) /\ Same
  /\ act' = [op |-> "inverse", i |-> i]
Identity(i, sel) ==
  /\ Upd(i, PMI(sel, fld)) /\ Same
  /\ act' = [op |-> "partial_multiplicative_identity", i |-> i, q |-> SubProd(sel, Ps(fld))]
SetCharacteristic(lo, hi) ==
  IF HasPrime(lo, hi)
  THEN /\ fld' = Field(lo, hi) /\ reg' = <<0, 0, 0>>
       /\ act' = [op |-> "set_characteristic", lo |-> lo, hi |-> hi, ret |-> "ok"]
  ELSE /\ fld' = NoField /\ reg' = <<0, 0, 0>>      \* refused: only the refusal itself is specified
       /\ act' = [op |-> "set_characteristic", lo |-> lo, hi |-> hi, ret |-> "refused"]

(* --------------------------------------------- residue level (any modulus size) *)
(* x, y, z: residue tuples over ps.  Result of the named operation.               *)
ResT(op, x, y, z, ps) ==
  CASE op = "add"    -> AddT(x, y, ps)
    [] op = "sub"    -> SubT(x, y, ps)
    [] op = "mul"    -> MulT(x, y, ps)
    [] op = "muladd" -> AddT(MulT(x, y, ps), z, ps)
    [] op = "addmul" -> MulT(AddT(x, y, ps), z, ps)
    [] op = "pte"    -> AddT(x, MulT(z, y, ps), ps)          \* cohomology plus_times_equal(x, y, w = z)
    [] op = "tminus" -> NegT(MulT(x, y, ps), ps)             \* cohomology times_minus(x, y)
    [] op = "val"    -> x
(* the same on integers modulo P *)
ResI(op, x, y, z, P) ==
  CASE op = "add"    -> AddP(x, y, P)
    [] op = "sub"    -> SubP(x, y, P)
    [] op = "mul"    -> MulP(x, y, P)
    [] op = "muladd" -> MulAdd(x, y, z, P)
    [] op = "addmul" -> AddMul(x, y, z, P)
    [] op = "pte"    -> AddP(x, MulP(z, y, P), P)
    [] op = "tminus" -> NegP(MulP(x, y, P), P)
    [] op = "val"    -> x
ArithOps == {"add", "sub", "mul", "muladd", "addmul", "pte", "tminus"}

(* ------------------------------------------------------------ in-model theorems *)
(* checked by TLC as invariants of the bounded model on every reachable state     *)
ThCRT ==           \* arithmetic modulo the product = componentwise arithmetic on the residues; CRT is a bijection
  Valid(fld) =>
  LET ps == Ps(fld)  P == Mod(fld)  x == reg[1]  y == reg[2]  z == reg[3]
      R(n) == Residues(n, ps)
  IN /\ \A op \in ArithOps : R(ResI(op, x, y, z, P)) = ResT(op, R(x), R(y), R(z), ps)
     /\ ToInt(R(x), fld) = x
ThRing ==          \* commutative ring with unit
  Valid(fld) =>
  LET P == Mod(fld)  x == reg[1]  y == reg[2]  z == reg[3]
  IN /\ AddP(x, y, P) = AddP(y, x, P) /\ MulP(x, y, P) = MulP(y, x, P)
     /\ AddP(AddP(x, y, P), z, P) = AddP(x, AddP(y, z, P), P)
     /\ MulP(MulP(x, y, P), z, P) = MulP(x, MulP(y, z, P), P)
     /\ AddMul(x, y, z, P) = AddP(MulP(x, z, P), MulP(y, z, P), P)
     /\ SubP(AddP(x, y, P), y, P) = x /\ AddP(x, NegP(x, P), P) = 0
     /\ MulP(x, 1 % P, P) = x /\ AddP(x, 0, P) = x
     /\ MulSplit(x, y, P) = MulDirect(x, y, P)
ThInverse ==       \* x * partial inverse = partial identity of T; T | Q; idempotents; Fermat inverse = definition
  Valid(fld) =>
  LET ps == Ps(fld)  P == Mod(fld)  x == reg[1]
  IN (reg[2] = 0 /\ reg[3] = 0) => \A sel \in Sels(fld) :
       LET t == PInvSel(Residues(x, ps), sel, ps)  v == PInvV(x, sel, fld)  e == PMI(sel, fld)
       IN /\ t \subseteq sel
          /\ MulP(x, v, P) = PMI(t, fld)
          /\ MulP(e, e, P) = e
          /\ Residues(e, ps) = PIdT(sel, ps)
          /\ Residues(v, ps) = PInvT(Residues(x, ps), sel, ps)
          /\ \A i \in DOMAIN ps : Residues(x, ps)[i] # 0 => InvP(Residues(x, ps)[i], ps[i]) = InvDef(Residues(x, ps)[i], ps[i])
          /\ (Len(ps) = 1 /\ x # 0 /\ sel = {1}) => MulP(x, v, P) = 1
ThIdem ==          \* the stored idempotents are 1 modulo their prime and 0 modulo the others
  \A i, j \in DOMAIN fld.ps : fld.idem[i] % fld.ps[j] = (IF i = j THEN 1 ELSE 0)
TypeOK == IF Valid(fld) THEN fld = Field(fld.lo, fld.hi) /\ \A i \in 1..3 : reg[i] \in 0..(Mod(fld) - 1)
          ELSE fld = NoField /\ reg = <<0, 0, 0>>
=============================================================================
