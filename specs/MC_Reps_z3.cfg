SPECIFICATION Spec
CONSTANTS
  P = 3
  MaxCells = 4
  MaxD = 2
  AllowEmptyBd = TRUE
  WithReps = TRUE
  Mode = "insert"
  WithHist = TRUE
VIEW View
INVARIANT InvWellFormed
INVARIANT InvPartition
INVARIANT InvVineLemma
INVARIANT InvSwapWellFormed
INVARIANT InvRepsExist
INVARIANT InvAliveIsBetti
INVARIANT EmitState
ACTION_CONSTRAINT EmitEdge
CHECK_DEADLOCK FALSE
