------------------------------ MODULE Trace_Ripser ------------------------------
(* Validates runs recorded from the real Ripser engine (harness/ripser_record)    *)
(* against RipsPersistence.tla.  One event = one input and what every form of the  *)
(* harness streamed for it; the engine is a function, so every line is judged on   *)
(* its own: a line that fails is printed as <<"REJECT", {line, fails}>> (fails =   *)
(* "<form>:<clause>") and the validation goes on.  TRACE=<file.ndjson>.            *)
(*   {op:"ripser", n, edges:[[a,b,w],..], dense, t (-1: none), dmax, p, nsimp, oracle, *)
(*    runs:[{form, enc, dims:[..], out:[[dim,birth,death,count],..], exception?, problems?}]} *)
(* dense: the edges are a whole dissimilarity matrix and t the threshold argument;  *)
(* otherwise they are the sparse edge list (threshold argument ignored).           *)
EXTENDS RipsPersistence, Json, IOUtils

VARIABLE l
Tr == ndJsonDeserialize(IOEnv.TRACE)
DefMaxSimplices == 70      \* up to this size (and 9 points, and (p-1)^2 < 2^31: Persistence.tla multiplies directly)
                           \* the definitional route is evaluated as well

Unless(ok, name) == IF ok THEN {} ELSE {name}

WeightsOf(e) == FoldLeft(LAMBDA acc, ed : ({ed[1], ed[2]} :> ed[3]) @@ acc, <<>>, e.edges)
GraphOf(e)   == LET W == WeightsOf(e) IN IF e.dense THEN DenseGraph(e.n, W, e.t) ELSE W

WellTyped(e) ==
  /\ e.n >= 1 /\ e.dmax >= 0 /\ e.p >= 2
  /\ \A i \in DOMAIN e.edges : LET ed == e.edges[i] IN
        ed[1] \in Pts(e.n) /\ ed[2] \in Pts(e.n) /\ ed[1] < ed[2] /\ ed[3] >= 0 /\ ed[3] < INFV
  /\ Cardinality({{e.edges[i][1], e.edges[i][2]} : i \in DOMAIN e.edges}) = Len(e.edges)
  /\ e.dense => Len(e.edges) = (e.n * (e.n - 1)) \div 2

(* the simplex encoding help1 (ripser.h) picks: bits_per_vertex * (dim_max + 2) + bits(p - 1) *)
RECURSIVE Log2Up(_)
Log2Up(m) == IF m <= 1 THEN 0 ELSE 1 + Log2Up((m + 1) \div 2)     \* bits to store 0 <= x < m
Dispatched(n, dmax, p) ==
  LET s == Log2Up(n) * (Lo(dmax, n - 2) + 2) + Log2Up(p - 1)
  IN  IF s <= 64 THEN "bf64" ELSE IF s <= 128 THEN "bf128" ELSE "cns128"
Forced(form) == Len(form) >= 4 /\ SubSeq(form, 1, 4) = "enc_"

(* out: the intervals received, equal ones grouped: [dim, birth, death, how many] *)
GotBag(out) ==
  LET keep == {i \in DOMAIN out : out[i][2] < out[i][3]}
      keys == {<<out[i][1], out[i][2], out[i][3]>> : i \in keep}
      mult(k) == FoldSet(LAMBDA i, acc : acc + (IF <<out[i][1], out[i][2], out[i][3]>> = k THEN out[i][4] ELSE 0), 0, keep)
  IN  {[dim |-> k[1], b |-> k[2], d |-> k[3], n |-> mult(k)] : k \in keys}

RunFails(e, r, exp, useExp) ==
  IF "exception" \in DOMAIN r THEN {"exception"}
  ELSE Unless("problems" \notin DOMAIN r, "output_not_from_input")
       \cup Unless(r.dims = [i \in 1..(TopDim(e.n, e.dmax) + 1) |-> i - 1], "dims")
       \cup Unless(\A i \in DOMAIN r.out : r.out[i][2] <= r.out[i][3] /\ r.out[i][4] >= 1, "negative_interval")
       \cup Unless(~useExp \/ GotBag(r.out) = exp, "diagram")
       \cup Unless(Forced(r.form) \/ r.enc = Dispatched(e.n, e.dmax, e.p), "encoding_formula")

(* without oracle (complex too large to recompute here): the runs that ended normally must have streamed the same bag *)
FormsAgree(e) ==
  LET ok == {i \in DOMAIN e.runs : "exception" \notin DOMAIN e.runs[i]} IN
  \A i, j \in ok : GotBag(e.runs[i].out) = GotBag(e.runs[j].out)

(* no simplex has more than n vertices: a dim_max beyond n (the Python binding passes 2^31 - 1) asks for the same diagram *)
DMax(e) == Lo(e.dmax, e.n)
Fails(e) ==
  IF e.op # "ripser" THEN {"unknown_op"}
  ELSE IF ~WellTyped(e) THEN {"input"}
  ELSE LET G   == GraphOf(e)
           exp == IF e.oracle THEN RipsDiagramFast(e.n, G, DMax(e), e.p) ELSE {}
       IN  UNION {{r.form \o ":" \o f : f \in RunFails(e, r, exp, e.oracle)} : r \in {e.runs[i] : i \in DOMAIN e.runs}}
           \cup Unless(Len(e.runs) > 0, "no_run")
           \cup Unless(e.oracle \/ FormsAgree(e), "forms_disagree")
           \cup Unless(~e.oracle \/ e.n > 16 \/ RipsDiagramAlg(e.n, G, DMax(e), e.p) = exp, "spec_fast_vs_alg")
           \cup Unless(~e.oracle \/ e.nsimp > DefMaxSimplices \/ e.n > 9 \/ e.p > 46341 \/ RipsDiagramDef(e.n, G, DMax(e), e.p) = exp, "spec_def_vs_alg")

Judge(k) == LET f == Fails(Tr[k]) IN
  f = {} \/ PrintT(<<"REJECT", ToJson([line |-> k, fails |-> f])>>)

TraceInit == l = 1
TraceNext == l <= Len(Tr) /\ (Judge(l) = TRUE) /\ l' = l + 1
TraceSpec == TraceInit /\ [][TraceNext]_l

Verdict ==
  LET m == TLCGet("stats").diameter - 1 IN
  PrintT(<<"TRACE", ToJson([accepted |-> (m = Len(Tr)), matched |-> m, len |-> Len(Tr)])>>)
=============================================================================
