SPECIFICATION MCSpec
CONSTANTS
  Mode = "cells"
  V = {0}
  MaxDim = 2
  MaxArrows = 6
  MaxIdentity = 0
  MaxLive = 4
  AllowEmptyBd = TRUE
  INF = 1000000
VIEW View
INVARIANT InvFlags
INVARIANT InvBd
INVARIANT InvCount
INVARIANT InvInsertOnly
INVARIANT InvMirror
INVARIANT EmitState
ACTION_CONSTRAINT EmitEdge
CHECK_DEADLOCK FALSE
