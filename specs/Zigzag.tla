-------------------------------- MODULE Zigzag --------------------------------
(* Zigzag persistence over Z_2 by its DEFINITION: the right filtration of     *)
(* Carlsson - de Silva - Morozov ("Zigzag persistent homology and real-valued *)
(* functions", 2009) kept on explicit subspaces.  Independent of the          *)
(* Maria-Oudot chain-matrix algorithm implemented by Gudhi.                   *)
(*                                                                            *)
(* A complex L is a function  key -> [dim |-> d, bd |-> set of keys]; chains  *)
(* are SETS of cells of one dimension, subspaces are explicit sets of chains. *)
(* For a zigzag  V_0 <-> ... <-> V_n  the right filtration of V_n is a flag   *)
(*   0 = R_0 <= R_1 <= ... <= R_m = V_n  with a birth index per step; through *)
(*   f : V_n -> V_{n+1}   it becomes (f(R_1), ..., f(R_m), V_{n+1}), the new   *)
(*                        last step born at n+1;                              *)
(*   g : V_n <- V_{n+1}   it becomes (ker g, g^-1(R_1), ..., g^-1(R_m)), the   *)
(*                        new first step born at n+1;                         *)
(* and a step whose quotient vanishes closes the interval [birth, n+1].       *)
(* Here V_i = H_k(K_i) = Z_k(K_i)/B_k(K_i), a subspace R of V_i is kept as    *)
(* its preimage S in Z_k(K_i) (B_k <= S <= Z_k), so that for K <= K'          *)
(*   image of S under the inclusion      =  S + B_k(K'),                      *)
(*   preimage of S (K' <= K, S in Z(K))  =  S \cap Z_k(K'),                   *)
(*   kernel of H(K') -> H(K)             =  B_k(K) \cap Z_k(K').              *)
EXTENDS Chains   \* Integers, FiniteSets, Sequences, FiniteSetsExt, TLC; LogP

(* SymDiff(a, b) = (a \ b) \cup (b \ a) comes from FiniteSetsExt *)
CellsAt(L, k)  == {x \in DOMAIN L : L[x].dim = k}
(* boundary of a chain c (a set of cells of L): the cells occurring an odd number of times  *)
(* in the boundaries of the cells of c (BdSetDef), computed as the sum mod 2 of these       *)
(* boundaries (BdSet; MC_Zigzag checks BdSet = BdSetDef on every chain of every complex)    *)
BdSetDef(L, c) == {y \in DOMAIN L : Cardinality({x \in c : y \in L[x].bd}) % 2 = 1}
BdSet(L, c)    == FoldSet(LAMBDA x, acc : SymDiff(acc, L[x].bd), {}, c)
ZSp(L, k)      == {c \in SUBSET CellsAt(L, k) : BdSet(L, c) = {}}
BSp(L, k)      == {BdSet(L, c) : c \in SUBSET CellsAt(L, k + 1)}
IsSubspace(S)  == {} \in S /\ \A a, b \in S : SymDiff(a, b) \in S
DimSp(S)       == LogP(2, Cardinality(S))
BettiZ(L, k)   == DimSp(ZSp(L, k)) - DimSp(BSp(L, k))

(* a complex: boundaries are chains of live cells one dimension lower, and are cycles *)
IsComplex(L) ==
  \A x \in DOMAIN L :
     /\ L[x].bd \subseteq CellsAt(L, L[x].dim - 1)
     /\ BdSet(L, L[x].bd) = {}

(* sum of two subspaces, naive and by successive extension (S + <t> = S u (S+t)) *)
SumSpDef(S, T) == {SymDiff(s, t) : s \in S, t \in T}
SpanAdd(S, t)  == IF t \in S THEN S ELSE S \cup {SymDiff(s, t) : s \in S}
RECURSIVE SumSp(_, _)
SumSp(S, T)    == IF T \subseteq S THEN S ELSE SumSp(SpanAdd(S, CHOOSE t \in T : t \notin S), T)

-----------------------------------------------------------------------------
(* A flag is a sequence of steps [S |-> subspace, b |-> birth arrow], nested,  *)
(* above the bottom space B_k of the current complex.  Compress removes the    *)
(* steps that gain nothing over their predecessor and reports their births.    *)
Below(bottom, fl, i) == IF i = 1 THEN bottom ELSE fl[i - 1].S
Proper(bottom, fl)   == {i \in DOMAIN fl : fl[i].S # Below(bottom, fl, i)}
KeepSteps(fl, I)     == LET RECURSIVE go(_)
                            go(i) == IF i > Len(fl) THEN <<>>
                                     ELSE (IF i \in I THEN <<fl[i]>> ELSE <<>>) \o go(i + 1)
                        IN  go(1)
Compress(bottom, fl) ==
  LET I == Proper(bottom, fl)
  IN  [flag |-> KeepSteps(fl, I), dead |-> {fl[i].b : i \in DOMAIN fl \ I}]

(* forward arrow number a, K -> K' (K <= K'), dimension k *)
Forward(Ln, k, fl, a) ==
  LET Bn == BSp(Ln, k)
      Zn == ZSp(Ln, k)
      moved == [i \in DOMAIN fl |-> [S |-> SumSp(fl[i].S, Bn), b |-> fl[i].b]]
      c == Compress(Bn, moved \o <<[S |-> Zn, b |-> a]>>)
  IN  [flag |-> c.flag, dead |-> c.dead \ {a}]

(* backward arrow number a, K -> K' (K' <= K), dimension k *)
Backward(Lo, Ln, k, fl, a) ==
  LET Bn == BSp(Ln, k)
      Zn == ZSp(Ln, k)
      ker == BSp(Lo, k) \cap Zn
      moved == [i \in DOMAIN fl |-> [S |-> fl[i].S \cap Zn, b |-> fl[i].b]]
      c == Compress(Bn, <<[S |-> ker, b |-> a]>> \o moved)
  IN  [flag |-> c.flag, dead |-> c.dead \ {a}]

(* invariants of a flag of dimension k over the complex L *)
FlagOK(L, k, fl) ==
  LET Bk == BSp(L, k)  Zk == ZSp(L, k) IN
  /\ \A i \in DOMAIN fl : IsSubspace(fl[i].S) /\ Below(Bk, fl, i) \subseteq fl[i].S
                          /\ DimSp(fl[i].S) = DimSp(Below(Bk, fl, i)) + 1
  /\ (IF Len(fl) = 0 THEN Bk ELSE fl[Len(fl)].S) = Zk
  /\ \A i, j \in DOMAIN fl : i # j => fl[i].b # fl[j].b

-----------------------------------------------------------------------------
(* The zigzag state machine as a pure function.                               *)
(*   st = [live |-> complex, arrow |-> number of arrows so far,               *)
(*         flag |-> [k \in 0..MaxD |-> flag of dimension k]]                  *)
(*   op = [op |-> "insert", dim, bd] | [op |-> "remove", k] | [op |-> "identity"] *)
(* Arrows are numbered from 0; the cell inserted by arrow a has key a.        *)
(* Result: [st |-> successor, closed |-> set of [dim, b, d]].                 *)
ZInit(MaxD) == [live |-> <<>>, arrow |-> 0, flag |-> [k \in 0..MaxD |-> <<>>]]
Drop(L, x)  == [y \in DOMAIN L \ {x} |-> L[y]]

CanInsert(st, dim, bd) ==
  /\ bd \subseteq CellsAt(st.live, dim - 1)
  /\ BdSet(st.live, bd) = {}
CanRemove(st, x) ==
  /\ x \in DOMAIN st.live
  /\ \A y \in DOMAIN st.live : x \notin st.live[y].bd

ZStep(st, op) ==
  LET a == st.arrow
      D == DOMAIN st.flag
  IN
  IF op.op = "identity" THEN [st |-> [st EXCEPT !.arrow = a + 1], closed |-> {}]
  ELSE
    LET Ln == IF op.op = "insert" THEN (a :> [dim |-> op.dim, bd |-> op.bd]) @@ st.live
              ELSE Drop(st.live, op.k)
        r  == [k \in D |-> IF op.op = "insert" THEN Forward(Ln, k, st.flag[k], a)
                           ELSE Backward(st.live, Ln, k, st.flag[k], a)]
    IN  [st |-> [live |-> Ln, arrow |-> a + 1, flag |-> [k \in D |-> r[k].flag]],
         closed |-> UNION {{[dim |-> k, b |-> b, d |-> a] : b \in r[k].dead} : k \in D}]

OpenOf(st) == UNION {{[dim |-> k, b |-> st.flag[k][i].b] : i \in DOMAIN st.flag[k]} : k \in DOMAIN st.flag}

(* whole barcode of a sequence of operations started from st: closed intervals *)
RECURSIVE ZRun(_, _, _)
ZRun(st, ops, i) ==
  IF i > Len(ops) THEN [st |-> st, closed |-> {}]
  ELSE LET r == ZStep(st, ops[i])
           t == ZRun(r.st, ops, i + 1)
       IN  [st |-> t.st, closed |-> r.closed \cup t.closed]

-----------------------------------------------------------------------------
(* Mirror symmetry.  Let ops be a history from the empty complex to L.  Append  *)
(* the removals of all remaining cells (largest key first: a coface always has *)
(* a larger key than its faces), so that the sequence returns to the empty     *)
(* complex; the reversed sequence (removals become insertions and conversely,  *)
(* keys renamed) is again a zigzag and its barcode must be the mirror image.   *)
RECURSIVE DescSeq(_)
DescSeq(S) == IF S = {} THEN <<>> ELSE LET m == Max(S) IN <<m>> \o DescSeq(S \ {m})
CloseOps(st) == LET q == DescSeq(DOMAIN st.live) IN [i \in DOMAIN q |-> [op |-> "remove", k |-> q[i]]]

(* ops: closed history (ends in the empty complex), n = Len(ops).  The cell inserted by *)
(* arrow i-1 (key i-1) and removed by arrow j-1 is, in the mirror, inserted by arrow n-j *)
Mirror(ops) ==
  LET n == Len(ops)
      RemovedAt(key) == CHOOSE j \in 1..n : ops[j].op = "remove" /\ ops[j].k = key
      NewKey(key) == n - RemovedAt(key)
  IN  [i \in 1..n |->
        LET o == ops[n + 1 - i] IN
        IF o.op = "identity" THEN o
        ELSE IF o.op = "remove"
             THEN [op |-> "insert", dim |-> ops[o.k + 1].dim, bd |-> {NewKey(y) : y \in ops[o.k + 1].bd}]
             ELSE [op |-> "remove", k |-> NewKey(n - i)]]
MirrorBars(bars, n) == {[dim |-> x.dim, b |-> n - 1 - x.d, d |-> n - 1 - x.b] : x \in bars}
=============================================================================
