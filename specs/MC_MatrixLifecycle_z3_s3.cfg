SPECIFICATION Spec
CONSTANTS
  Slots = {1, 2, 3}
  P = 3
  MaxCells = 3
  MaxVerts = 2
  WithSwap = FALSE
VIEW View
INVARIANT InvWellFormed
INVARIANT InvProv
INVARIANT EmitState
ACTION_CONSTRAINT EmitEdge
CHECK_DEADLOCK FALSE
