------------------------------ MODULE Simplicial ------------------------------
(* Finite abstract simplicial complexes: simplices are non-empty finite sets  *)
(* of integers.  Shared by SimplexTree, ToplexMap, SkeletonBlocker, Rips ...  *)
EXTENDS Integers, FiniteSets, Sequences, SequencesExt, FiniteSetsExt

Simplices(V)   == SUBSET V \ {{}}
Faces(s)       == SUBSET s \ {{}}              \* faces of s, s included
ProperFaces(s) == Faces(s) \ {s}
Facets(s)      == {s \ {v} : v \in s} \ {{}}   \* codimension-1 faces
Dim(s)         == Cardinality(s) - 1
Closed(C)      == \A s \in C : Faces(s) \subseteq C
DimC(C)        == IF C = {} THEN -1 ELSE Max({Dim(s) : s \in C})
Closure(C)     == UNION {Faces(s) : s \in C}
VerticesOf(C)  == UNION C
SortedSeq(s)   == SetToSortSeq(s, LAMBDA a, b : a < b)
SkeletonC(C, d)== {s \in C : Dim(s) <= d}
StarC(C, s)    == {t \in C : s \subseteq t}      \* s itself included when present
CofacesC(C, s, codim) == IF codim = 0 THEN StarC(C, s)
                         ELSE {t \in C : s \subseteq t /\ Dim(t) = Dim(s) + codim}
MaximalC(C)    == {s \in C : \A t \in C : s \subseteq t => s = t}
LinkC(C, s)    == {t \in C : t \cap s = {} /\ (t \cup s) \in C}

(* boundary in the order the iterators produce it: omit the largest vertex    *)
(* first (Simplex_tree_iterators.h:79-190), each face with its opposite vertex*)
BoundarySeq(s) ==
  IF Cardinality(s) = 1 THEN <<>>
  ELSE LET sq == SortedSeq(s)  d == Len(sq)
       IN  [j \in 1..d |-> [face |-> s \ {sq[d + 1 - j]}, opp |-> sq[d + 1 - j]]]

(* cliques of a graph given as vertex set VV and edge set EE (2-element sets) *)
IsClique(s, VV, EE) == s \subseteq VV /\ \A a, b \in s : a # b => {a, b} \in EE
Cliques(VV, EE, d)  == {s \in Simplices(VV) : Dim(s) <= d /\ IsClique(s, VV, EE)}

(* reverse lexicographic order of Simplex_tree::reverse_lexicographic_order:  *)
(* vertices read in decreasing order; first difference decides; a proper      *)
(* "suffix" comes first.                                                      *)
RECURSIVE RevLex(_, _)
RevLex(s, t) ==
  IF s = {} THEN t # {}
  ELSE IF t = {} THEN FALSE
  ELSE LET a == Max(s)  b == Max(t)
       IN IF a = b THEN RevLex(s \ {a}, t \ {b}) ELSE a < b
=============================================================================
