SPECIFICATION Spec
CONSTANTS
  Ns = {1, 2, 3, 4}
  Vals = {1, 2, 3}
  Primes = {2, 3}
  SampleEvery = 1
  ThEvery = 3
  ThDefEvery = 1
  ThDefMaxN = 3
INVARIANT InvFlag
INVARIANT InvChainComplex
INVARIANT InvDefAlg
INVARIANT InvSkeleton
INVARIANT InvCone
INVARIANT InvIsolated
INVARIANT InvSingleLinkage
INVARIANT InvDefinitional
INVARIANT EmitCase
CHECK_DEADLOCK FALSE
