--------------------------- MODULE Trace_DenseMatrix ---------------------------
(* Validates executions recorded from real "basic" matrices (harness/dense_record) *)
(* against the actions of DenseMatrix.tla / CompressedMatrix.tla: every logged     *)
(* call must be an enabled action (documented preconditions) and every logged      *)
(* observation must be the one derived from the successor state.  The successor    *)
(* state is computed by the specification, never read from the trace.              *)
(* TRACE=<file.ndjson> in the environment; P, NR, NC come from the .cfg.           *)
EXTENDS CompressedMatrix, Json, IOUtils

VARIABLES l,      \* next line of the trace
          comp    \* the recorded matrix uses column compression
Tr == ndJsonDeserialize(IOEnv.TRACE)
Has(e, k) == k \in DOMAIN e
SeqToSet(q) == {q[i] : i \in DOMAIN q}

(* observations logged with an event, all functions of the successor state *)
ObsOK(e, C, N, K, cp) ==
  LET L == DOMAIN C IN
  /\ Has(e, "nc") => e.nc = (IF e.map THEN Cardinality(L) ELSE N)
  /\ Has(e, "ze") =>
       /\ {e.ze[i][1] : i \in DOMAIN e.ze} = L /\ Len(e.ze) = Cardinality(L)
       /\ \A i \in DOMAIN e.ze : LET c == e.ze[i][1]  z == e.ze[i][2] IN
            \A k \in DOMAIN z : z[k] = (C[c][k - 1] = 0)
  /\ Has(e, "zc") =>
       /\ {e.zc[i][1] : i \in DOMAIN e.zc} = L
       /\ \A i \in DOMAIN e.zc : e.zc[i][2] = (C[e.zc[i][1]] = ZeroV)
  /\ Has(e, "cols") =>
       /\ {e.cols[i][1] : i \in DOMAIN e.cols} = L /\ Len(e.cols) = Cardinality(L)
       /\ \A i \in DOMAIN e.cols : TV(e.cols[i][2]) = C[e.cols[i][1]] /\ TV(e.cols[i][3]) = C[e.cols[i][1]]
  /\ Has(e, "rows") =>
       \A i \in DOMAIN e.rows : LET r == e.rows[i][1]  es == e.rows[i][2]
                                    want == IF cp THEN {<<K[j], C[j][r]>> : j \in {x \in L : C[x][r] # 0}}
                                                  ELSE {<<j, C[j][r]>> : j \in {x \in L : C[x][r] # 0}}
                                IN /\ {<<es[j][1], es[j][2]>> : j \in DOMAIN es} = want
                                   /\ Len(es) = Cardinality(want)
  /\ Has(e, "errors") => e.errors = <<>>
  /\ ~Has(e, "exception")

PlainStep(e) ==
  /\ UNCHANGED cls
  /\ \/ e.op = "insert" /\ InsertColumn(TV(e.v))
     \/ e.op = "insert_at" /\ InsertColumnAt(TV(e.v), e.i)
     \/ e.op = "remove_col" /\ RemoveColumn(e.i)
     \/ e.op = "remove_last" /\ RemoveLast
     \/ e.op = "add" /\ AddTo(e.s, e.t)
     \/ e.op = "add_r" /\ AddRangeTo(TV(e.v), e.t, e.o)
     \/ e.op = "mta" /\ MulTargetAndAdd(e.s, e.c, e.t)
     \/ e.op = "mta_r" /\ MulTargetAndAddRange(TV(e.v), e.c, e.t, e.o)
     \/ e.op = "msa" /\ MulSourceAndAdd(e.c, e.s, e.t)
     \/ e.op = "msa_r" /\ MulSourceAndAddRange(e.c, TV(e.v), e.t, e.o)
     \/ e.op = "zero_entry" /\ ZeroEntry(e.c, e.r)
     \/ e.op = "zero_col" /\ ZeroColumn(e.c)
     \/ e.op = "swap_cols" /\ SwapColumns(e.a, e.b)
     \/ e.op = "swap_rows" /\ SwapRows(e.a, e.b)
     \/ e.op = "erase_row" /\ EraseEmptyRow(e.r)
     \/ e.op = "read" /\ UNCHANGED <<cols, next>> /\ pend' = FALSE /\ act' = [op |-> "read"]

CompStep(e) ==
  \/ e.op = "insert" /\ CInsertColumn(TV(e.v))
  \/ e.op = "add" /\ CAddTo(e.s, e.t)
  \/ e.op = "add_r" /\ CAddRangeTo(TV(e.v), e.t, e.o)
  \/ e.op = "mta" /\ CMulTargetAndAdd(e.s, e.c, e.t)
  \/ e.op = "mta_r" /\ CMulTargetAndAddRange(TV(e.v), e.c, e.t, e.o)
  \/ e.op = "msa" /\ CMulSourceAndAdd(e.c, e.s, e.t)
  \/ e.op = "msa_r" /\ CMulSourceAndAddRange(e.c, TV(e.v), e.t, e.o)
  \/ e.op = "erase_row" /\ CEraseEmptyRow(e.r)
  \/ e.op = "read" /\ UNCHANGED <<cols, next, pend, cls>> /\ act' = [op |-> "read"]

Step(e) ==
  IF e.op = "reset"
    THEN /\ cols' = <<>> /\ next' = 0 /\ pend' = FALSE /\ cls' = <<>> /\ comp' = e.comp
         /\ act' = [op |-> "reset"] /\ e.p = P /\ e.nr = NR
    ELSE /\ UNCHANGED comp
         /\ IF comp THEN CompStep(e) ELSE PlainStep(e)

TraceInit == cols = <<>> /\ next = 0 /\ pend = FALSE /\ cls = <<>> /\ comp = FALSE /\ act = [op |-> "init"] /\ l = 1
TraceNext == /\ l <= Len(Tr)
             /\ l' = l + 1
             /\ Step(Tr[l])
             /\ ObsOK(Tr[l], cols', next', cls', comp')
TraceSpec == TraceInit /\ [][TraceNext]_<<cols, next, pend, act, cls, l, comp>>
TraceView == <<cols, next, cls, l>>

Verdict ==
  LET m == TLCGet("stats").diameter - 1 IN
  PrintT(<<"TRACE", ToJson([accepted |-> (m = Len(Tr)), matched |-> m, len |-> Len(Tr)])>>)
=============================================================================
