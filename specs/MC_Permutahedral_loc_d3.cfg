SPECIFICATION Spec
CONSTANTS
  D = 3
  Mode = "locate"
  NBases = 1
  NonCanon = FALSE
  S = 8
  LoNeg = 1
  Hi = 2
  Wide = FALSE
INVARIANT ThLocate
INVARIANT ThUnique
INVARIANT EmitCase
CHECK_DEADLOCK FALSE
