---------------------------- MODULE MC_ToplexMap ----------------------------
(* Bounded model of ToplexMap.tla.  Emits every distinct state with all its   *)
(* derived observations (INVARIANT EmitState) and every generated transition  *)
(* (ACTION_CONSTRAINT EmitEdge) as JSON for the replay on the real code.      *)
EXTENDS ToplexMap, Json

KJ(C) == SeqSet(C)

(* everything the public read API of Toplex_map can be asked on universe V:    *)
(*  member_set : membership(s) over every non-empty s \subseteq V              *)
(*  maxq_set   : maximality(s) over every non-empty s \subseteq V              *)
(*  max_set    : maximal_simplices()                                           *)
(*  cof_set    : maximal_cofaces(s) for every non-empty s \subseteq V          *)
(*  afi_set    : Lazy_toplex_map::all_facets_inside(s), |s| >= 2               *)
Obs(C) ==
  [member_set |-> SeqSet(C),
   maxq_set   |-> SeqSet(MaximalC(C)),
   max_set    |-> SeqSet(MaximalC(C)),
   cof_set    |-> {[s |-> SortedSeq(s), t_set |-> SeqSet(MaxCofaces(C, s))] : s \in Universe},
   afi_set    |-> SeqSet({s \in Universe : Cardinality(s) >= 2 /\ Facets(s) \subseteq C}),
   nmax       |-> Cardinality(MaximalC(C)),
   nv         |-> Cardinality(VerticesOf(C)),
   checks_failed |-> <<>>]

(* Insert first: the replay builds its BFS tree from the first edges emitted  *)
Next ==
  \/ \E s \in Universe : InsertSimplex(s)
  \/ \E s \in Universe : RemoveSimplex(s)
  \/ \E s \in Universe : InsertIndependentSimplex(s)
  \/ \E v \in V : RemoveVertex(v)
  \/ RemoveAll
  \/ \E x, y \in V : \E k \in {x, y} : Contraction(x, y, k)

Spec == Init /\ [][Next]_<<K, act>>

View == K
EmitState == PrintT(<<"STATE", ToJson([id |-> KJ(K), obs |-> Obs(K)])>>)
EmitEdge  == PrintT(<<"EDGE", ToJson([from |-> KJ(K), act |-> act', to |-> KJ(K')])>>)

-----------------------------------------------------------------------------
(* in-model theorems *)

(* the toplices determine the complex: what a toplex map stores is faithful   *)
InvToplexFaithful == Closure(MaximalC(K)) = K
                     /\ \A s, t \in MaximalC(K) : s \subseteq t => s = t

(* removal of s (maximal or not) seen on the toplices: toplices not containing*)
(* s stay; a toplex t containing s is replaced by its facets t \ {x}, x in s. *)
(* This is the repair rule proposed for remove_simplex.                       *)
RemoveOnToplices(C, s) ==
  Closure(({t \in MaximalC(C) : ~(s \subseteq t)}
           \cup {t \ {x} : t \in {u \in MaximalC(C) : s \subseteq u}, x \in s}) \ {{}})
InvRemoveRule == \A s \in Universe : RemoveK(K, s) = RemoveOnToplices(K, s)

(* keeping only the facets of s itself (what the code does) is right when s   *)
(* is maximal; for a non-maximal s it may lose faces of the destroyed toplices *)
(* (not always: the lost faces may lie in another toplex)                      *)
FacetsOfArgOnly(C, s) == Closure(({t \in MaximalC(C) : ~(s \subseteq t)} \cup Facets(s)) \ {{}})
InvFacetsOfArgOnly == \A s \in K : /\ IsMaxIn(K, s) => FacetsOfArgOnly(K, s) = RemoveK(K, s)
                                   /\ FacetsOfArgOnly(K, s) \subseteq RemoveK(K, s)

(* remove_vertex is removal of the 0-simplex; the two contraction outcomes are *)
(* the same complex up to exchanging the labels x and y                        *)
InvRemoveVertex == \A v \in V : RemoveVertexK(K, v) = RemoveK(K, {v})
Swap(s, x, y) == {IF v = x THEN y ELSE IF v = y THEN x ELSE v : v \in s}
InvContractSym == \A x, y \in V : ContractK(K, y, x) = {Swap(s, x, y) : s \in ContractK(K, x, y)}
InvContractClosed == \A x, y \in V : Closed(ContractK(K, x, y))
=============================================================================
