------------------------------ MODULE ZigzagSpec ------------------------------
(* Abstract state machine of Gudhi::zigzag_persistence::Zigzag_persistence    *)
(* (zigzag_persistence.h) and of its filtered front ends                      *)
(* (filtered_zigzag_persistence.h).  One action per public mutator:           *)
(*   insert_cell(boundary, dim)  -> InsertCell(bd, dim)                       *)
(*   remove_cell(key)            -> RemoveCell(k)                             *)
(*   apply_identity()            -> Identity                                  *)
(* Documented conventions (zigzag_persistence.h:79-141, 254-312): operation   *)
(* numbers start at 0, every call is one arrow and returns its number; a cell *)
(* is named by the number of the arrow that inserted it; the callback gets    *)
(* (dim, birth arrow, death arrow) when an interval closes; the open ones are *)
(* given by get_current_infinite_intervals as (dim, birth arrow).             *)
(* Guards = documented preconditions: the boundary cells are in the complex   *)
(* (and the boundary is a cycle: the cells form a chain complex), a cell is   *)
(* removed only when no cell of the complex has it in its boundary.           *)
EXTENDS Zigzag

CONSTANT MaxDim      \* largest cell dimension

VARIABLES live,      \* the current complex: key -> [dim, bd]
          arrow,     \* number of arrows so far = number of the next arrow
          flag,      \* dimension -> right filtration (Zigzag.tla)
          act        \* ghost: the last call, its return value and the intervals it closed

St == [live |-> live, arrow |-> arrow, flag |-> flag]
Open == OpenOf(St)

Init ==
  /\ live = <<>> /\ arrow = 0 /\ flag = [k \in 0..MaxDim |-> <<>>]
  /\ act = [op |-> "init"]

Apply(op, r) ==
  /\ live' = r.st.live
  /\ arrow' = r.st.arrow
  /\ flag' = r.st.flag

InsertCell(bd, dim) ==
  /\ dim \in 0..MaxDim
  /\ CanInsert(St, dim, bd)
  /\ LET op == [op |-> "insert", dim |-> dim, bd |-> bd]
         r == ZStep(St, op)
     IN  /\ Apply(op, r)
         /\ act' = [op |-> "insert", dim |-> dim, bd |-> bd, key |-> arrow, ret |-> arrow,
                    closed_set |-> r.closed]

RemoveCell(k) ==
  /\ CanRemove(St, k)
  /\ LET op == [op |-> "remove", k |-> k]
         r == ZStep(St, op)
     IN  /\ Apply(op, r)
         /\ act' = [op |-> "remove", k |-> k, ret |-> arrow, closed_set |-> r.closed]

Identity ==
  /\ LET r == ZStep(St, [op |-> "identity"])
     IN  Apply([op |-> "identity"], r)
  /\ act' = [op |-> "identity", ret |-> arrow, closed_set |-> {}]

(* the operation of Zigzag.tla's pure machine corresponding to a logged act *)
OpOf(a) == IF a.op = "insert" THEN [op |-> "insert", dim |-> a.dim, bd |-> a.bd]
           ELSE IF a.op = "remove" THEN [op |-> "remove", k |-> a.k]
           ELSE [op |-> "identity"]

-----------------------------------------------------------------------------
(* Filtered front ends.  val : arrow number -> filtration value of the call   *)
(* (apply_identity takes none: its arrows carry no value and, closing and     *)
(* opening nothing, need none).  Documented: values monotone along the        *)
(* sequence; Filtered_zigzag_persistence streams (dim, value of birth arrow,  *)
(* value of death arrow) for bars of non-zero length; ..._with_storage keeps  *)
(* the index intervals of dimension < ignoreCyclesAboveDim (all if -1) and    *)
(* returns value intervals [min, max] longer than the threshold, plus the     *)
(* infinite bars.                                                             *)
BagOf(S, Key(_)) ==   \* S a set of records that may collide under Key: multiplicities
  LET ks == {Key(x) : x \in S}
  IN  {[k |-> k, n |-> Cardinality({x \in S : Key(x) = k})] : k \in ks}

FClosed(bars, val) ==       \* Filtered_zigzag_persistence callback, as a bag
  BagOf({x \in bars : val[x.b] # val[x.d]},
        LAMBDA x : [dim |-> x.dim, b |-> val[x.b], d |-> val[x.d]])
FOpen(open, val) ==         \* Filtered_zigzag_persistence::get_current_infinite_intervals
  BagOf(open, LAMBDA x : [dim |-> x.dim, b |-> val[x.b]])

Lo(a, b) == IF a < b THEN a ELSE b
Hi(a, b) == IF a < b THEN b ELSE a
KeepDim(x, D) == D = -1 \/ x.dim < D
SIndex(bars, D) == {x \in bars : KeepDim(x, D)}     \* get_index_persistence_diagram
SDiagram(bars, open, val, D, shortest, INF) ==     \* get_persistence_diagram(shortest, TRUE)
  BagOf({[t |-> "c", x |-> x] : x \in {y \in SIndex(bars, D) : Hi(val[y.b], val[y.d]) - Lo(val[y.b], val[y.d]) > shortest}}
        \cup {[t |-> "o", x |-> x] : x \in {y \in open : KeepDim(y, D)}},
        LAMBDA e : IF e.t = "c" THEN [dim |-> e.x.dim, b |-> Lo(val[e.x.b], val[e.x.d]), d |-> Hi(val[e.x.b], val[e.x.d])]
                   ELSE [dim |-> e.x.dim, b |-> val[e.x.b], d |-> INF])
=============================================================================
