SPECIFICATION Spec
CONSTANTS
  Mode = "lweak"
  R = 1
  C = 1
  NVals = 0
  MaxLen = 6
  ThEvery = 1
  ThMaxLen = 6
INVARIANT ThDual
INVARIANT ThShape
INVARIANT EmitCase
CHECK_DEADLOCK FALSE
