SPECIFICATION Spec
CONSTANTS
  NV = 6
  Heavy = FALSE
INVARIANT TypeOK
INVARIANT EmitState
ACTION_CONSTRAINT EmitEdge
CHECK_DEADLOCK FALSE
