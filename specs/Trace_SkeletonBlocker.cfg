SPECIFICATION TraceSpec
CONSTANTS
  NV = 6
VIEW TraceView
POSTCONDITION Verdict
CHECK_DEADLOCK FALSE
