SPECIFICATION Spec
CONSTANTS
  P = 3
  NR = 2
  NC = 3
  Coefs = {0, 1, 2}
  InsMax = 2
  RngMax = 2
  Orders = {"asc", "desc"}
VIEW View
INVARIANT CTypeOK
INVARIANT InvClassContent
INVARIANT InvCompressed
INVARIANT InvClsIsMin
INVARIANT EmitState
ACTION_CONSTRAINT EmitEdge
CHECK_DEADLOCK FALSE
