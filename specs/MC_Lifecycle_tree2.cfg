SPECIFICATION Spec
CONSTANTS
  Slots = {1, 2}
  V = {0, 1}
  Vals = {0, 1}
  MaxDim = 1
  Payload = "tree"
  Deltas = {8, 7, 9, 4, 16}
VIEW View
INVARIANT InvTyped
INVARIANT EmitState
ACTION_CONSTRAINT EmitEdge
CHECK_DEADLOCK FALSE
