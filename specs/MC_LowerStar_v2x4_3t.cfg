SPECIFICATION Spec
CONSTANTS
  Mode = "vals"
  R = 2
  C = 4
  NVals = 3
  MaxLen = 0
  ThEvery = 16
  ThMaxLen = 0
INVARIANT ThDual
INVARIANT ThShape
INVARIANT EmitCase
CHECK_DEADLOCK FALSE
