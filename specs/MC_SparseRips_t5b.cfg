SPECIFICATION Spec
CONSTANTS
  N = 5
  DVals = {1, 2, 3, 4}
  Mult = 3
  Canon = TRUE
  EpsG <- E34
  EpsB <- NoEps
  Bounds <- NoBounds
  DimMaxs = {2, 4}
INVARIANT InvInput
INVARIANT InvGuarantee
INVARIANT InvValidAlways
INVARIANT InvGreedy
INVARIANT EmitCase
CHECK_DEADLOCK FALSE
