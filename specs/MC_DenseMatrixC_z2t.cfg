SPECIFICATION Spec
CONSTANTS
  P = 2
  NR = 3
  NC = 3
  Coefs = {0, 1}
  InsMax = 3
  RngMax = 3
  Orders = {"asc", "desc"}
VIEW View
INVARIANT CTypeOK
INVARIANT InvClassContent
INVARIANT InvCompressed
INVARIANT InvClsIsMin
INVARIANT EmitState
ACTION_CONSTRAINT EmitEdge
CHECK_DEADLOCK FALSE
