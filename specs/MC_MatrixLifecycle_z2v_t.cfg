SPECIFICATION Spec
CONSTANTS
  Slots = {1, 2}
  P = 2
  MaxCells = 5
  MaxVerts = 3
  WithSwap = TRUE
VIEW View
INVARIANT InvWellFormed
INVARIANT InvProv
INVARIANT EmitState
ACTION_CONSTRAINT EmitEdge
CHECK_DEADLOCK FALSE
