------------------------------ MODULE SimplexTree ------------------------------
(* Abstract state machine of Gudhi::Simplex_tree: the state is the filtered   *)
(* complex K : simplex -> value.  One action per public mutator, guarded by   *)
(* the documented preconditions; every read interface is a derived operator.  *)
EXTENDS Simplicial, TLC

CONSTANTS V,        \* vertex universe (integers)
          Vals,     \* finite filtration values used as arguments
          INF,      \* stands for +infinity
          MaxDim    \* bound on dimension of inserted simplices

VARIABLES K, act

Dom == DOMAIN K
Min2(a, b) == IF a < b THEN a ELSE b
Max2(a, b) == IF a < b THEN b ELSE a
MonotoneF(F) == \A s \in DOMAIN F : \A t \in Facets(s) : t \in DOMAIN F => F[t] <= F[s]
RestrictF(F, C) == [s \in C |-> F[s]]
Universe == {s \in Simplices(V) : Dim(s) <= MaxDim}

TypeOK == Dom \subseteq Universe /\ Closed(Dom)

Init == K = <<>> /\ act = [op |-> "init"]

-----------------------------------------------------------------------------
(* insert_simplex (Simplex_tree.h:1061-1098): new simplex takes f, existing   *)
(* keeps the smaller value.  Result: (handle,true) when new, (handle,false)   *)
(* when lowered, (null,false) otherwise.  Guard: the stored set stays closed. *)
InsertRet(s, f) == IF s \notin Dom THEN "new" ELSE IF f < K[s] THEN "lowered" ELSE "none"
InsertSimplex(s, f) ==
  /\ Facets(s) \subseteq Dom
  /\ K' = IF s \in Dom THEN [K EXCEPT ![s] = Min2(K[s], f)] ELSE (s :> f) @@ K
  /\ act' = [op |-> "insert", s |-> SortedSeq(s), f |-> f, ret |-> InsertRet(s, f)]

(* insert_simplex_and_subfaces (:1113-1140).  Guard: monotone values, the     *)
(* documented use; then the recursion's short-cut is unobservable.            *)
InsertWithFacesK(s, f) ==
  [t \in Dom \cup Faces(s) |->
      IF t \in Faces(s) THEN (IF t \in Dom THEN Min2(K[t], f) ELSE f) ELSE K[t]]
InsertSimplexAndSubfaces(s, f) ==
  /\ MonotoneF(K)
  /\ K' = InsertWithFacesK(s, f)
  /\ act' = [op |-> "insert_faces", s |-> SortedSeq(s), f |-> f, ret |-> InsertRet(s, f)]

(* insert_batch_vertices (:1551): existing vertices untouched.                *)
InsertBatchVertices(S, f) ==
  /\ K' = K @@ [t \in {{v} : v \in S} |-> f]
  /\ act' = [op |-> "batch", vs |-> SortedSeq(S), f |-> f]

(* insert_graph (:1491): only in an empty tree; G is a valued 1-dim complex   *)
InsertGraph(G) ==
  /\ Dom = {}
  /\ K' = G
  /\ act' = [op |-> "graph",
             g_set |-> {[s |-> SortedSeq(s), f |-> G[s]] : s \in DOMAIN G}]

(* remove_maximal_simplex (:2311): precondition no coface.                    *)
RemoveMaximal(s) ==
  /\ s \in Dom
  /\ StarC(Dom, s) = {s}
  /\ K' = RestrictF(K, Dom \ {s})
  /\ act' = [op |-> "remove_maximal", s |-> SortedSeq(s)]

(* prune_above_filtration (:2161): sublevel complex; requires monotone values *)
PruneAboveFiltration(f) ==
  /\ MonotoneF(K)
  /\ K' = IF f = INF THEN K ELSE RestrictF(K, {s \in Dom : K[s] <= f})
  /\ act' = [op |-> "prune_filt", f |-> f, ret |-> (K' # K)]

(* prune_above_dimension (:2230)                                              *)
PruneAboveDimension(d) ==
  /\ K' = RestrictF(K, {s \in Dom : Dim(s) <= d})
  /\ act' = [op |-> "prune_dim", d |-> d, ret |-> (K' # K)]

Clear ==
  /\ K' = <<>>
  /\ act' = [op |-> "clear"]

AssignFiltration(s, f) ==
  /\ s \in Dom
  /\ K' = [K EXCEPT ![s] = f]
  /\ act' = [op |-> "assign", s |-> SortedSeq(s), f |-> f]

(* reset_filtration (:2627): every simplex of dimension >= mind gets f        *)
ResetFiltration(f, mind) ==
  /\ K' = [s \in Dom |-> IF Dim(s) >= mind THEN f ELSE K[s]]
  /\ act' = [op |-> "reset_filt", f |-> f, d |-> mind]

(* make_filtration_non_decreasing (:2117): least monotone function above K    *)
MonotoneHull(F) == [s \in DOMAIN F |-> Max({F[t] : t \in Faces(s) \cap DOMAIN F})]
MakeNonDecreasing ==
  /\ K' = MonotoneHull(K)
  /\ act' = [op |-> "make_non_decreasing", ret |-> (K' # K)]

(* expansion (:1577): flag complex of the 1-skeleton up to dimension d.       *)
(* Guard: dimension <= 1 (documented) and vertex values <= edge values.       *)
GraphV == {v \in V : {v} \in Dom}
GraphE == {e \in Dom : Dim(e) = 1}
FlagValue(F, s) == Max({F[t] : t \in {u \in Faces(s) : Dim(u) <= 1}})
ExpansionK(d) ==
  [s \in Cliques(GraphV, GraphE, Max2(d, 1)) |-> IF s \in Dom THEN K[s] ELSE FlagValue(K, s)]
Expansion(d) ==
  /\ DimC(Dom) <= 1
  /\ MonotoneF(K)
  /\ K' = ExpansionK(d)
  /\ act' = [op |-> "expansion", d |-> d]

(* insert_edge_as_flag (:1622): K must be the flag complex of its graph       *)
(* truncated at dmax; the edge (or vertex, u = v) must be absent, endpoints   *)
(* present.  Adds every simplex containing the edge all of whose edges are    *)
(* now present, value f; reports exactly the added simplices.                 *)
IsFlag(C, dmax) == C = Cliques({v \in V : {v} \in C}, {e \in C : Dim(e) = 1}, dmax)
EdgeAsFlagAdded(u, v, dmax) ==
  IF u = v THEN {{u}}
  ELSE {s \in Cliques(GraphV, GraphE \cup {{u, v}}, dmax) : {u, v} \subseteq s}
InsertEdgeAsFlag(u, v, f, dmax) ==
  /\ IsFlag(Dom, dmax)
  /\ {u, v} \notin Dom
  /\ u # v => ({u} \in Dom /\ {v} \in Dom)
  /\ K' = K @@ [s \in EdgeAsFlagAdded(u, v, dmax) |-> f]
  /\ act' = [op |-> "edge_as_flag", u |-> u, v |-> v, f |-> f, d |-> dmax,
             added_set |-> {SortedSeq(s) : s \in EdgeAsFlagAdded(u, v, dmax)}]

-----------------------------------------------------------------------------
(* Derived read interfaces                                                    *)
Before(F, s, t) == F[s] < F[t] \/ (F[s] = F[t] /\ RevLex(s, t))
FiltSeq(F) == SetToSortSeq(DOMAIN F, LAMBDA s, t : Before(F, s, t))
FiltSeqNoInf(F) == SetToSortSeq({s \in DOMAIN F : F[s] # INF}, LAMBDA s, t : Before(F, s, t))
NumByDim(C) == [d \in 1..(DimC(C) + 1) |-> Cardinality({s \in C : Dim(s) = d - 1})]
=============================================================================
