------------------------------ MODULE SimplexTree ------------------------------
(* Abstract state machine of Gudhi::Simplex_tree: the state is the filtered   *)
(* complex K : simplex -> value.  One action per public mutator, guarded by   *)
(* the documented preconditions; every read interface is a derived operator.  *)
EXTENDS Simplicial, TLC

CONSTANTS V,        \* vertex universe (integers)
          Vals,     \* finite filtration values used as arguments
          INF,      \* stands for +infinity
          MaxDim    \* bound on dimension of inserted simplices

VARIABLES K, act

Dom == DOMAIN K
Min2(a, b) == IF a < b THEN a ELSE b
Max2(a, b) == IF a < b THEN b ELSE a
MonotoneF(F) == \A s \in DOMAIN F : \A t \in Facets(s) : t \in DOMAIN F => F[t] <= F[s]
RestrictF(F, C) == [s \in C |-> F[s]]
Universe == {s \in Simplices(V) : Dim(s) <= MaxDim}

TypeOK == Dom \subseteq Universe /\ Closed(Dom)

Init == K = <<>> /\ act = [op |-> "init"]

-----------------------------------------------------------------------------
(* insert_simplex (Simplex_tree.h:1061-1098): new simplex takes f, existing   *)
(* keeps the smaller value.  Result: (handle,true) when new, (handle,false)   *)
(* when lowered, (null,false) otherwise.  Guard: the stored set stays closed. *)
InsertRet(s, f) == IF s \notin Dom THEN "new" ELSE IF f < K[s] THEN "lowered" ELSE "none"
InsertSimplex(s, f) ==
  /\ Facets(s) \subseteq Dom
  /\ K' = IF s \in Dom THEN [K EXCEPT ![s] = Min2(K[s], f)] ELSE (s :> f) @@ K
  /\ act' = [op |-> "insert", s |-> SortedSeq(s), f |-> f, ret |-> InsertRet(s, f)]

(* insert_simplex_and_subfaces (:1113-1140).  Guard: monotone values, the     *)
(* documented use; then the recursion's short-cut is unobservable.            *)
InsertWithFacesK(s, f) ==
  [t \in Dom \cup Faces(s) |->
      IF t \in Faces(s) THEN (IF t \in Dom THEN Min2(K[t], f) ELSE f) ELSE K[t]]
InsertSimplexAndSubfaces(s, f) ==
  /\ MonotoneF(K)
  /\ K' = InsertWithFacesK(s, f)
  /\ act' = [op |-> "insert_faces", s |-> SortedSeq(s), f |-> f, ret |-> InsertRet(s, f)]

(* insert_batch_vertices (:1551): existing vertices untouched.                *)
InsertBatchVertices(S, f) ==
  /\ K' = K @@ [t \in {{v} : v \in S} |-> f]
  /\ act' = [op |-> "batch", vs |-> SortedSeq(S), f |-> f]

(* insert_graph (:1491): only in an empty tree; G is a valued 1-dim complex   *)
InsertGraph(G) ==
  /\ Dom = {}
  /\ K' = G
  /\ act' = [op |-> "graph",
             g_set |-> {[s |-> SortedSeq(s), f |-> G[s]] : s \in DOMAIN G}]

(* remove_maximal_simplex (:2311): precondition no coface.                    *)
RemoveMaximal(s) ==
  /\ s \in Dom
  /\ StarC(Dom, s) = {s}
  /\ K' = RestrictF(K, Dom \ {s})
  /\ act' = [op |-> "remove_maximal", s |-> SortedSeq(s)]

(* prune_above_filtration (:2161): sublevel complex; requires monotone values *)
PruneAboveFiltration(f) ==
  /\ MonotoneF(K)
  /\ K' = IF f = INF THEN K ELSE RestrictF(K, {s \in Dom : K[s] <= f})
  /\ act' = [op |-> "prune_filt", f |-> f, ret |-> (K' # K)]

(* prune_above_dimension (:2230)                                              *)
PruneAboveDimension(d) ==
  /\ K' = RestrictF(K, {s \in Dom : Dim(s) <= d})
  /\ act' = [op |-> "prune_dim", d |-> d, ret |-> (K' # K)]

Clear ==
  /\ K' = <<>>
  /\ act' = [op |-> "clear"]

AssignFiltration(s, f) ==
  /\ s \in Dom
  /\ K' = [K EXCEPT ![s] = f]
  /\ act' = [op |-> "assign", s |-> SortedSeq(s), f |-> f]

(* reset_filtration (:2627): every simplex of dimension >= mind gets f        *)
ResetFiltration(f, mind) ==
  /\ K' = [s \in Dom |-> IF Dim(s) >= mind THEN f ELSE K[s]]
  /\ act' = [op |-> "reset_filt", f |-> f, d |-> mind]

(* make_filtration_non_decreasing (:2117): least monotone function above K    *)
MonotoneHull(F) == [s \in DOMAIN F |-> Max({F[t] : t \in Faces(s) \cap DOMAIN F})]
MakeNonDecreasing ==
  /\ K' = MonotoneHull(K)
  /\ act' = [op |-> "make_non_decreasing", ret |-> (K' # K)]

(* expansion (:1577): flag complex of the 1-skeleton up to dimension d.       *)
(* Guard: dimension <= 1 (documented) and vertex values <= edge values.       *)
GraphV == {v \in V : {v} \in Dom}
GraphE == {e \in Dom : Dim(e) = 1}
FlagValue(F, s) == Max({F[t] : t \in {u \in Faces(s) : Dim(u) <= 1}})
ExpansionK(d) ==
  [s \in Cliques(GraphV, GraphE, Max2(d, 1)) |-> IF s \in Dom THEN K[s] ELSE FlagValue(K, s)]
Expansion(d) ==
  /\ DimC(Dom) <= 1
  /\ MonotoneF(K)
  /\ K' = ExpansionK(d)
  /\ act' = [op |-> "expansion", d |-> d]

(* insert_edge_as_flag (:1622): K must be the flag complex of its graph       *)
(* truncated at dmax; the edge (or vertex, u = v) must be absent, endpoints   *)
(* present.  Adds every simplex containing the edge all of whose edges are    *)
(* now present, value f; reports exactly the added simplices.                 *)
IsFlag(C, dmax) == C = Cliques({v \in V : {v} \in C}, {e \in C : Dim(e) = 1}, dmax)
EdgeAsFlagAdded(u, v, dmax) ==
  IF u = v THEN {{u}}
  ELSE {s \in Cliques(GraphV, GraphE \cup {{u, v}}, dmax) : {u, v} \subseteq s}
InsertEdgeAsFlag(u, v, f, dmax) ==
  /\ IsFlag(Dom, dmax)
  /\ {u, v} \notin Dom
  /\ u # v => ({u} \in Dom /\ {v} \in Dom)
  /\ K' = K @@ [s \in EdgeAsFlagAdded(u, v, dmax) |-> f]
  /\ act' = [op |-> "edge_as_flag", u |-> u, v |-> v, f |-> f, d |-> dmax,
             added_set |-> {SortedSeq(s) : s \in EdgeAsFlagAdded(u, v, dmax)}]

(* expansion_with_blockers (:1949): cliques are added faces first and a simplex for which the oracle says *)
(* "blocked" is removed again: the result is the largest subcomplex of the clique complex containing no   *)
(* blocked simplex.  Blocked is a set of simplices of dimension >= 2.                                      *)
BlockedExpansionK(d, Blocked) ==
  LET C == {s \in Cliques(GraphV, GraphE, Max2(d, 1)) : \A t \in Faces(s) : t \notin Blocked}
  IN  [s \in C |-> IF s \in Dom THEN K[s] ELSE FlagValue(K, s)]
ExpansionWithBlockers(d, Blocked) ==
  /\ DimC(Dom) <= 1
  /\ MonotoneF(K)
  /\ K' = BlockedExpansionK(d, Blocked)
  /\ act' = [op |-> "expansion_blockers", d |-> d, blocked_set |-> {SortedSeq(s) : s \in Blocked}]

(* Rips_complex (Rips_complex.h:104): graph of the pairs at distance <= t (vertices at 0), then expansion *)
RipsGraphK(n, D, t) ==
  LET VV == 0..(n - 1)
      EE == {e \in {{a, b} : a, b \in VV} : Cardinality(e) = 2 /\ D[e] <= t}
  IN  [s \in {{v} : v \in VV} \cup EE |-> IF Cardinality(s) = 1 THEN 0 ELSE D[s]]
RipsK(n, D, t, d) ==
  LET G == RipsGraphK(n, D, t)
      VV == 0..(n - 1)
      EE == {e \in DOMAIN G : Cardinality(e) = 2}
  IN  [s \in Cliques(VV, EE, Max2(d, 1)) |-> IF s \in DOMAIN G THEN G[s] ELSE FlagValue(G, s)]
RipsComplex(n, D, t, d, form) ==
  /\ Dom = {}
  /\ K' = RipsK(n, D, t, d)
  /\ act' = [op |-> "rips", n |-> n, t |-> t, d |-> d, form |-> form,
             d_set |-> {[a |-> Min(e), b |-> Max(e), w |-> D[e]] : e \in DOMAIN D}]

(* extend_filtration (:2389): cone filtration of the vertex function.  Values are returned scaled by 4     *)
(* (quarter units): original simplices -2 + max of the scaled vertex values (ascending lower star), coned     *)
(* simplices 2 - min (descending upper star), the cone point -3.  Enabled when max - min divides 4.          *)
ExtVals4(F) ==
  LET Vs == {s \in DOMAIN F : Dim(s) = 0}
      mn == Min({F[s] : s \in Vs})
      mx == Max({F[s] : s \in Vs})
      sc4(v) == IF mx = mn THEN 0 ELSE (4 * (F[{v}] - mn)) \div (mx - mn)
      c  == Max(VerticesOf(DOMAIN F)) + 1
  IN  [t \in DOMAIN F \cup {s \cup {c} : s \in DOMAIN F} \cup {{c}} |->
         IF t = {c} THEN -12
         ELSE IF c \in t THEN 8 - Min({sc4(v) : v \in t \ {c}})
         ELSE -8 + Max({sc4(v) : v \in t})]
ExtendOK(F) == LET Vs == {s \in DOMAIN F : Dim(s) = 0} IN
  /\ DOMAIN F # {}
  /\ \A s \in DOMAIN F : F[s] # INF
  /\ (Max({F[s] : s \in Vs}) - Min({F[s] : s \in Vs})) \in {0, 1, 2, 4}
ExtendFiltration ==
  /\ ExtendOK(K)
  /\ K' = ExtVals4(K)
  /\ act' = [op |-> "extend"]
(* decode_extended_filtration of a value (scaled by 4) given the original min and max: original value x 4 and part *)
Decode4(f4, mn, mx) ==
  IF f4 >= -8 /\ f4 <= -4 THEN [v4 |-> 4 * mn + (mx - mn) * (f4 + 8), t |-> "UP"]
  ELSE IF f4 >= 4 /\ f4 <= 8 THEN [v4 |-> 4 * mn - (mx - mn) * (f4 - 8), t |-> "DOWN"]
  ELSE [v4 |-> 0, t |-> "EXTRA"]

-----------------------------------------------------------------------------
(* Derived read interfaces                                                    *)
Before(F, s, t) == F[s] < F[t] \/ (F[s] = F[t] /\ RevLex(s, t))
FiltSeq(F) == SetToSortSeq(DOMAIN F, LAMBDA s, t : Before(F, s, t))
FiltSeqNoInf(F) == SetToSortSeq({s \in DOMAIN F : F[s] # INF}, LAMBDA s, t : Before(F, s, t))
NumByDim(C) == [d \in 1..(DimC(C) + 1) |-> Cardinality({s \in C : Dim(s) = d - 1})]
=============================================================================
