---- MODULE Trace_Fields_TTrace_1790974160 ----
EXTENDS Sequences, TLCExt, Toolbox, Naturals, TLC, Trace_Fields

_expression ==
    LET Trace_Fields_TEExpression == INSTANCE Trace_Fields_TEExpression
    IN Trace_Fields_TEExpression!expression
----

_trace ==
    LET Trace_Fields_TETrace == INSTANCE Trace_Fields_TETrace
    IN Trace_Fields_TETrace!trace
----

_inv ==
    ~(
        TLCGet("level") = Len(_TETrace)
        /\
        act = ([op |-> "trace"])
        /\
        nbad = (24)
        /\
        reg = (<<0, 0, 0>>)
        /\
        l = (15)
        /\
        fld = ([ps |-> <<2>>, lo |-> 2, hi |-> 2, mod |-> 2, idem |-> <<1>>])
    )
----

_init ==
    /\ nbad = _TETrace[1].nbad
    /\ l = _TETrace[1].l
    /\ reg = _TETrace[1].reg
    /\ act = _TETrace[1].act
    /\ fld = _TETrace[1].fld
----

_next ==
    /\ \E i,j \in DOMAIN _TETrace:
        /\ \/ /\ j = i + 1
              /\ i = TLCGet("level")
        /\ nbad  = _TETrace[i].nbad
        /\ nbad' = _TETrace[j].nbad
        /\ l  = _TETrace[i].l
        /\ l' = _TETrace[j].l
        /\ reg  = _TETrace[i].reg
        /\ reg' = _TETrace[j].reg
        /\ act  = _TETrace[i].act
        /\ act' = _TETrace[j].act
        /\ fld  = _TETrace[i].fld
        /\ fld' = _TETrace[j].fld

\* Uncomment the ASSUME below to write the states of the error trace
\* to the given file in Json format. Note that you can pass any tuple
\* to `JsonSerialize`. For example, a sub-sequence of _TETrace.
    \* ASSUME
    \*     LET J == INSTANCE Json
    \*         IN J!JsonSerialize("Trace_Fields_TTrace_1790974160.json", _TETrace)

=============================================================================

 Note that you can extract this module `Trace_Fields_TEExpression`
  to a dedicated file to reuse `expression` (the module in the 
  dedicated `Trace_Fields_TEExpression.tla` file takes precedence 
  over the module `Trace_Fields_TEExpression` below).

---- MODULE Trace_Fields_TEExpression ----
EXTENDS Sequences, TLCExt, Toolbox, Naturals, TLC, Trace_Fields

expression == 
    [
        \* To hide variables of the `Trace_Fields` spec from the error trace,
        \* remove the variables below.  The trace will be written in the order
        \* of the fields of this record.
        nbad |-> nbad
        ,l |-> l
        ,reg |-> reg
        ,act |-> act
        ,fld |-> fld
        
        \* Put additional constant-, state-, and action-level expressions here:
        \* ,_stateNumber |-> _TEPosition
        \* ,_nbadUnchanged |-> nbad = nbad'
        
        \* Format the `nbad` variable as Json value.
        \* ,_nbadJson |->
        \*     LET J == INSTANCE Json
        \*     IN J!ToJson(nbad)
        
        \* Lastly, you may build expressions over arbitrary sets of states by
        \* leveraging the _TETrace operator.  For example, this is how to
        \* count the number of times a spec variable changed up to the current
        \* state in the trace.
        \* ,_nbadModCount |->
        \*     LET F[s \in DOMAIN _TETrace] ==
        \*         IF s = 1 THEN 0
        \*         ELSE IF _TETrace[s].nbad # _TETrace[s-1].nbad
        \*             THEN 1 + F[s-1] ELSE F[s-1]
        \*     IN F[_TEPosition - 1]
    ]

=============================================================================



Parsing and semantic processing can take forever if the trace below is long.
 In this case, it is advised to uncomment the module below to deserialize the
 trace from a generated binary file.

\*
\*---- MODULE Trace_Fields_TETrace ----
\*EXTENDS IOUtils, TLC, Trace_Fields
\*
\*trace == IODeserialize("Trace_Fields_TTrace_1790974160.bin", TRUE)
\*
\*=============================================================================
\*

---- MODULE Trace_Fields_TETrace ----
EXTENDS TLC, Trace_Fields

trace == 
    <<
    ([act |-> [op |-> "trace"],nbad |-> 0,reg |-> <<0, 0, 0>>,l |-> 1,fld |-> [ps |-> <<2>>, lo |-> 2, hi |-> 2, mod |-> 2, idem |-> <<1>>]]),
    ([act |-> [op |-> "trace"],nbad |-> 0,reg |-> <<0, 0, 0>>,l |-> 2,fld |-> [ps |-> <<2>>, lo |-> 2, hi |-> 2, mod |-> 2, idem |-> <<1>>]]),
    ([act |-> [op |-> "trace"],nbad |-> 0,reg |-> <<0, 0, 0>>,l |-> 3,fld |-> [ps |-> <<2>>, lo |-> 2, hi |-> 2, mod |-> 2, idem |-> <<1>>]]),
    ([act |-> [op |-> "trace"],nbad |-> 0,reg |-> <<0, 0, 0>>,l |-> 4,fld |-> [ps |-> <<2>>, lo |-> 2, hi |-> 2, mod |-> 2, idem |-> <<1>>]]),
    ([act |-> [op |-> "trace"],nbad |-> 0,reg |-> <<0, 0, 0>>,l |-> 5,fld |-> [ps |-> <<2>>, lo |-> 2, hi |-> 2, mod |-> 2, idem |-> <<1>>]]),
    ([act |-> [op |-> "trace"],nbad |-> 0,reg |-> <<0, 0, 0>>,l |-> 6,fld |-> [ps |-> <<2>>, lo |-> 2, hi |-> 2, mod |-> 2, idem |-> <<1>>]]),
    ([act |-> [op |-> "trace"],nbad |-> 0,reg |-> <<0, 0, 0>>,l |-> 7,fld |-> [ps |-> <<2>>, lo |-> 2, hi |-> 2, mod |-> 2, idem |-> <<1>>]]),
    ([act |-> [op |-> "trace"],nbad |-> 0,reg |-> <<0, 0, 0>>,l |-> 8,fld |-> [ps |-> <<2>>, lo |-> 2, hi |-> 2, mod |-> 2, idem |-> <<1>>]]),
    ([act |-> [op |-> "trace"],nbad |-> 0,reg |-> <<0, 0, 0>>,l |-> 9,fld |-> [ps |-> <<2>>, lo |-> 2, hi |-> 2, mod |-> 2, idem |-> <<1>>]]),
    ([act |-> [op |-> "trace"],nbad |-> 6,reg |-> <<0, 0, 0>>,l |-> 10,fld |-> [ps |-> <<2>>, lo |-> 2, hi |-> 2, mod |-> 2, idem |-> <<1>>]]),
    ([act |-> [op |-> "trace"],nbad |-> 12,reg |-> <<0, 0, 0>>,l |-> 11,fld |-> [ps |-> <<2>>, lo |-> 2, hi |-> 2, mod |-> 2, idem |-> <<1>>]]),
    ([act |-> [op |-> "trace"],nbad |-> 18,reg |-> <<0, 0, 0>>,l |-> 12,fld |-> [ps |-> <<2>>, lo |-> 2, hi |-> 2, mod |-> 2, idem |-> <<1>>]]),
    ([act |-> [op |-> "trace"],nbad |-> 24,reg |-> <<0, 0, 0>>,l |-> 13,fld |-> [ps |-> <<2>>, lo |-> 2, hi |-> 2, mod |-> 2, idem |-> <<1>>]]),
    ([act |-> [op |-> "trace"],nbad |-> 24,reg |-> <<0, 0, 0>>,l |-> 14,fld |-> [ps |-> <<2>>, lo |-> 2, hi |-> 2, mod |-> 2, idem |-> <<1>>]]),
    ([act |-> [op |-> "trace"],nbad |-> 24,reg |-> <<0, 0, 0>>,l |-> 15,fld |-> [ps |-> <<2>>, lo |-> 2, hi |-> 2, mod |-> 2, idem |-> <<1>>]])
    >>
----


=============================================================================

---- CONFIG Trace_Fields_TTrace_1790974160 ----

INVARIANT
    _inv

CHECK_DEADLOCK
    \* CHECK_DEADLOCK off because of PROPERTY or INVARIANT above.
    FALSE

INIT
    _init

NEXT
    _next

CONSTANT
    _TETrace <- _trace

ALIAS
    _expression
=============================================================================
\* Generated on Fri Oct 02 20:49:45 UTC 2026