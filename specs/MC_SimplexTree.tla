---------------------------- MODULE MC_SimplexTree ----------------------------
(* Bounded model of SimplexTree.tla.  Emits every distinct state with all its *)
(* derived observations (INVARIANT EmitState) and every generated transition  *)
(* (ACTION_CONSTRAINT EmitEdge) as JSON for the replay on the real code.      *)
EXTENDS SimplexTree, Json

CONSTANTS MaxBlocked,  \* Mode = "blk": at most that many blocked simplices per expansion
          AssignInf,  \* may assign_filtration give +infinity (C03 thorough)
          FlagDims,   \* dmax arguments of insert_edge_as_flag
          Mode        \* "all" | "flag" : which actions are enabled

KJ(F) == {[s |-> SortedSeq(s), f |-> F[s]] : s \in DOMAIN F}

SimplexObs(F, s) ==
  LET C == DOMAIN F  b == BoundarySeq(s) IN
  [s   |-> SortedSeq(s), f |-> F[s], dim |-> Dim(s),
   bd  |-> [j \in DOMAIN b |-> [face |-> SortedSeq(b[j].face), opp |-> b[j].opp]],
   star_set |-> {SortedSeq(t) : t \in StarC(C, s)},
   cof |-> [c \in 1..MaxDim |-> [c |-> c, t_set |-> {SortedSeq(t) : t \in CofacesC(C, s, c)}]]]

(* vertex_with_same_filtration / edge_with_same_filtration / minimal_simplex_with_same_filtration: "if several ... *)
(* the one it returns is arbitrary": the admissible answers (an empty set: null_vertex() / null_simplex() expected).  *)
(* The minimal simplex is only judged on monotone filtrations (the documentation speaks of filtrations built with    *)
(* make_filtration_non_decreasing).                                                                                    *)
SameObs(F, s) ==
  [s |-> SortedSeq(s),
   v_set |-> {v \in s : F[{v}] = F[s]},
   e_set |-> {SortedSeq(e) : e \in {e \in SUBSET s : Cardinality(e) = 2 /\ F[e] = F[s]}},
   m_set |-> IF MonotoneF(F)
             THEN {SortedSeq(t) : t \in {t \in SUBSET s : t # {} /\ F[t] = F[s] /\ \A u \in Facets(t) : F[u] # F[s]}}
             ELSE {}]

Obs(F) ==
  LET C == DOMAIN F IN
  [k_set    |-> KJ(F),
   same_set |-> {SameObs(F, s) : s \in C},
   q_set    |-> {SimplexObs(F, s) : s \in C},
   filt     |-> [i \in DOMAIN FiltSeq(F) |-> SortedSeq(FiltSeq(F)[i])],
   filt_noinf |-> [i \in DOMAIN FiltSeqNoInf(F) |-> SortedSeq(FiltSeqNoInf(F)[i])],
   skel     |-> [d \in 1..(MaxDim + 1) |-> [d |-> d - 1, t_set |-> {SortedSeq(t) : t \in SkeletonC(C, d - 1)}]],
   nbd      |-> NumByDim(C),
   dim      |-> DimC(C),
   nv       |-> Cardinality({s \in C : Dim(s) = 0}),
   ns       |-> Cardinality(C),
   vertices |-> SortedSeq(VerticesOf(C)),
   monotone |-> MonotoneF(F),
   checks_failed |-> <<>>]

(* insert_graph takes a boost graph whose vertex descriptors 0..n-1 are the labels *)
ContigV(C) == VerticesOf(C) = 0..(Cardinality(VerticesOf(C)) - 1)
Graphs == UNION {[C -> Vals] : C \in {C \in SUBSET {s \in Universe : Dim(s) <= 1} : Closed(C) /\ C # {} /\ ContigV(C)}}

NextAll ==
  \/ \E s \in Universe, f \in Vals : InsertSimplex(s, f)
  \/ \E s \in Universe, f \in Vals : InsertSimplexAndSubfaces(s, f)
  \/ \E S \in SUBSET V \ {{}}, f \in Vals : InsertBatchVertices(S, f)
  \/ \E G \in Graphs : InsertGraph(G)
  \/ \E s \in Universe : RemoveMaximal(s)
  \/ \E f \in Vals \cup {INF} : PruneAboveFiltration(f)
  \/ \E d \in -1..MaxDim : PruneAboveDimension(d)
  \/ Clear
  \/ \E s \in Universe, f \in Vals : AssignFiltration(s, f)
  \/ \E f \in Vals, d \in 0..MaxDim : ResetFiltration(f, d)
  \/ MakeNonDecreasing
  \/ \E d \in 0..MaxDim : Expansion(d)

Pairs(n) == {e \in SUBSET (0..(n - 1)) : Cardinality(e) = 2}
HighSimplices == {s \in Universe : Dim(s) >= 2}
NextFlag ==
  \/ \E u, v \in V, f \in Vals, d \in FlagDims : InsertEdgeAsFlag(u, v, f, d)
  \/ \E d \in 1..MaxDim, B \in SUBSET HighSimplices : ExpansionWithBlockers(d, B)   \* d = 0 is not judged: the code then expands without bound
  \/ \E n \in 1..Cardinality(V) : \E D \in [Pairs(n) -> Vals], t \in Vals \cup {0, INF}, d \in 0..MaxDim,
          form \in {"matrix", "points"} : RipsComplex(n, D, t, d, form)
  \/ \E G \in Graphs : InsertGraph(G)
  \/ \E s \in Universe : RemoveMaximal(s)
  \/ MakeNonDecreasing
  \/ \E d \in 0..MaxDim : Expansion(d)
  \/ \E d \in 0..MaxDim : PruneAboveDimension(d)

(* C03: the actions that create / repair / cut filtrations *)
NextFilt ==
  \/ \E s \in Universe, f \in Vals : InsertSimplex(s, f)
  \/ \E s \in Universe, f \in Vals \cup (IF AssignInf THEN {INF} ELSE {}) : AssignFiltration(s, f)
  \/ MakeNonDecreasing
  \/ \E f \in Vals \cup {INF} : PruneAboveFiltration(f)
  \/ \E s \in Universe : RemoveMaximal(s)
(* C04, blockers on a candidate set with three or more members: needs 5 vertices.  Cases style: a nearly complete *)
(* graph on all of V (at most one edge missing), then ONE expansion with at most MaxBlocked blocked simplices.    *)
AllEdgesV == {e \in SUBSET V : Cardinality(e) = 2}
BlkGraphs == LET f == CHOOSE x \in Vals : TRUE IN
             {[s \in {{v} : v \in V} \cup (AllEdgesV \ R) |-> f] : R \in {R \in SUBSET AllEdgesV : Cardinality(R) <= 1}}
SmallBlocked == {B \in SUBSET HighSimplices : Cardinality(B) <= MaxBlocked}
NextBlk ==
  \/ K = <<>> /\ \E G \in BlkGraphs : InsertGraph(G)
  \/ K # <<>> /\ \E d \in 2..MaxDim, B \in SmallBlocked : ExpansionWithBlockers(d, B)
Next == IF Mode = "flag" THEN NextFlag ELSE IF Mode = "filt" THEN NextFilt ELSE IF Mode = "blk" THEN NextBlk ELSE NextAll
Spec == Init /\ [][Next]_<<K, act>>

View == K
EmitState == PrintT(<<"STATE", ToJson([id |-> KJ(K), obs |-> Obs(K)])>>)
EmitEdge  == PrintT(<<"EDGE", ToJson([from |-> KJ(K), act |-> act', to |-> KJ(K')])>>)

(* in-model theorems *)
(* C04: whatever the order of the edge insertions, the complex is the clique complex of its graph, and after *)
(* monotonisation every simplex carries the largest value among its vertices and edges                        *)
InvFlagValues == (Mode = "flag" /\ \E d \in FlagDims : IsFlag(Dom, d)) =>
                   LET H == MonotoneHull(K) IN \A s \in Dom : Dim(s) >= 2 => H[s] = FlagValue(H, s)
InvClosed   == Closed(Dom)
InvFiltSeq  == LET q == FiltSeq(K) IN
                 /\ Len(q) = Cardinality(Dom)
                 /\ \A i, j \in DOMAIN q : i < j => Before(K, q[i], q[j])
                 /\ MonotoneF(K) => \A i, j \in DOMAIN q : q[i] \subseteq q[j] => i <= j
(* Before is a strict total order on the simplices of every filtered complex: the sorted sequence is unique, *)
(* whatever sort (sequential, parallel, any schedule) produces it                                              *)
InvBeforeTotal == /\ \A s \in Dom : ~Before(K, s, s)
                  /\ \A s, t \in Dom : s # t => (Before(K, s, t) \/ Before(K, t, s)) /\ ~(Before(K, s, t) /\ Before(K, t, s))
                  /\ \A s, t, u \in Dom : (Before(K, s, t) /\ Before(K, t, u)) => Before(K, s, u)
(* pruning at f keeps exactly the sublevel complex, which is again a complex *)
InvSublevel == MonotoneF(K) => \A f \in Vals : Closed({s \in Dom : K[s] <= f})
(* the extended filtration is monotone: ascending lower star on the originals, descending upper star on the cones *)
InvExtend == ExtendOK(K) => MonotoneF(ExtVals4(K))
InvHull     == LET H == MonotoneHull(K) IN
                 /\ MonotoneF(H) /\ \A s \in Dom : H[s] >= K[s]
                 /\ MonotoneF(K) => H = K
=============================================================================
