---------------------------- MODULE Trace_Cubical ----------------------------
(* Validates complexes recorded from the real Bitmap_cubical_complex (plain and *)
(* periodic base) and Persistent_cohomology<Field_Zp> (harness/cub_record)      *)
(* against Cubical.tla: every event carries the constructor arguments and what   *)
(* the public API answered for every cell; the specification recomputes all of   *)
(* it (persistence by the column reduction of Persistence.tla on the specified   *)
(* cell complex).  Events are independent.  TRACE=<file.ndjson>.                 *)
EXTENDS Cubical, Json, IOUtils

VARIABLE l
Tr == ndJsonDeserialize(IOEnv.TRACE)

SetOf(q) == {q[i] : i \in DOMAIN q}
DiagSet(q) == {[dim |-> q[i].dim, b |-> q[i].b, d |-> q[i].d, n |-> q[i].n] : i \in DOMAIN q}
PersOf(q, p) == q[CHOOSE i \in DOMAIN q : q[i].p = p]

CheckComplex(e) ==
  LET sh == [n |-> e.n, per |-> e.per]
      primes == SetOf(e.primes)
      X == Complex(sh, e.var, e.conv, e.vals, primes)
      T == X.T
      o == e.obs
      br == Tab([c \in 0..(T.N - 1) |-> BdRecs(T, e.var, c)])
      (* documented incidence of a face in the boundary of c *)
      IncOf(c, f) == LET k == CHOOSE k \in DOMAIN br[c] : br[c][k].f = f IN br[c][k].inc
      hasTop == \A i \in 1..T.D : sh.n[i] >= 1
  IN
  /\ e.dims = CtorDims(sh, e.conv)
  /\ \A i \in 1..T.D : sh.per[i] => sh.n[i] >= 2
  /\ e.var = "base" => \A i \in 1..T.D : ~sh.per[i]
  /\ o.N = T.N /\ o.size = T.N /\ o.D = T.D /\ o.api_equal /\ o.simplex_of_key
  /\ "inc_exception" \notin DOMAIN o
  /\ Len(o.dim) = T.N /\ Len(o.val) = T.N /\ Len(o.bd) = T.N /\ Len(o.cbd) = T.N /\ Len(o.inc) = T.N
  /\ \A c \in 0..(T.N - 1) :
       /\ o.dim[c + 1] = T.dim[c]
       /\ o.val[c + 1] = X.val[c]
       \* boundary: the faces, each once
       /\ Len(o.bd[c + 1]) = Len(X.bdseq[c])
       /\ SetOf(o.bd[c + 1]) = SetOf(X.bdseq[c])
       \* compute_incidence_between_cells: the documented formula
       /\ \A k \in DOMAIN o.bd[c + 1] : o.inc[c + 1][k] = IncOf(c, o.bd[c + 1][k])
       \* coboundary: the cofaces, each once
       /\ Len(o.cbd[c + 1]) = Len(CbdSeq(T, sh, c))
       /\ SetOf(o.cbd[c + 1]) = SetOf(CbdSeq(T, sh, c))
  \* the documented incidences alternate along every enumerated boundary
  /\ \A c \in 0..(T.N - 1) : \E s \in {1, -1} :
       \A k \in DOMAIN o.bd[c + 1] : EnumSign(k) = s * IncOf(c, o.bd[c + 1][k])
  \* the enumerated boundaries, with signs alternating along the enumeration, compose to zero
  /\ DDZero(T, Tab([c \in 0..(T.N - 1) |-> o.bd[c + 1]]), LAMBDA c, k : EnumSign(k))
  /\ o.has_top = hasTop
  /\ hasTop => o.tops = TopSeq(T, sh)
  /\ o.verts = VertSeq(T, sh)
  /\ o.order = X.ord
  /\ \A p \in primes :
       /\ DiagSet(PersOf(o.pers, p).diag) = X.pers[p].diag
       /\ Len(PersOf(o.pers, p).diag) = Cardinality(X.pers[p].diag)
       /\ PersOf(o.pers, p).betti = X.pers[p].betti
       \* persistence_dim_max = false: the top dimension is dropped
       /\ DiagSet(PersOf(o.pers_nomax, p).diag) = {x \in X.pers[p].diag : x.dim < T.D}
       /\ PersOf(o.pers_nomax, p).betti = SubSeq(X.pers[p].betti, 1, T.D)

Check(e) ==
  CASE e.op = "complex" -> CheckComplex(e)
    [] OTHER            -> FALSE

TraceInit == l = 1
(* "= TRUE": Check is a state predicate; evaluated as a value, not expanded as an action *)
TraceNext == l <= Len(Tr) /\ (Check(Tr[l]) = TRUE) /\ l' = l + 1
TraceSpec == TraceInit /\ [][TraceNext]_l

Verdict ==
  LET m == TLCGet("stats").diameter - 1 IN
  PrintT(<<"TRACE", ToJson([accepted |-> (m = Len(Tr)), matched |-> m, len |-> Len(Tr)])>>)
=============================================================================
