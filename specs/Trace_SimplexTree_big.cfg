SPECIFICATION TraceSpec
CONSTANTS
  V = {0, 1, 2, 3, 4, 5, 6, 7, 8, 9, 10, 11, 12, 13, 14}
  Vals = {0}
  INF = 1000000
  MaxDim = 14
VIEW TraceView
POSTCONDITION Verdict
CHECK_DEADLOCK FALSE
