---------------------------- MODULE BeforeOrder ----------------------------
(* Unbounded companion of the in-model theorem used by C03 (the filtration-ordered range is a function of the      *)
(* filtered complex alone): the comparison used by the filtration order - first the value, then a fixed tie-break  *)
(* on the simplices - is a strict total order whenever the values are strictly totally ordered and the tie-break   *)
(* is a strict total order on the simplices.  Any correct sort (sequential, parallel, any schedule) therefore      *)
(* produces the same sequence.  TLC checks the hypotheses on the tie-break RevLex of Simplicial.tla inside the     *)
(* bounded models (MC_SimplexTree: Before is a strict total order on every reachable state); this module removes   *)
(* the bound from the composition step.  Checked with tlapm (SMT back end): see bin/prove.                         *)
EXTENDS TLAPS

CONSTANTS S,            \* the simplices of the complex
          Val,          \* filtration values
          F,            \* the filtration
          Lt(_, _),     \* strict order on the values
          RL(_, _)      \* tie-break on the simplices (reverse lexicographic order in the library)

StrictTotalOn(R(_, _), X) ==
  /\ \A a \in X : ~R(a, a)
  /\ \A a, b, c \in X : R(a, b) /\ R(b, c) => R(a, c)
  /\ \A a, b \in X : a # b => R(a, b) \/ R(b, a)

ASSUME FType == F \in [S -> Val]
ASSUME LtOrder == StrictTotalOn(Lt, Val)
ASSUME RLOrder == StrictTotalOn(RL, S)

Before(s, t) == Lt(F[s], F[t]) \/ (F[s] = F[t] /\ RL(s, t))

THEOREM BeforeIrreflexive == \A s \in S : ~Before(s, s)
  BY FType, LtOrder, RLOrder DEF Before, StrictTotalOn

THEOREM BeforeTransitive == \A a, b, c \in S : Before(a, b) /\ Before(b, c) => Before(a, c)
  BY FType, LtOrder, RLOrder DEF Before, StrictTotalOn

THEOREM BeforeTotal == \A a, b \in S : a # b => Before(a, b) \/ Before(b, a)
  BY FType, LtOrder, RLOrder DEF Before, StrictTotalOn

THEOREM BeforeIsStrictTotalOrder == StrictTotalOn(Before, S)
  BY BeforeIrreflexive, BeforeTransitive, BeforeTotal DEF StrictTotalOn

(* consequence: two sequences that enumerate S without repetition and are both sorted by Before are equal at every *)
(* position is proved for the first position (the minimum is unique); the rest follows by induction on the length  *)
THEOREM MinimumUnique ==
  \A m, n \in S : (\A x \in S : x # m => Before(m, x)) /\ (\A x \in S : x # n => Before(n, x)) => m = n
  BY BeforeIrreflexive, BeforeTransitive DEF StrictTotalOn
=============================================================================
