--------------------------- MODULE LeastMonotone ---------------------------
(* Unbounded companion of the in-model theorem used by C03 for make_filtration_non_decreasing: giving every simplex *)
(* the maximum of the original values of its faces (itself included) yields a monotone function above the input,    *)
(* and it is the LEAST such function.  Values are integers here (any total order would do); the face relation is    *)
(* abstract: reflexive and transitive.  MC_SimplexTree checks on every bounded state that the action               *)
(* MakeNonDecreasing computes exactly this maximum.  Checked with tlapm: see bin/prove.                             *)
EXTENDS Integers, TLAPS

CONSTANTS S,           \* the simplices
          Faces(_),    \* faces of a simplex, itself included
          F,           \* the given values
          G            \* the values after make_filtration_non_decreasing

ASSUME Types == F \in [S -> Int] /\ G \in [S -> Int]
ASSUME FacesOK == \A s \in S : /\ Faces(s) \subseteq S
                               /\ s \in Faces(s)
                               /\ \A t \in Faces(s) : Faces(t) \subseteq Faces(s)
(* G[s] is the maximum of F over the faces of s: attained, and an upper bound *)
ASSUME GIsMax == \A s \in S : /\ \E t \in Faces(s) : G[s] = F[t]
                              /\ \A t \in Faces(s) : F[t] <= G[s]

Monotone(H) == \A s \in S : \A t \in Faces(s) : H[t] <= H[s]
Above(H) == \A s \in S : F[s] <= H[s]

THEOREM GAbove == Above(G)
  BY Types, FacesOK, GIsMax DEF Above

THEOREM GMonotone == Monotone(G)
  <1>1. SUFFICES ASSUME NEW s \in S, NEW t \in Faces(s) PROVE G[t] <= G[s]
        BY DEF Monotone
  <1>2. t \in S /\ Faces(t) \subseteq Faces(s)
        BY FacesOK
  <1>3. PICK u \in Faces(t) : G[t] = F[u]
        BY <1>2, GIsMax
  <1>4. u \in Faces(s)
        BY <1>2, <1>3
  <1>5. F[u] <= G[s]
        BY <1>4, GIsMax
  <1> QED BY <1>3, <1>5

THEOREM GLeast == \A H \in [S -> Int] : Monotone(H) /\ Above(H) => \A s \in S : G[s] <= H[s]
  <1>1. SUFFICES ASSUME NEW H \in [S -> Int], Monotone(H), Above(H), NEW s \in S PROVE G[s] <= H[s]
        OBVIOUS
  <1>2. PICK t \in Faces(s) : G[s] = F[t]
        BY GIsMax
  <1>3. t \in S
        BY FacesOK
  <1>4. F[t] <= H[t]
        BY <1>1, <1>3 DEF Above
  <1>5. H[t] <= H[s]
        BY <1>1, <1>2 DEF Monotone
  <1>6. F[t] \in Int /\ H[t] \in Int /\ H[s] \in Int
        BY <1>3, Types
  <1> QED BY <1>2, <1>4, <1>5, <1>6

(* the returned boolean: something changed exactly when the input was not monotone *)
THEOREM ChangedIffNotMonotone == (\E s \in S : G[s] # F[s]) <=> ~Monotone(F)
  <1>1. ASSUME Monotone(F) PROVE \A s \in S : G[s] = F[s]
    <2>1. SUFFICES ASSUME NEW s \in S PROVE G[s] = F[s]
          OBVIOUS
    <2>2. PICK t \in Faces(s) : G[s] = F[t]
          BY GIsMax
    <2>3. F[t] <= F[s]
          BY <1>1, <2>2 DEF Monotone
    <2>4. F[s] <= G[s]
          BY FacesOK, GIsMax
    <2>5. t \in S
          BY FacesOK
    <2> QED BY <2>2, <2>3, <2>4, <2>5, Types
  <1>2. ASSUME \A s \in S : G[s] = F[s] PROVE Monotone(F)
    <2>1. SUFFICES ASSUME NEW s \in S, NEW t \in Faces(s) PROVE F[t] <= F[s]
          BY DEF Monotone
    <2>2. t \in S
          BY FacesOK
    <2>3. G[t] <= G[s]
          BY GMonotone DEF Monotone
    <2> QED BY <1>2, <2>2, <2>3
  <1> QED BY <1>1, <1>2
=============================================================================
