----------------------------- MODULE MC_LowerStar -----------------------------
(* Bounded model of LowerStar.tla in "cases" style: one state per input.        *)
(*   Mode = "line" : every sequence of length 0..MaxLen over 0..NVals-1          *)
(*   Mode = "lweak": every weak order of 0..MaxLen samples (values = ranks 1..k)  *)
(*   Mode = "lperm": every permutation of 1..n, n <= MaxLen (deep nesting)        *)
(*   Mode = "weak" : every weak order of the R*C squares (values = ranks 1..k)    *)
(*   Mode = "vals" : every R x C array over 1..NVals                              *)
(* INVARIANT EmitCase prints the input with the diagram LowerStar.tla assigns to  *)
(* it (dual description); INVARIANT ThDual is the in-model theorem: the dual       *)
(* description equals the diagram Persistence.tla computes on the explicitly       *)
(* built lower-star complex, which is checked to be a well-formed filtered         *)
(* complex (on every case with ThEvery = 1, else on the cases whose weighted       *)
(* digit sum is 0 mod ThEvery).  The cases are split over NSHARDS processes        *)
(* (environment SHARD, NSHARDS).                                                   *)
EXTENDS LowerStar, Json, IOUtils

CONSTANTS Mode, R, C, NVals, MaxLen, ThEvery, ThMaxLen
VARIABLE c

SH == atoi(IOEnv.SHARD)
NS == atoi(IOEnv.NSHARDS)

RECURSIVE WSum(_, _, _)
WSum(f, i, w) == IF i > Len(f) THEN 0 ELSE (1 + w * (i - 1)) * f[i] + WSum(f, i + 1, w)
Mine(f)   == (WSum(f, 1, 0) + Len(f)) % NS = SH
Proved(f) == WSum(f, 1, 1) % ThEvery = 0

N == R * C
IsLine == Mode \in {"line", "lweak", "lperm"}
IsWeakOrder(f) == LET im == {f[i] : i \in DOMAIN f} IN im = 1..Cardinality(im)
Cases ==
  CASE Mode = "line" -> UNION {{f \in [1..n -> 0..(NVals - 1)] : Mine(f)} : n \in 0..MaxLen}
    [] Mode = "lweak" -> UNION {{f \in [1..n -> 1..n] : IsWeakOrder(f) /\ Mine(f)} : n \in 0..MaxLen}
    [] Mode = "lperm" -> UNION {{f \in Permutations(1..n) : Mine(f)} : n \in 1..MaxLen}
    [] Mode = "weak" -> {f \in [1..N -> 1..N] : IsWeakOrder(f) /\ Mine(f)}
    [] Mode = "vals" -> {f \in [1..N -> 1..NVals] : Mine(f)}

Init == c \in Cases
Next == UNCHANGED c
Spec == Init /\ [][Next]_c

Pairs(bag, dim) == {[b |-> x.b, d |-> x.d, n |-> x.n] : x \in DimPart(bag, dim)}
LineCase(v) ==
  LET dg == FastLine(v) IN
  [kind |-> "line", n |-> Len(v), vals |-> v, pairs |-> Pairs(dg, 0),
   gmin |-> IF Len(v) = 0 THEN -1 ELSE MinOfSeq(v)]
RectCase(v) ==
  LET dg == FastGrid(R, C, v) IN
  [kind |-> "rect", rows |-> R, cols |-> C, vals |-> v, d0 |-> Pairs(dg, 0), d1 |-> Pairs(dg, 1),
   gmin |-> MinOfSeq(v)]
EmitCase == PrintT(<<"CASE", ToJson(IF IsLine THEN LineCase(c) ELSE RectCase(c))>>)

(* ------------------------------------------------------------------ in-model theorems *)
ThDual ==
  IF IsLine
  THEN (Len(c) <= ThMaxLen /\ Proved(c)) =>
         /\ WellFormed(LineFiltered(c).F, 2)
         /\ GenericLine(c) = FastLine(c)
  ELSE Proved(c) =>
         /\ WellFormed(GridFiltered(R, C, c).F, 2)
         /\ GenericGrid(R, C, c) = FastGrid(R, C, c)
(* shape of every diagram: one essential class, of dimension 0, born at the minimum; nothing of dimension 2 *)
ThShape ==
  LET dg == IF IsLine THEN FastLine(c) ELSE FastGrid(R, C, c) IN
  Len(c) > 0 =>
    /\ {x \in dg : x.d = INF} = {[dim |-> 0, b |-> MinOfSeq(c), d |-> INF, n |-> 1]}
    /\ \A x \in dg : x.dim \in {0, 1} /\ x.b < x.d /\ (IsLine => x.dim = 0)
=============================================================================
