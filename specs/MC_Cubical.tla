------------------------------ MODULE MC_Cubical ------------------------------
(* Bounded model of Cubical.tla in "cases" style: one initial state per case.   *)
(*  Mode = "shape": every shape of the bound x class: the structure of every    *)
(*     cell (dimension, boundary sequence, documented incidences, coboundary)  *)
(*     and the theorems about shapes.                                           *)
(*  Mode = "vals" : every shape x class x input convention x value assignment   *)
(*     (all assignments when the number of inputs is <= ExhMax, else NSamples   *)
(*     pseudo random ones, seeded by the environment): values of every cell,    *)
(*     filtration order, persistence diagram and Betti numbers over each prime, *)
(*     and the theorems about valued complexes.                                 *)
(* Environment: SHARD, NSHARDS (cases with number % NSHARDS = SHARD), SEED.     *)
EXTENDS Cubical, Json, IOUtils

CONSTANTS Mode, MaxD, NonPerSides, PerSides, MinInputs, MaxInputs, MaxCells, ValSet, ExhMax, NSamples, Primes

VARIABLE c

Shard   == atoi(IOEnv.SHARD)
NShards == atoi(IOEnv.NSHARDS)
Seed    == atoi(IOEnv.SEED)

AxisChoices == {[n |-> s, per |-> FALSE] : s \in NonPerSides} \cup {[n |-> s, per |-> TRUE] : s \in PerSides}
ShapesOfDim(d) == {[n |-> [i \in 1..d |-> a[i].n], per |-> [i \in 1..d |-> a[i].per]] : a \in [1..d -> AxisChoices]}
Shapes == {sh \in UNION {ShapesOfDim(d) : d \in 1..MaxD} : NumCells(sh) <= MaxCells}
Classes(sh) == IF \E i \in 1..NAxes(sh) : sh.per[i] THEN {"periodic"} ELSE {"base", "periodic"}
(* top cell values need at least one top cell per direction *)
Convs(sh) == IF \A i \in 1..NAxes(sh) : sh.n[i] >= 1 THEN {"top", "vert"} ELSE {"vert"}
NInputs(sh, conv) == ProdUpTo(CtorDims(sh, conv), NAxes(sh))

(* a stable number of a shape / class / convention, used for sharding and to seed the samples *)
RECURSIVE ShapeCode(_, _)
ShapeCode(sh, i) == IF i = 0 THEN NAxes(sh) ELSE (ShapeCode(sh, i - 1) * 11 + 2 * sh.n[i] + (IF sh.per[i] THEN 1 ELSE 0)) % 30011
CaseCode(sh, var, conv) == (ShapeCode(sh, NAxes(sh)) * 4 + (IF var = "base" THEN 0 ELSE 1) + (IF conv = "top" THEN 0 ELSE 2)) % 65536

ShardOf(code) == ((code \div 4) + (code % 4)) % NShards

(* linear congruential generator modulo 2^16 (no 32 bit overflow): the j-th sample of a case *)
Lcg(x) == (x * 25173 + 13849) % 65536
RECURSIVE LcgIter(_, _)
LcgIter(x, k) == IF k = 0 THEN x ELSE LcgIter(Lcg(x), k - 1)
RECURSIVE SortedSeq(_)
SortedSeq(S) == IF S = {} THEN <<>> ELSE LET m == MinOf(S) IN <<m>> \o SortedSeq(S \ {m})
ValSeq == SortedSeq(ValSet)
Sample(code, j, len) ==
  LET x0 == LcgIter((Seed * 7919 + code * 31 + j * 977) % 65536, 3)
      RECURSIVE Gen(_, _)
      Gen(x, k) == IF k = 0 THEN <<>> ELSE <<ValSeq[1 + ((x \div 1024) % Len(ValSeq))]>> \o Gen(Lcg(x), k - 1)
  IN  Gen(x0, len)

Assignments(sh, var, conv) ==
  LET K == NInputs(sh, conv) IN
  IF K <= ExhMax THEN [1..K -> ValSet]
  ELSE {Sample(CaseCode(sh, var, conv), j, K) : j \in 1..NSamples}

ShapeCases == {[sh |-> sh, var |-> v] : sh \in Shapes, v \in {"base", "periodic"}} \cap
              UNION {{[sh |-> sh, var |-> v] : v \in Classes(sh)} : sh \in Shapes}
ValCases ==
  UNION {{[sh |-> x.sh, var |-> x.var, conv |-> x.conv, vals |-> a] : a \in Assignments(x.sh, x.var, x.conv)} :
         x \in {y \in UNION {{[sh |-> sh, var |-> v, conv |-> cv] : v \in Classes(sh), cv \in Convs(sh)} : sh \in Shapes} :
                  /\ NInputs(y.sh, y.conv) >= MinInputs /\ NInputs(y.sh, y.conv) <= MaxInputs
                  /\ ShardOf(CaseCode(y.sh, y.var, y.conv)) = Shard}}

Init == c \in (IF Mode = "shape" THEN {x \in ShapeCases : ShapeCode(x.sh, NAxes(x.sh)) % NShards = Shard} ELSE ValCases)
Next == UNCHANGED c
Spec == Init /\ [][Next]_c

(* ------------------------------------------------------------------ emission *)
SeqOfCells(T, f) == [k \in 1..T.N |-> f[k - 1]]

ShapeJson(x) ==
  LET sh == x.sh  T == Tables(sh) IN
  [kind |-> "shape", n |-> sh.n, per |-> sh.per, var |-> x.var, D |-> T.D, N |-> T.N,
   dims_top |-> CtorDims(sh, "top"), dims_vert |-> CtorDims(sh, "vert"),
   has_top |-> \A i \in 1..T.D : sh.n[i] >= 1,
   tops |-> IF \A i \in 1..T.D : sh.n[i] >= 1 THEN TopSeq(T, sh) ELSE <<>>, verts |-> VertSeq(T, sh),
   cells |-> [k \in 1..T.N |->
                LET b == BdRecs(T, x.var, k - 1)  cb == CbdSeq(T, sh, k - 1) IN
                [dim |-> T.dim[k - 1], co |-> T.co[k - 1],
                 bd |-> [j \in DOMAIN b |-> b[j].f], inc |-> [j \in DOMAIN b |-> b[j].inc],
                 cbd |-> cb]]]

ValJson(x, X) ==
  [kind |-> "vals", n |-> x.sh.n, per |-> x.sh.per, var |-> x.var, conv |-> x.conv,
   dims |-> CtorDims(x.sh, x.conv), vals |-> x.vals,
   val |-> SeqOfCells(X.T, X.val), order |-> X.ord,
   pers |-> {[p |-> p, diag |-> X.pers[p].diag, betti |-> X.pers[p].betti] : p \in Primes}]

(* ------------------------------------------------------------------ invariants: theorems, then emission *)
ShapeTheorems(x) ==
  LET T == Tables(x.sh)  G == GeoTables(T) IN
  /\ ThIndexBijection(T, x.sh)
  /\ ThBoundary(T, G, x.var)
  /\ ThCoboundary(T, G, x.sh)
  /\ ThGrid(T, x.sh)
ValTheorems(x, X) ==
  /\ ThValues(x.sh, x.conv, X)
  /\ ThOrder(X)
  /\ ThPersistence(x.sh, X, Primes)

InvCase ==
  IF Mode = "shape"
  THEN ShapeTheorems(c) /\ PrintT(<<"CASE", ToJson(ShapeJson(c))>>)
  ELSE LET X == Complex(c.sh, c.var, c.conv, c.vals, Primes) IN
       ValTheorems(c, X) /\ PrintT(<<"CASE", ToJson(ValJson(c, X))>>)
=============================================================================
