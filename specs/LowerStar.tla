------------------------------ MODULE LowerStar ------------------------------
(* Lower-star cubical filtrations of a line and of a rectangle, and their      *)
(* persistence diagrams, twice:                                                 *)
(*  - generic: the filtered cell complex is built explicitly (every vertex,     *)
(*    edge and square with its boundary), put in a valid filtration order and    *)
(*    handed to Persistence.tla (column reduction over Z2, itself proved equal   *)
(*    to the definition with explicit cycles and boundaries in MC_Persistence);  *)
(*  - dual/fast: H0 by the elder rule on the adjacency graph of the input        *)
(*    samples, H1 of the rectangle by Alexander duality (H0 of the superlevel    *)
(*    sets of the squares with 4-adjacency and one exterior cell at +infinity).  *)
(*                                                                              *)
(* LINE (Persistence_on_a_line.h): the input values sit on the VERTICES of a     *)
(* path ("PL function on R"), an edge has the max of its two ends.               *)
(* RECTANGLE (Persistence_on_rectangle.h): the input values sit on the SQUARES   *)
(* (top cells, C order: value of square (r,c) is val[r*C + c + 1]); an edge or a  *)
(* vertex has the min of the squares it belongs to.                              *)
(*                                                                              *)
(* A diagram is a bag: a set of [dim, b, d, n] (n = multiplicity), d = INF for   *)
(* the essential class, intervals of length zero dropped.                        *)
EXTENDS Persistence, SequencesExt

INF == 1000000

(* bag of the points of a set of [dim, b, d, id] records (id only makes equal points distinct) *)
BagOfPts(pts) ==
  LET keep == {x \in pts : x.d = INF \/ x.d > x.b}
      keys == {[dim |-> x.dim, b |-> x.b, d |-> x.d] : x \in keep}
  IN  {[dim |-> k.dim, b |-> k.b, d |-> k.d,
        n |-> Cardinality({x \in keep : x.dim = k.dim /\ x.b = k.b /\ x.d = k.d})] : k \in keys}

MinOfSeq(val) == Min({val[i] : i \in DOMAIN val})

-----------------------------------------------------------------------------
(* generic layer: a cell complex given by a finite set of cells (tuples whose    *)
(* first component grows with the dimension), cv[c] value, dimOf[c], faces[c]     *)
RECURSIVE TupleLess(_, _, _)
TupleLess(a, b, i) ==
  IF i > Len(a) THEN FALSE
  ELSE IF a[i] # b[i] THEN a[i] < b[i] ELSE TupleLess(a, b, i + 1)

CellOrder(cells, cv) ==      \* by (value, cell type, coordinates): a face never comes after a coface
  SortSeq(SetToSeq(cells), LAMBDA a, b : TupleLess(<<cv[a]>> \o a, <<cv[b]>> \o b, 1))

Filtered(cells, cv, dimOf, faces) ==
  LET ord == CellOrder(cells, cv)
      pos == [c \in cells |-> CHOOSE k \in 1..Len(ord) : ord[k] = c]
  IN  [F   |-> [k \in 1..Len(ord) |-> [dim |-> dimOf[ord[k]], bd |-> [p \in {pos[f] : f \in faces[ord[k]]} |-> 1]]],
       val |-> [k \in 1..Len(ord) |-> cv[ord[k]]]]

GenericDiagram(cells, cv, dimOf, faces) ==
  LET fc == Filtered(cells, cv, dimOf, faces)
  IN  DiagramOf(Bars(fc.F, 2), fc.val, INF, 0)

-----------------------------------------------------------------------------
(* elder rule: nodes enter in the order ord; nbr[x] = neighbours of x.  A node   *)
(* that touches several components merges them: the one that entered first       *)
(* survives, each of the others dies.  Result: set of <<p, q>>, p the position    *)
(* in ord of the first node of the dying component, q the position of the node    *)
(* that kills it.  rep[x] = position of the first node of the component of x.     *)
RECURSIVE ElderFrom(_, _, _, _, _)
ElderFrom(ord, nbr, i, rep, acc) ==
  IF i > Len(ord) THEN acc
  ELSE LET x     == ord[i]
           roots == {rep[y] : y \in nbr[x] \cap DOMAIN rep}
       IN  IF roots = {} THEN ElderFrom(ord, nbr, i + 1, (x :> i) @@ rep, acc)
           ELSE LET m    == Min(roots)
                    rep2 == [y \in DOMAIN rep \cup {x} |->
                               IF y = x THEN m ELSE IF rep[y] \in roots THEN m ELSE rep[y]]
                IN  ElderFrom(ord, nbr, i + 1, rep2, acc \cup {<<r, i>> : r \in roots \ {m}})
Elder(ord, nbr) == ElderFrom(ord, nbr, 1, <<>>, {})

(* the total order (value, index) on the input samples and its reverse *)
Before(val, i, j) == val[i] < val[j] \/ (val[i] = val[j] /\ i < j)
Ascending(val)  == SortSeq([i \in 1..Len(val) |-> i], LAMBDA i, j : Before(val, i, j))
Descending(val) == SortSeq([i \in 1..Len(val) |-> i], LAMBDA i, j : Before(val, j, i))

-----------------------------------------------------------------------------
(* LINE *)
LineCells(n)      == {<<0, i>> : i \in 1..n} \cup {<<1, i>> : i \in 1..(n - 1)}
LineCellVal(val)  == [c \in LineCells(Len(val)) |->
                        IF c[1] = 0 THEN val[c[2]]
                        ELSE IF val[c[2]] > val[c[2] + 1] THEN val[c[2]] ELSE val[c[2] + 1]]
LineDim(n)        == [c \in LineCells(n) |-> c[1]]
LineFaces(n)      == [c \in LineCells(n) |-> IF c[1] = 0 THEN {} ELSE {<<0, c[2]>>, <<0, c[2] + 1>>}]
LineFiltered(val) == Filtered(LineCells(Len(val)), LineCellVal(val), LineDim(Len(val)), LineFaces(Len(val)))
GenericLine(val)  == GenericDiagram(LineCells(Len(val)), LineCellVal(val), LineDim(Len(val)), LineFaces(Len(val)))

LineNbr(n) == [i \in 1..n |-> {j \in {i - 1, i + 1} : j \in 1..n}]
FastLine(val) ==
  IF Len(val) = 0 THEN {}
  ELSE LET ord == Ascending(val)
           prs == Elder(ord, LineNbr(Len(val)))
       IN  BagOfPts({[dim |-> 0, b |-> val[ord[p[1]]], d |-> val[ord[p[2]]], id |-> p[1]] : p \in prs}
                    \cup {[dim |-> 0, b |-> val[ord[1]], d |-> INF, id |-> 0]})

-----------------------------------------------------------------------------
(* RECTANGLE: R rows, C columns of squares; cells <<type, r, c>>, type 0 vertex, *)
(* 1 horizontal edge (r,c)-(r,c+1), 2 vertical edge (r,c)-(r+1,c), 3 square       *)
Sq(C, r, c) == r * C + c + 1
GridCells(R, C) ==
  {<<0, r, c>> : r \in 0..R, c \in 0..C} \cup {<<1, r, c>> : r \in 0..R, c \in 0..(C - 1)} \cup
  {<<2, r, c>> : r \in 0..(R - 1), c \in 0..C} \cup {<<3, r, c>> : r \in 0..(R - 1), c \in 0..(C - 1)}
SquaresOf(R, C, x) ==          \* the squares a cell belongs to
  LET t == x[1]  r == x[2]  c == x[3] IN
  {s \in (0..(R - 1)) \X (0..(C - 1)) :
     CASE t = 0 -> s[1] \in {r - 1, r} /\ s[2] \in {c - 1, c}
       [] t = 1 -> s[1] \in {r - 1, r} /\ s[2] = c
       [] t = 2 -> s[1] = r /\ s[2] \in {c - 1, c}
       [] t = 3 -> s[1] = r /\ s[2] = c}
GridCellVal(R, C, val) == [x \in GridCells(R, C) |-> Min({val[Sq(C, s[1], s[2])] : s \in SquaresOf(R, C, x)})]
GridDim(R, C)   == [x \in GridCells(R, C) |-> IF x[1] = 0 THEN 0 ELSE IF x[1] = 3 THEN 2 ELSE 1]
GridFaces(R, C) == [x \in GridCells(R, C) |->
  LET r == x[2]  c == x[3] IN
  CASE x[1] = 0 -> {}
    [] x[1] = 1 -> {<<0, r, c>>, <<0, r, c + 1>>}
    [] x[1] = 2 -> {<<0, r, c>>, <<0, r + 1, c>>}
    [] x[1] = 3 -> {<<1, r, c>>, <<1, r + 1, c>>, <<2, r, c>>, <<2, r, c + 1>>}]
GridFiltered(R, C, val) == Filtered(GridCells(R, C), GridCellVal(R, C, val), GridDim(R, C), GridFaces(R, C))
GenericGrid(R, C, val)  == GenericDiagram(GridCells(R, C), GridCellVal(R, C, val), GridDim(R, C), GridFaces(R, C))

RowOf(C, k) == (k - 1) \div C
ColOf(C, k) == (k - 1) % C
(* two squares of the sublevel set are in the same component as soon as they share a vertex *)
Nbr8(R, C) == [k \in 1..(R * C) |->
  {j \in 1..(R * C) : j # k /\ RowOf(C, j) - RowOf(C, k) \in {-1, 0, 1} /\ ColOf(C, j) - ColOf(C, k) \in {-1, 0, 1}}]
(* two squares of the complement are in the same component iff they share an edge; node 0 is the outside *)
OnBorder(R, C, k) == RowOf(C, k) \in {0, R - 1} \/ ColOf(C, k) \in {0, C - 1}
Nbr4(R, C) == [k \in 0..(R * C) |->
  IF k = 0 THEN {j \in 1..(R * C) : OnBorder(R, C, j)}
  ELSE {j \in 1..(R * C) : \/ RowOf(C, j) = RowOf(C, k) /\ ColOf(C, j) - ColOf(C, k) \in {-1, 1}
                           \/ ColOf(C, j) = ColOf(C, k) /\ RowOf(C, j) - RowOf(C, k) \in {-1, 1}}
       \cup (IF OnBorder(R, C, k) THEN {0} ELSE {})]

FastGrid(R, C, val) ==
  LET up   == Ascending(val)
      p0   == Elder(up, Nbr8(R, C))
      down == <<0>> \o Descending(val)          \* the outside first: it is never filled
      p1   == Elder(down, Nbr4(R, C))
  IN  BagOfPts({[dim |-> 0, b |-> val[up[p[1]]], d |-> val[up[p[2]]], id |-> p[1]] : p \in p0}
               \cup {[dim |-> 0, b |-> val[up[1]], d |-> INF, id |-> 0]}
               \* a hole appears when the square down[q] separates it from the rest of the complement and
               \* disappears when its last (largest) square down[p] is filled
               \cup {[dim |-> 1, b |-> val[down[p[2]]], d |-> val[down[p[1]]], id |-> p[1]] : p \in p1})

-----------------------------------------------------------------------------
(* what the routines promise, as predicates on what they were observed to output *)
SeqBag(dim, s) ==      \* bag of the non-zero-length pairs <<b, d>> of a sequence of calls
  LET keep == {i \in DOMAIN s : s[i][2] > s[i][1]}
      keys == {s[i] : i \in keep}
  IN  {[dim |-> dim, b |-> k[1], d |-> k[2], n |-> Cardinality({i \in keep : s[i] = k})] : k \in keys}
NoNegative(s) == \A i \in DOMAIN s : s[i][2] >= s[i][1]
DimPart(bag, dim) == {x \in bag : x.dim = dim /\ x.d # INF}
=============================================================================
