--------------------------- MODULE Trace_ToplexMap ---------------------------
(* Validates executions recorded from real Toplex_map / Lazy_toplex_map        *)
(* objects (harness/toplex_record) against the actions of ToplexMap.tla: every  *)
(* logged call must be an enabled action, its return value and every logged     *)
(* read (membership, maximality, maximal_simplices, maximal_cofaces,            *)
(* all_facets_inside, counts) must be the one the successor state K' defines.   *)
(* A "sync" event carries the complete state read back from the object; when it *)
(* differs from K a <<"DEV", ..>> record is printed (with the action that led   *)
(* there) and the specification continues from the object's state, so that the  *)
(* rest of the execution is still validated.  A wrong all_facets_inside answer  *)
(* (a pure read) is reported the same way.  The check decides whether a DEV is  *)
(* a listed finding or a violation.  TRACE=<file.ndjson>.                       *)
EXTENDS ToplexMap, Json, IOUtils

VARIABLE l
Tr == ndJsonDeserialize(IOEnv.TRACE)

SetOf(q)     == {q[i] : i \in DOMAIN q}
SetOfSets(q) == {SetOf(q[i]) : i \in DOMAIN q}
Has(e, k)    == k \in DOMAIN e
NoDup(q, S)  == SetOfSets(q) = S /\ Len(q) = Cardinality(S)

(* reads logged with an event, all functions of the state C *)
ObsOK(e, C) ==
  /\ Has(e, "max")     => NoDup(e.max, MaximalC(C))
  /\ Has(e, "nv")      => e.nv = Cardinality(VerticesOf(C))
  /\ Has(e, "nmax")    => e.nmax = Cardinality(MaximalC(C))
  /\ Has(e, "nmax_ub") => e.nmax_ub >= Cardinality(MaximalC(C))   \* lazy: stored simplices
  /\ Has(e, "q") => \A i \in DOMAIN e.q :
        LET x == e.q[i]  s == SetOf(x.s) IN
        /\ x.mem = (s \in C)
        /\ Has(x, "maxq") => x.maxq = IsMaxIn(C, s)
        /\ Has(x, "cof")  => NoDup(x.cof, MaxCofaces(C, s))
        /\ Has(x, "afi")  => \/ x.afi = (Facets(s) \subseteq C)
                             \/ PrintT(<<"DEV", ToJson([line |-> l, act |-> [op |-> "all_facets_inside", s |-> x.s,
                                                       mem |-> (s \in C), got |-> x.afi]])>>)

SyncState(e) == IF Has(e, "full") THEN SetOfSets(e.full) ELSE Closure(SetOfSets(e.max))
Sync(e) ==
  /\ K' = SyncState(e)
  /\ K' # K => PrintT(<<"DEV", ToJson([line |-> l, act |-> act, exp_set |-> SeqSet(K), got_set |-> SeqSet(K')])>>)
  /\ act' = [op |-> "sync"]

Step(e) ==
  \/ /\ e.op = "reset" /\ K' = {} /\ act' = [op |-> "reset"]
  \/ /\ e.op = "insert" /\ InsertSimplex(SetOf(e.s))
  \/ /\ e.op = "insert_independent" /\ InsertIndependentSimplex(SetOf(e.s))
  \/ /\ e.op = "remove" /\ RemoveSimplex(SetOf(e.s))
  \/ /\ e.op = "remove_vertex" /\ RemoveVertex(e.v)
  \/ /\ e.op = "clear" /\ RemoveAll
  \/ /\ e.op = "contract" /\ Contraction(e.x, e.y, e.ret)
  \/ /\ e.op = "sync" /\ Sync(e)

TraceInit == K = {} /\ act = [op |-> "init"] /\ l = 1
TraceNext == /\ l <= Len(Tr)
             /\ l' = l + 1
             /\ ~Has(Tr[l], "exception")
             /\ Step(Tr[l])
             /\ ObsOK(Tr[l], K')
TraceSpec == TraceInit /\ [][TraceNext]_<<K, act, l>>
TraceView == <<K, l>>

Verdict ==
  LET m == TLCGet("stats").diameter - 1 IN
  PrintT(<<"TRACE", ToJson([accepted |-> (m = Len(Tr)), matched |-> m, len |-> Len(Tr)])>>)
=============================================================================
