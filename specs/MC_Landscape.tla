----------------------------- MODULE MC_Landscape -----------------------------
(* Bounded model of Landscape.tla in "cases" style: one state per case.           *)
(*   Mode = "single" : every diagram with <= NMax intervals, endpoints in 0..Hi    *)
(*   Mode = "pair"   : pairs (A, B) of such diagrams, B with <= NSmall intervals   *)
(*   Mode = "triple" : triples of diagrams with <= NSmall intervals                *)
(* INVARIANT EmitCase prints, for the case, a list of landscape expressions with   *)
(* their values on the quarter lattice of [-2, Hi + 2] for every level, their       *)
(* integrals, and a list of pairs of expressions with their distances and inner    *)
(* product, as <<"CASE", ToJson([exprs |-> .., dists |-> ..])>>; the other          *)
(* invariants are the in-model theorems.                                            *)
EXTENDS Landscape, SequencesExt, Json

CONSTANTS Mode, NMax, Hi, NSmall, Stride, CheckDef

VARIABLE c

(* ---------------------------------------------------------------- universe *)
Ivs == {I \in (0..Hi) \X (0..Hi) : I[1] < I[2]}
IvIdx(I) == I[1] * (Hi + 1) + I[2]
DiagsOfLen(n) == {s \in [1..n -> Ivs] : \A i \in 1..(n - 1) : IvIdx(s[i]) <= IvIdx(s[i + 1])}
DA == SetToSeq(UNION {DiagsOfLen(n) : n \in 0..NMax})
NA == Len(DA)
Small == {i \in 1..NA : Len(DA[i]) <= NSmall}

TLo == -2 * U
THi == U * (Hi + 2)
Dom == TLo..THi
K == NMax + 1
Tab == TLCEval([i \in 1..NA |-> TLCEval([k \in 1..K |-> Row(DA[i], k, Dom)])])

(* grids: [-1, Hi+2] step 1/2; [0, Hi] step 1/2 (intervals touch both ends); [-2, Hi+2] step 1 (Hi even)  *)
(* or [-1, Hi+2] step 1 (Hi odd);  [0, Hi] step 1/4                                                          *)
Grids == << [min8 |-> -U, max8 |-> U * (Hi + 2), n |-> 2 * (Hi + 3)],
            [min8 |-> 0, max8 |-> U * Hi, n |-> 2 * Hi],
            IF Hi % 2 = 0 THEN [min8 |-> -2 * U, max8 |-> U * (Hi + 2), n |-> Hi + 4]
                          ELSE [min8 |-> -U, max8 |-> U * (Hi + 2), n |-> Hi + 3],
            [min8 |-> 0, max8 |-> U * Hi, n |-> 4 * Hi] >>
NG == Len(Grids)
ASSUME \A gi \in 1..NG : GridWF(Grids[gi]) /\ Grids[gi].min8 >= TLo /\ Grids[gi].max8 <= THi

(* ---------------------------------------------------------------- expressions over the universe *)
(* e = [op, ix (indices into DA), n (integer coefficients), den, abs] *)
Land(i) == [op |-> "land", ix |-> <<i>>, n |-> <<1>>, den |-> 1, abs |-> FALSE]
Zero == [op |-> "zero", ix |-> <<>>, n |-> <<>>, den |-> 1, abs |-> FALSE]
Bin(op, i, j, a, b, den, abs) == [op |-> op, ix |-> <<i, j>>, n |-> <<a, b>>, den |-> den, abs |-> abs]

KOf(e) == 1 + (IF Len(e.ix) = 0 THEN 0 ELSE SetMax({Len(DA[e.ix[t]]) : t \in 1..Len(e.ix)}))
MRow(e, k) == LinComb(e.n, [t \in 1..Len(e.ix) |-> Tab[e.ix[t]][k]], e.abs, Dom)
MRows(e) == TLCEval([k \in 1..K |-> MRow(e, k)])
RowSeq(f) == [j \in 1..((THi - TLo) \div 2 + 1) |-> f[TLo + 2 * (j - 1)]]
IsZeroRow(f) == \A T \in Dom : f[T] = 0

GridRowOK(f, g) == InterpExact(f, g, TLo, THi)
EGridOK(e, rs, g) ==
  /\ \A t \in 1..Len(e.ix) : GridOK(DA[e.ix[t]], g)
  /\ e.abs => \A k \in 1..K : GridRowOK(rs[k], g)

Spec5(e) == [op |-> e.op, args |-> [t \in 1..Len(e.ix) |-> DA[e.ix[t]]], coef |-> e.n, den |-> e.den, abs |-> e.abs]

EJ(e) ==
  LET rs == MRows(e)
      ke == KOf(e)
      ok == {gi \in 1..NG : EGridOK(e, rs, Grids[gi])}
  IN [op |-> e.op, args |-> [t \in 1..Len(e.ix) |-> DA[e.ix[t]]], coef |-> e.n, den |-> e.den, abs |-> e.abs,
      nlev |-> Cardinality({k \in 1..K : ~IsZeroRow(rs[k])}),
      rows |-> [k \in 1..ke |-> RowSeq(rs[k])],
      ints |-> [k \in 1..ke |-> IntS(rs[k], TLo, THi)],
      int1 |-> [k \in 1..ke |-> Int1(rs[k], TLo, THi)],
      q    |-> \A k \in 1..ke : SignQ(rs[k], TLo, THi),    \* |f| is piecewise linear on the quarter lattice: int1 is exact
      int2 |-> [k \in 1..ke |-> IP(rs[k], rs[k], TLo, THi)],
      sup  |-> [k \in 1..ke |-> SupN(rs[k], TLo, THi)],
      bp   |-> IF e.op = "land" THEN [k \in 1..ke |-> BreakPts(rs[k], TLo, THi)] ELSE <<>>,
      grids |-> ok,
      flat |-> {gi \in ok : \E k \in 1..K : FlatNonzero(rs[k], Grids[gi])},
      (* for Persistence_landscape_on_grid(.., number_of_levels = L): some grid point has more than L  *)
      (* positive tent values                                                                           *)
      depth |-> IF e.op = "land"
                THEN [gi \in 1..NG |-> IF gi \in ok
                                       THEN SetMax({Depth(DA[e.ix[1]], Grids[gi].min8 + j * Dx8(Grids[gi])) : j \in 0..Grids[gi].n})
                                       ELSE 0]
                ELSE <<>>]

(* distances and inner product of two expressions *)
DistOf(xs, ys, dr) ==
  [d1 |-> SumTo([k \in 1..K |-> Int1(dr[k], TLo, THi)], K),
   d2 |-> SumTo([k \in 1..K |-> IP(dr[k], dr[k], TLo, THi)], K),
   dsup |-> SetMax({SupN(dr[k], TLo, THi) : k \in 1..K}),
   ip |-> SumTo([k \in 1..K |-> IP(xs[k], ys[k], TLo, THi)], K)]
Dist(x, y) ==
  LET xs == MRows(x)
      ys == MRows(y)
      dr == TLCEval([k \in 1..K |-> DiffRow(xs[k], x.den, ys[k], y.den, Dom)])
  IN DistOf(xs, ys, dr)

DJ(x, y) ==
  LET xs == MRows(x)
      ys == MRows(y)
      dr == TLCEval([k \in 1..K |-> DiffRow(xs[k], x.den, ys[k], y.den, Dom)])
      adr == TLCEval([k \in 1..K |-> TLCEval([T \in Dom |-> Abs(dr[k][T])])])
      q == \A k \in 1..K : SignQ(dr[k], TLo, THi)
      (* grid form: |x - y| must be the interpolation of its grid values (it is linear between lattice points only  *)
      (* when the zeros of x - y are lattice points)                                                              *)
      ok == {gi \in 1..NG : /\ q /\ EGridOK(x, xs, Grids[gi]) /\ EGridOK(y, ys, Grids[gi])
                            /\ \A k \in 1..K : GridRowOK(adr[k], Grids[gi])}
      d == DistOf(xs, ys, dr)
  IN [x |-> Spec5(x), y |-> Spec5(y), den |-> x.den * y.den,
      (* d1 is the L1 distance only if the difference has its zeros on the quarter lattice *)
      q |-> q,
      d1 |-> d.d1, d2 |-> d.d2, dsup |-> d.dsup, ip |-> d.ip,
      grids |-> ok,
      flat |-> {gi \in ok : \E k \in 1..K : FlatNonzero(adr[k], Grids[gi])},
      (* somewhere one operand is negative where the other vanishes *)
      negzero |-> \E k \in 1..K : \E T \in Dom : T % 2 = 0 /\
                     ((xs[k][T] < 0 /\ ys[k][T] = 0) \/ (ys[k][T] < 0 /\ xs[k][T] = 0))]

(* ---------------------------------------------------------------- cases *)
Scal == << [n |-> -2, d |-> 1], [n |-> 1, d |-> 2], [n |-> -3, d |-> 4], [n |-> 3, d |-> 2] >>
Sc(m) == Scal[(m % Len(Scal)) + 1]

SingleCase(i) ==
  [kind |-> "single", exprs |-> <<EJ(Land(i))>>,
   dists |-> <<DJ(Land(i), Zero), DJ(Land(i), Land(i))>>]

PairCase(i, j) ==
  LET A == Land(i)  B == Land(j)
      s1 == Sc(i + j)  s2 == Sc(i + 2 * j + 1)  s3 == Sc(2 * i + j + 2)
      sum == Bin("sum", i, j, 1, 1, 1, FALSE)
      dif == Bin("diff", i, j, 1, -1, 1, FALSE)
      fid == Bin("diff", j, i, 1, -1, 1, FALSE)
      adf == Bin("absdiff", i, j, 1, -1, 1, TRUE)
      sca == [op |-> "scal", ix |-> <<i>>, n |-> <<s1.n>>, den |-> s1.d, abs |-> FALSE]
      scb == [op |-> "scal", ix |-> <<j>>, n |-> <<s2.n>>, den |-> s2.d, abs |-> FALSE]
      asd == Bin("abs_scal_diff", i, j, s3.n, -s3.n, s3.d, TRUE)
      avg == Bin("avg", i, j, 1, 1, 2, FALSE)
      lc  == Bin("lincomb", i, j, s1.n * s2.d, s2.n * s1.d, s1.d * s2.d, FALSE)
  IN [kind |-> "pair",
      exprs |-> <<EJ(sum), EJ(dif), EJ(fid), EJ(adf), EJ(sca), EJ(scb), EJ(asd), EJ(avg), EJ(lc)>>,
      dists |-> <<DJ(A, B), DJ(sum, A), DJ(dif, Zero), DJ(sca, B), DJ(lc, A), DJ(adf, B), DJ(avg, dif)>>]

TripleCase(i, j, k) ==
  LET s1 == Sc(i + j + k)  s2 == Sc(i + 2 * j + 3 * k + 1)
      sd  == [op |-> "sum_diff", ix |-> <<i, j, k>>, n |-> <<1, 1, -1>>, den |-> 1, abs |-> FALSE]
      ds  == [op |-> "diff_sum", ix |-> <<i, j, k>>, n |-> <<1, -1, -1>>, den |-> 1, abs |-> FALSE]
      a3  == [op |-> "avg", ix |-> <<i, j, k>>, n |-> <<1, 1, 1>>, den |-> 3, abs |-> FALSE]
      a4  == [op |-> "avg", ix |-> <<i, j, k, j>>, n |-> <<1, 1, 1, 1>>, den |-> 4, abs |-> FALSE]
      sum == Bin("sum", i, j, 1, 1, 1, FALSE)
      lc  == Bin("lincomb", i, j, s1.n * s2.d, s2.n * s1.d, s1.d * s2.d, FALSE)
  IN [kind |-> "triple",
      exprs |-> <<EJ(sd), EJ(ds), EJ(a3), EJ(a4)>>,
      dists |-> <<DJ(sum, Land(k)), DJ(lc, Land(k)), DJ(sd, Zero)>>]

SingleCases == 1..NA
PairCases == {p \in (1..NA) \X Small : p[1] \in Small => p[1] <= p[2]}
TripleCases == {t \in Small \X Small \X Small : t[1] <= t[3]}

Init == c \in (CASE Mode = "single" -> SingleCases [] Mode = "pair" -> PairCases [] Mode = "triple" -> TripleCases)
Next == UNCHANGED c
Spec == Init /\ [][Next]_c

Emitted == Mode # "triple" \/ (c[1] + 3 * c[2] + 5 * c[3]) % Stride = 0
EmitCase ==
  Emitted => PrintT(<<"CASE", ToJson(CASE Mode = "single" -> SingleCase(c)
                                       [] Mode = "pair" -> PairCase(c[1], c[2])
                                       [] Mode = "triple" -> TripleCase(c[1], c[2], c[3]))>>)

ASSUME PrintT(<<"CASE", ToJson([kind |-> "universe", tlo |-> TLo, thi |-> THi, step |-> 2, unit |-> U,
                                grids |-> [gi \in 1..NG |-> <<Grids[gi].min8, Grids[gi].max8, Grids[gi].n>>]])>>)

(* ---------------------------------------------------------------- in-model theorems: one diagram *)
D0 == DA[c]
R0 == Tab[c]

ThDef ==        \* k-th largest tent value = Bubenik's definition (sup of the h with k intervals around [t-h, t+h])
  (Mode = "single" /\ CheckDef) => \A k \in 1..K : \A T \in Dom : R0[k][T] = LamDef8(D0, k, T)

ThSort ==       \* the k-th largest by sorting = the k-th largest by counting, also through expressions
  Mode = "single" =>
    /\ \A k \in 1..K : \A T \in Dom : LamS(D0, k, T) = R0[k][T]
    /\ CheckDef =>
       LET E == [terms |-> <<[n |-> -3, D |-> D0], [n |-> 2, D |-> Reverse(D0)]>>, den |-> 4, abs |-> TRUE]
           rs == RowsS(E, Dom)
       IN \A k \in 1..(Len(D0) + 1) : rs[k] = ERow(E, k, Dom) /\ \A T \in Dom : rs[k][T] = Val(E, k, T)

ThShape ==      \* decreasing in k, non negative, 1-Lipschitz, zero beyond the number of intervals and outside the
                \* hull, independent of the order of the intervals, breakpoints on the half lattice
  Mode = "single" =>
    /\ \A k \in 1..NMax : \A T \in Dom : R0[k][T] >= R0[k + 1][T] /\ R0[k + 1][T] >= 0
    /\ \A k \in 1..K : \A T \in TLo..(THi - 1) : Abs(R0[k][T + 1] - R0[k][T]) <= 1
    /\ \A k \in (Len(D0) + 1)..K : IsZeroRow(R0[k])
    /\ \A k \in 1..K : \A T \in Dom : (\A i \in 1..Len(D0) : T <= U * D0[i][1] \/ T >= U * D0[i][2]) => R0[k][T] = 0
    /\ \A k \in 1..K : \A T \in Dom : Lam8(Reverse(D0), k, T) = R0[k][T]
    /\ \A k \in 1..K : \A T \in (TLo + 1)..(THi - 1) : T % 4 # 0 => 2 * R0[k][T] = R0[k][T - 1] + R0[k][T + 1]

ThArea ==       \* the integrals of all levels add up to the areas of the tents, (d - b)^2 / 4 each
  Mode = "single" =>
    SumTo([k \in 1..K |-> IntS(R0[k], TLo, THi)], K)
      = SumTo([i \in 1..Len(D0) |-> 16 * (D0[i][2] - D0[i][1]) * (D0[i][2] - D0[i][1])], Len(D0))

ThGrid ==       \* on an admissible grid every level is the interpolation of its grid values, and the largest number
                \* of positive tents at a grid point is the number of non zero levels
  Mode = "single" =>
    \A gi \in 1..NG : GridOK(D0, Grids[gi]) =>
      /\ \A k \in 1..K : GridRowOK(R0[k], Grids[gi])
      /\ SetMax({Depth(D0, Grids[gi].min8 + j * Dx8(Grids[gi])) : j \in 0..Grids[gi].n})
           = Cardinality({k \in 1..K : ~IsZeroRow(R0[k])})

(* ---------------------------------------------------------------- in-model theorems: pairs *)
ThMetric2 ==    \* symmetry, zero on equal arguments, definiteness, Cauchy-Schwarz, norms
  Mode = "pair" =>
    LET A == Land(c[1])  B == Land(c[2])
        ab == Dist(A, B)  ba == Dist(B, A)  aa == Dist(A, A)  bb == Dist(B, B)  az == Dist(A, Zero)
    IN /\ ab = ba
       /\ aa.d1 = 0 /\ aa.d2 = 0 /\ aa.dsup = 0
       /\ (ab.d1 = 0) = (Tab[c[1]] = Tab[c[2]]) /\ (ab.dsup = 0) = (ab.d1 = 0) /\ (ab.d2 = 0) = (ab.d1 = 0)
       /\ ab.ip * ab.ip <= aa.ip * bb.ip
       /\ ab.ip >= 0
       /\ az.d2 = aa.ip /\ az.ip = 0
       /\ ab.d2 = aa.ip + bb.ip - 2 * ab.ip                       \* polarisation
       /\ az.d1 = SumTo([k \in 1..K |-> IntS(Tab[c[1]][k], TLo, THi)], K)

ThQuarter ==    \* every function that is integrated has its breakpoints on the quarter lattice; differences of two
                \* landscapes and their multiples (the arguments of abs) also their zeros
  Mode = "pair" =>
    \A k \in 1..K :
      LET d == DiffRow(Tab[c[1]][k], 1, Tab[c[2]][k], 1, Dom) IN
      /\ LinearQ(d, TLo, THi) /\ SignQ(d, TLo, THi)
      /\ LinearQ(LinComb(<<1, 1>>, <<Tab[c[1]][k], Tab[c[2]][k]>>, FALSE, Dom), TLo, THi)
      /\ LinearQ(LinComb(<<2, -3>>, <<Tab[c[1]][k], Tab[c[2]][k]>>, FALSE, Dom), TLo, THi)
      /\ LinearQ(LinComb(<<1, -1>>, <<Tab[c[1]][k], Tab[c[2]][k]>>, TRUE, Dom), TLo, THi)

(* ---------------------------------------------------------------- in-model theorems: triples *)
DT == IF Mode = "triple" THEN TLCEval([p \in Small \X Small |-> Dist(Land(p[1]), Land(p[2]))]) ELSE <<>>

ThTriangle ==   \* sup and L1 exactly; L2 in squared form
  Mode = "triple" =>
    LET ab == DT[<<c[1], c[2]>>]  bc == DT[<<c[2], c[3]>>]  ac == DT[<<c[1], c[3]>>]
        x == ac.d2 - ab.d2 - bc.d2
    IN /\ ac.dsup <= ab.dsup + bc.dsup
       /\ ac.d1 <= ab.d1 + bc.d1
       /\ (x <= 0 \/ (x \div 4) * (x \div 4) <= (ab.d2 \div 4) * (bc.d2 \div 4) * 4)
       /\ ab.d2 % 4 = 0 /\ bc.d2 % 4 = 0 /\ ac.d2 % 4 = 0

ThBilinear ==   \* <aA + bB, C> = a <A, C> + b <B, C>, symmetric
  (Mode = "triple" /\ Emitted) =>
    LET s1 == Sc(c[1] + c[2] + c[3])  s2 == Sc(c[1] + 2 * c[2] + 3 * c[3] + 1)
        lc == Bin("lincomb", c[1], c[2], s1.n * s2.d, s2.n * s1.d, s1.d * s2.d, FALSE)
        l == Dist(lc, Land(c[3]))
    IN /\ l.ip = s1.n * s2.d * DT[<<c[1], c[3]>>].ip + s2.n * s1.d * DT[<<c[2], c[3]>>].ip
       /\ Dist(Land(c[3]), lc).ip = l.ip
=============================================================================
