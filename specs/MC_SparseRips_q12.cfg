SPECIFICATION Spec
CONSTANTS
  N = 4
  DVals = {1, 2, 5, 9}
  Mult = 1
  Canon = TRUE
  EpsG <- E12_14
  EpsB <- EBig
  Bounds <- Bounds12
  DimMaxs = {1, 2, 3}
INVARIANT InvInput
INVARIANT InvGuarantee
INVARIANT InvValidAlways
INVARIANT InvSkeleton
INVARIANT InvGreedy
INVARIANT EmitCase
CHECK_DEADLOCK FALSE
