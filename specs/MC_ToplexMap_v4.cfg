SPECIFICATION Spec
CONSTANTS
  V = {0, 1, 2, 3}
VIEW View
INVARIANT TypeOK
INVARIANT InvToplexFaithful
INVARIANT InvRemoveRule
INVARIANT InvFacetsOfArgOnly
INVARIANT InvRemoveVertex
INVARIANT InvContractSym
INVARIANT InvContractClosed
INVARIANT EmitState
ACTION_CONSTRAINT EmitEdge
CHECK_DEADLOCK FALSE
