SPECIFICATION Spec
CONSTANTS
  N = 5
  DVals = {1, 6, 9}
  Mult = 1
  Canon = TRUE
  EpsG <- E12
  EpsB <- NoEps
  Bounds <- NoBounds
  DimMaxs = {2, 4}
INVARIANT InvInput
INVARIANT InvGuarantee
INVARIANT InvValidAlways
INVARIANT InvGreedy
INVARIANT EmitCase
CHECK_DEADLOCK FALSE
