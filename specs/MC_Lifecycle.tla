----------------------------- MODULE MC_Lifecycle -----------------------------
EXTENDS Lifecycle, Json
CONSTANTS Deltas   \* byte-length perturbations of the serialised buffer, as offsets + 8 (cfg files have no negatives)

Next ==
  \/ \E i \in Slots : Construct(i) \/ Destroy(i) \/ Serialize(i)
  \/ \E i \in Slots, s \in Universe, f \in Vals : MutInsert(i, s, f)
  \/ \E i \in Slots, s \in Universe : MutRemove(i, s)
  \/ \E i, j \in Slots : CopyConstruct(i, j) \/ CopyAssign(i, j) \/ MoveConstruct(i, j) \/ MoveAssign(i, j)
                          \/ Swap(i, j) \/ TextRoundTrip(i, j)
  \/ \E i \in Slots, d \in Deltas : Deserialize(i, d - 8)
Spec == Init /\ [][Next]_<<obj, buf, act>>
View == <<obj, buf>>
IdJ == [objs |-> ObjJ(obj), buf |-> [some |-> buf.some, k_set |-> KJ(buf.k)]]
EmitState == PrintT(<<"STATE", ToJson([id |-> IdJ, obs |-> [objs |-> ObjJ(obj), eq_set |-> EqJ(obj), checks_failed |-> <<>>]])>>)
EmitEdge == PrintT(<<"EDGE", ToJson([from |-> IdJ, act |-> act',
                      to |-> [objs |-> ObjJ(obj'), buf |-> [some |-> buf'.some, k_set |-> KJ(buf'.k)]]])>>)
(* independence: an action names at most two slots, every other slot is unchanged *)
InvTyped == \A i \in Slots : obj[i].live \/ obj[i].k = Empty
=============================================================================
