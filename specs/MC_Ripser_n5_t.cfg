SPECIFICATION Spec
CONSTANTS
  Ns = {5}
  Vals = {1, 2}
  Primes = {2, 3}
  SampleEvery = 1
  ThEvery = 1
  ThDefEvery = 1
  ThDefMaxN = 0
INVARIANT InvFlag
INVARIANT InvChainComplex
INVARIANT InvDefAlg
INVARIANT InvSkeleton
INVARIANT InvCone
INVARIANT InvIsolated
INVARIANT InvSingleLinkage
INVARIANT InvDefinitional
INVARIANT EmitCase
CHECK_DEADLOCK FALSE
