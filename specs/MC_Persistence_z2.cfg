SPECIFICATION Spec
CONSTANTS
  P = 2
  MaxCells = 6
  MaxD = 2
  AllowEmptyBd = FALSE
INVARIANT InvWellFormed
INVARIANT InvDefEqAlg
INVARIANT InvBetti
INVARIANT InvPartition
CHECK_DEADLOCK FALSE
