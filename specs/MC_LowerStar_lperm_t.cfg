SPECIFICATION Spec
CONSTANTS
  Mode = "lperm"
  R = 1
  C = 1
  NVals = 0
  MaxLen = 8
  ThEvery = 4
  ThMaxLen = 8
INVARIANT ThDual
INVARIANT ThShape
INVARIANT EmitCase
CHECK_DEADLOCK FALSE
