---------------------------- MODULE SkeletonBlocker ----------------------------
(* Abstract state machine of Gudhi::skeleton_blocker::Skeleton_blocker_complex. *)
(* The state is the abstract simplicial complex K together with the number n of *)
(* vertex handles handed out so far (add_vertex returns consecutive handles and *)
(* a removed handle is never reused, Skeleton_blocker_complex.h:372-399).  The   *)
(* skeleton/blocker pair the class stores is a DERIVED view of K: the graph is   *)
(* the 1-skeleton and the blockers are the minimal non-faces.  One action per    *)
(* public mutator, guarded by its documented precondition.                       *)
EXTENDS Simplicial, SkeletonBlockerHomology, TLC

CONSTANT NV                   \* size of the handle universe 0..NV-1
VARIABLES n, K, act

V == 0..(NV - 1)

Verts(C)   == {v \in V : {v} \in C}
EdgesOf(C) == {e \in C : Dim(e) = 1}

(* "A blocker is a simplex of dimension greater than 1 that does not belong to  *)
(* the complex but whose all proper faces does"  (Skeleton_blocker.h:59-60)     *)
Blockers(C) == {s \in Simplices(Verts(C)) : Dim(s) >= 2 /\ s \notin C /\ ProperFaces(s) \subseteq C}

(* the complex encoded by a graph and a set of blockers                          *)
FromSB(VV, EE, BB) == {s \in Simplices(VV) : IsClique(s, VV, EE) /\ \A B \in BB : ~(B \subseteq s)}

(* link condition Link(ab) = Link(a) \cap Link(b)                                *)
LinkCond(C, a, b) == LinkC(C, {a, b}) = LinkC(C, {a}) \cap LinkC(C, {b})

Max2(a, b) == IF a < b THEN b ELSE a

TypeOK == /\ n \in 0..NV
          /\ K \subseteq Simplices(0..(n - 1))
          /\ Closed(K)

Init == n = 0 /\ K = {} /\ act = [op |-> "init"]

-----------------------------------------------------------------------------
(* add_vertex (:372): "Adds a vertex ... returns its Vertex_handle.  Vertex      *)
(* representation is contiguous."                                               *)
AddVertex ==
  /\ n < NV
  /\ n' = n + 1
  /\ K' = K \cup {{n}}
  /\ act' = [op |-> "add_vertex", ret |-> n]

(* add_edge(a,b) (:541): the edge only; "contains 01 and 12, add_edge(0,2) gives *)
(* the edges 01, 12, 20 but not the triangle 012 (hence a blocker 012)".         *)
AddEdge(a, b) ==
  /\ a # b /\ {a} \in K /\ {b} \in K
  /\ K' = K \cup {{a, b}}
  /\ UNCHANGED n
  /\ act' = [op |-> "add_edge", a |-> a, b |-> b]

(* add_edge(Simplex) (:554): "Adds all edges of s", one add_edge at a time       *)
AddEdges(s) ==
  /\ s \subseteq Verts(K)
  /\ K' = K \cup {e \in Faces(s) : Dim(e) = 1}
  /\ UNCHANGED n
  /\ act' = [op |-> "add_edges", s |-> SortedSeq(s)]

(* add_edge_without_blockers (:566): same graph change, blocker set unchanged:   *)
(* "contains 01 and 12, then ... will create a complex containing the triangle"  *)
AddEdgeWB(a, b) ==
  /\ a # b /\ {a} \in K /\ {b} \in K
  /\ K' = FromSB(Verts(K), EdgesOf(K) \cup {{a, b}}, Blockers(K))
  /\ UNCHANGED n
  /\ act' = [op |-> "add_edge_wb", a |-> a, b |-> b]

(* add_simplex (:1119, simplifiable:195): "add a simplex and all its faces";     *)
(* dimension > 1 and the simplex absent (asserted).  Missing vertices are added  *)
(* by the implementation ("Some vertices were not present ..., adding them");    *)
(* that path is only modelled while no handle has ever been removed.             *)
AddSimplex(s) ==
  /\ Dim(s) >= 2 /\ s \notin K /\ s \subseteq V
  /\ s \subseteq Verts(K) \/ Verts(K) = 0..(n - 1)
  /\ LET m == IF s \subseteq Verts(K) THEN n ELSE Max2(n, Max(s) + 1) IN
       /\ n' = m
       /\ K' = K \cup Faces(s) \cup {{v} : v \in n..(m - 1)}
  /\ act' = [op |-> "add_simplex", s |-> SortedSeq(s)]

(* remove_star (:1092,1106,1111,1116; simplifiable:120-192): "Remove the star    *)
(* of ..." a vertex, an edge, or a simplex "which needs to belong to the         *)
(* complex": K minus the simplices containing it.  `via` selects the overload.   *)
RemoveStar(s, via) ==
  /\ s \in K
  /\ K' = K \ StarC(K, s)
  /\ UNCHANGED n
  /\ act' = [op |-> "remove_star", s |-> SortedSeq(s), via |-> via]

(* remove_edge (:596,613): "Removes an edge from the simplicial complex and all  *)
(* its cofaces."  A primitive that leaves the blocker map alone; used here only  *)
(* where no blocker passes through the edge (then it is remove_star).            *)
RemoveEdge(a, b, via) ==
  /\ {a, b} \in K /\ a # b
  /\ \A B \in Blockers(K) : ~({a, b} \subseteq B)
  /\ K' = K \ StarC(K, {a, b})
  /\ UNCHANGED n
  /\ act' = [op |-> "remove_edge", a |-> a, b |-> b, via |-> via]

(* remove_vertex (:390): deactivates the vertex; primitive, isolated vertices    *)
RemoveVertex(v) ==
  /\ {v} \in K /\ StarC(K, {v}) = {{v}}
  /\ K' = K \ {{v}}
  /\ UNCHANGED n
  /\ act' = [op |-> "remove_vertex", v |-> v]

(* contract_edge(a,b) (:1244-1253, simplifiable:333-368): "Contracts the edge    *)
(* connecting vertices a and b.  If the link condition Link(ab) = Link(a) inter  *)
(* Link(b) is not satisfied, it removes first all blockers passing through ab."  *)
(* b disappears, a survives.                                                     *)
Unblocked(C, a, b) == FromSB(Verts(C), EdgesOf(C), {B \in Blockers(C) : ~({a, b} \subseteq B)})
Img(s, a, b) == IF b \in s THEN (s \ {b}) \cup {a} ELSE s
ContractK(C, a, b) ==
  LET C1 == IF LinkCond(C, a, b) THEN C ELSE Unblocked(C, a, b)
  IN  {Img(s, a, b) : s \in C1}
ContractEdge(a, b, via) ==
  /\ a # b /\ {a, b} \in K
  /\ K' = ContractK(K, a, b)
  /\ UNCHANGED n
  /\ act' = [op |-> "contract", a |-> a, b |-> b, via |-> via, lc |-> LinkCond(K, a, b)]

(* keep_only_vertices (:623): "reduced to its set of vertices"                   *)
KeepOnlyVertices ==
  /\ K' = {s \in K : Dim(s) = 0}
  /\ UNCHANGED n
  /\ act' = [op |-> "keep_only_vertices"]

(* remove_blockers (:742): "expand the simplicial complex to the smallest flag   *)
(* complex that contains it"                                                     *)
RemoveBlockers ==
  /\ K' = FromSB(Verts(K), EdgesOf(K), {})
  /\ UNCHANGED n
  /\ act' = [op |-> "remove_blockers"]

(* clear (:311): "The 1-skeleton and the set of blockers are both empty."        *)
Clear ==
  /\ n' = 0 /\ K' = {}
  /\ act' = [op |-> "clear"]

-----------------------------------------------------------------------------
(* Derived read interfaces                                                      *)
Components(C) ==
  LET VV == Verts(C)
      Adj(S) == S \cup {w \in VV : \E u \in S : {u, w} \in C}
      RECURSIVE Grow(_)
      Grow(S) == IF Adj(S) = S THEN S ELSE Grow(Adj(S))
  IN  {Grow({v}) : v \in VV}
NumCC(C)    == Cardinality(Components(C))
Degree(C, v) == Cardinality({e \in EdgesOf(C) : v \in e})
Complete(C) == LET nv == Cardinality(Verts(C)) IN (nv * (nv - 1)) \div 2 = Cardinality(EdgesOf(C))
IsCone(C)   == C # {} /\ \E v \in Verts(C) : \A s \in C : (s \cup {v}) \in C
Restricted(C, S) == {s \in C : s \subseteq S}
CoboundaryC(C, s) == {t \in C : s \subseteq t /\ Dim(t) = Dim(s) + 1}
=============================================================================
