SPECIFICATION Spec
CONSTANTS
  Mode = "single"
  NMax = 2
  Hi = 3
  NSmall = 2
  Stride = 1
  CheckDef = TRUE
INVARIANT ThDef
INVARIANT ThShape
INVARIANT ThArea
INVARIANT ThGrid
INVARIANT EmitCase
CHECK_DEADLOCK FALSE
