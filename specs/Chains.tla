-------------------------------- MODULE Chains --------------------------------
(* Sparse chains over Z_p: functions from a finite set of cell positions to   *)
(* 1..p-1 (absent = coefficient 0).  The zero chain is the empty function.    *)
EXTENDS Integers, FiniteSets, Sequences, FiniteSetsExt, TLC

Coef(c, x)  == IF x \in DOMAIN c THEN c[x] ELSE 0
NegP(a, p)  == (p - (a % p)) % p
InvP(a, p)  == CHOOSE b \in 1..(p - 1) : (a * b) % p = 1
AddScaled(c, k, d, p) ==          \* c + k*d  (k in 0..p-1)
  LET D == DOMAIN c \cup DOMAIN d
      v(x) == (Coef(c, x) + k * Coef(d, x)) % p
  IN  [x \in {y \in D : v(y) # 0} |-> v(x)]
SubChain(c, d, p) == AddScaled(c, p - 1, d, p)
ScaleChain(c, k, p) == AddScaled(<<>>, k % p, c, p)
IsZero(c)   == DOMAIN c = {}
MaxSupp(c)  == IF DOMAIN c = {} THEN 0 ELSE Max(DOMAIN c)
Sparse(f)   == [x \in {y \in DOMAIN f : f[y] # 0} |-> f[x]]
AllChains(S, p) == {Sparse(f) : f \in [S -> 0..(p - 1)]}
(* integer logarithm: Log(p, p^k) = k *)
RECURSIVE LogP(_, _)
LogP(p, n) == IF n <= 1 THEN 0 ELSE 1 + LogP(p, n \div p)
=============================================================================
