-------------------------- MODULE MC_MatrixLifecycle --------------------------
EXTENDS MatrixLifecycle, Json

Coefs == IF P = 2 THEN {1} ELSE 1..(P - 1)
Next ==
  \/ \E i \in Slots : Construct(i) \/ Destroy(i) \/ InsertVertex(i) \/ RemoveLast(i)
  \/ \E i \in Slots, a \in 1..MaxCells, b \in 1..MaxCells, c \in Coefs : InsertEdge(i, a, b, c)
  \/ \E i \in Slots, k \in 1..MaxCells : VineSwap(i, k)
  \/ \E i, j \in Slots : CopyConstruct(i, j) \/ CopyAssign(i, j) \/ MoveConstruct(i, j) \/ MoveAssign(i, j) \/ Swap(i, j)
Spec == Init /\ [][Next]_<<obj, prov, act>>
View == <<obj, prov>>
IdJ == [objs |-> IdObj(obj, prov)]
EmitState == PrintT(<<"STATE", ToJson([id |-> IdJ, obs |-> [objs |-> ObjJ(obj)]])>>)
EmitEdge == PrintT(<<"EDGE", ToJson([from |-> IdJ, act |-> act', to |-> [objs |-> IdObj(obj', prov')]])>>)
=============================================================================
