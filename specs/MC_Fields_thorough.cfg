SPECIFICATION Spec
CONSTANTS
  MaxP = 13
  T3 = 35
  T2 = 210
  T1 = 30030
  FullSel = 4
VIEW View
INVARIANT TypeOK
INVARIANT ThCRT
INVARIANT ThRing
INVARIANT ThIdem
INVARIANT ThInverse
INVARIANT EmitCase
CHECK_DEADLOCK FALSE
