SPECIFICATION Spec
CONSTANTS
  P = 2
  MaxCells = 7
  MaxD = 2
  AllowEmptyBd = FALSE
INVARIANT InvWellFormed
INVARIANT InvDefEqAlg
INVARIANT InvBetti
INVARIANT InvPartition
CHECK_DEADLOCK FALSE
