------------------------------- MODULE MC_Ripser -------------------------------
(* C11, "cases" style: one TLC state per symmetric integer dissimilarity matrix  *)
(* on n points (n in Ns, entries in Vals).  For every threshold in               *)
(* {0 (below the smallest entry)} + Vals + {none}, every dim_max in 0..n-1 (one  *)
(* more than n-2: the engine clamps) and every prime the diagram RipsPersistence *)
(* assigns to it is printed as a CASE line; the theorems of RipsPersistence are  *)
(* invariants (on every matrix whose hash is 0 mod ThEvery / ThDefEvery).        *)
(* The matrices are split over NSHARDS processes (environment SHARD, NSHARDS);   *)
(* with SampleEvery > 1 only a seeded (environment SEEDV) fraction of the family  *)
(* is taken.                                                                      *)
EXTENDS RipsPersistence, Json, IOUtils

CONSTANTS Ns, Vals, Primes, SampleEvery, ThEvery, ThDefEvery, ThDefMaxN
VARIABLE c

SH == atoi(IOEnv.SHARD)
NS == atoi(IOEnv.NSHARDS)

Hash(n, W) == FoldSet(LAMBDA e, acc : (acc * 7 + W[e] * (1 + Min(e) + 5 * Max(e))) % 1000003, n, DOMAIN W)
SD == atoi(IOEnv.SEEDV)
Mine(n, W) == LET h == Hash(n, W) IN
  /\ h % NS = SH
  /\ SampleEvery = 1 \/ ((h \div NS) + SD) % SampleEvery = 0     \* seeded sample of the family (SEEDV)
Cases == UNION {{[n |-> n, W |-> W] : W \in {X \in [Pairs(n) -> Vals] : Mine(n, X)}} : n \in Ns}

Ts       == {0} \cup Vals \cup {NoT}
Dmaxs(n) == 0..Hi(0, n - 1)

(* everything the specification says about one matrix *)
SubCases(n, W) ==
  UNION {UNION {LET full == RipsBarsFull(n, DenseGraph(n, W, t), Hi(0, n - 1), p) IN
                {[t |-> t, dmax |-> d, p |-> p, top |-> TopDim(n, d), diag_set |-> DiagramFromFull(full, d)] : d \in Dmaxs(n)}
                : p \in Primes} : t \in Ts}

Init == c \in Cases
Next == UNCHANGED c
Spec == Init /\ [][Next]_c

EmitCase ==
  PrintT(<<"CASE", ToJson([n |-> c.n,
                           e_set |-> {[a |-> Min(e), b |-> Max(e), w |-> c.W[e]] : e \in DOMAIN c.W},
                           radius |-> EnclosingRadius(c.n, c.W),
                           sub_set |-> SubCases(c.n, c.W)])>>)

Proved    == Hash(c.n, c.W) % ThEvery = 0
ProvedDef == c.n <= ThDefMaxN /\ Hash(c.n, c.W) % ThDefEvery = 0

InvFlag == Proved => \A t \in Ts : \A d \in 1..Hi(1, c.n) : ThFlag(c.n, DenseGraph(c.n, c.W, t), d)
InvChainComplex == Proved => \A t \in Ts, p \in Primes : ThChainComplex(c.n, DenseGraph(c.n, c.W, t), Hi(1, c.n), p)
InvDefAlg == Proved => \A t \in Ts, p \in Primes : \A d \in Dmaxs(c.n) : ThDefAlg(c.n, DenseGraph(c.n, c.W, t), d, p)
InvSkeleton == Proved => \A t \in Ts, p \in Primes : ThSkeleton(c.n, DenseGraph(c.n, c.W, t), Hi(0, c.n - 1), p)
InvCone == Proved => \A p \in Primes : \A d \in Dmaxs(c.n) :
              /\ ThCone(c.n, c.W, d, p)
              /\ RipsDiagramAlg(c.n, DenseGraph(c.n, c.W, MaxWeight(c.W)), d, p) = RipsDiagramAlg(c.n, c.W, d, p)
InvIsolated == Proved => \A t \in Ts, p \in Primes : \A d \in Dmaxs(c.n) : ThIsolated(c.n, DenseGraph(c.n, c.W, t), d, p)
InvSingleLinkage == \A t \in Ts, p \in Primes : ThSingleLinkage(c.n, DenseGraph(c.n, c.W, t), p)
InvDefinitional == ProvedDef => \A t \in Ts, p \in Primes : ThDefinitional(c.n, DenseGraph(c.n, c.W, t), c.n, p)
=============================================================================
