------------------------------ MODULE Trace_Fields ------------------------------
(* Validates executions recorded from the real coefficient classes               *)
(* (harness/fields_record) against Fields.tla / Fp.tla.  TRACE=<file.ndjson>.    *)
(* One event = one entry point of one class on one field with a batch of calls:  *)
(*   [cls, single, lo, hi, big, sem, via, ty, c |-> <<call, ...>>]                *)
(* Element values are integers (big = FALSE, modulus < 2^16) or signed Big        *)
(* records [neg, d] (big = TRUE); machine integers n are always Big records.      *)
(* Every call is recomputed at the residue level (ResT, PInvT, PIdT of Fields /   *)
(* Fp): the logged result must be reduced (0 <= r < P, checked on the digits)     *)
(* and have the residues the specification gives.  A call that does not conform   *)
(* is printed as <<"BAD", [line, idx]>>; the trace is accepted iff none is.       *)
EXTENDS Fields, Json, IOUtils

VARIABLES l, nbad
Tr == ndJsonDeserialize(IOEnv.TRACE)

MaxChar(cls) == IF cls = "persistent_cohomology::Field_Zp" THEN 46337 ELSE 2147483647

(* context of an event: primes, modulus (integer when it fits, digits always) *)
Ctx(e) == LET ps == PrimesIn(e.lo, e.hi)
          IN [ps |-> ps, big |-> e.big, PB |-> BigProd(ps), P |-> IF e.big THEN 0 ELSE Prod(ps)]

(* residues of an operand (any size, any sign) and of a result; reducedness of a result *)
Res(v, cx) == IF cx.big THEN SBigResidues(v, cx.ps) ELSE Residues(v, cx.ps)
Reduced(v, cx) == IF cx.big THEN ~v.neg /\ IsBig(v.d) /\ BigLess(v.d, cx.PB)
                  ELSE v >= 0 /\ v < cx.P
NRes(n, cx) == SBigResidues(n, cx.ps)
IsNum(v, d, cx) == IF cx.big THEN ~v.neg /\ v.d = d ELSE BigOf(v) = d      \* v is the number with digits d

CallOK(e, c, cx) ==
  LET ps == cx.ps  s == e.sem IN
  CASE s \in ArithOps ->
         Reduced(c[4], cx) /\ Res(c[4], cx) = ResT(s, Res(c[1], cx), Res(c[2], cx), Res(c[3], cx), ps)
    [] s = "val"      -> Reduced(c[3], cx) /\ Res(c[3], cx) = (IF c[2].d = <<-1>> THEN Res(c[1], cx) ELSE NRes(c[2], cx))
    [] s = "eq"       -> c[3] = (Res(c[1], cx) = Res(c[2], cx))
    [] s = "add_int"  -> Reduced(c[3], cx) /\ Res(c[3], cx) = AddT(Res(c[1], cx), NRes(c[2], cx), ps)
    [] s = "sub_int"  -> Reduced(c[3], cx) /\ Res(c[3], cx) = SubT(Res(c[1], cx), NRes(c[2], cx), ps)
    [] s = "rsub_int" -> Reduced(c[3], cx) /\ Res(c[3], cx) = SubT(NRes(c[2], cx), Res(c[1], cx), ps)
    [] s = "mul_int"  -> Reduced(c[3], cx) /\ Res(c[3], cx) = MulT(Res(c[1], cx), NRes(c[2], cx), ps)
    [] s = "eq_int"   -> c[3] = (Res(c[1], cx) = NRes(c[2], cx))
    [] s = "inv"      -> /\ Reduced(c[2], cx)
                         /\ Res(c[2], cx) = PInvT(Res(c[1], cx), DOMAIN ps, ps)
                         /\ (Len(ps) = 1 /\ Res(c[1], cx)[1] # 0) => IsInvOf(Res(c[2], cx)[1], Res(c[1], cx)[1], ps[1])
    [] s = "pinv"     -> LET x == Res(c[1], cx)  sel == SelOf(Res(c[2], cx))  t == PInvSel(x, sel, ps)
                         IN /\ IsNum(c[2], SubProdBig(sel, ps), cx)           \* Q is a sub-product of the primes (precondition)
                            /\ c[5] = 0                                       \* no hardware trap
                            /\ IsNum(c[3], SubProdBig(t, ps), cx)             \* T = the primes of Q where x is invertible
                            /\ Reduced(c[4], cx) /\ Res(c[4], cx) = PInvT(x, sel, ps)
    [] s = "pmi"      -> LET sel == SelOf(Res(c[1], cx))
                         IN /\ IsNum(c[1], SubProdBig(sel, ps), cx)
                            /\ Reduced(c[2], cx) /\ Res(c[2], cx) = PIdT(sel, ps)
    [] s = "zero"     -> Reduced(c[1], cx) /\ Res(c[1], cx) = ZeroT(ps)
    [] s = "one"      -> Reduced(c[1], cx) /\ Res(c[1], cx) = OneT(ps)
    [] s = "char"     -> IsNum(c[1], cx.PB, cx)
    [] s = "setchar"  -> c[3] = (IF HasPrime(c[1], c[2]) /\ c[2] <= MaxChar(e.cls) THEN "ok" ELSE "invalid_argument")
    [] OTHER          -> FALSE

(* the context is bound by a quantifier over a singleton: evaluated once per event *)
Bad(e) == UNION {{i \in DOMAIN e.c : ~CallOK(e, e.c[i], cx)} : cx \in {Ctx(e)}}

(* the variables of the register machine are not used by the trace specification *)
TraceInit == l = 1 /\ nbad = 0 /\ fld = Field(2, 2) /\ reg = <<0, 0, 0>> /\ act = [op |-> "trace"]
TraceNext == /\ l <= Len(Tr)
             /\ l' = l + 1
             /\ UNCHANGED vars
             /\ LET bad == Bad(Tr[l])
                IN /\ nbad' = nbad + Cardinality(bad)
                   /\ bad = {} \/ PrintT(<<"BAD", ToJson([line |-> l, idx |-> bad])>>)
TraceSpec == TraceInit /\ [][TraceNext]_<<l, nbad, vars>>
TraceView == <<l, nbad>>
(* accepted (by the check) iff every line was consumed and no BAD line was printed *)
Verdict ==
  LET m == TLCGet("stats").diameter - 1 IN
  PrintT(<<"TRACE", ToJson([accepted |-> (m = Len(Tr)), matched |-> m, len |-> Len(Tr)])>>)
=============================================================================
