-------------------------------- MODULE Cubical --------------------------------
(* Filtered cubical complexes of a rectangular grid, with or without periodic  *)
(* directions (Bitmap_cubical_complex over Bitmap_cubical_complex_base and      *)
(* Bitmap_cubical_complex_periodic_boundary_conditions_base).                  *)
(*                                                                             *)
(* A shape  sh = [n |-> <<n_1..n_D>>, per |-> <<b_1..b_D>>] : n_i top cells in *)
(* direction i, b_i = the direction is periodic.  Axis 1 is the first entry of *)
(* the `dimensions` vector of the constructors (Fortran order: it varies       *)
(* fastest in the list of input values).                                       *)
(*                                                                             *)
(* A cell is a vector of coordinates x_i in 0..2n_i (0..2n_i-1 on a periodic   *)
(* axis): even = degenerate interval [x/2,x/2], odd = [(x-1)/2,(x+1)/2].       *)
(* The handle of a cell IS its position in the bitmap: sum x_i * mult_i with   *)
(* mult_1 = 1, mult_(i+1) = mult_i * (number of coordinates on axis i).        *)
(*                                                                             *)
(* var in {"base","periodic"} names the class: the two classes enumerate the   *)
(* boundary in opposite orders (both alternate).                               *)
EXTENDS Persistence
LOCAL INSTANCE SequencesExt

INF == 1000000          \* +infinity of the filtration values (vf::INF_CODE)

-----------------------------------------------------------------------------
(* index arithmetic *)
NAxes(sh)   == Len(sh.n)
Ext(sh, i)  == IF sh.per[i] THEN 2 * sh.n[i] ELSE 2 * sh.n[i] + 1
RECURSIVE Mult(_, _)
Mult(sh, i) == IF i = 1 THEN 1 ELSE Mult(sh, i - 1) * Ext(sh, i - 1)
NumCells(sh) == Mult(sh, NAxes(sh) + 1)
Cells(sh)   == 0..(NumCells(sh) - 1)
Coord(sh, c, i) == (c \div Mult(sh, i)) % Ext(sh, i)
RECURSIVE IndexFrom(_, _, _)
IndexFrom(sh, x, i) == IF i = 0 THEN 0 ELSE x[i] * Mult(sh, i) + IndexFrom(sh, x, i - 1)
IndexOf(sh, x) == IndexFrom(sh, x, NAxes(sh))
CoordSpace(sh) == [1..NAxes(sh) -> 0..(2 * Max({0} \cup {sh.n[i] : i \in 1..NAxes(sh)}))]
ValidCoords(sh) == {x \in CoordSpace(sh) : \A i \in 1..NAxes(sh) : x[i] < Ext(sh, i)}

(* tables of a shape (computed once per case).  TLC evaluates [x \in S |-> e] lazily, *)
(* re-evaluating e at every application; Tab forces the explicit table.              *)
Tab(f) == f @@ <<>>
Tables(sh) ==
  LET D == NAxes(sh)
      N == NumCells(sh)
      mult == Tab([i \in 1..D |-> Mult(sh, i)])
      ext  == Tab([i \in 1..D |-> Ext(sh, i)])
      co   == Tab([c \in 0..(N - 1) |-> Tab([i \in 1..D |-> (c \div mult[i]) % ext[i]])])
  IN  [D |-> D, N |-> N, mult |-> mult, ext |-> ext, co |-> co,
       dim |-> Tab([c \in 0..(N - 1) |-> Cardinality({i \in 1..D : co[c][i] % 2 = 1})])]

(* the two faces of cell c in an odd direction i, the two cofaces in an even direction *)
LeftOf(T, c, i)  == c - T.mult[i]
RightOf(T, c, i) == IF T.co[c][i] = T.ext[i] - 1 THEN c - (T.ext[i] - 1) * T.mult[i] ELSE c + T.mult[i]
(* documented incidence number (compute_incidence_between_cells):                      *)
(*   c * (-1)^(number of non degenerate intervals before direction i), c = -1 left, +1 right *)
OddBefore(T, c, i) == Cardinality({j \in 1..(i - 1) : T.co[c][j] % 2 = 1})
IncidenceAt(T, c, i, right) ==
  (IF OddBefore(T, c, i) % 2 = 0 THEN 1 ELSE -1) * (IF right THEN 1 ELSE -1)

(* boundary in the order of get_boundary_of_a_cell: directions from the last to the    *)
(* first; in the s-th non degenerate direction met (s = 0,1,..): base class: left,right *)
(* when s is even, right,left when s is odd; the periodic class the other way round.   *)
(* Elements: [f |-> face, ax |-> direction, right |-> BOOLEAN, inc |-> documented incidence] *)
RECURSIVE BdFrom(_, _, _, _, _)
BdFrom(T, var, c, i, s) ==
  IF i = 0 THEN <<>>
  ELSE IF T.co[c][i] % 2 = 1
       THEN LET l == [f |-> LeftOf(T, c, i),  ax |-> i, right |-> FALSE, inc |-> IncidenceAt(T, c, i, FALSE)]
                r == [f |-> RightOf(T, c, i), ax |-> i, right |-> TRUE,  inc |-> IncidenceAt(T, c, i, TRUE)]
                leftFirst == (var = "base") = (s % 2 = 0)
            IN  (IF leftFirst THEN <<l, r>> ELSE <<r, l>>) \o BdFrom(T, var, c, i - 1, s + 1)
       ELSE BdFrom(T, var, c, i - 1, s)
BdRecs(T, var, c) == BdFrom(T, var, c, T.D, 0)
BdSeq(T, var, c)  == LET b == BdRecs(T, var, c) IN Tab([k \in DOMAIN b |-> b[k].f])
(* sign of the k-th enumerated element: alternating, the first one positive *)
EnumSign(k) == IF k % 2 = 1 THEN 1 ELSE -1

(* coboundary in the order of get_coboundary_of_a_cell (documented without order) *)
RECURSIVE CbdFrom(_, _, _, _)
CbdFrom(T, sh, c, i) ==
  IF i = 0 THEN <<>>
  ELSE IF T.co[c][i] % 2 = 0
       THEN (IF sh.per[i]
             THEN IF T.co[c][i] # 0 THEN <<c - T.mult[i], c + T.mult[i]>>
                  ELSE <<c + T.mult[i], c + (T.ext[i] - 1) * T.mult[i]>>
             ELSE (IF T.co[c][i] # 0 THEN <<c - T.mult[i]>> ELSE <<>>) \o
                  (IF T.co[c][i] # T.ext[i] - 1 THEN <<c + T.mult[i]>> ELSE <<>>))
            \o CbdFrom(T, sh, c, i - 1)
       ELSE CbdFrom(T, sh, c, i - 1)
CbdSeq(T, sh, c) == CbdFrom(T, sh, c, T.D)

-----------------------------------------------------------------------------
(* geometry, independent of the index arithmetic: the closed interval of coordinate x   *)
(* on axis i as a set of doubled positions; f is a face of c iff every interval of f is  *)
(* contained in the one of c                                                              *)
Pts(T, x, i) == IF x % 2 = 0 THEN {x} ELSE {x - 1, x, (x + 1) % T.ext[i]}
SubCell(T, f, c) == \A i \in 1..T.D : Pts(T, T.co[f][i], i) \subseteq Pts(T, T.co[c][i], i)
FacetsGeo(T, c)  == {f \in 0..(T.N - 1) : T.dim[f] = T.dim[c] - 1 /\ SubCell(T, f, c)}
CofacetsGeo(T, f) == {c \in 0..(T.N - 1) : T.dim[c] = T.dim[f] + 1 /\ SubCell(T, f, c)}

(* top dimensional cells and vertices in the order of the input value lists: counters    *)
(* (t_1..t_D), t_1 fastest; cell (2 t_i + 1)_i resp. (2 t_i)_i                            *)
RECURSIVE ProdUpTo(_, _)
ProdUpTo(cnt, i) == IF i = 0 THEN 1 ELSE cnt[i] * ProdUpTo(cnt, i - 1)
GridSeq(T, cnt, off) ==   \* cnt[i] = number of counters on axis i
  Tab([k \in 1..ProdUpTo(cnt, T.D) |->
     LET t == [i \in 1..T.D |-> ((k - 1) \div ProdUpTo(cnt, i - 1)) % cnt[i]]
         RECURSIVE S(_)
         S(i) == IF i = 0 THEN 0 ELSE (2 * t[i] + off) * T.mult[i] + S(i - 1)
     IN  S(T.D)])
TopSeq(T, sh)  == GridSeq(T, sh.n, 1)
VertCount(sh)  == [i \in 1..NAxes(sh) |-> IF sh.per[i] THEN sh.n[i] ELSE sh.n[i] + 1]
VertSeq(T, sh) == GridSeq(T, VertCount(sh), 0)
(* the `dimensions` argument of the constructors *)
CtorDims(sh, conv) == IF conv = "top" THEN sh.n ELSE VertCount(sh)

(* values: lower star of the top cell values / upper star of the vertex values *)
MinOf(S) == CHOOSE x \in S : \A y \in S : x <= y
MaxOf(S) == CHOOSE x \in S : \A y \in S : x >= y
ValuesTop(T, sh, vals) ==
  LET ts == TopSeq(T, sh) IN
  Tab([c \in 0..(T.N - 1) |-> MinOf({vals[k] : k \in {j \in DOMAIN ts : SubCell(T, c, ts[j])}})])
ValuesVert(T, sh, vals) ==
  LET vs == VertSeq(T, sh) IN
  Tab([c \in 0..(T.N - 1) |-> MaxOf({vals[k] : k \in {j \in DOMAIN vs : SubCell(T, vs[j], c)}})])
ValuesOf(T, sh, conv, vals) == IF conv = "top" THEN ValuesTop(T, sh, vals) ELSE ValuesVert(T, sh, vals)

(* filtration order: value, then dimension, then position in the bitmap *)
Before(T, val, a, b) ==
  \/ val[a] < val[b]
  \/ val[a] = val[b] /\ (T.dim[a] < T.dim[b] \/ (T.dim[a] = T.dim[b] /\ a < b))
OrderOf(T, val) == SortSeq([k \in 1..T.N |-> k - 1], LAMBDA a, b : Before(T, val, a, b))
PositionsOf(T, ord) ==     \* inverse permutation, by one pass
  FoldLeft(LAMBDA acc, k : [acc EXCEPT ![ord[k]] = k], Tab([c \in 0..(T.N - 1) |-> 0]), [k \in 1..T.N |-> k])

(* the filtered cell complex in the sense of Persistence.tla over Z_p, boundary chain of *)
(* a cell = its enumerated boundary with alternating signs                                *)
SignedChain(seq, pos, p) ==      \* seq: sequence of faces; coefficient of a face = sum of the signs of its occurrences
  LET S == {seq[k] : k \in DOMAIN seq}
      coef(f) == (FoldSet(LAMBDA k, acc : acc + (IF seq[k] = f THEN EnumSign(k) ELSE 0), 0, DOMAIN seq) + 2 * p) % p
  IN  Tab([q \in {pos[f] : f \in {g \in S : coef(g) # 0}} |->
             coef(CHOOSE f \in S : pos[f] = q)])
FilteredOf(T, bdseq, ord, pos, p) ==
  Tab([k \in 1..T.N |-> [dim |-> T.dim[ord[k]], bd |-> SignedChain(bdseq[ord[k]], pos, p)]])

(* The column reduction of Persistence.tla (ReduceColumn, the pairing read off the pivots by  *)
(* BarsOf), driven by an iterative fold instead of the recursion of ReduceFrom: TLC evaluates   *)
(* operator arguments lazily, and ReduceFrom on a few hundred cells builds a chain of suspended *)
(* evaluations as deep as the complex.  Same steps, same result (theorem ThReduction).          *)
StrictReduced(F, p) ==
  FoldLeft(LAMBDA st, i :
             LET col == ReduceColumn(F[i].bd, st.R, st.piv, p) IN
             [R |-> (i :> col) @@ st.R,
              piv |-> IF IsZero(col) THEN st.piv ELSE (Max(DOMAIN col) :> i) @@ st.piv],
           [R |-> <<>>, piv |-> <<>>], [i \in 1..Len(F) |-> i])
StrictBars(F, p) == BarsOf(F, StrictReduced(F, p))
RedCheckMax == 36        \* complexes up to this size: StrictReduced = AlgReduced is checked in the model

(* diagram in values as Persistent_cohomology reports it with min_interval_length = 0:   *)
(* a finite pair is kept iff death value > birth value (+infinity is not > +infinity),    *)
(* an essential class always, with death +infinity                                        *)
CubDiagram(bars, ord, val) ==
  LET pts  == {[dim |-> b.dim, b |-> val[ord[b.birth]],
                d |-> IF b.death = 0 THEN INF ELSE val[ord[b.death]], id |-> b.birth, ess |-> b.death = 0] : b \in bars}
      keep == {x \in pts : x.ess \/ x.d > x.b}
      keys == {[dim |-> x.dim, b |-> x.b, d |-> x.d] : x \in keep}
  IN  {[dim |-> k.dim, b |-> k.b, d |-> k.d,
        n |-> Cardinality({x \in keep : x.dim = k.dim /\ x.b = k.b /\ x.d = k.d})] : k \in keys}
BettiOf(bars, D) == Tab([k \in 1..(D + 1) |-> Cardinality({b \in bars : b.dim = k - 1 /\ b.death = 0})])

(* everything the specification says about one input *)
Complex(sh, var, conv, vals, primes) ==
  LET T     == Tables(sh)
      val   == ValuesOf(T, sh, conv, vals)
      ord   == OrderOf(T, val)
      pos   == PositionsOf(T, ord)
      bdseq == Tab([c \in 0..(T.N - 1) |-> BdSeq(T, var, c)])
      pers  == Tab([p \in primes |->
                  LET F == FilteredOf(T, bdseq, ord, pos, p)
                      bars == StrictBars(F, p)
                  IN  [F |-> F, bars |-> bars, diag |-> CubDiagram(bars, ord, val), betti |-> BettiOf(bars, T.D)]])
  IN  [T |-> T, val |-> val, ord |-> ord, pos |-> pos, bdseq |-> bdseq, pers |-> pers]

-----------------------------------------------------------------------------
(* theorems about a shape (checked by TLC on every shape of the bounded model) *)
RECURSIVE Binom(_, _)
Binom(n, k) == IF k = 0 THEN 1 ELSE IF k > n THEN 0 ELSE Binom(n - 1, k - 1) + Binom(n - 1, k)

ThIndexBijection(T, sh) ==   \* coordinates <-> bitmap positions
  /\ \A c \in Cells(sh) : IndexOf(sh, T.co[c]) = c /\ T.co[c] \in ValidCoords(sh)
  /\ Cardinality(ValidCoords(sh)) = T.N
  /\ \A x \in ValidCoords(sh) : IndexOf(sh, x) \in Cells(sh) /\ T.co[IndexOf(sh, x)] = x

(* boundary of boundary = 0 over Z (hence over every Z_p): for every cell c and every cell g   *)
(* reached in two steps the signed number of paths c -> f -> g is 0                            *)
DDZero(T, bd, sign(_, _)) ==      \* bd[c]: sequence of faces; sign(c, k): sign of the k-th one
  \A c \in 0..(T.N - 1) :
    \A g \in UNION {{bd[bd[c][k]][l] : l \in DOMAIN bd[bd[c][k]]} : k \in DOMAIN bd[c]} :
        FoldSet(LAMBDA k, acc :
                  LET f == bd[c][k] IN
                  acc + FoldSet(LAMBDA l, a2 : a2 + (IF bd[f][l] = g THEN sign(c, k) * sign(f, l) ELSE 0),
                                0, DOMAIN bd[f]),
                0, DOMAIN bd[c]) = 0

GeoTables(T) ==
  LET fg == Tab([c \in 0..(T.N - 1) |-> FacetsGeo(T, c)]) IN
  [facets |-> fg, cofacets |-> Tab([f \in 0..(T.N - 1) |-> {c \in 0..(T.N - 1) : f \in fg[c]}])]

ThBoundary(T, G, var) ==
  LET br == Tab([c \in 0..(T.N - 1) |-> BdRecs(T, var, c)])
      bd == Tab([c \in 0..(T.N - 1) |-> Tab([k \in DOMAIN br[c] |-> br[c][k].f])])
      eps(d) == IF (d % 2 = 0) = (var = "base") THEN 1 ELSE -1
  IN
  /\ \A c \in 0..(T.N - 1) :
       /\ Len(bd[c]) = 2 * T.dim[c]
       /\ \A k \in DOMAIN bd[c] : bd[c][k] \in 0..(T.N - 1)
       \* the enumerated faces are the geometric ones, each once
       /\ {bd[c][k] : k \in DOMAIN bd[c]} = G.facets[c]
       /\ Cardinality(G.facets[c]) = 2 * T.dim[c]
       \* the documented incidences alternate along the enumeration, with a sign that depends
       \* on the dimension (and the class) only
       /\ \A k \in DOMAIN bd[c] : EnumSign(k) = eps(T.dim[c]) * br[c][k].inc
  \* boundary of boundary = 0, with the alternating signs and with the documented incidences
  /\ DDZero(T, bd, LAMBDA c, k : EnumSign(k))
  /\ DDZero(T, bd, LAMBDA c, k : br[c][k].inc)

ThCoboundary(T, G, sh) ==  \* boundary and coboundary are converse relations, and geometric
  \A f \in 0..(T.N - 1) :
    LET cb == CbdSeq(T, sh, f) IN
    /\ {cb[k] : k \in DOMAIN cb} = G.cofacets[f]
    /\ Len(cb) = Cardinality(G.cofacets[f])
    /\ G.cofacets[f] = {c \in 0..(T.N - 1) : T.dim[c] = T.dim[f] + 1 /\ SubCell(T, f, c)}
    /\ \A c \in G.cofacets[f] : \E k \in 1..(2 * T.dim[c]) : BdSeq(T, "base", c)[k] = f

ThGrid(T, sh) ==          \* the input lists enumerate the top cells / the vertices, each once
  LET ts == TopSeq(T, sh)  vs == VertSeq(T, sh) IN
  /\ {vs[k] : k \in DOMAIN vs} = {c \in 0..(T.N - 1) : T.dim[c] = 0}
  /\ Len(vs) = Cardinality({c \in 0..(T.N - 1) : T.dim[c] = 0})
  /\ (\A i \in 1..T.D : sh.n[i] >= 1) =>
       /\ {ts[k] : k \in DOMAIN ts} = {c \in 0..(T.N - 1) : T.dim[c] = T.D}
       /\ Len(ts) = Cardinality({c \in 0..(T.N - 1) : T.dim[c] = T.D})
  /\ \A k \in 1..(Len(vs) - 1) : vs[k] < vs[k + 1]       \* "in increasing order"
  /\ \A k \in 1..(Len(ts) - 1) : ts[k] < ts[k + 1]

(* theorems about a valued complex X = Complex(...) *)
ThValues(sh, conv, X) ==  \* a filtration: faces not later than cofaces; inputs are reproduced
  LET T == X.T IN
  /\ \A c \in 0..(T.N - 1) : \A k \in DOMAIN X.bdseq[c] : X.val[X.bdseq[c][k]] <= X.val[c]
ThOrder(X) ==             \* total, non decreasing, faces first
  LET T == X.T IN
  /\ Len(X.ord) = T.N /\ {X.ord[k] : k \in 1..T.N} = 0..(T.N - 1)
  /\ \A k \in 1..(T.N - 1) : X.val[X.ord[k]] <= X.val[X.ord[k + 1]]
  /\ \A c \in 0..(T.N - 1) : \A k \in DOMAIN X.bdseq[c] : X.pos[X.bdseq[c][k]] < X.pos[c]
  /\ \A c \in 0..(T.N - 1) : X.ord[X.pos[c]] = c
ThPersistence(sh, X, primes) ==   \* a valid filtered chain complex; every cell in one bar; Betti numbers of the grid:
  LET T == X.T                    \* a product of circles (periodic directions) and intervals (Kunneth)
      nper == Cardinality({i \in 1..T.D : sh.per[i]})
  IN
  \A p \in primes :
    /\ WellFormed(X.pers[p].F, p)
    /\ T.N <= RedCheckMax =>      \* the iterative driver computes the reduction of Persistence.tla
         LET a == AlgReduced(X.pers[p].F, p)  s == StrictReduced(X.pers[p].F, p) IN a.R = s.R /\ a.piv = s.piv
    /\ \A i \in 1..T.N : Cardinality({b \in X.pers[p].bars : b.birth = i \/ b.death = i}) = 1
    /\ \A k \in 0..T.D : X.pers[p].betti[k + 1] = Binom(nper, k)
=============================================================================
