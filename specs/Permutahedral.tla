---------------------------- MODULE Permutahedral ----------------------------
(* Simplices of the Freudenthal-Kuhn triangulation of R^d (and of its affine  *)
(* images, in particular the Coxeter triangulation of type A~_d) in            *)
(* permutahedral representation, as documented in                              *)
(*   Permutahedral_representation.h, Freudenthal_triangulation.h and           *)
(*   doc/intro_coxeter_triangulation.h :                                        *)
(* a simplex is a pair (v, p): v an integer vector of size d "that positions   *)
(* the simplex in a specific cube of the cubical partition", p an ordered       *)
(* partition of the labels 0..d.  Its vertices are                              *)
(*     u_0 = v,   u_j = u_(j-1) + e(p_j)         (j = 1 .. number of parts - 1) *)
(* where e(A) adds 1 on the coordinates whose label is in A, and the label d    *)
(* stands for -(1,..,1) (Vertex_iterator::update_value, face_from_indices).     *)
(* A representation is canonical when d is in the last part: then v is the      *)
(* lexicographically minimal vertex (doc of vertex()) and all vertices lie in   *)
(* the cube v + {0,1}^d.  Coface_iterator rejects non canonical arguments        *)
(* ("not a permutahedral representation").                                       *)
(*                                                                              *)
(* Vertices are 1-based tuples: coordinate i of the tuple is label i-1.          *)
(* Points are given in reference coordinates as integer tuples scaled by S.     *)
EXTENDS Integers, Sequences, FiniteSets, FiniteSetsExt, SequencesExt

(* ------------------------------------------------------------------ ordered partitions *)
RECURSIVE OrdPartitions(_)
OrdPartitions(L) ==
  IF L = {} THEN {<<>>}
  ELSE UNION {{<<A>> \o q : q \in OrdPartitions(L \ A)} : A \in (SUBSET L) \ {{}}}

IsOrdPartition(d, p) ==
  /\ Len(p) >= 1
  /\ \A j \in DOMAIN p : p[j] # {} /\ p[j] \subseteq 0..d
  /\ \A i, j \in DOMAIN p : i # j => p[i] \cap p[j] = {}
  /\ UNION {p[j] : j \in DOMAIN p} = 0..d

IsCanonical(d, p) == d \in p[Len(p)]
CanonPartitions(d) == {p \in OrdPartitions(0..d) : IsCanonical(d, p)}

(* ------------------------------------------------------------------ simplices *)
Dim(s) == Len(s.p) - 1

Cum(p, j) == UNION {p[i] : i \in 1..j}          \* labels of the first j parts

(* j-th vertex, j = 0..Dim(s) *)
VertexAt(d, s, j) ==
  LET A == Cum(s.p, j) IN
  [i \in 1..d |-> s.v[i] + (IF (i - 1) \in A THEN 1 ELSE 0) - (IF d \in A THEN 1 ELSE 0)]

VertexSeq(d, s) == [j \in 1..Len(s.p) |-> VertexAt(d, s, j - 1)]
VertexSet(d, s) == {VertexAt(d, s, j) : j \in 0..Dim(s)}

RECURSIVE SumTo(_, _)
SumTo(f, n) == IF n = 0 THEN 0 ELSE f[n] + SumTo(f, n - 1)     \* f[1] + .. + f[n]

CoordSum(d, u) == SumTo(u, d)

(* A set of lattice points is (the vertex set of) a simplex of the triangulation iff it is a *)
(* chain for the coordinatewise order contained in one unit cube.                             *)
Leq(d, a, b) == \A i \in 1..d : a[i] <= b[i]
IsChain(d, W) ==
  /\ W # {}
  /\ \A a, b \in W : Leq(d, a, b) \/ Leq(d, b, a)
  /\ \A a, b \in W : \A i \in 1..d : b[i] - a[i] \in {-1, 0, 1}

(* the canonical representation of the simplex whose vertex set is the chain W *)
FromVertices(d, W) ==
  LET q    == SetToSortSeq(W, LAMBDA a, b : CoordSum(d, a) < CoordSum(d, b))
      k    == Len(q) - 1
      step == [j \in 1..k |-> {i - 1 : i \in {i \in 1..d : q[j + 1][i] - q[j][i] = 1}}]
      used == UNION {step[j] : j \in 1..k}
  IN [v |-> q[1], p |-> [j \in 1..(k + 1) |-> IF j <= k THEN step[j] ELSE (0..d) \ used]]

(* faces: exactly the non-empty subsets of the vertex set *)
FacesOfDim(d, s, k) == {FromVertices(d, W) : W \in kSubset(k + 1, VertexSet(d, s))}
AllFaces(d, s) == UNION {FacesOfDim(d, s, k) : k \in 0..Dim(s)}

(* the same faces by ordered-partition arithmetic: choose vertex indices i_0 < .. < i_k among  *)
(* 0..Dim(s); consecutive parts between two chosen vertices merge, the parts after the last    *)
(* and before the first chosen vertex merge cyclically into the last part                       *)
MergeFace(d, s, I) ==
  LET q  == SetToSortSeq(I, <)
      k  == Len(q) - 1
      l  == Dim(s)
      Between(a, b) == UNION {s.p[j] : j \in (a + 1)..b}
  IN [v |-> VertexAt(d, s, q[1]),
      p |-> [h \in 1..(k + 1) |-> IF h <= k THEN Between(q[h], q[h + 1])
                                            ELSE Between(q[k + 1], l + 1) \cup Between(0, q[1])]]
FacesByMerge(d, s, k) == {MergeFace(d, s, I) : I \in kSubset(k + 1, 0..Dim(s))}

IsFaceOf(d, s, t) == VertexSet(d, s) \subseteq VertexSet(d, t)

(* cofaces of dimension l: the l-simplices of the triangulation whose vertex set contains the  *)
(* vertex set of s.  Every vertex of a simplex lies in the cube of its minimal vertex, hence   *)
(* the minimal vertex of a coface is in s.v - {0,1}^d (Around); AroundWide is the definition   *)
(* over a larger neighbourhood used to check that claim in the bounded model.                   *)
Shifts(d, lo, hi) == [1..d -> lo..hi]
Around(d, v, l, lo, hi) ==
  {[v |-> [i \in 1..d |-> v[i] + w[i]], p |-> p] :
      w \in Shifts(d, lo, hi), p \in {p \in CanonPartitions(d) : Len(p) = l + 1}}
Cofaces(d, s, l) == {t \in Around(d, s.v, l, -1, 0) : IsFaceOf(d, s, t)}
CofacesWide(d, s, l) == {t \in Around(d, s.v, l, -1, 1) : IsFaceOf(d, s, t)}

(* number of ordered partitions of n labels in a parts; number of l-cofaces of s: every part   *)
(* is refined into an ordered partition (the last one cyclically), l+1 parts in total           *)
RECURSIVE Osp(_, _)
Osp(n, a) == IF n = 0 THEN (IF a = 0 THEN 1 ELSE 0)
             ELSE IF a = 0 \/ a > n THEN 0
             ELSE a * (Osp(n - 1, a) + Osp(n - 1, a - 1))
RECURSIVE RefineCount(_, _, _)
RefineCount(sizes, j, m) ==     \* ways to refine parts j..Len(sizes) into m parts in total
  IF j > Len(sizes) THEN (IF m = 0 THEN 1 ELSE 0)
  ELSE SumTo([a \in 1..m |-> Osp(sizes[j], a) * RefineCount(sizes, j + 1, m - a)], m)
CofaceCount(s, l) == RefineCount([j \in DOMAIN s.p |-> Cardinality(s.p[j])], 1, l + 1)

(* ------------------------------------------------------------------ point location *)
(* y: reference coordinates scaled by S > 0 (exact rationals y[i]/S).  Floor every coordinate, *)
(* order the labels by decreasing fractional part (label d has fractional part 0), equal       *)
(* fractional parts share a part: the point then lies on a lower dimensional simplex           *)
(* ("the returned simplex is always minimal by inclusion").                                     *)
Frac(d, S, y, lbl) == IF lbl = d THEN 0 ELSE y[lbl + 1] % S
Locate(d, S, y) ==
  LET vals == {Frac(d, S, y, lbl) : lbl \in 0..d}
      q    == SetToSortSeq(vals, >)
  IN [v |-> [i \in 1..d |-> y[i] \div S],
      p |-> [j \in 1..Len(q) |-> {lbl \in 0..d : Frac(d, S, y, lbl) = q[j]}]]

(* barycentric coordinates (scaled by S) of y in a canonical simplex s, when the coordinates   *)
(* of y - v are constant on every part: weight of vertex j, j = 0..Dim(s)                       *)
PartLevel(d, S, y, s, j) ==     \* common value of S*(y - v) on part j (0 on the last part)
  IF j > Dim(s) THEN 0 ELSE LET lbl == CHOOSE lbl \in s.p[j] : TRUE IN y[lbl + 1] - S * s.v[lbl + 1]
ConstantOnParts(d, S, y, s) ==
  /\ \A j \in 1..Dim(s) : \A lbl \in s.p[j] : y[lbl + 1] - S * s.v[lbl + 1] = PartLevel(d, S, y, s, j)
  /\ \A lbl \in s.p[Dim(s) + 1] \ {d} : y[lbl + 1] - S * s.v[lbl + 1] = 0
Weight(d, S, y, s, j) ==
  (IF j = 0 THEN S ELSE PartLevel(d, S, y, s, j)) - PartLevel(d, S, y, s, j + 1)
(* y is in the relative interior of the canonical simplex s *)
InRelInt(d, S, y, s) ==
  /\ IsCanonical(d, s.p)
  /\ ConstantOnParts(d, S, y, s)
  /\ \A j \in 0..Dim(s) : Weight(d, S, y, s, j) > 0

(* the definition: positive weights summing to 1 whose combination of the vertices is y *)
InRelIntDef(d, S, y, s) ==
  \E w \in [1..(Dim(s) + 1) -> 1..S] :      \* w[j] / S : weight of vertex j - 1
    /\ SumTo(w, Dim(s) + 1) = S
    /\ \A i \in 1..d : SumTo([j \in 1..(Dim(s) + 1) |-> w[j] * VertexAt(d, s, j - 1)[i]], Dim(s) + 1) = y[i]

ASSUME (-1) \div 8 = -1 /\ (-1) % 8 = 7 /\ (-9) \div 8 = -2 /\ (-16) \div 8 = -2
=============================================================================
