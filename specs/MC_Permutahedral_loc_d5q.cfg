SPECIFICATION Spec
CONSTANTS
  D = 5
  Mode = "locate"
  NBases = 1
  NonCanon = FALSE
  S = 4
  LoNeg = 1
  Hi = 1
  Wide = FALSE
INVARIANT ThLocate
INVARIANT ThUnique
INVARIANT EmitCase
CHECK_DEADLOCK FALSE
