------------------------- MODULE Trace_Permutahedral -------------------------
(* Validates calls recorded from the real Permutahedral_representation,        *)
(* Freudenthal_triangulation and Coxeter_triangulation (harness/perm_record)   *)
(* against the operators of Permutahedral.tla.  Every event carries its input  *)
(* and the observed output, integers only; the operations are functions, so    *)
(* every line is checked on its own.  TRACE=<file.ndjson> in the environment.  *)
EXTENDS Permutahedral, Json, IOUtils, TLC

VARIABLE l
Tr == ndJsonDeserialize(IOEnv.TRACE)

SetOf(q) == {q[i] : i \in DOMAIN q}
Sx(j) == [v |-> j.v, p |-> [i \in DOMAIN j.p |-> SetOf(j.p[i])]]
Has(e, k) == k \in DOMAIN e
WellFormed(d, s) == Len(s.v) = d /\ IsOrdPartition(d, s.p) /\ IsCanonical(d, s.p)

(* vertex_range of a simplex: dimension + 1 vertices, the documented ones (no order is documented) *)
VertsOK(d, s, verts) == Len(verts) = Dim(s) + 1 /\ SetOf(verts) = VertexSet(d, s)

(* exact affine image: row i of the matrix has the single entry mnum[i]/mden in column col[i]; offset b/Q;   *)
(* the triangulation is scaled by sn/sd;  point = M * (y/S) / (sn/sd) + b, logged as pt/Q                      *)
PointOK(e) ==
  \A i \in 1..e.d : e.pt[i] * e.S * e.sn * e.mden = e.mnum[i] * e.y[e.col[i]] * e.Q * e.sd + e.b[i] * e.S * e.sn * e.mden
(* cartesian_coordinates(u, scale) = M * (u / scale) + b, logged as c/Q *)
CartOK(e, u, c) ==
  \A i \in 1..e.d : c[i] * e.sn * e.mden = e.mnum[i] * u[e.col[i]] * e.sd * e.Q + e.b[i] * e.sn * e.mden

LocateOK(e) ==
  LET d == e.d  s == Sx(e.ret)
      idx(u) == CHOOSE j \in 0..Dim(s) : VertexAt(d, s, j) = u   \* position of a vertex in the chain
  IN
  /\ Len(e.y) = d /\ PointOK(e)
  /\ ~Has(e, "off_lattice")                   \* coordinates of dyadic data computed by exact operations are dyadic
  /\ WellFormed(d, s)
  /\ InRelInt(d, e.S, e.y, s)                 \* all barycentric weights > 0: relative interior
  /\ s = Locate(d, e.S, e.y)                  \* hence the unique such simplex
  /\ VertsOK(d, s, e.verts)
  /\ Len(e.cart) = Len(e.verts)
  /\ \A j \in DOMAIN e.verts : CartOK(e, e.verts[j], e.cart[j])
  /\ \A i \in 1..d :                          \* the point is that convex combination of the returned coordinates
       SumTo([j \in DOMAIN e.verts |-> Weight(d, e.S, e.y, s, idx(e.verts[j])) * e.cart[j][i]], Len(e.verts))
         = e.S * e.pt[i]
  /\ Has(e, "bary8") =>                       \* barycenter, logged scaled by 8Q
       \A i \in 1..d : e.bary8[i] * (Dim(s) + 1) = 8 * SumTo([j \in DOMAIN e.cart |-> e.cart[j][i]], Len(e.cart))

(* inexact transformations (Coxeter matrix, shears): the point is A*y+b with y at distance >= 1/S from every  *)
(* wall, only the combinatorial answer is compared                                                             *)
MarginOK(e) ==
  LET d == e.d  s == Sx(e.ret)  x == Locate(d, e.S, e.y) IN
  /\ Dim(x) = d
  /\ WellFormed(d, s)
  /\ s = x
  /\ VertsOK(d, s, e.verts)

FacesOK(e) ==
  LET d == e.d  s == Sx(e.s)  F == {Sx(e.faces[i]) : i \in DOMAIN e.faces} IN
  /\ WellFormed(d, s)
  /\ VertsOK(d, s, e.verts)
  /\ Len(e.faces) = Cardinality(F)
  /\ F = FacesOfDim(d, s, e.k)
  /\ \A f \in F : IsFaceOf(d, f, s) /\ Dim(f) = e.k

CofacesOK(e) ==
  LET d == e.d  s == Sx(e.s)  C == {Sx(e.cofaces[i]) : i \in DOMAIN e.cofaces} IN
  /\ WellFormed(d, s)
  /\ e.l \in Dim(s)..d
  /\ Len(e.cofaces) = Cardinality(C)                       \* no repetition
  /\ \A t \in C : WellFormed(d, t) /\ Dim(t) = e.l /\ IsFaceOf(d, s, t) /\ s \in FacesOfDim(d, t, Dim(s))
  /\ Cardinality(C) = CofaceCount(s, e.l)                  \* all of them (counting theorem ThCofaces)

IsFaceOK(e) ==
  LET d == e.d  s == Sx(e.s)  t == Sx(e.t) IN
  /\ WellFormed(d, s) /\ WellFormed(d, t)
  /\ e.st = IsFaceOf(d, s, t)
  /\ e.ts = IsFaceOf(d, t, s)
  /\ e.st = (Dim(s) <= Dim(t) /\ s \in FacesOfDim(d, t, Dim(s)))

Check(e) ==
  CASE e.op = "locate"        -> LocateOK(e)
    [] e.op = "locate_margin" -> MarginOK(e)
    [] e.op = "faces"         -> FacesOK(e)
    [] e.op = "cofaces"       -> CofacesOK(e)
    [] e.op = "is_face_of"    -> IsFaceOK(e)
    [] OTHER                  -> FALSE

TraceInit == l = 1
(* "= TRUE": Check is a state predicate; evaluated as a value, not expanded as an action *)
TraceNext == l <= Len(Tr) /\ (Check(Tr[l]) = TRUE) /\ l' = l + 1
TraceSpec == TraceInit /\ [][TraceNext]_l

Verdict ==
  LET m == TLCGet("stats").diameter - 1 IN
  PrintT(<<"TRACE", ToJson([accepted |-> (m = Len(Tr)), matched |-> m, len |-> Len(Tr)])>>)
=============================================================================
