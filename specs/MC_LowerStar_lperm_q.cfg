SPECIFICATION Spec
CONSTANTS
  Mode = "lperm"
  R = 1
  C = 1
  NVals = 0
  MaxLen = 7
  ThEvery = 1
  ThMaxLen = 7
INVARIANT ThDual
INVARIANT ThShape
INVARIANT EmitCase
CHECK_DEADLOCK FALSE
