--------------------------- MODULE RipsPersistence ---------------------------
(* C11: what the Ripser engine (ripser.h) has to stream.                       *)
(*                                                                             *)
(* A dissimilarity on the points 0..n-1 is a function W from 2-element sets    *)
(* {a, b} to integers; a dense input has every pair in its domain, a sparse    *)
(* input only the listed edges.  The Rips flag filtration: vertices at 0, an   *)
(* edge at its weight, a clique at its largest edge.                           *)
(*   RipsDiagram(n, G, dmax, p): persistence (Persistence.tla) over Z_p of the *)
(*   flag filtration of the weighted graph G, simplices up to dimension        *)
(*   dmax + 1, classes of dimension 0..dmax, zero-length intervals dropped,    *)
(*   a class that never dies in the (truncated) filtration dies at INF.        *)
(* Dense input with threshold t: G = the edges of weight <= t.  Without a      *)
(* threshold the engine cuts at the enclosing radius min_i max_j W[i,j]        *)
(* (ripser.h ripser_auto): from there on the complex is a cone (theorem        *)
(* ThCone below).  Sparse input: G = the listed edges (the threshold argument  *)
(* is ignored for that form).                                                  *)
(*                                                                             *)
(* Two descriptions of the same diagram:                                       *)
(*  - Def: cliques by Simplicial!Cliques (all subsets of the vertex set),      *)
(*    filtration order of the simplex tree (value, then reverse lexicographic),*)
(*    column reduction AlgReduced of Persistence.tla (itself proved equal to   *)
(*    the definitional pairing with explicit chain spaces in MC_Persistence;   *)
(*    ThDefinitional repeats that proof here on the Rips complexes);           *)
(*  - Alg: cliques grown from the adjacency lists, order (value, dimension,    *)
(*    reverse lexicographic), the same reduction driven by a strict fold and   *)
(*    with products that stay below 2^31 for every modulus < 2^16.             *)
(* MC_Ripser checks Def = Alg on every enumerated input; Trace_Ripser uses Alg.*)
EXTENDS Simplicial, Persistence

FpM == INSTANCE Fp

Tab(f) == f @@ <<>>          \* TLC evaluates [x \in S |-> e] lazily: force it
NoT    == -1                 \* "no threshold"
INFV   == 1000000            \* +infinity in diagrams

Lo(a, b) == IF a < b THEN a ELSE b
Hi(a, b) == IF a < b THEN b ELSE a

-----------------------------------------------------------------------------
(* inputs *)
Pts(n)   == 0..(n - 1)
Pairs(n) == {e \in SUBSET Pts(n) : Cardinality(e) = 2}
IsDense(n, W) == DOMAIN W = Pairs(n)

(* min_i max_j W[i,j] over a dense W, the diagonal being 0 *)
EnclosingRadius(n, W) ==
  IF n <= 1 THEN 0
  ELSE Min({Max({0} \cup {W[{i, j}] : j \in Pts(n) \ {i}}) : i \in Pts(n)})
MaxWeight(W) == Max({0} \cup {W[e] : e \in DOMAIN W})
EffThreshold(n, W, t) == IF t = NoT THEN EnclosingRadius(n, W) ELSE t
Truncate(W, t) == Tab([e \in {x \in DOMAIN W : W[x] <= t} |-> W[e]])
(* the graph the engine works on, for a dense input and a threshold argument *)
DenseGraph(n, W, t) == Truncate(W, EffThreshold(n, W, t))

EdgesOf(s)      == {e \in SUBSET s : Cardinality(e) = 2}
Diameter(G, s)  == IF Cardinality(s) = 1 THEN 0 ELSE Max({G[e] : e \in EdgesOf(s)})

-----------------------------------------------------------------------------
(* Def: the flag filtration as a valued complex, by the definition of a clique *)
FlagDef(n, G, d) == Tab([s \in Cliques(Pts(n), DOMAIN G, Hi(d, 1)) |-> Diameter(G, s)])

(* the filtered cell complex a valued simplicial complex F defines, for a strict total order    *)
(* `before` on its simplices that refines (value, inclusion); boundary with alternating signs    *)
(* along the increasing vertices (as MC_PersistentCohomology!CellsOf)                            *)
OrderedSimplices(F, before(_, _)) == SetToSortSeq(DOMAIN F, before)
PosTable(q) == Tab([s \in {q[i] : i \in DOMAIN q} |-> CHOOSE i \in DOMAIN q : q[i] = s])
BoundaryChain(s, pos, p) ==
  IF Cardinality(s) = 1 THEN <<>>
  ELSE LET sq == SortedSeq(s) IN
       Tab([x \in {pos[s \ {sq[j]}] : j \in DOMAIN sq} |->
              LET j == CHOOSE jj \in DOMAIN sq : pos[s \ {sq[jj]}] = x IN IF j % 2 = 1 THEN 1 ELSE p - 1])
CellSeq(q, p) ==
  LET pos == PosTable(q) IN
  Tab([i \in DOMAIN q |-> [dim |-> Dim(q[i]), bd |-> BoundaryChain(q[i], pos, p)]])
ValSeq(F, q) == Tab([i \in DOMAIN q |-> F[q[i]]])

(* simplex tree order: value, then reverse lexicographic (SimplexTree!Before) *)
BeforeST(F, s, t)  == F[s] < F[t] \/ (F[s] = F[t] /\ RevLex(s, t))
(* another admissible order: value, dimension, reverse lexicographic *)
BeforeDim(F, s, t) == \/ F[s] < F[t]
                      \/ F[s] = F[t] /\ Cardinality(s) < Cardinality(t)
                      \/ F[s] = F[t] /\ Cardinality(s) = Cardinality(t) /\ RevLex(s, t)
Admissible(F, q) ==      \* faces first, values non-decreasing
  /\ \A i, j \in DOMAIN q : i < j => F[q[i]] <= F[q[j]] /\ ~(q[j] \subseteq q[i])
  /\ {q[i] : i \in DOMAIN q} = DOMAIN F /\ Len(q) = Cardinality(DOMAIN F)

(* bag of (dim, birth, death) of the classes of dimension <= dmax, zero length dropped *)
DiagramUpTo(F, q, bars, dmax) ==
  DiagramOf({b \in bars : b.dim <= dmax}, ValSeq(F, q), INFV, 0)

RipsDiagramDef(n, G, dmax, p) ==
  LET F == FlagDef(n, G, dmax + 1)
      q == OrderedSimplices(F, LAMBDA s, t : BeforeST(F, s, t))
  IN  DiagramUpTo(F, q, Bars(CellSeq(q, p), p), dmax)

-----------------------------------------------------------------------------
(* Alg: cliques grown from the adjacency lists (vertex sets up to 2^k never enumerated) *)
Nbrs(n, G) ==
  LET touched == UNION DOMAIN G IN
  Tab([v \in touched |-> {u \in touched : {u, v} \in DOMAIN G}])
NextLevel(L, nb) ==
  UNION {{s \cup {u} : u \in {w \in nb[Max(s)] : w > Max(s) /\ \A x \in s : w \in nb[x]}} : s \in L}
RECURSIVE GrowFrom(_, _, _, _)
GrowFrom(L, k, d, nb) == IF k >= d \/ L = {} THEN L ELSE L \cup GrowFrom(NextLevel(L, nb), k + 1, d, nb)
CliquesOn(VS, G, d) ==          \* VS: any vertex set containing the end points of the edges
  {{v} : v \in VS} \cup
  (IF d < 1 \/ DOMAIN G = {} THEN {} ELSE GrowFrom(DOMAIN G, 1, d, Nbrs(0, G)))
CliquesAlg(n, G, d) == CliquesOn(Pts(n), G, d)
FlagOn(VS, G, d)  == Tab([s \in CliquesOn(VS, G, Hi(d, 1)) |-> Diameter(G, s)])
FlagAlg(n, G, d)  == FlagOn(Pts(n), G, d)

(* arithmetic of the reduction with every intermediate value < 2^31 for p < 2^16 *)
AddScaledS(c, k, d, p) ==
  LET D == DOMAIN c \cup DOMAIN d
      v(x) == (Coef(c, x) + FpM!MulP(k, Coef(d, x), p)) % p
  IN  Tab([x \in {y \in D : v(y) # 0} |-> v(x)])
RECURSIVE ReduceColumnS(_, _, _, _)
ReduceColumnS(col, R, piv, p) ==
  IF IsZero(col) THEN col
  ELSE LET l == Max(DOMAIN col) IN
       IF l \notin DOMAIN piv THEN col
       ELSE LET j == piv[l]
                k == FpM!MulP(FpM!NegP(col[l], p), FpM!InvP(R[j][l], p), p)
            IN  ReduceColumnS(AddScaledS(col, k, R[j], p), R, piv, p)
(* the left-to-right reduction of Persistence!ReduceFrom as a strict fold (TLC evaluates operator *)
(* arguments lazily: the recursive driver nests as deep as the complex is long)                   *)
StrictReducedS(F, p) ==
  FoldLeft(LAMBDA st, i :
             LET col == ReduceColumnS(F[i].bd, st.R, st.piv, p) IN
             [R |-> (i :> col) @@ st.R,
              piv |-> IF IsZero(col) THEN st.piv ELSE (Max(DOMAIN col) :> i) @@ st.piv],
           [R |-> <<>>, piv |-> <<>>], [i \in 1..Len(F) |-> i])
BarsS(F, p) == BarsOf(F, StrictReducedS(F, p))

RipsDiagramAlgOf(F, dmax, p) ==
  LET q == OrderedSimplices(F, LAMBDA s, t : BeforeDim(F, s, t))
  IN  DiagramUpTo(F, q, BarsS(CellSeq(q, p), p), dmax)
RipsDiagramAlg(n, G, dmax, p) == RipsDiagramAlgOf(FlagAlg(n, G, dmax + 1), dmax, p)

(* a vertex without edge is a component that never dies and nothing else (disjoint union): the   *)
(* diagram of the vertices that carry an edge, plus one class (0, 0, INF) per isolated vertex.     *)
(* Equal to RipsDiagramAlg (ThIsolated); lets Trace_Ripser handle 65 536 vertices.                *)
Touched(G) == UNION DOMAIN G
AddEssential0(diag, m) ==
  IF m = 0 THEN diag
  ELSE LET key(x) == x.dim = 0 /\ x.b = 0 /\ x.d = INFV
           old == {x \in diag : key(x)}
           k   == IF old = {} THEN 0 ELSE (CHOOSE x \in old : TRUE).n
       IN  (diag \ old) \cup {[dim |-> 0, b |-> 0, d |-> INFV, n |-> k + m]}
RipsDiagramFast(n, G, dmax, p) ==
  LET VS == Touched(G) IN
  AddEssential0(IF VS = {} THEN {} ELSE RipsDiagramAlgOf(FlagOn(VS, G, dmax + 1), dmax, p), n - Cardinality(VS))

(* all of dimensions 0..dtop at once: the classes of dimension <= k only depend on the       *)
(* (k+1)-skeleton (ThSkeleton), so one reduction of the (dtop+1)-skeleton serves every dmax   *)
RipsBarsFull(n, G, dtop, p) ==
  LET F == FlagAlg(n, G, dtop + 1)
      q == OrderedSimplices(F, LAMBDA s, t : BeforeDim(F, s, t))
  IN  [F |-> F, q |-> q, bars |-> BarsS(CellSeq(q, p), p)]
DiagramFromFull(full, dmax) == DiagramUpTo(full.F, full.q, full.bars, dmax)

(* Dimension 0 is single linkage: the finite deaths are the weights of the edges that Kruskal's algorithm keeps   *)
(* (a minimum spanning forest: edges in any order of increasing weight, an edge kept when its ends lie in         *)
(* different components), the essential classes are its components.  ThSingleLinkage is checked on every bounded  *)
(* case; the harness uses the right-hand side to judge dimension 0 of clouds with hundreds of points, where the    *)
(* column reduction in TLC is out of reach.                                                                       *)
RECURSIVE KruskalFrom(_, _, _)
KruskalFrom(es, comp, acc) ==
  IF es = <<>> THEN acc
  ELSE LET e == Head(es)
           a == CHOOSE x \in e.e : TRUE
           b == CHOOSE x \in e.e : x # a
       IN  IF comp[a] = comp[b] THEN KruskalFrom(Tail(es), comp, acc)
           ELSE KruskalFrom(Tail(es), [v \in DOMAIN comp |-> IF comp[v] = comp[b] THEN comp[a] ELSE comp[v]], Append(acc, e.w))
MSTWeights(n, G) ==
  KruskalFrom(SetToSortSeq({[e |-> x, w |-> G[x]] : x \in DOMAIN G}, LAMBDA x, y : x.w < y.w \/ (x.w = y.w /\ SortedSeq(x.e)[1] * n + SortedSeq(x.e)[2] < SortedSeq(y.e)[1] * n + SortedSeq(y.e)[2])),
              [v \in 0..(n - 1) |-> v], <<>>)
ThSingleLinkage(n, G, p) ==
  LET dg  == {x \in RipsDiagramAlg(n, G, 0, p) : x.dim = 0}
      mst == MSTWeights(n, G)
      cnt(w) == Cardinality({i \in DOMAIN mst : mst[i] = w})
  IN  /\ \A x \in dg : x.b = 0 /\ (IF x.d = INFV THEN x.n = n - Len(mst) ELSE x.n = cnt(x.d))
      /\ \A i \in DOMAIN mst : mst[i] > 0 => \E x \in dg : x.d = mst[i]
      /\ (n - Len(mst) > 0) => \E x \in dg : x.d = INFV

(* number of output_dim calls: dimensions 0..Hi(0, Lo(dmax, n-2)) *)
TopDim(n, dmax) == Hi(0, Lo(dmax, n - 2))
NumSimplices(n, G, dmax) == Cardinality(CliquesAlg(n, G, dmax + 1))

-----------------------------------------------------------------------------
(* theorems, checked by TLC on every input of the bounded model *)
ThFlag(n, G, d) == FlagAlg(n, G, d) = FlagDef(n, G, d)
ThChainComplex(n, G, d, p) ==
  LET F == FlagAlg(n, G, d)
      q1 == OrderedSimplices(F, LAMBDA s, t : BeforeDim(F, s, t))
      q2 == OrderedSimplices(F, LAMBDA s, t : BeforeST(F, s, t))
  IN  /\ Admissible(F, q1) /\ Admissible(F, q2)
      /\ WellFormed(CellSeq(q1, p), p) /\ WellFormed(CellSeq(q2, p), p)
ThDefAlg(n, G, dmax, p) == RipsDiagramDef(n, G, dmax, p) = RipsDiagramAlg(n, G, dmax, p)
ThSkeleton(n, G, dtop, p) ==
  LET full == RipsBarsFull(n, G, dtop, p) IN
  \A k \in 0..dtop : DiagramFromFull(full, k) = RipsDiagramAlg(n, G, k, p)
ThIsolated(n, G, dmax, p) == RipsDiagramFast(n, G, dmax, p) = RipsDiagramAlg(n, G, dmax, p)
(* beyond the enclosing radius nothing happens: cutting there, at the largest weight or never *)
(* gives the same diagram (a cone has the homology of a point)                                 *)
ThCone(n, W, dmax, p) ==
  RipsDiagramAlg(n, DenseGraph(n, W, NoT), dmax, p) = RipsDiagramAlg(n, W, dmax, p)
(* the pairing of the column reduction is the definitional one (explicit cycle and boundary   *)
(* spaces; exponential), on the Rips complex itself                                            *)
ThDefinitional(n, G, d, p) ==
  LET F == FlagAlg(n, G, d)
      q == OrderedSimplices(F, LAMBDA s, t : BeforeDim(F, s, t))
      C == CellSeq(q, p)
      red == StrictReducedS(C, p)
  IN  /\ DefPairs(C, p) = AlgPairsOf(red)
      /\ DefEssential(C, p) = AlgEssentialOf(C, red)
      /\ red = AlgReduced(C, p)
=============================================================================
