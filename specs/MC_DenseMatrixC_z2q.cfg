SPECIFICATION Spec
CONSTANTS
  P = 2
  NR = 2
  NC = 3
  Coefs = {0, 1}
  InsMax = 2
  RngMax = 2
  Orders = {"asc"}
VIEW View
INVARIANT CTypeOK
INVARIANT InvClassContent
INVARIANT InvCompressed
INVARIANT InvClsIsMin
INVARIANT EmitState
ACTION_CONSTRAINT EmitEdge
CHECK_DEADLOCK FALSE
