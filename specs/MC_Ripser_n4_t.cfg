SPECIFICATION Spec
CONSTANTS
  Ns = {1, 2, 3, 4}
  Vals = {1, 2, 3}
  Primes = {2, 3}
  SampleEvery = 1
  ThEvery = 1
  ThDefEvery = 9
  ThDefMaxN = 4
INVARIANT InvFlag
INVARIANT InvChainComplex
INVARIANT InvDefAlg
INVARIANT InvSkeleton
INVARIANT InvCone
INVARIANT InvIsolated
INVARIANT InvSingleLinkage
INVARIANT InvDefinitional
INVARIANT EmitCase
CHECK_DEADLOCK FALSE
