------------------------- MODULE MC_SkeletonBlockerSim -------------------------
(* Random exploration (tlc -simulate) of the model beyond the BFS bound.  In    *)
(* simulation mode TLC evaluates action constraints on every candidate          *)
(* successor; to print only the transitions actually taken, the ghost variable  *)
(* `prev` remembers the identity of the predecessor and the INVARIANT EmitStep  *)
(* prints  from -act-> to  together with all observations of the state reached. *)
EXTENDS MC_SkeletonBlocker

VARIABLE prev

SimInit == Init /\ prev = ""
SimNext == Next /\ prev' = Id(n, K)
SimSpec == SimInit /\ [][SimNext]_<<n, K, act, prev>>

EmitStep == PrintT(<<"STEP", ToJson([from |-> prev, act |-> act, to |-> Id(n, K), obs |-> Obs(K)])>>)
=============================================================================
