---------------------------- MODULE MatrixLifecycle ----------------------------
(* C15 for Gudhi::persistence_matrix::Matrix: slots hold independent matrices; the payload of a   *)
(* slot is the filtered cell complex it represents (PersistenceMatrix.tla: a sequence of cells),  *)
(* its barcode is a function of the payload.  An action on slot i changes slot i only (and the   *)
(* source of a move); the replay re-projects ALL live slots after every step and re-checks the   *)
(* defining identities of their exposed matrices, so a copy that still leans on its source (a     *)
(* shared settings / operators / pool object) shows when the source is mutated, reassigned or     *)
(* destroyed and the copy is used afterwards.                                                      *)
(* Whether a copy still leans on its source depends on the HISTORY, not on the payloads: the      *)
(* ghost variable prov records how each object came to be and whether the object it was copied   *)
(* from is still there, so that "a copy whose source is gone is mutated" is a transition of its   *)
(* own in the graph and every such transition is replayed.  In the same way prov.rem records that *)
(* a cell has been removed from the object (or from the one it was copied or moved from): a      *)
(* matrix that has shrunk keeps counters and maps a freshly built one does not have, and every    *)
(* copy / move / mutation of such an object is a transition of its own.                           *)
EXTENDS Persistence

CONSTANTS Slots, P, MaxCells, MaxVerts, WithSwap
VARIABLES obj,    \* slot -> [live |-> BOOLEAN, f |-> cell sequence]
          prov,   \* slot -> [kind |-> "none" | "new" | "copy" | "orphan" | "moved", src |-> slot or 0,
                  \*          rem |-> a cell was removed from this object, or from the one it was copied / moved from]
          act

Dead == [live |-> FALSE, f |-> <<>>]
Live(f) == [live |-> TRUE, f |-> f]
NoProv == [kind |-> "none", src |-> 0, rem |-> FALSE]
New == [kind |-> "new", src |-> 0, rem |-> FALSE]

Init == obj = [i \in Slots |-> Dead] /\ prov = [i \in Slots |-> NoProv] /\ act = [op |-> "init"]

(* every copy taken from slot j loses its source when j is destroyed, overwritten, moved from or swapped *)
Orphaned(pr, j) == [i \in Slots |-> IF pr[i].src = j THEN [kind |-> "orphan", src |-> 0, rem |-> pr[i].rem] ELSE pr[i]]

BdJ(c) == {[x |-> x - 1, c |-> c[x]] : x \in DOMAIN c}
FJ(G)  == [k \in DOMAIN G |-> [d |-> G[k].dim, bd_set |-> BdJ(G[k].bd)]]
Verts(G) == {x \in DOMAIN G : G[x].dim = 0}

Construct(i) ==
  /\ ~obj[i].live
  /\ obj' = [obj EXCEPT ![i] = Live(<<>>)]
  /\ prov' = [prov EXCEPT ![i] = New]
  /\ act' = [op |-> "construct", i |-> i]
Destroy(i) ==
  /\ obj[i].live
  /\ obj' = [obj EXCEPT ![i] = Dead]
  /\ prov' = [Orphaned(prov, i) EXCEPT ![i] = NoProv]
  /\ act' = [op |-> "destroy", i |-> i]
(* payload mutations: insert_boundary of a vertex or of an edge c.(b - a) between two vertices, remove_last, vine_swap *)
InsertVertex(i) ==
  /\ obj[i].live /\ Len(obj[i].f) < MaxCells /\ Cardinality(Verts(obj[i].f)) < MaxVerts
  /\ obj' = [obj EXCEPT ![i] = Live(Append(obj[i].f, [dim |-> 0, bd |-> <<>>]))]
  /\ act' = [op |-> "mutate", i |-> i, m |-> [op |-> "insert", d |-> 0, bd_set |-> {}], ret_ok |-> TRUE] /\ UNCHANGED prov
InsertEdge(i, a, b, c) ==
  /\ obj[i].live /\ Len(obj[i].f) < MaxCells /\ {a, b} \subseteq Verts(obj[i].f) /\ a < b
  /\ LET bd == IF P = 2 THEN (a :> 1) @@ (b :> 1) ELSE (a :> (P - c)) @@ (b :> c) IN
     /\ obj' = [obj EXCEPT ![i] = Live(Append(obj[i].f, [dim |-> 1, bd |-> bd]))]
     /\ act' = [op |-> "mutate", i |-> i, m |-> [op |-> "insert", d |-> 1, bd_set |-> BdJ(bd)], ret_ok |-> TRUE]
  /\ UNCHANGED prov
RemoveLast(i) ==
  /\ obj[i].live /\ Len(obj[i].f) > 0
  /\ obj' = [obj EXCEPT ![i] = Live(SubSeq(obj[i].f, 1, Len(obj[i].f) - 1))]
  /\ act' = [op |-> "mutate", i |-> i, m |-> [op |-> "remove_last"], ret_ok |-> TRUE]
  /\ prov' = [prov EXCEPT ![i].rem = TRUE]   \* (removals leave counters and maps behind that a fresh matrix does not have)
Tau(k, x) == IF x = k THEN k + 1 ELSE IF x = k + 1 THEN k ELSE x
RenameChain(c, f(_)) == [y \in {f(x) : x \in DOMAIN c} |-> c[CHOOSE x \in DOMAIN c : f(x) = y]]
SwapF(G, k) == [n \in DOMAIN G |-> LET src == G[Tau(k, n)] IN
                   [dim |-> src.dim, bd |-> RenameChain(src.bd, LAMBDA x : Tau(k, x))]]
SwapBar(b, k) == [dim |-> b.dim, birth |-> Tau(k, b.birth), death |-> IF b.death = 0 THEN 0 ELSE Tau(k, b.death)]
Kept(G, k)      == Bars(SwapF(G, k), P) = {SwapBar(b, k) : b \in Bars(G, P)}
Exchanged(G, k) == Bars(SwapF(G, k), P) = Bars(G, P)
VineSwap(i, k) ==
  /\ WithSwap /\ obj[i].live /\ k \in 1..(Len(obj[i].f) - 1) /\ k \notin DOMAIN obj[i].f[k + 1].bd
  /\ obj' = [obj EXCEPT ![i] = Live(SwapF(obj[i].f, k))]
  /\ act' = [op |-> "mutate", i |-> i, m |-> [op |-> "vine_swap", i |-> k - 1,
               ret_set |-> {r \in BOOLEAN : (r /\ Kept(obj[i].f, k)) \/ (~r /\ Exchanged(obj[i].f, k))}], ret_ok |-> TRUE]
  /\ UNCHANGED prov

CopyConstruct(i, j) ==
  /\ ~obj[i].live /\ obj[j].live
  /\ obj' = [obj EXCEPT ![i] = obj[j]]
  /\ prov' = [prov EXCEPT ![i] = [kind |-> "copy", src |-> j, rem |-> prov[j].rem]]
  /\ act' = [op |-> "copy_construct", i |-> i, j |-> j]
CopyAssign(i, j) ==            \* i = j allowed: self-assignment leaves everything as it is
  /\ obj[i].live /\ obj[j].live
  /\ obj' = [obj EXCEPT ![i] = obj[j]]
  /\ prov' = IF i = j THEN prov ELSE [Orphaned(prov, i) EXCEPT ![i] = [kind |-> "copy", src |-> j, rem |-> prov[j].rem]]
  /\ act' = [op |-> "copy_assign", i |-> i, j |-> j]
(* Matrix.h: "After the move, the given matrix will be empty." *)
MoveConstruct(i, j) ==
  /\ ~obj[i].live /\ obj[j].live
  /\ obj' = [obj EXCEPT ![i] = obj[j], ![j] = Live(<<>>)]
  /\ prov' = [Orphaned(prov, j) EXCEPT ![i] = [kind |-> "moved", src |-> 0, rem |-> prov[j].rem], ![j] = New]
  /\ act' = [op |-> "move_construct", i |-> i, j |-> j]
MoveAssign(i, j) ==
  /\ obj[i].live /\ obj[j].live /\ i # j
  /\ obj' = [obj EXCEPT ![i] = obj[j], ![j] = Live(<<>>)]
  /\ prov' = [Orphaned(Orphaned(prov, i), j) EXCEPT ![i] = [kind |-> "moved", src |-> 0, rem |-> prov[j].rem], ![j] = New]
  /\ act' = [op |-> "move_assign", i |-> i, j |-> j]
Swap(i, j) ==
  /\ obj[i].live /\ obj[j].live /\ i < j
  /\ obj' = [obj EXCEPT ![i] = obj[j], ![j] = obj[i]]
  /\ prov' = [Orphaned(Orphaned(prov, i), j) EXCEPT ![i] = [kind |-> "moved", src |-> 0, rem |-> prov[j].rem],
                                                   ![j] = [kind |-> "moved", src |-> 0, rem |-> prov[i].rem]]
  /\ act' = [op |-> "swap", i |-> i, j |-> j]

BarsJ(G) == {[dim |-> b.dim, birth |-> b.birth - 1, death |-> b.death - 1] : b \in Bars(G, P)}
SlotObs(o) == IF o.live THEN [live |-> TRUE, n |-> Len(o.f), dims |-> [k \in DOMAIN o.f |-> o.f[k].dim],
                              bars_set |-> BarsJ(o.f), checks_failed |-> <<>>]
              ELSE [live |-> FALSE]
ObjJ(o) == [i \in Slots |-> SlotObs(o[i])]
IdObj(o, pr) == [i \in Slots |-> [live |-> o[i].live, f |-> FJ(o[i].f), kind |-> pr[i].kind, src |-> pr[i].src, rem |-> pr[i].rem]]

(* in-model: the payloads stay well-formed complexes, provenance is consistent with liveness *)
InvWellFormed == \A i \in Slots : obj[i].live => WellFormed(obj[i].f, P)
InvProv == \A i \in Slots :
             /\ (obj[i].live <=> prov[i].kind # "none")
             /\ prov[i].src # 0 => (prov[i].kind = "copy" /\ obj[prov[i].src].live /\ prov[i].src # i)
=============================================================================
