SPECIFICATION Spec
CONSTANTS
  D = 4
  Mode = "faces"
  NBases = 2
  NonCanon = TRUE
  S = 8
  LoNeg = 1
  Hi = 2
  Wide = TRUE
INVARIANT ThVertices
INVARIANT ThFaces
INVARIANT ThCofaces
INVARIANT ThWide
INVARIANT EmitCase
CHECK_DEADLOCK FALSE
