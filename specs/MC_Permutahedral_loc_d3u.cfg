SPECIFICATION Spec
CONSTANTS
  D = 3
  Mode = "locate"
  NBases = 1
  NonCanon = FALSE
  S = 4
  LoNeg = 0
  Hi = 1
  Wide = TRUE
INVARIANT ThLocate
INVARIANT ThUnique
INVARIANT EmitCase
CHECK_DEADLOCK FALSE
