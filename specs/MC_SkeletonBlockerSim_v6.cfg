SPECIFICATION SimSpec
CONSTANTS
  NV = 6
  Heavy = FALSE
INVARIANT TypeOK
INVARIANT EmitStep
CHECK_DEADLOCK FALSE
