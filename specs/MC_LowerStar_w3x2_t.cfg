SPECIFICATION Spec
CONSTANTS
  Mode = "weak"
  R = 3
  C = 2
  NVals = 0
  MaxLen = 0
  ThEvery = 1
  ThMaxLen = 0
INVARIANT ThDual
INVARIANT ThShape
INVARIANT EmitCase
CHECK_DEADLOCK FALSE
