--------------------------- MODULE PersistenceMatrix ---------------------------
(* Abstract state machine of Gudhi::persistence_matrix::Matrix for the        *)
(* boundary (R only), RU and chain flavours: the state is the filtered cell   *)
(* complex F currently represented (cells in filtration order, positions      *)
(* 1..Len(F)); the barcode is a function of F (Persistence.tla).  The exposed *)
(* matrices are constrained by identities, not determined (trace specification).  *)
EXTENDS Persistence

CONSTANTS P,          \* characteristic
          MaxCells, MaxD, AllowEmptyBd
VARIABLES F, act

BdJ(c) == {[x |-> x - 1, c |-> c[x]] : x \in DOMAIN c}        \* 0-based positions for the harness
FJ(G)  == [i \in DOMAIN G |-> [d |-> G[i].dim, bd_set |-> BdJ(G[i].bd)]]

Init == F = <<>> /\ act = [op |-> "init"]

(* insert_boundary: the new cell's boundary is a cycle of cells already present *)
InsertBoundary(d, bd) ==
  /\ Len(F) < MaxCells
  /\ DOMAIN bd \subseteq CellsOfDim(F, d - 1, Len(F))
  /\ IsZero(BdChain(F, bd, P))
  /\ (d > 0 /\ ~AllowEmptyBd) => ~IsZero(bd)
  /\ F' = Append(F, [dim |-> d, bd |-> bd])
  /\ act' = [op |-> "insert", d |-> d, bd_set |-> BdJ(bd)]

RemoveLast ==
  /\ Len(F) > 0
  /\ F' = SubSeq(F, 1, Len(F) - 1)
  /\ act' = [op |-> "remove_last"]

(* renumbering of positions under the transposition (i i+1) *)
Tau(i, x) == IF x = i THEN i + 1 ELSE IF x = i + 1 THEN i ELSE x
RenameChain(c, f(_)) == [y \in {f(x) : x \in DOMAIN c} |-> c[CHOOSE x \in DOMAIN c : f(x) = y]]
SwapF(G, i) == [k \in DOMAIN G |-> LET src == G[Tau(i, k)] IN
                   [dim |-> src.dim, bd |-> RenameChain(src.bd, LAMBDA x : Tau(i, x))]]
SwapBar(b, i) == [dim |-> b.dim, birth |-> Tau(i, b.birth), death |-> IF b.death = 0 THEN 0 ELSE Tau(i, b.death)]
Kept(G, i)      == Bars(SwapF(G, i), P) = {SwapBar(b, i) : b \in Bars(G, P)}   \* cells kept their bars
Exchanged(G, i) == Bars(SwapF(G, i), P) = Bars(G, P)                            \* cells exchanged their bars
(* vine_swap(i): cells at i, i+1 not face and coface; returns true when the two cells kept their bars *)
VineSwap(i) ==
  /\ i \in 1..(Len(F) - 1)
  /\ i \notin DOMAIN F[i + 1].bd
  /\ F' = SwapF(F, i)
  /\ act' = [op |-> "vine_swap", i |-> i - 1,
             ret_set |-> {r \in BOOLEAN : (r /\ Kept(F, i)) \/ (~r /\ Exchanged(F, i))}, ret_ok |-> TRUE]

(* remove_maximal_cell: nothing contains the cell *)
Shift(i, x) == IF x > i THEN x - 1 ELSE x
RemoveF(G, i) == [k \in 1..(Len(G) - 1) |-> LET src == G[IF k >= i THEN k + 1 ELSE k] IN
                    [dim |-> src.dim, bd |-> RenameChain(src.bd, LAMBDA x : Shift(i, x))]]
RemoveMaximalCell(i) ==
  /\ i \in DOMAIN F
  /\ \A k \in DOMAIN F : i \notin DOMAIN F[k].bd
  /\ F' = RemoveF(F, i)
  /\ act' = [op |-> "remove_maximal", i |-> i - 1]

(* Representative cycles (C08).  A representative of a bar is a cycle of the bar's dimension whose youngest *)
(* cell is the birth cell, whose class is not a combination of classes older than the birth in every     *)
(* complex from the birth up to just before the death, and becomes one exactly at the death (chain       *)
(* flavour: becomes a boundary).  Definitional, with explicit sets of chains.                            *)
InSum(c, B, Z) == \E x \in B : SubChain(c, x, P) \in Z
IsRep(G, c, bar, chainFlavour) ==
  LET d == bar.dim  b == bar.birth  last == IF bar.death = 0 THEN Len(G) ELSE bar.death - 1 IN
  /\ ~IsZero(c) /\ DOMAIN c \subseteq CellsOfDim(G, d, Len(G)) /\ IsZero(BdChain(G, c, P))
  /\ MaxSupp(c) = b
  /\ \A j \in b..last : ~InSum(c, BSet(G, d, j, P), ZSet(G, d, b - 1, P))
  /\ bar.death # 0 => IF chainFlavour THEN c \in BSet(G, d, bar.death, P)
                                      ELSE InSum(c, BSet(G, d, bar.death, P), ZSet(G, d, b - 1, P))
RepsOf(G, bar, chainFlavour) == {c \in AllChains(CellsOfDim(G, bar.dim, Len(G)), P) : IsRep(G, c, bar, chainFlavour)}
ChainJ(c) == {[x |-> x - 1, c |-> c[x]] : x \in DOMAIN c}
RepsJ(G) == {[dim |-> b.dim, birth |-> b.birth - 1, death |-> b.death - 1,
              ru_set |-> {ChainJ(c) : c \in RepsOf(G, b, FALSE)},
              ch_set |-> {ChainJ(c) : c \in RepsOf(G, b, TRUE)}] : b \in Bars(G, P)}
(* in-model: choosing any valid representative for each bar alive at j gives a basis of H(K_j):   *)
(* here in the form "valid representatives of distinct alive bars are independent modulo B(j)",   *)
(* checked on the canonical choice (the first of each set) and implied for all by MaxSupp = birth *)
AliveAt(G, j) == {b \in Bars(G, P) : b.birth <= j /\ (b.death = 0 \/ b.death > j)}
BarsJ(G) == {[dim |-> b.dim, birth |-> b.birth - 1, death |-> b.death - 1] : b \in Bars(G, P)}
Obs(G) == [n |-> Len(G), dims |-> [i \in DOMAIN G |-> G[i].dim], bars_set |-> BarsJ(G), checks_failed |-> <<>>]
=============================================================================
