---------------------------- MODULE MC_DenseMatrix ----------------------------
(* Bounded model of DenseMatrix.tla.  Emits every distinct state with all its *)
(* derived observations (INVARIANT EmitState) and every generated transition  *)
(* (ACTION_CONSTRAINT EmitEdge) as JSON for the replay on real Matrix objects. *)
EXTENDS DenseMatrix, Json

CONSTANTS Coefs,     \* coefficient arguments (integers >= 0, include 0 and 1)
          InsMax,    \* inserted columns have at most InsMax non-zero entries ...
          RngMax,    \* ... and entry ranges at most RngMax
          Orders     \* presentation orders of an entry range: subset of {"asc","desc","rot"}

InsVecs == {v \in Vec : NnzV(v) <= InsMax}
RngVecs == {v \in Vec : NnzV(v) <= RngMax}
OrdersOf(v) == IF NnzV(v) >= 2 THEN Orders ELSE {"asc"}

ColsJ(f) == {[c |-> i, v |-> VT(f[i])] : i \in DOMAIN f}
IdJ == [c_set |-> ColsJ(cols), n |-> next, p |-> pend]

ColObs(i) ==
  [c |-> i, v |-> VT(cols[i]), it |-> VT(cols[i]), zc |-> IsZeroColumn(i),
   ze |-> [k \in 1..NR |-> IsZeroEntry(i, k - 1)]]
Obs ==
  [cols_set  |-> {ColObs(i) : i \in Live},
   rows      |-> [k \in 1..NR |-> [r |-> k - 1, e_set |-> {[c |-> e[1], x |-> e[2]] : e \in RowEntries(k - 1)}]],
   ncols_map |-> NumColsMap,
   ncols_vec |-> NumColsVec,
   next      |-> next,
   pend      |-> pend,
   holes_ok  |-> TRUE,
   errors    |-> <<>>]

Next ==
  \/ \E v \in InsVecs : InsertColumn(v)
  \/ \E v \in InsVecs, i \in Idx : InsertColumnAt(v, i)
  \/ \E i \in Idx : RemoveColumn(i)
  \/ RemoveLast
  \/ \E s, t \in Idx : AddTo(s, t)
  \/ \E v \in RngVecs, t \in Idx : \E o \in OrdersOf(v) : AddRangeTo(v, t, o)
  \/ \E s, t \in Idx, c \in Coefs : MulTargetAndAdd(s, c, t)
  \/ \E v \in RngVecs, t \in Idx, c \in Coefs : \E o \in OrdersOf(v) : MulTargetAndAddRange(v, c, t, o)
  \/ \E s, t \in Idx, c \in Coefs : MulSourceAndAdd(c, s, t)
  \/ \E v \in RngVecs, t \in Idx, c \in Coefs : \E o \in OrdersOf(v) : MulSourceAndAddRange(c, v, t, o)
  \/ \E c \in Idx, r \in Rows : ZeroEntry(c, r)
  \/ \E c \in Idx : ZeroColumn(c)
  \/ \E a, b \in Idx : a <= b /\ SwapColumns(a, b)
  \/ \E a, b \in Rows : a <= b /\ SwapRows(a, b)
  \/ \E r \in Rows : EraseEmptyRow(r)
  \/ Flush

vars == <<cols, next, pend, act>>
Spec == Init /\ [][Next]_vars

View == <<cols, next, pend>>
EmitState == PrintT(<<"STATE", ToJson([id |-> IdJ, obs |-> Obs])>>)
EmitEdge  == PrintT(<<"EDGE", ToJson([from |-> IdJ, act |-> act',
                                      to |-> [c_set |-> ColsJ(cols'), n |-> next', p |-> pend']])>>)

-----------------------------------------------------------------------------
(* in-model theorems *)
(* the field laws the dense operators rely on, over all vectors / coefficients of the model *)
InvAlgebra ==
  \A a \in Live : \A v \in RngVecs : \A c \in Coefs :
     LET x == cols[a] IN
     /\ AddV(ScaleV(1, x), v) = AddV(x, v)                      \* mta with 1 = add
     /\ AddV(x, ScaleV(1, v)) = AddV(x, v)                      \* msa with 1 = add
     /\ AddV(ScaleV(0, x), v) = v                               \* mta with 0 = copy of the source
     /\ AddV(x, ScaleV(0, v)) = x                               \* msa with 0 = identity
     /\ AddV(AddV(x, v), ScaleV(P - 1, v)) = x                  \* adding then subtracting
     /\ ScaleV(c, AddV(x, v)) = AddV(ScaleV(c, x), ScaleV(c, v))
     /\ ScaleV(c + P, x) = ScaleV(c, x)
(* rows and columns describe the same matrix *)
InvRowsCols ==
  \A r \in Rows : \A i \in Live :
     (cols[i][r] # 0) = (\E e \in RowEntries(r) : e[1] = i /\ e[2] = cols[i][r])
InvSwapInvolution ==
  \A a, b \in Rows : \A i \in Live : SwapRowsV(SwapRowsV(cols[i], a, b), a, b) = cols[i]
=============================================================================
