INIT Init
NEXT Next
