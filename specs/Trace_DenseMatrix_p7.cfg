SPECIFICATION TraceSpec
CONSTANTS
  P = 7
  NR = 8
  NC = 8
VIEW TraceView
POSTCONDITION Verdict
CHECK_DEADLOCK FALSE
