SPECIFICATION Spec
CONSTANTS
  V = {0, 1, 2, 3}
  Vals = {1}
  INF = 1000000
  MaxDim = 3
  MaxBlocked = 0
  AssignInf = FALSE
  FlagDims = {0, 2, 3}
  Mode = "flag"
VIEW View
INVARIANT TypeOK
INVARIANT InvClosed
INVARIANT InvFlagValues
INVARIANT EmitState
ACTION_CONSTRAINT EmitEdge
CHECK_DEADLOCK FALSE
