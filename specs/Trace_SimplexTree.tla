--------------------------- MODULE Trace_SimplexTree ---------------------------
(* Validates executions recorded from the real Simplex_tree (harness/st_record) *)
(* against the actions of SimplexTree.tla: every logged call must be an enabled *)
(* action whose successor state, return value and derived observations are the *)
(* logged ones.  TRACE=<file.ndjson> in the environment.                        *)
EXTENDS SimplexTree, Json, IOUtils

VARIABLE l
Tr == ndJsonDeserialize(IOEnv.TRACE)

SetOf(q) == {q[i] : i \in DOMAIN q}
KOf(js) == LET S == {SetOf(js[i].s) : i \in DOMAIN js}
           IN [s \in S |-> js[CHOOSE i \in DOMAIN js : SetOf(js[i].s) = s].f]
SeqOfSets(q) == [i \in DOMAIN q |-> SetOf(q[i])]
SetOfSets(q) == {SetOf(q[i]) : i \in DOMAIN q}
Has(e, k) == k \in DOMAIN e

(* observations logged with an event, all functions of the successor state *)
ObsOK(e, F) ==
  LET C == DOMAIN F IN
  /\ Has(e, "dim") => e.dim = DimC(C)
  /\ Has(e, "ns") => e.ns = Cardinality(C)
  /\ Has(e, "filt") => SeqOfSets(e.filt) = FiltSeq(F)
  /\ Has(e, "nbd") => e.nbd = NumByDim(C)
  /\ Has(e, "q") => \A i \in DOMAIN e.q :
        LET x == e.q[i]  s == SetOf(x.s) IN
        /\ (s \in C) = x.present
        /\ x.present =>
             /\ x.f = F[s]
             /\ SetOfSets(x.star) = StarC(C, s) /\ Len(x.star) = Cardinality(StarC(C, s))
             /\ SetOfSets(x.cof) = CofacesC(C, s, x.codim) /\ Len(x.cof) = Cardinality(CofacesC(C, s, x.codim))
             /\ [j \in DOMAIN x.bd |-> [face |-> SetOf(x.bd[j].face), opp |-> x.bd[j].opp]] = BoundarySeq(s)

Step(e) ==
  \/ /\ e.op = "reset" /\ K' = <<>> /\ act' = [op |-> "reset"]
  \/ /\ e.op = "insert" /\ InsertSimplex(SetOf(e.s), e.f) /\ act'.ret = e.ret
  \/ /\ e.op = "insert_faces" /\ InsertSimplexAndSubfaces(SetOf(e.s), e.f) /\ act'.ret = e.ret
  \/ /\ e.op = "batch" /\ InsertBatchVertices(SetOf(e.vs), e.f)
  \/ /\ e.op = "remove_maximal" /\ RemoveMaximal(SetOf(e.s))
  \/ /\ e.op = "prune_filt" /\ PruneAboveFiltration(e.f) /\ act'.ret = e.ret
  \/ /\ e.op = "prune_dim" /\ PruneAboveDimension(e.d) /\ act'.ret = e.ret
  \/ /\ e.op = "clear" /\ Clear
  \/ /\ e.op = "assign" /\ AssignFiltration(SetOf(e.s), e.f)
  \/ /\ e.op = "reset_filt" /\ ResetFiltration(e.f, e.d)
  \/ /\ e.op = "make_non_decreasing" /\ MakeNonDecreasing /\ act'.ret = e.ret
  \/ /\ e.op = "expansion" /\ Expansion(e.d)
  \/ /\ e.op = "load" /\ K' = KOf(e.k) /\ act' = [op |-> "load"]     \* arbitrary complex (order / schedule traces)
  \/ /\ e.op = "extend" /\ ExtendFiltration
     /\ LET Vs == {s \in Dom : Dim(s) = 0}  mn == Min({K[s] : s \in Vs})  mx == Max({K[s] : s \in Vs}) IN
        /\ e.min = mn /\ e.max = mx
        /\ \A i \in DOMAIN e.dec : LET x == e.dec[i]  d == Decode4(x.f4, mn, mx) IN
              x.t = d.t /\ (d.t # "EXTRA" => x.v4 = d.v4)
  \/ /\ e.op = "edge_as_flag" /\ InsertEdgeAsFlag(e.u, e.v, e.f, e.d)
     /\ SetOfSets(e.added) = EdgeAsFlagAdded(e.u, e.v, e.d) /\ Len(e.added) = Cardinality(EdgeAsFlagAdded(e.u, e.v, e.d))

TraceInit == K = <<>> /\ act = [op |-> "init"] /\ l = 1
TraceNext == /\ l <= Len(Tr)
             /\ ~Has(Tr[l], "off_lattice")
             /\ l' = l + 1
             /\ Step(Tr[l])
             /\ K' = KOf(Tr[l].k)
             /\ ObsOK(Tr[l], K')
TraceSpec == TraceInit /\ [][TraceNext]_<<K, act, l>>
TraceView == <<K, l>>

Verdict ==
  LET m == TLCGet("stats").diameter - 1 IN
  PrintT(<<"TRACE", ToJson([accepted |-> (m = Len(Tr)), matched |-> m, len |-> Len(Tr)])>>)
=============================================================================
