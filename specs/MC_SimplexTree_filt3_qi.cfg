SPECIFICATION Spec
CONSTANTS
  V = {0, 1, 2}
  Vals = {0, 1}
  INF = 1000000
  MaxDim = 2
  MaxBlocked = 0
  AssignInf = TRUE
  FlagDims = {2}
  Mode = "filt"
VIEW View
INVARIANT TypeOK
INVARIANT InvClosed
INVARIANT InvFiltSeq
INVARIANT InvBeforeTotal
INVARIANT InvHull
INVARIANT InvSublevel
INVARIANT InvExtend
INVARIANT EmitState
ACTION_CONSTRAINT EmitEdge
CHECK_DEADLOCK FALSE
