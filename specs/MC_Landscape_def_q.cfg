SPECIFICATION Spec
CONSTANTS
  Mode = "single"
  NMax = 3
  Hi = 3
  NSmall = 3
  Stride = 1
  CheckDef = TRUE
INVARIANT ThDef
INVARIANT ThSort
INVARIANT ThShape
INVARIANT ThArea
INVARIANT ThGrid
INVARIANT EmitCase
CHECK_DEADLOCK FALSE
