SPECIFICATION Spec
CONSTANTS
  Mode = "vals"
  MaxD = 3
  NonPerSides = {0, 1, 2, 3}
  PerSides = {2, 3}
  MinInputs = 0
  MaxInputs = 100000
  MaxCells = 400
  ValSet = {0, 1, 2, 1000000}
  ExhMax = 4
  NSamples = 16
  Primes = {2, 3, 5}
INVARIANT InvCase
CHECK_DEADLOCK FALSE
