SPECIFICATION Spec
CONSTANTS
  Mode = "vals"
  R = 4
  C = 3
  NVals = 2
  MaxLen = 0
  ThEvery = 32
  ThMaxLen = 0
INVARIANT ThDual
INVARIANT ThShape
INVARIANT EmitCase
CHECK_DEADLOCK FALSE
