SPECIFICATION Spec
CONSTANTS
  P = 5
  MaxCells = 3
  MaxD = 2
  AllowEmptyBd = TRUE
  WithReps = FALSE
  Mode = "insert"
  WithHist = FALSE
VIEW View
INVARIANT InvWellFormed
INVARIANT InvPartition
INVARIANT InvVineLemma
INVARIANT InvSwapWellFormed
INVARIANT EmitState
ACTION_CONSTRAINT EmitEdge
CHECK_DEADLOCK FALSE
