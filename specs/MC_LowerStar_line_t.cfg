SPECIFICATION Spec
CONSTANTS
  Mode = "line"
  R = 1
  C = 1
  NVals = 5
  MaxLen = 8
  ThEvery = 8
  ThMaxLen = 8
INVARIANT ThDual
INVARIANT ThShape
INVARIANT EmitCase
CHECK_DEADLOCK FALSE
