---------------------------- MODULE MC_SparseRips ----------------------------
(* C19, bounded model.  One TLC state per integer metric on N points (all      *)
(* functions pairs -> Mult * DVals that satisfy the triangle inequality; with  *)
(* Canon one representative per relabelling class).  For each state:           *)
(*  - in-model theorems: for EVERY greedy ordering (arbitrary start, arbitrary *)
(*    tie-breaks) the sparse filtration is valid, a filtered subcomplex of the *)
(*    Rips filtration with larger values, and its diagrams are interleaved     *)
(*    with the Rips diagrams as documented; validity also for eps >= 1 and     *)
(*    with mini / maxi;                                                        *)
(*  - a CASE line: the metric and, for every parameter set and dim_max, the    *)
(*    SET of complexes the construction may return (one per greedy ordering):  *)
(*    the real code, whose starting point is random, must return one of them.  *)
EXTENDS SparseRips, Json

CONSTANTS N, DVals, Mult, Canon, EpsG, EpsB, Bounds, DimMaxs
VARIABLES m, phase     \* phase 0 -> 1 : the theorems are evaluated on the successor, i.e. by all TLC workers

(* parameter sets referenced from the cfg files (cfg syntax has no tuples) *)
E12 == {<<1, 2>>}
E14 == {<<1, 4>>}
E34 == {<<3, 4>>}
E12_14 == {<<1, 2>>, <<1, 4>>}
EBig == {<<1, 1>>, <<2, 1>>}
NoEps == {}
NoBounds == {}
Bnd(e, mi, ma) == [eps |-> e, mini |-> mi, maxi |-> ma]
Bounds12 == {Bnd(<<1, 2>>, 2, BIG), Bnd(<<1, 2>>, 0, 6), Bnd(<<1, 2>>, 3, 8), Bnd(<<2, 1>>, 2, 7)}
Bounds34 == {Bnd(<<3, 4>>, 6, BIG), Bnd(<<3, 4>>, 0, 9), Bnd(<<3, 4>>, 4, 12)}

PairSeq == SetToSortSeq(PairsOf(Pts(N)), LAMBDA e, f : Min(e) < Min(f) \/ (Min(e) = Min(f) /\ Max(e) < Max(f)))
Vec(D, pi) == [i \in DOMAIN PairSeq |-> D[{pi[Min(PairSeq[i])], pi[Max(PairSeq[i])]}]]
LexLeq(u, v) == \/ u = v
                \/ \E i \in DOMAIN u : u[i] < v[i] /\ \A j \in 1..(i - 1) : u[j] = v[j]
Ident == [v \in Pts(N) |-> v]
IsCanon(D) == LET u == Vec(D, Ident) IN \A pi \in Permutations(Pts(N)) : LexLeq(u, Vec(D, pi))

Metrics == {D \in [PairsOf(Pts(N)) -> {Mult * x : x \in DVals}] : IsMetric(N, D) /\ (Canon => IsCanon(D))}

Init == m \in Metrics /\ phase = 0
Next == phase = 0 /\ phase' = 1 /\ UNCHANGED m
Spec == Init /\ [][Next]_<<m, phase>>

Lams == GreedyLams(N, m)
Params == {Bnd(e, 0, BIG) : e \in EpsG \cup EpsB} \cup Bounds
Guaranteed(pr) == pr.eps[1] < pr.eps[2] /\ pr.mini = 0 /\ pr.maxi = BIG
Outs(pr, dmax) == {SparseK(N, m, lam, pr.eps, dmax, pr.mini, pr.maxi) : lam \in Lams}

-----------------------------------------------------------------------------
(* in-model theorems *)
InvInput == phase = 1 => \A pr \in Params : Exact(m, pr.eps)
(* the documented guarantee, for every greedy ordering; the diagrams in dimension < d of a d-skeleton are those *)
(* of the full complex (InvSkeleton), so the comparison at full dimension covers every dim_max                *)
InvGuarantee ==
  phase = 1 =>
  LET R  == RipsOf(N, m, N - 1)
      dR == Diagram(R)
  IN  \A e \in EpsG : \A S \in Outs(Bnd(e, 0, BIG), N - 1) :
        LET dS == Diagram(S) IN
        /\ KValid(S)
        /\ AllVertices(N, S)
        /\ SubcomplexOK(S, R)
        /\ Interleaved(dS, dR, e, 0..(N - 2))
        /\ BottleneckOK(dS, dR, e, 0..(N - 2))
(* without guarantee (eps >= 1, mini, maxi): still a filtered simplicial complex inside the Rips complex, nothing above maxi *)
InvValidAlways ==
  phase = 1 =>
  LET R == RipsOf(N, m, N - 1) IN
  \A pr \in Params : \A S \in Outs(pr, N - 1) :
    /\ KValid(S)
    /\ DOMAIN S # {}
    /\ \A s \in DOMAIN S : S[s] <= pr.maxi
    /\ SubcomplexOK(S, R)
InvSkeleton ==
  phase = 1 =>
  \A pr \in Params : \A lam \in Lams : \A d \in DimMaxs \ {N - 1} :
    LET full == SparseK(N, m, lam, pr.eps, N - 1, pr.mini, pr.maxi) IN
    SparseK(N, m, lam, pr.eps, d, pr.mini, pr.maxi) = [s \in {t \in DOMAIN full : Dim(t) <= d} |-> full[s]]
(* radius assignments = greedy permutations; radii are non-increasing along a greedy permutation (GUDHI_CHECK :216) *)
InvGreedy ==
  phase = 1 =>
  /\ Lams = {LamOfPerm(N, m, g) : g \in GreedyPerms(N, m)}
  /\ \A g \in GreedyPerms(N, m) : \A k \in 2..(N - 1) : LamOfPerm(N, m, g)[g[k]] >= LamOfPerm(N, m, g)[g[k + 1]]

-----------------------------------------------------------------------------
Expect ==
  {[p |-> pr.eps[1], q |-> pr.eps[2], mini |-> pr.mini, maxi |-> pr.maxi, dmax |-> d, guaranteed |-> Guaranteed(pr),
    cx_set |-> {KJ(S) : S \in Outs(pr, d)}] : pr \in Params, d \in DimMaxs}
EmitCase ==
  phase = 1 =>
  PrintT(<<"CASE", ToJson([n |-> N, d_set |-> DJ(m), nlams |-> Cardinality(Lams),
                            rips_set |-> {[dmax |-> d, k_set |-> KJ(RipsOf(N, m, d))] : d \in DimMaxs},
                            expect_set |-> Expect])>>)
=============================================================================
