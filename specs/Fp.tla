--------------------------------- MODULE Fp ---------------------------------
(* Exact modular arithmetic with TLC's 32-bit integers.                       *)
(*  - Z_p for every modulus p < 2^16 (operands reduced): no intermediate      *)
(*    value reaches 2^31 (MulP splits one operand in two 8-bit limbs).         *)
(*  - integers of arbitrary size are little-endian sequences of base-10^4      *)
(*    limbs ("Big"): reduction mod p, comparison, product by a small number.   *)
(*  - CRT: residue tuples over a sequence of distinct primes, idempotents.     *)
EXTENDS Integers, Sequences, FiniteSets

Base == 10000

(* ------------------------------------------------------------------ primes *)
(* trial division; explicit square root bounds avoid d*d (overflow).  SmallPrimes is a   *)
(* constant (TLC evaluates it once): a composite n <= 256 has a factor <= 16, a composite *)
(* n < 2^16 has a prime factor <= 251.                                                    *)
SmallPrimes == {n \in 2..256 : \A d \in 2..16 : d >= n \/ n % d # 0}
SqrtBound(n) == IF n < 262144 THEN 511 ELSE IF n < 1048576 THEN 1023 ELSE IF n < 4194304 THEN 2047
                ELSE IF n < 16777216 THEN 4095 ELSE IF n < 67108864 THEN 8191 ELSE IF n < 268435456 THEN 16383
                ELSE IF n < 1073741824 THEN 32767 ELSE 46340          \* >= sqrt(n), < n for n >= 2^16
IsPrime(n) ==
  /\ n > 1
  /\ IF n <= 256 THEN n \in SmallPrimes
     ELSE IF n < 65536 THEN \A d \in SmallPrimes : n % d # 0
     ELSE \A d \in 2..SqrtBound(n) : n % d # 0

(* the primes of the closed interval [lo, hi], increasing (no recursion over the interval: it may be wide) *)
PrimesIn(lo, hi) == LET S == {n \in lo..hi : IsPrime(n)}
                    IN [i \in 1..Cardinality(S) |-> CHOOSE p \in S : Cardinality({q \in S : q < p}) = i - 1]

(* ------------------------------------------------------- Z_p, p < 2^16 *)
Red(n, p)     == n % p                      \* residue of any TLC integer (TLA+ % is the mathematical one)
AddP(a, b, p) == (a + b) % p
SubP(a, b, p) == (a - b + p) % p
NegP(a, p)    == (p - a) % p
(* a, b in 0..p-1.  Direct when (p-1)^2 < 2^31, i.e. p <= 46341; otherwise b = 256*b1 + b0 *)
MulDirect(a, b, p) == (a * b) % p
MulSplit(a, b, p)  == LET b1 == b \div 256  b0 == b % 256
                      IN ((((a * b1) % p) * 256) + a * b0) % p
MulP(a, b, p) == IF p <= 46341 THEN MulDirect(a, b, p) ELSE MulSplit(a, b, p)

RECURSIVE PowP(_, _, _)
PowP(a, e, p) == IF e = 0 THEN 1 % p
                 ELSE LET h == PowP(a, e \div 2, p)  s == MulP(h, h, p)
                      IN IF e % 2 = 1 THEN MulP(s, a, p) ELSE s
(* inverse of a # 0 modulo a prime p (Fermat); InvDef is the definition *)
InvP(a, p)   == PowP(a, p - 2, p)
InvDef(a, p) == CHOOSE b \in 0..(p - 1) : MulP(a, b, p) = 1
IsInvOf(b, a, p) == b \in 0..(p - 1) /\ MulP(a, b, p) = 1

(* --------------------------------------------------------------- Big numbers *)
(* little-endian base-10^4 limbs without leading (= trailing in the sequence) zeros; 0 is <<>> *)
RECURSIVE StripZ(_)
StripZ(d) == IF d # <<>> /\ d[Len(d)] = 0 THEN StripZ(SubSeq(d, 1, Len(d) - 1)) ELSE d
IsBig(d) == /\ \A i \in DOMAIN d : d[i] \in 0..(Base - 1)
            /\ (d = <<>> \/ d[Len(d)] # 0)
BigOf(n) == IF n = 0 THEN <<>>                                      \* 0 <= n < 2^31
            ELSE IF n < Base THEN <<n>>
            ELSE IF n < Base * Base THEN <<n % Base, n \div Base>>
            ELSE <<n % Base, (n \div Base) % Base, n \div (Base * Base)>>
RECURSIVE BigModFrom(_, _, _, _, _)
BigModFrom(d, i, acc, p, b2) ==                                     \* Horner from the most significant limb, two limbs
  IF i = 0 THEN acc                                                 \* (< 10^8) per step; b2 = 10^8 mod p
  ELSE BigModFrom(d, i - 2, AddP(MulP(acc, b2, p), (d[i] * Base + d[i - 1]) % p, p), p, b2)
BigMod(d, p) == LET n == Len(d)
                IN IF n % 2 = 1 THEN BigModFrom(d, n - 1, d[n] % p, p, (Base * Base) % p)
                   ELSE BigModFrom(d, n, 0, p, (Base * Base) % p)
RECURSIVE BigLessFrom(_, _, _)
BigLessFrom(a, b, i) == IF i = 0 THEN FALSE
                        ELSE IF a[i] # b[i] THEN a[i] < b[i] ELSE BigLessFrom(a, b, i - 1)
BigLess(a, b) == IF Len(a) # Len(b) THEN Len(a) < Len(b) ELSE BigLessFrom(a, b, Len(a))
RECURSIVE BigMulSmallFrom(_, _, _, _)
BigMulSmallFrom(d, i, carry, m) ==                                  \* m < 2^16: limb*m + carry < 10^4*2^16 + 2^16
  IF i > Len(d) THEN BigOf(carry)
  ELSE LET t == d[i] * m + carry IN <<t % Base>> \o BigMulSmallFrom(d, i + 1, t \div Base, m)
BigMulSmall(d, m) == StripZ(BigMulSmallFrom(d, 1, 0, m))
RECURSIVE BigProdFrom(_, _)
BigProdFrom(ps, i) == IF i = 0 THEN <<1>> ELSE BigMulSmall(BigProdFrom(ps, i - 1), ps[i])
BigProd(ps) == BigProdFrom(ps, Len(ps))                             \* product of a sequence of numbers < 2^16
(* signed big integer [neg, d] -> residue *)
SBigMod(s, p) == IF s.neg THEN NegP(BigMod(s.d, p), p) ELSE BigMod(s.d, p)

(* ------------------------------------------------------------------- CRT *)
(* ps: sequence of distinct primes; an element of Z_P, P = product, is the tuple of its residues *)
RECURSIVE ProdFrom(_, _)
ProdFrom(ps, i) == IF i = 0 THEN 1 ELSE ProdFrom(ps, i - 1) * ps[i]
Prod(ps) == ProdFrom(ps, Len(ps))                                   \* only when it fits 31 bits
Residues(n, ps) == [i \in DOMAIN ps |-> Red(n, ps[i])]
BigResidues(d, ps) == [i \in DOMAIN ps |-> BigMod(d, ps[i])]
SBigResidues(s, ps) == [i \in DOMAIN ps |-> SBigMod(s, ps[i])]
AddT(x, y, ps) == [i \in DOMAIN ps |-> AddP(x[i], y[i], ps[i])]
SubT(x, y, ps) == [i \in DOMAIN ps |-> SubP(x[i], y[i], ps[i])]
MulT(x, y, ps) == [i \in DOMAIN ps |-> MulP(x[i], y[i], ps[i])]
NegT(x, ps)    == [i \in DOMAIN ps |-> NegP(x[i], ps[i])]
ZeroT(ps)      == [i \in DOMAIN ps |-> 0]
OneT(ps)       == [i \in DOMAIN ps |-> 1 % ps[i]]
(* partial inverse w.r.t. the primes selected by `sel` (a subset of DOMAIN ps):                *)
(* t = the selected indices where x is invertible, v = inverse there and 0 at every other prime *)
PInvSel(x, sel, ps) == {i \in sel : x[i] # 0}
PInvT(x, sel, ps)   == [i \in DOMAIN ps |-> IF i \in sel /\ x[i] # 0 THEN InvP(x[i], ps[i]) ELSE 0]
PIdT(sel, ps)       == [i \in DOMAIN ps |-> IF i \in sel THEN 1 ELSE 0]
(* the indices of ps whose prime divides the number with residues q *)
SelOf(q) == {i \in DOMAIN q : q[i] = 0}
SubProdBig(sel, ps) == LET RECURSIVE F(_)
                           F(i) == IF i = 0 THEN <<1>>
                                   ELSE IF i \in sel THEN BigMulSmall(F(i - 1), ps[i]) ELSE F(i - 1)
                       IN F(Len(ps))
=============================================================================
