SPECIFICATION TraceSpec
VIEW TraceView
POSTCONDITION Verdict
CHECK_DEADLOCK FALSE
