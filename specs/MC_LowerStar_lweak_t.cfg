SPECIFICATION Spec
CONSTANTS
  Mode = "lweak"
  R = 1
  C = 1
  NVals = 0
  MaxLen = 7
  ThEvery = 4
  ThMaxLen = 7
INVARIANT ThDual
INVARIANT ThShape
INVARIANT EmitCase
CHECK_DEADLOCK FALSE
