---------------------------- MODULE Trace_LowerStar ----------------------------
(* Validates calls recorded from the real compute_persistence_of_function_on_line *)
(* and persistence_on_rectangle_from_top_cells (harness/lstar_record) against the   *)
(* operators of LowerStar.tla.  Every event carries its input and everything the    *)
(* callbacks received, integers only (+infinity = 1000000); the routines are        *)
(* functions, so every line is judged on its own: a line that fails is printed as   *)
(* <<"REJECT", {line, fails}>> (fails = names of the clauses that do not hold) and   *)
(* the validation goes on.  TRACE=<file.ndjson> in the environment.                  *)
(*   {op:"line", cmp:"less"|"greater", vals, out:[[b,d],..]}   calls in order         *)
(*   {op:"line_tagged", vals, out:[[b,d],..], idx:[[i,j],..]}  values + their indices *)
(*   {op:"rect", rows, cols, vals, out0, out1, ret}            value mode            *)
(*   {op:"rect_idx", rows, cols, vals, out0, out1, ret}        index mode (0-based)  *)
EXTENDS LowerStar, Json, IOUtils

VARIABLE l
Tr == ndJsonDeserialize(IOEnv.TRACE)

Unless(ok, name) == IF ok THEN {} ELSE {name}
Neg(s) == [i \in DOMAIN s |-> -s[i]]
GenericMaxSamples == 9      \* the explicit complex is also evaluated up to this many input samples

(* line: under "greater" the order of the values is the order of their opposites under "less"; the  *)
(* infinity passed to the last call is +infinity in both cases (documented)                          *)
LineFails(vals, cmp, out) ==
  LET v    == IF cmp = "greater" THEN Neg(vals) ELSE vals
      exp  == FastLine(v)
      fin  == [i \in 1..(Len(out) - 1) |-> IF cmp = "greater" THEN <<-out[i][1], -out[i][2]>> ELSE out[i]]
      last == out[Len(out)]
  IN
  IF Len(vals) = 0 THEN Unless(Len(out) = 0, "calls_on_empty_input")
  ELSE IF Len(out) = 0 THEN {"no_last_call"}
  ELSE Unless(last[2] = INF /\ (IF cmp = "greater" THEN -last[1] ELSE last[1]) = MinOfSeq(v), "last_call")
       \cup Unless(\A i \in DOMAIN fin : fin[i][1] < fin[i][2] /\ out[i][2] # INF, "pair_not_positive")
       \cup Unless(SeqBag(0, fin) = DimPart(exp, 0), "pairs")
       \cup Unless(Len(vals) > GenericMaxSamples \/ GenericLine(v) = exp, "spec_generic_vs_dual")

TaggedFails(vals, out, idx) ==
  LET n == Len(vals) IN
  Unless(Len(idx) = Len(out), "idx_len")
  \cup Unless(\A k \in DOMAIN idx :
                 /\ idx[k][1] \in 0..(n - 1) /\ vals[idx[k][1] + 1] = out[k][1]
                 /\ IF k = Len(idx) THEN idx[k][2] = -1 /\ out[k][2] = INF
                    ELSE idx[k][2] \in 0..(n - 1) /\ vals[idx[k][2] + 1] = out[k][2], "tagged_indices")

RectValueFails(R, C, vals, out0, out1, minv) ==
  LET exp == FastGrid(R, C, vals) IN
  Unless(NoNegative(out0), "out0.negative") \cup Unless(NoNegative(out1), "out1.negative")
  \cup Unless(SeqBag(0, out0) = DimPart(exp, 0), "out0")
  \cup Unless(SeqBag(1, out1) = DimPart(exp, 1), "out1")
  \cup Unless(minv = MinOfSeq(vals), "returned_minimum")
  \cup Unless(R * C > GenericMaxSamples \/ GenericGrid(R, C, vals) = exp, "spec_generic_vs_dual")

InRange(s, n) == \A i \in DOMAIN s : s[i][1] \in 0..(n - 1) /\ s[i][2] \in 0..(n - 1)
ToValues(s, vals) == [i \in DOMAIN s |-> <<vals[s[i][1] + 1], vals[s[i][2] + 1]>>]
RectIndexFails(R, C, vals, out0, out1, ret) ==
  IF ~(InRange(out0, R * C) /\ InRange(out1, R * C) /\ ret \in 0..(R * C - 1)) THEN {"index_range"}
  ELSE RectValueFails(R, C, vals, ToValues(out0, vals), ToValues(out1, vals), vals[ret + 1])
       \* a square fills at most one hole; a square starts at most one component
       \cup Unless(Cardinality({out1[i][2] : i \in DOMAIN out1}) = Len(out1), "index_distinct.deaths1")
       \cup Unless(Cardinality({out0[i][1] : i \in DOMAIN out0} \cup {ret}) = Len(out0) + 1, "index_distinct.births0")

WellTyped(e) == /\ e.rows >= 2 /\ e.cols >= 2 /\ Len(e.vals) = e.rows * e.cols
Fails(e) ==
  IF "exception" \in DOMAIN e THEN {"exception"}
  ELSE IF "problems" \in DOMAIN e THEN {"output_not_from_input"}
  ELSE
  CASE e.op = "line"        -> LineFails(e.vals, e.cmp, e.out)
    [] e.op = "line_tagged" -> LineFails(e.vals, "less", e.out) \cup TaggedFails(e.vals, e.out, e.idx)
    [] e.op = "rect"        -> IF WellTyped(e) THEN RectValueFails(e.rows, e.cols, e.vals, e.out0, e.out1, e.ret) ELSE {"input"}
    [] e.op = "rect_idx"    -> IF WellTyped(e) THEN RectIndexFails(e.rows, e.cols, e.vals, e.out0, e.out1, e.ret) ELSE {"input"}
    [] OTHER                -> {"unknown_op"}

Judge(k) == LET f == Fails(Tr[k]) IN
  f = {} \/ PrintT(<<"REJECT", ToJson([line |-> k, fails |-> f])>>)

TraceInit == l = 1
TraceNext == l <= Len(Tr) /\ (Judge(l) = TRUE) /\ l' = l + 1
TraceSpec == TraceInit /\ [][TraceNext]_l

Verdict ==
  LET m == TLCGet("stats").diameter - 1 IN
  PrintT(<<"TRACE", ToJson([accepted |-> (m = Len(Tr)), matched |-> m, len |-> Len(Tr)])>>)
=============================================================================
