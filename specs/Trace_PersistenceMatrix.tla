------------------------ MODULE Trace_PersistenceMatrix ------------------------
(* C05 / C06, code -> spec: free-running random histories (insert_boundary,     *)
(* remove_last, vine_swap, remove_maximal_cell) executed on real matrices; after *)
(* every step the driver logs the barcode and the exposed matrices (columns as   *)
(* sparse chains in positions) together with its record B of the boundaries.     *)
(* Every event must be an enabled action of PersistenceMatrix.tla, the barcode   *)
(* must be Bars(F'), B must be the boundaries of F', and the matrices must       *)
(* satisfy their defining identities - all evaluated here, by TLC.               *)
EXTENDS PersistenceMatrix, Json, IOUtils

VARIABLE l
Tr == ndJsonDeserialize(IOEnv.TRACE)

ChainOf(js) == [x \in {js[i].x + 1 : i \in DOMAIN js} |-> js[CHOOSE i \in DOMAIN js : js[i].x + 1 = x].c]
ColsOf(q) == [i \in DOMAIN q |-> ChainOf(q[i])]
SumCols(S, col(_), coef(_)) == FoldSet(LAMBDA i, acc : AddScaled(acc, coef(i), col(i), P), <<>>, S)

Reduced(R) == \A i, j \in DOMAIN R : (i # j /\ ~IsZero(R[i]) /\ ~IsZero(R[j])) => MaxSupp(R[i]) # MaxSupp(R[j])
BarsMatchR(R, bars) ==
  /\ \A j \in DOMAIN R : ~IsZero(R[j]) => \E b \in bars : b.death = j /\ b.birth = MaxSupp(R[j])
  /\ \A b \in bars : b.death # 0 => ~IsZero(R[b.death])
RUOK(G, R, U, z2) ==
  LET n == Len(G) IN
  /\ \A i \in 1..n : i \in DOMAIN U[i]
  /\ IF z2 THEN /\ \A i \in 1..n : \A x \in DOMAIN U[i] : x >= i
                /\ \A j \in 1..n : G[j].bd = SumCols({i \in 1..n : j \in DOMAIN U[i]}, LAMBDA i : R[i], LAMBDA i : 1)
          ELSE /\ \A j \in 1..n : \A x \in DOMAIN U[j] : x <= j
               /\ \A j \in 1..n : R[j] = SumCols(DOMAIN U[j], LAMBDA i : G[i].bd, LAMBDA i : U[j][i])
ChainOK(G, C, bars) ==
  LET n == Len(G) IN
  /\ \A i \in 1..n : i \in DOMAIN C[i] /\ \A x \in DOMAIN C[i] : G[x].dim = G[i].dim
  /\ \A i \in 1..n :
       LET bd == BdChain(G, C[i], P) IN
       IF \E b \in bars : b.death = i
         THEN LET g == C[(CHOOSE b \in bars : b.death = i).birth] IN \E k \in 1..(P - 1) : bd = ScaleChain(g, k, P)
         ELSE IsZero(bd)

(* Representative cycles logged on histories beyond the bounded model (C08): one support per bar (positions); each  *)
(* support has no repetition, lies in the dimension of its bar, has the birth cell as its youngest cell and carries *)
(* a cycle: some assignment of non-zero coefficients to exactly these cells has zero boundary (supports of at most *)
(* 7 cells over Z_p; over Z_2 the assignment is unique).  The definitional clauses (non-trivial until the death,   *)
(* boundary at the death) stay with the bounded model MC_Reps.                                                      *)
RepsOK(G, reps, bars) ==
  /\ Len(reps) = Cardinality(bars)
  /\ \A i \in DOMAIN reps :
       LET r == reps[i]
           S == {r.cyc[k] + 1 : k \in DOMAIN r.cyc}
       IN /\ Len(r.cyc) = Cardinality(S)
          /\ S # {} /\ S \subseteq DOMAIN G
          /\ \A x \in S : G[x].dim = r.dim
          /\ Max(S) = r.birth + 1
          /\ \E b \in bars : b.birth = r.birth + 1 /\ b.dim = r.dim
          /\ (P = 2 \/ Cardinality(S) <= 7) => \E c \in [S -> 1..(P - 1)] : IsZero(BdChain(G, c, P))

ObsOK(e, G) ==
  LET o == e.obs  bars == Bars(G, P) IN
  /\ o.n = Len(G)
  /\ ("bars_set" \in DOMAIN o) => {[dim |-> o.bars_set[i].dim, birth |-> o.bars_set[i].birth + 1, death |-> o.bars_set[i].death + 1] : i \in DOMAIN o.bars_set} = bars
  /\ ("bars_set" \in DOMAIN o) => Len(o.bars_set) = Cardinality(bars)
  /\ ("dims" \in DOMAIN o) => o.dims = [i \in DOMAIN G |-> G[i].dim]
  /\ o.checks_failed = <<>>
  /\ ("B" \in DOMAIN o) => ColsOf(o.B) = [i \in DOMAIN G |-> G[i].bd]
  /\ ("R" \in DOMAIN o /\ o.fl # "chain" /\ Len(o.R) = Len(G)) => (Reduced(ColsOf(o.R)) /\ BarsMatchR(ColsOf(o.R), bars))
  /\ ("U" \in DOMAIN o /\ o.fl = "ru") => RUOK(G, ColsOf(o.R), ColsOf(o.U), o.z2)
  /\ ("R" \in DOMAIN o /\ o.fl = "chain" /\ "bars_set" \in DOMAIN o) => ChainOK(G, ColsOf(o.R), bars)
  /\ ("reps" \in DOMAIN o) => RepsOK(G, o.reps, bars)

Step(e) ==
  \/ /\ e.op = "reset" /\ F' = <<>> /\ act' = [op |-> "reset"]
  \/ /\ e.op = "insert" /\ InsertBoundary(e.d, ChainOf(e.bd_set)) /\ ObsOK(e, F')
  \/ /\ e.op = "remove_last" /\ RemoveLast /\ ObsOK(e, F')
  \/ /\ e.op = "vine_swap" /\ VineSwap(e.i + 1) /\ ObsOK(e, F')
     /\ ("got_ret" \in DOMAIN e) => e.got_ret \in act'.ret_set
     /\ ("got_ret_ok" \in DOMAIN e) => e.got_ret_ok
  \/ /\ e.op = "remove_maximal" /\ RemoveMaximalCell(e.i + 1) /\ ObsOK(e, F')

TraceInit == F = <<>> /\ act = [op |-> "init"] /\ l = 1
TraceNext == l <= Len(Tr) /\ l' = l + 1 /\ ~("got_exception" \in DOMAIN Tr[l]) /\ ~("sanitizer" \in DOMAIN Tr[l]) /\ Step(Tr[l])
TraceSpec == TraceInit /\ [][TraceNext]_<<F, act, l>>
TraceView == <<F, l>>
Verdict ==
  LET m == TLCGet("stats").diameter - 1 IN
  PrintT(<<"TRACE", ToJson([accepted |-> (m = Len(Tr)), matched |-> m, len |-> Len(Tr)])>>)
=============================================================================
