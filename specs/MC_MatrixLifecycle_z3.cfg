SPECIFICATION Spec
CONSTANTS
  Slots = {1, 2}
  P = 3
  MaxCells = 4
  MaxVerts = 2
  WithSwap = FALSE
VIEW View
INVARIANT InvWellFormed
INVARIANT InvProv
INVARIANT EmitState
ACTION_CONSTRAINT EmitEdge
CHECK_DEADLOCK FALSE
