SPECIFICATION Spec
CONSTANTS
  Mode = "vals"
  R = 5
  C = 3
  NVals = 2
  MaxLen = 0
  ThEvery = 256
  ThMaxLen = 0
INVARIANT ThDual
INVARIANT ThShape
INVARIANT EmitCase
CHECK_DEADLOCK FALSE
