SPECIFICATION Spec
CONSTANTS
  Mode = "pair"
  NMax = 3
  Hi = 4
  NSmall = 1
  Stride = 1
  CheckDef = FALSE
INVARIANT ThMetric2
INVARIANT ThQuarter
INVARIANT EmitCase
CHECK_DEADLOCK FALSE
