SPECIFICATION TraceSpec
POSTCONDITION Verdict
CHECK_DEADLOCK FALSE
