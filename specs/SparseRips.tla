------------------------------ MODULE SparseRips ------------------------------
(* C19.  Gudhi::rips_complex::Sparse_rips_complex (Sparse_rips_complex.h) on a  *)
(* finite metric space with INTEGER distances D : {a,b} -> 1.. and a rational   *)
(* approximation parameter eps = p/q given as the pair <<p, q>>.               *)
(*                                                                             *)
(*  - the construction, exactly as the header implements the sparse filtration *)
(*    of Buchet et al. / Cavanna-Jahanseir-Sheehy with all values doubled:     *)
(*    greedy farthest-point ordering with ARBITRARY start and tie-breaks       *)
(*    (choose_n_farthest_points_metric with a std::random_device start),       *)
(*    insertion radii lambda, the three-way edge rule of compute_sparse_graph, *)
(*    the vertex-death blocker of create_complex, mini / maxi;                 *)
(*  - the guarantee of the class documentation: SubcomplexOK, Valid and the    *)
(*    (1, 1/(1-eps))-interleaving read on persistence diagrams (Interleaved,   *)
(*    BottleneckOK) as integer cross-multiplied inequalities.                  *)
(* Every filtration value is an integer provided Exact(D, eps); the harness    *)
(* only feeds such inputs (then every floating point operation of the header   *)
(* is exact, too).                                                             *)
EXTENDS Simplicial, Persistence

BIG == 1073741824   \* 2^30 = +infinity: insertion radius of the first point, "no maxi", essential classes (never used in arithmetic)
ST == INSTANCE SimplexTree WITH V <- {}, Vals <- {}, INF <- BIG, MaxDim <- 0, K <- <<>>, act <- <<>>
PC == INSTANCE MC_PersistentCohomology WITH V <- {}, Vals <- {}, INF <- BIG, MaxDim <- 0, K <- <<>>, act <- <<>>,
                                            Primes <- {2}, MinLensPlus1 <- {1}

Pts(n)     == 0..(n - 1)
PairsOf(S) == {e \in SUBSET S : Cardinality(e) = 2}
Mn(a, b)   == IF a < b THEN a ELSE b
Mx(a, b)   == IF a < b THEN b ELSE a

(* documented input: a metric on distinct points *)
IsMetric(n, D) ==
  /\ DOMAIN D = PairsOf(Pts(n))
  /\ \A e \in DOMAIN D : D[e] \in Nat \ {0}
  /\ \A a, b, c \in Pts(n) : (a < b /\ c # a /\ c # b) => D[{a, b}] <= D[{a, c}] + D[{c, b}]
(* all values of the construction are integers: alpha = 2 (d - lambda q / p)  *)
Exact(D, eps) == \A e \in DOMAIN D : (2 * eps[2] * D[e]) % eps[1] = 0

-----------------------------------------------------------------------------
(* Greedy (farthest point) orderings.  lam : point -> insertion radius, BIG    *)
(* for the starting point.  The complex depends on the ordering only through   *)
(* lam (the edge rule is symmetric in points of equal radius), so the spec     *)
(* enumerates radius assignments; GreedyPerms is the textbook definition and   *)
(* MC_SparseRips checks that both agree.                                       *)
DistTo(D, S, v) == Min({D[{u, v}] : u \in S})
FarDist(n, D, S) == Max({DistTo(D, S, v) : v \in Pts(n) \ S})
GreedyStep(n, D, lam) ==
  LET S == DOMAIN lam
      m == FarDist(n, D, S)
  IN  {(v :> m) @@ lam : v \in {w \in Pts(n) \ S : DistTo(D, S, w) = m}}
RECURSIVE GreedyLevel(_, _, _, _)
GreedyLevel(n, D, L, k) == IF k >= n THEN L ELSE GreedyLevel(n, D, UNION {GreedyStep(n, D, l) : l \in L}, k + 1)
GreedyLams(n, D) == GreedyLevel(n, D, {(v :> BIG) : v \in Pts(n)}, 1)

IsGreedyPerm(n, D, g) ==
  \A k \in 2..n : DistTo(D, {g[i] : i \in 1..(k - 1)}, g[k]) = FarDist(n, D, {g[i] : i \in 1..(k - 1)})
GreedyPerms(n, D) == {g \in [1..n -> Pts(n)] : (\A i, j \in 1..n : i # j => g[i] # g[j]) /\ IsGreedyPerm(n, D, g)}
LamOfPerm(n, D, g) == [v \in Pts(n) |-> LET k == CHOOSE i \in 1..n : g[i] = v IN
                                        IF k = 1 THEN BIG ELSE DistTo(D, {g[i] : i \in 1..(k - 1)}, v)]

-----------------------------------------------------------------------------
(* compute_sparse_graph (:188-235).  For the pair i before j in the ordering   *)
(* (li >= lj):  d eps <= 2 lj -> d ;  d eps > li + lj -> no edge ;  otherwise   *)
(* alpha = 2 (d - lj / eps), dropped when eps < 1 and alpha cst > lj with       *)
(* cst = eps (1 - eps) / 2 ; finally kept only when alpha <= maxi.  0 = no edge. *)
EdgeVal(D, lam, eps, e) ==
  LET p == eps[1]  q == eps[2]
      a == CHOOSE x \in e : TRUE
      b == CHOOSE x \in e : x # a
      d == D[e]
      lo == Mn(lam[a], lam[b])
      hi == Mx(lam[a], lam[b])
  IN  IF d * p <= 2 * lo * q THEN d
      ELSE IF hi # BIG /\ d * p > (hi + lo) * q THEN 0
      ELSE LET al == (2 * (p * d - q * lo)) \div p IN
           IF p < q /\ al * p * (q - p) > 2 * q * q * lo THEN 0 ELSE al
(* the blocker of create_complex (:172-181): some vertex died before the simplex could be born *)
Blocked(lam, eps, s, f) ==
  LET p == eps[1]  q == eps[2] IN
  p < q /\ \E v \in s : lam[v] # BIG /\ 2 * q * q * lam[v] < f * p * (q - p)
(* vertices (:193-200): the prefix of the ordering with radius >= mini (the first point always) *)
KeptPts(n, lam, mini) == {v \in Pts(n) : lam[v] >= mini}

SparseGraph(n, D, lam, eps, mini, maxi) ==
  LET VV == KeptPts(n, lam, mini)
      ev == [e \in PairsOf(VV) |-> EdgeVal(D, lam, eps, e)] @@ <<>>      \* (@@ forces the table)
      EE == {e \in PairsOf(VV) : ev[e] # 0 /\ ev[e] <= maxi}
  IN  [s \in {{v} : v \in VV} \cup EE |-> IF Cardinality(s) = 1 THEN 0 ELSE ev[s]]
(* create_complex (:158-183): insert_graph, then expansion (eps >= 1) or expansion_with_blockers *)
SparseK(n, D, lam, eps, dmax, mini, maxi) ==
  LET G  == SparseGraph(n, D, lam, eps, mini, maxi) @@ <<>>
      VV == {v \in Pts(n) : {v} \in DOMAIN G}
      EE == {e \in DOMAIN G : Cardinality(e) = 2}
      C  == Cliques(VV, EE, Mx(dmax, 1))
      val(s) == IF s \in DOMAIN G THEN G[s] ELSE ST!FlagValue(G, s)
      bad == {s \in C : Dim(s) >= 2 /\ Blocked(lam, eps, s, val(s))}
  IN  [s \in {t \in C : \A u \in bad : ~(u \subseteq t)} |-> val(s)]
(* the exact Rips filtration of the same metric (Rips_complex.h, threshold +infinity) *)
RipsOf(n, D, dmax) == ST!RipsK(n, D, BIG, dmax)

-----------------------------------------------------------------------------
(* The documented guarantee *)
KValid(S) == Closed(DOMAIN S) /\ ST!MonotoneF(S)
SubcomplexOK(S, R) == \A s \in DOMAIN S : s \in DOMAIN R /\ S[s] >= R[s]
AllVertices(n, S) == \A v \in Pts(n) : {v} \in DOMAIN S

(* persistence diagram over Z2 as a set of records (id = position of the creator: multiplicities kept); *)
(* intervals of length 0 are not points of the diagram; d = BIG for essential classes                  *)
Diagram(F) ==
  LET cells == PC!CellsOf(F, 2)
      val   == PC!ValsOf(F)
      bars  == Bars(cells, 2)
      pts   == {[dim |-> b.dim, b |-> val[b.birth], d |-> IF b.death = 0 THEN BIG ELSE val[b.death], id |-> b.birth] : b \in bars}
  IN  {x \in pts : x.d # x.b}
PtsSeq(dg, k) == SetToSeq({x \in dg : x.dim = k})

(* a : point of the sparse diagram, r : point of the Rips diagram, c = 1/(1-eps) = q/(q-p).                  *)
(* one-sided (the (1,c)-interleaving S_t -> R_t -> S_ct): r <= a <= c r coordinatewise, unmatched d <= c b.   *)
(* two-sided (logarithmic bottleneck distance <= log c): a <= c r and r <= c a, unmatched d <= c^2 b.        *)
Near(x, y, eps, onesided) ==     \* y within [x, c x] (one-sided) or within [x / c, c x]
  LET p == eps[1]  q == eps[2] IN
  /\ y * (q - p) <= q * x
  /\ IF onesided THEN x <= y ELSE x * (q - p) <= q * y
Compatible(a, r, eps, onesided) ==
  /\ Near(r.b, a.b, eps, onesided)
  /\ IF a.d = BIG \/ r.d = BIG THEN a.d = r.d ELSE Near(r.d, a.d, eps, onesided)
Small(x, eps, onesided) ==
  LET p == eps[1]  q == eps[2] IN
  /\ x.d # BIG
  /\ IF onesided THEN x.d * (q - p) <= q * x.b ELSE x.d * (q - p) * (q - p) <= q * q * x.b
RECURSIVE MatchFrom(_, _, _, _, _, _)
MatchFrom(A, B, i, used, eps, onesided) ==
  IF i > Len(A) THEN \A j \in DOMAIN B \ used : Small(B[j], eps, onesided)
  ELSE \/ Small(A[i], eps, onesided) /\ MatchFrom(A, B, i + 1, used, eps, onesided)
       \/ \E j \in DOMAIN B \ used :
            /\ Compatible(A[i], B[j], eps, onesided)
            /\ \A j2 \in DOMAIN B \ used : j2 < j => (B[j2].b # B[j].b \/ B[j2].d # B[j].d)   \* equal points: first unused one
            /\ MatchFrom(A, B, i + 1, used \cup {j}, eps, onesided)
DiagramsClose(dS, dR, eps, dims, onesided) ==
  \A k \in dims : MatchFrom(PtsSeq(dS, k), PtsSeq(dR, k), 1, {}, eps, onesided)
Interleaved(dS, dR, eps, dims)  == DiagramsClose(dS, dR, eps, dims, TRUE)
BottleneckOK(dS, dR, eps, dims) == DiagramsClose(dS, dR, eps, dims, FALSE)

(* JSON forms *)
KJ(F) == {[s |-> SortedSeq(s), f |-> F[s]] : s \in DOMAIN F}
DJ(D) == {[a |-> Min(e), b |-> Max(e), w |-> D[e]] : e \in DOMAIN D}
=============================================================================
