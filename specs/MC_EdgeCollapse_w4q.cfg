SPECIFICATION Spec
CONSTANTS
  N = 4
  W = {1, 2, 3}
  Primes = {2, 3}
INVARIANT ThCliques
INVARIANT ThWellFormed
INVARIANT ThStrict
INVARIANT ThDelay
INVARIANT ThNoTorsion
INVARIANT EmitCase
CHECK_DEADLOCK FALSE
