SPECIFICATION Spec
CONSTANTS
  Mode = "triple"
  NMax = 2
  Hi = 3
  NSmall = 2
  Stride = 1
  CheckDef = FALSE
INVARIANT ThTriangle
INVARIANT ThBilinear
INVARIANT EmitCase
CHECK_DEADLOCK FALSE
