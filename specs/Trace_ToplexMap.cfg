SPECIFICATION TraceSpec
CONSTANTS
  V = {0, 1, 2, 3, 4, 5, 6}
VIEW TraceView
POSTCONDITION Verdict
CHECK_DEADLOCK FALSE
