"""C10 - Coefficient fields implement exact modular arithmetic.

spec -> code : TLC explores the register machine of Fields.tla over every prime interval inside [2,13] (all operand
               triples for small moduli, all pairs / all elements for larger ones) and prints for every state the result
               of every operation; harness/fields_cases executes them on every class offering the operation.
code -> spec : harness/fields_record drives the classes on primes up to 65521 and multi-fields of hundreds of bits and
               logs every call; Trace_Fields.tla recomputes every call with Fp.tla.
"""
import glob
import json
import math
import os
import random
import shutil
import vf

PROP = "C10"
LIBS = ["-lgmpxx", "-lgmp"]


# ----------------------------------------------------------------------------- helpers (input selection / matching only)
def sieve(n):
    s = bytearray([1]) * (n + 1)
    s[0:2] = b"\0\0"
    for i in range(2, int(n ** 0.5) + 1):
        if s[i]:
            s[i * i::i] = bytearray(len(s[i * i::i]))
    return [i for i in range(n + 1) if s[i]]


PRIMES = sieve(65535)
PSET = set(PRIMES)


import functools


@functools.lru_cache(maxsize=None)
def modulus(lo, hi):
    p = 1
    for q in PRIMES:
        if lo <= q <= hi:
            p *= q
    return p


def num(v):
    """python int of a logged value: JSON integer or signed Big record {neg, d}"""
    if isinstance(v, dict):
        r = 0
        for limb in reversed(v["d"]):
            r = r * 10000 + limb
        return -r if v["neg"] else r
    return v


# ----------------------------------------------------------------------------- known findings
SMALL = {"Multi_field_element_with_small_characteristics", "Shared_multi_field_element_with_small_characteristics",
         "Multi_field_operators_with_small_characteristics"}
SIGNED32 = {"Zp_field_element", "Shared_Zp_field_element", "Multi_field_element_with_small_characteristics",
            "Shared_multi_field_element_with_small_characteristics"}
GMPELEM = {"Multi_field_element", "Shared_multi_field_element"}
INT_OPS = {"val", "add_int", "sub_int", "rsub_int", "mul_int", "eq_int"}


def _a(d):
    return d["act"]


def m_signed(d):
    a = _a(d)
    if a.get("ty") not in ("int", "short") or "n" not in a or num(a["n"]) >= -modulus(a["lo"], a["hi"]):
        return False
    if d["family"] in SIGNED32:
        return a["op"] in INT_OPS
    return d["family"] == "Zp_field_operators" and a["op"] == "val" and a["via"] == "get_value"


def m_small_pinv(d):
    a = _a(d)
    if d["family"] not in SMALL or a["op"] != "pinv":
        return False
    x, q, P = num(a["x"]), num(a["q"]), modulus(a["lo"], a["hi"])
    return math.gcd(x, P) != math.gcd(x, q)


def m_small_inv_2_31(d):
    a = _a(d)   # _get_inverse works in int: moduli of 2^31 and more
    return d["family"] in SMALL and a["op"] in ("pinv", "inv") and modulus(a["lo"], a["hi"]) >= 2 ** 31


def m_gmp_negative(d):
    a = _a(d)
    return d["family"] in GMPELEM and a["op"] in ("rsub_int", "eq_int") and a.get("ty") == "mpz_class" and num(a["n"]) < 0


def m_z2_amib(d):
    return d["family"].startswith("Z2_field_operators") and _a(d)["via"] == "add_and_multiply_inplace_back"


def m_coh_times_minus(d):
    a = _a(d)
    return (d["family"] == "persistent_cohomology::Multi_field" and a["op"] == "tminus"
            and num(d["diffs"][0]["got"]) == modulus(a["lo"], a["hi"]))


def m_addmul_overflow(d):
    a = _a(d)
    if d["family"] not in ("Zp_field_operators", "Multi_field_operators_with_small_characteristics") or a["op"] != "addmul":
        return False
    return (num(a["x"]) + num(a["y"])) * num(a["z"]) >= 2 ** 32


MATCHERS = {
    "C10-signed-int-conversion-below-minus-p": m_signed,
    "C10-small-multifield-partial-inverse-gcd": m_small_pinv,
    "C10-small-multifield-inverse-int-overflow": m_small_inv_2_31,
    "C10-gmp-multifield-negative-integer-operand": m_gmp_negative,
    "C10-z2-operators-add-and-multiply-inplace-back": m_z2_amib,
    "C10-cohomology-multifield-times-minus-zero": m_coh_times_minus,
    "C10-add-and-multiply-32bit-overflow": m_addmul_overflow,
}


# ----------------------------------------------------------------------------- steps
def build_all():
    jobs = [dict(name="fields_cases_p%d" % p, src="fields_cases.cpp", defines=["VF_PART=%d" % p], libs=LIBS) for p in (0, 1, 2)]
    jobs += [dict(name="fields_record_p%d" % p, src="fields_record.cpp", defines=["VF_PART=%d" % p], libs=LIBS) for p in (0, 1)]
    return vf.build_many(jobs, par=4)


def run_cases(ev, tier, bins, work, classify):
    cfg = "MC_Fields_quick.cfg" if tier == "quick" else "MC_Fields_thorough.cfg"
    r = vf.tlc("MC_Fields", cfg, workers=4, timeout=1000, heap="6g")
    if r.violation:
        return r, [], 0, 0
    cases = [o for _, o in vf.emits(r.outfile, ("CASE",))]
    cases.sort(key=lambda o: (o["b"]["lo"], o["b"]["hi"], o["b"]["x"], o["b"]["y"], o["b"]["z"]))
    cp = os.path.join(work, "cases.ndjson")
    with open(cp, "w") as f:
        for o in cases:
            f.write(json.dumps(o, separators=(",", ":")) + "\n")
    nontrivial = sum(1 for o in cases if (o["b"]["x"], o["b"]["y"], o["b"]["z"]) != (0, 0, 0))
    fields = sorted({(o["b"]["lo"], o["b"]["hi"]) for o in cases})
    ev.add_tlc("register_machine_" + tier, r, {"cfg": cfg, "cases": len(cases), "fields": len(fields),
                                               "theorems": ["TypeOK", "ThCRT", "ThRing", "ThIdem", "ThInverse"]})
    for o in cases:
        if o["b"]["lo"] == 5 and o["b"]["hi"] == 7 and (o["b"]["x"], o["b"]["y"], o["b"]["z"]) == (34, 6, 0):
            ev.sample({"case": o["b"]})
    os.remove(r.outfile)
    cmds, outs = [], []
    for p, b in enumerate(bins[:3]):
        nsh = 2 if p == 0 else 1
        for s in range(nsh):
            o = os.path.join(work, "cases_out_%d_%d.ndjson" % (p, s))
            outs.append(o)
            cmds.append([b, cp, o, str(s), str(nsh)])
    vf.run_parallel(cmds, par=4, timeout=900, ok_codes=(0, 3))
    devs, evals, summ = [], 0, {}
    for o in outs:   # streamed: a known defect can deviate on a large part of the enumerated states
        with open(o) as f:
            for line in f:
                rec = json.loads(line)
                k = rec.get("kind")
                if k == "summary":
                    evals += rec["evaluations"]
                    s = summ.setdefault(rec["family"], {"cases": 0, "evaluations": 0, "deviations": 0})
                    for kk in ("cases", "evaluations", "deviations"):
                        s[kk] += rec[kk]
                elif k == "deviation":
                    if not classify(rec):
                        devs.append(rec)
                else:  # crash / overflow
                    devs.append({"kind": "deviation", "cfg": "?", "family": "?", "act": {"op": k, "via": json.dumps(rec), "lo": 0, "hi": 0}, "diffs": [{"path": k, "exp": None, "got": rec}]})
        os.remove(o)
    ev.parts["register_machine_" + tier]["replay"] = summ
    return r, devs, evals, nontrivial


def choose_primes(tier, rnd):
    small = PRIMES[:50]
    above = [p for p in PRIMES if p > 46337]
    upto = [p for p in PRIMES if p <= 46337]
    if tier == "quick":
        large = [[65521], [65519], [46337, 46349]]
        mid = sorted(rnd.sample([p for p in PRIMES if 229 < p < 12000], 6))
        return [small + mid] + large
    top = PRIMES[-50:]
    border = upto[-12:] + above[:4]
    mid = sorted(rnd.sample([p for p in PRIMES if 229 < p < 40000], 120))
    jobs = [small, mid[0::2], mid[1::2]]
    big = top + border
    rnd.shuffle(big)
    jobs += [big[i::12] for i in range(12)]
    return jobs


def record(ev, tier, bins, work, rnd):
    rec0, rec1 = bins[3], bins[4]
    eff = "light" if tier == "quick" else "normal"
    cmds, files = [], []
    for i, ps in enumerate(choose_primes(tier, rnd)):
        f = os.path.join(work, "rec_zp_%d.ndjson" % i)
        files.append(f)
        cmds.append([rec0, f, str(vf.seed() + i), "zp", "normal"] + [str(p) for p in ps])
    f = os.path.join(work, "rec_multi.ndjson")
    files.append(f)
    cmds.append([rec0, f, str(vf.seed()), "multi", eff])
    f = os.path.join(work, "rec_tmpl.ndjson")
    files.append(f)
    cmds.append([rec1, f, str(vf.seed()), "tmpl", eff])
    # expensive jobs first
    order = sorted(range(len(cmds)), key=lambda i: -sum(int(a) ** 2 for a in cmds[i][5:] if a.isdigit()))
    res = vf.run_parallel([cmds[i] for i in order], par=4, timeout=1100)
    evals = 0
    for p in res:
        evals += json.loads(p.stderr.decode().strip().splitlines()[-1])["evaluations"]
    return files, evals


def shard_events(files, work, nshards):
    """events are independent: balance them over the trace files given to the TLC processes"""
    evs = []
    for f in files:
        with open(f) as fh:
            for line in fh:
                e = json.loads(line)
                w = len(e["c"]) * (max(1, sum(1 for q in PRIMES if e["lo"] <= q <= e["hi"])) * 2 if e["big"] else 1)
                evs.append((w, line))
    evs.sort(key=lambda t: -t[0])
    loads = [0] * nshards
    outs = [[] for _ in range(nshards)]
    for w, line in evs:
        i = loads.index(min(loads))
        loads[i] += w + 20
        outs[i].append(line)
    paths = []
    for i, lines in enumerate(outs):
        p = os.path.join(work, "trace_%d.ndjson" % i)
        with open(p, "w") as fh:
            fh.writelines(lines)
        paths.append(p)
    return paths


def call_to_dev(e, c):
    sem = e["sem"]
    a = {"op": sem, "via": e["via"], "ty": e["ty"], "lo": e["lo"], "hi": e["hi"]}
    got = None
    if sem in ("add", "sub", "mul", "muladd", "addmul", "pte", "tminus"):
        a["x"], a["y"], a["z"], got = c
    elif sem in INT_OPS:
        a["x"], a["n"], got = c
    elif sem == "eq":
        a["x"], a["y"], got = c
    elif sem == "inv":
        a["x"], got = c
    elif sem == "pinv":
        a["x"], a["q"] = c[0], c[1]
        got = c[2:]
    elif sem == "pmi":
        a["q"], got = c
    elif sem == "setchar":
        a["to_lo"], a["to_hi"], got = c
    else:
        got = c[0]
    return {"kind": "deviation", "src": "trace", "cfg": e["cls"], "family": e["family"], "act": a,
            "diffs": [{"path": "ret", "exp": "Trace_Fields!CallOK", "got": got}]}


def validate(ev, tier, paths):
    from concurrent.futures import ThreadPoolExecutor

    def one(ip):
        i, p = ip
        return vf.tlc("Trace_Fields", "Trace_Fields.cfg", workers=1, env={"TRACE": p}, timeout=1100,
                      tag="Trace_Fields-%d-%d" % (os.getpid(), i), heap="3g", allow_violation=True,
                      extra_java=("-Xss64m",))   # nested lazy evaluation of the Big-number recursions is deep
    with ThreadPoolExecutor(4) as ex:
        rs = list(ex.map(one, enumerate(paths)))
    devs, ncalls, nev, distinct = [], 0, 0, set()
    for p, r in zip(paths, rs):
        if r.violation:
            raise vf.Infra("Trace_Fields reported an error on %s:\n%s" % (p, r.text[-2000:]))
        verdict = None
        bad = []
        for t, o in vf.emits(r.outfile, ("TRACE", "BAD")):
            if t == "TRACE":
                verdict = o
            else:
                bad.append(o)
        lines = open(p).read().splitlines()
        if verdict is None or verdict["matched"] != len(lines):
            raise vf.Infra("Trace_Fields did not consume %s: %s\n%s" % (p, verdict, r.text[-2000:]))
        nev += len(lines)
        for ln in lines:
            e = json.loads(ln)
            ncalls += len(e["c"])
            key = (e["cls"], e["lo"], e["hi"], e["sem"], e["via"], e["ty"])
            for c in e["c"]:
                distinct.add(hash((key, json.dumps(c))))
        for b in bad:
            e = json.loads(lines[b["line"] - 1])
            for i in b["idx"]:
                devs.append(call_to_dev(e, e["c"][i - 1]))
        os.remove(r.outfile)
    ev.cov["traces_validated_against_impl"] += len(paths)
    ev.parts["traces_" + tier] = {"trace_files": len(paths), "events": nev, "calls_validated": ncalls,
                                  "calls_rejected": len(devs), "spec": "Trace_Fields.tla"}
    return devs, ncalls, len(distinct)


def main(tier):
    ev = vf.Evidence(PROP, tier)
    fnd = vf.Findings()
    rnd = random.Random(vf.seed())
    work = os.path.join(vf.BUILD, "work", "%s_%d" % (PROP, os.getpid()))
    shutil.rmtree(work, ignore_errors=True)
    os.makedirs(work)
    import time
    t0 = time.time()

    def lap(what):
        vf.log("[c10] %-28s %6.1fs" % (what, time.time() - t0))
    bins = build_all()
    lap("build")
    # the oracle checks itself beyond the bounded model (primes near 2^16, Big numbers)
    rfp = vf.tlc("MC_FieldsFp", "MC_FieldsFp.cfg", workers=1, timeout=300)
    if rfp.violation or "is false" in rfp.text:
        raise vf.Infra("Fp.tla self-check failed:\n" + rfp.text[-3000:])
    ev.add_tlc("fp_selfcheck", rfp, {"theorems": ["ThPrimes", "ThMulLarge", "ThMulSmall", "ThDistrib", "ThInverse", "ThBig", "ThPow"]})
    os.remove(rfp.outfile)

    lap("Fp self-check")
    def classify(d):
        return fnd.match(PROP, d, MATCHERS) is not None
    r, devs, evals_cases, nontrivial = run_cases(ev, tier, bins, work, classify)
    lap("model + cases")
    if r.violation:
        p = vf.save_replay(PROP, "model", {"tlc": r.violation})
        vf.violation(PROP, p)
        ev.violations = 1
        ev.write()
        return 1
    files, evals_rec = record(ev, tier, bins, work, rnd)
    lap("record")
    paths = shard_events(files, work, 4 if tier == "quick" else 12)
    with open(paths[0]) as fh:
        e0 = json.loads(fh.readline())
        e0["c"] = e0["c"][:3]
        ev.sample({"trace_event": e0})
    tdevs, ncalls, tdistinct = validate(ev, tier, paths)
    devs += [d for d in tdevs if not classify(d)]
    lap("trace validation")

    unknown = devs
    ev.cov["evaluations"] = evals_cases + ncalls
    ev.cov["distinct_nontrivial"] = nontrivial + tdistinct
    ev.cov["exhaustive"] = True
    ev.cov["rule"] = ("spec->code: every state (field, x, y, z) of the bounded register machine (complete BFS: all triples "
                      "for small moduli, all pairs / all elements for larger ones, every prime interval inside [2,13]) with "
                      "the result of every operation, executed on every class offering it; distinct non-trivial = states "
                      "with (x,y,z) # (0,0,0).  code->spec: every recorded call recomputed by Trace_Fields.tla; distinct = "
                      "distinct (class, entry point, operand type, operands).  evaluations = results compared.")
    ev.assumptions = ["TLC bounded model: prime intervals inside [0,14]; operand bounds T3/T2/T1 of the MC_Fields cfg",
                      "documented operand domains: signed Integer_type able to contain the characteristic; fused "
                      "operations on reduced operands; Multi_field_operators_with_small_characteristics for P < 2^16",
                      "trace specification handles primes < 2^16 (MulP operand splitting)",
                      "a refused set_characteristic / initialize / init is only required to be refused (std::invalid_argument): "
                      "the object is not used or judged again before an accepted one (NoField in Fields.tla)",
                      "harness trusted only for decimal printing of values (GMP mpz_get_str / JSON)"]
    fnd.report(PROP)
    if unknown:
        ev.violations = len(unknown)
        p = vf.save_replay(PROP, "deviations", unknown[:60])
        ev.write()
        vf.violation(PROP, p)
        return 1
    ev.write()
    shutil.rmtree(work, ignore_errors=True)
    return 0
